(* Proofs/C11Spellings.v — every spelling of an R1C1 reference (each row / column
   component bare, absolute or relative; cells, R..C..:R..C.. ranges, row-only
   R..:R.. and column-only C..:C.. ranges), read from any anchor cell, denotes the
   address computed by offset arithmetic with wrap-around — unless the same text
   is also an A1 reference (RC5, R1:R3, C:C, ...), which range_boundaries tries
   first. *)
From Coq Require Import ZArith List Bool Lia.
From PV Require Import Lib.Py Model.Addr Proofs.Radix Proofs.C11 Proofs.C11Parse Proofs.C11Notation.
Import ListNotations.
Open Scope Z_scope.

(* one component: R, R7, R[-2] (or C...) *)
Inductive comp := KBare | KAbs (n : Z) | KRel (k : Z).
Definition comp_ok (k : comp) : Prop := match k with KAbs n => 0 <= n | _ => True end.
Definition comp_text (letter : Z) (k : comp) : str :=
  letter :: match k with KBare => [] | KAbs n => str_of_Z n | KRel d => 91 :: str_of_Z d ++ [93] end.
Definition comp_rc (k : comp) : rc :=
  match k with KBare => RBare | KAbs n => RAbs n | KRel d => RRel d end.
(* its value read from the anchor (row, column): offset arithmetic with wrap *)
Definition comp_val (is_row : bool) (anchor : Z * Z) (k : comp) : Z :=
  match k with
  | KAbs n => n
  | KBare => if is_row then fst anchor else snd anchor
  | KRel d => if is_row then inc_row (fst anchor) d else inc_col (snd anchor) d
  end.

(* one side of a reference: optional row component, optional column component *)
Definition item := (option comp * option comp)%type.
Definition opt_text (letter : Z) (o : option comp) : str :=
  match o with Some k => comp_text letter k | None => [] end.
Definition item_text (x : item) : str := opt_text 82 (fst x) ++ opt_text 67 (snd x).
Definition opt_ok (o : option comp) : Prop := match o with Some k => comp_ok k | None => True end.
Definition item_ok (x : item) : Prop := opt_ok (fst x) /\ opt_ok (snd x).

(* ------------------------------------------------------------- characters *)
Definition rchar2 (c : Z) : Prop := rchar c \/ c = 58.
Lemma rchar2_of t : Forall rchar t -> Forall rchar2 t.
Proof. intros H. eapply Forall_impl; [|exact H]. intros a Ha. left. exact Ha. Qed.
Lemma str_of_Z_rchar k : Forall rchar (str_of_Z k).
Proof. destruct (signed_text k) as (neg & D & -> & HD & _). apply signed_rchar, HD. Qed.
Lemma comp_text_rchar letter k : letter = 82 \/ letter = 67 -> Forall rchar (comp_text letter k).
Proof.
  intros Hl. unfold comp_text. constructor; [unfold rchar; lia|]. destruct k as [|n|d].
  - constructor.
  - apply str_of_Z_rchar.
  - constructor; [unfold rchar; lia|]. apply Forall_app. split; [apply str_of_Z_rchar|].
    constructor; [unfold rchar; lia|constructor].
Qed.
Lemma item_text_rchar x : Forall rchar (item_text x).
Proof.
  unfold item_text. apply Forall_app. split.
  - destruct (fst x); [apply comp_text_rchar; lia|constructor].
  - destruct (snd x); [apply comp_text_rchar; lia|constructor].
Qed.
Lemma rchar2_no_bang t : Forall rchar2 t -> ~ In 33 t.
Proof.
  intros H Hin. rewrite Forall_forall in H. specialize (H 33 Hin). unfold rchar2, rchar in H. lia.
Qed.
Lemma rchar2_not_bad t : Forall rchar2 t -> bad_chars t = false.
Proof.
  intros H. unfold bad_chars. induction H as [|c t Hc Ht IH]; [reflexivity|]. cbn [existsb].
  rewrite IH. unfold rchar2, rchar in Hc.
  replace (c =? 10) with false by (symmetry; apply Z.eqb_neq; lia).
  replace (127 <? c) with false by (symmetry; apply Z.ltb_ge; lia). reflexivity.
Qed.
Lemma rchar2_not_code pre t : Forall rchar2 t -> t <> [] -> is_error_code (pre ++ t) = false.
Proof.
  intros H Hne. destruct t as [|c t]; [congruence|].
  pose proof (last_Forall rchar2 (c :: t) 0 H Hne) as L.
  apply not_error_code_last; rewrite last_app_cons; unfold rchar2, rchar in L; lia.
Qed.

(* --------------------------------------------------- the R1C1 tokenizer *)
(* what may follow a component: the end, the column component, or the colon *)
Definition rc_stop (rest : str) : Prop :=
  match rest with [] => True | c :: _ => c = 67 \/ c = 58 end.

Lemma rc_item_comp letter k rest : comp_ok k -> rc_stop rest ->
  rc_item letter (comp_text letter k ++ rest) = (Some (comp_rc k), rest).
Proof.
  intros Hk Hr. destruct k as [|n|d]; cbn [comp_text comp_rc app].
  - unfold rc_item. rewrite Z.eqb_refl.
    destruct rest as [|c r]; [reflexivity|]. cbn in Hr. cbn [starts_with].
    replace (c =? 91) with false by (symmetry; apply Z.eqb_neq; lia).
    cbn [span]. replace (is_digit c) with false; [reflexivity|].
    symmetry. unfold is_digit. destruct Hr as [-> | ->]; reflexivity.
  - cbn in Hk. destruct (row_text n Hk) as (HD & HN & HV). rewrite <- HV at 2.
    apply rc_item_abs; [exact HD|exact HN|].
    destruct rest as [|c r]; [exact I|]. cbn in Hr |- *. unfold is_digit. destruct Hr as [-> | ->]; reflexivity.
  - destruct (signed_text d) as (neg & D & E & HD & HN & HV). rewrite E, <- HV.
    rewrite <- app_assoc. cbn [app]. apply rc_item_rel; assumption.
Qed.
Lemma rc_item_absent letter rest : match rest with [] => True | c :: _ => c <> letter end ->
  rc_item letter rest = (None, rest).
Proof.
  intros H. destruct rest as [|c r]; [reflexivity|]. unfold rc_item.
  replace (c =? letter) with false by (symmetry; apply Z.eqb_neq; exact H). reflexivity.
Qed.

Definition side_end (rest : str) : Prop := rest = [] \/ exists r, rest = 58 :: r.

Lemma opt_item letter o rest : letter = 82 \/ letter = 67 -> opt_ok o ->
  rc_stop rest -> (o = None -> match rest with [] => True | c :: _ => c <> letter end) ->
  rc_item letter (opt_text letter o ++ rest) = (option_map comp_rc o, rest).
Proof.
  intros Hl Ho Hr Hn. destruct o as [k|]; cbn [opt_text option_map].
  - apply rc_item_comp; assumption.
  - apply rc_item_absent. apply Hn. reflexivity.
Qed.

Lemma opt_text_head letter o rest : side_end rest ->
  match opt_text letter o ++ rest with [] => True | c :: _ => c = letter \/ c = 58 end.
Proof.
  intros Hr. destruct o as [k|]; cbn [opt_text comp_text app]; [left; reflexivity|].
  destruct Hr as [->|(r & ->)]; [exact I|right; reflexivity].
Qed.

(* both components of one side *)
Lemma item_parse x rest : item_ok x -> side_end rest ->
  rc_item 82 (item_text x ++ rest) = (option_map comp_rc (fst x), opt_text 67 (snd x) ++ rest)
  /\ rc_item 67 (opt_text 67 (snd x) ++ rest) = (option_map comp_rc (snd x), rest).
Proof.
  intros [Hr Hc] He. unfold item_text. rewrite <- app_assoc.
  pose proof (opt_text_head 67 (snd x) rest He) as Hh. split.
  - apply opt_item; [lia|exact Hr| |].
    + unfold rc_stop. destruct (opt_text 67 (snd x) ++ rest); [exact I|exact Hh].
    + intros _. destruct (opt_text 67 (snd x) ++ rest); [exact I|lia].
  - apply opt_item; [lia|exact Hc| |].
    + destruct He as [->|(r & ->)]; cbn; [exact I|right; reflexivity].
    + intros _. destruct He as [->|(r & ->)]; [exact I|lia].
Qed.

Lemma r1c1_match_one x : item_ok x ->
  r1c1_match (item_text x) = Some {| m_row1 := option_map comp_rc (fst x); m_col1 := option_map comp_rc (snd x);
                                     m_colon := false; m_row2 := None; m_col2 := None |}.
Proof.
  intros Hx. destruct (item_parse x [] Hx (or_introl eq_refl)) as [A B]. rewrite (app_nil_r (item_text x)) in A.
  unfold r1c1_match. rewrite A. cbn [fst snd]. rewrite B. reflexivity.
Qed.
Lemma r1c1_match_two x y : item_ok x -> item_ok y ->
  r1c1_match (item_text x ++ 58 :: item_text y)
  = Some {| m_row1 := option_map comp_rc (fst x); m_col1 := option_map comp_rc (snd x); m_colon := true;
            m_row2 := option_map comp_rc (fst y); m_col2 := option_map comp_rc (snd y) |}.
Proof.
  intros Hx Hy.
  destruct (item_parse x (58 :: item_text y) Hx (or_intror (ex_intro _ _ eq_refl))) as [A B].
  destruct (item_parse y [] Hy (or_introl eq_refl)) as [A2 B2]. rewrite (app_nil_r (item_text y)) in A2.
  unfold r1c1_match. rewrite A. cbn [fst snd]. rewrite B. cbn [fst snd Z.eqb Pos.eqb].
  rewrite A2. cbn [fst snd]. rewrite B2. reflexivity.
Qed.

Lemma rc_abs_comp is_row anchor o :
  rc_abs is_row (Some anchor) (option_map comp_rc o) = Ok (option_map (comp_val is_row anchor) o).
Proof. destruct anchor as [r c]. destruct o as [[|n|d]|]; reflexivity. Qed.

(* ------------------------------------------- the A1 grammar on these texts *)
Definition brk (rest : str) : Prop := match rest with [] => True | c :: _ => c = 58 \/ c = 91 end.
Lemma half_parts L D rest : uppers L -> L <> [] -> zlen L <= 3 -> digitsP D ->
  (match D with [] => brk rest | _ :: _ => stop is_digit rest end) ->
  half (L ++ D ++ rest) = Some (L, D, rest).
Proof.
  intros HL HN HZ HD HR. destruct L as [|l L]; [congruence|]. inversion HL as [|? ? Hl _]; subst.
  assert (A : Forall (fun c => is_alpha c = true) (l :: L)).
  { eapply Forall_impl; [|exact HL]. apply is_alpha_upper. }
  assert (B : Forall (fun c => is_digit c = true) D).
  { eapply Forall_impl; [|exact HD]. apply is_digit_yes. }
  assert (S1 : opt_char 36 ((l :: L) ++ D ++ rest) = (l :: L) ++ D ++ rest).
  { cbn [app opt_char]. replace (l =? 36) with false by (symmetry; apply Z.eqb_neq; lia). reflexivity. }
  assert (T : stop is_alpha (D ++ rest) /\ opt_char 36 (D ++ rest) = D ++ rest /\ stop is_digit rest).
  { destruct D as [|d D].
    - cbn [app]. destruct rest as [|c r]; [repeat split|]. cbn in HR. cbn [stop opt_char].
      destruct HR as [-> | ->]; repeat split.
    - inversion HD as [|? ? Hd _]; subst. cbn [app stop opt_char].
      replace (d =? 36) with false by (symmetry; apply Z.eqb_neq; lia).
      split; [apply is_alpha_not; lia|]. split; [reflexivity|exact HR]. }
  destruct T as (T1 & T2 & T3).
  unfold half. rewrite S1, (span_app is_alpha (l :: L) (D ++ rest) A T1). cbn [fst snd].
  replace (3 <? zlen (l :: L)) with false by (symmetry; apply Z.ltb_ge; exact HZ).
  rewrite T2, (span_app is_digit D rest B T3). reflexivity.
Qed.

(* the A1 reading of one side, when it has one: its letters and its number *)
Definition a1parts (x : item) : option (str * option Z) :=
  match x with
  | (Some KBare, Some KBare) => Some ([82; 67], None)
  | (Some KBare, Some (KAbs n)) => Some ([82; 67], Some n)
  | (Some KBare, None) => Some ([82], None)
  | (Some (KAbs n), None) => Some ([82], Some n)
  | (None, Some KBare) => Some ([67], None)
  | (None, Some (KAbs n)) => Some ([67], Some n)
  | _ => None
  end.
Definition num_text (o : option Z) : str := match o with Some n => str_of_Z n | None => [] end.

Lemma uppers_R : uppers [82]. Proof. repeat constructor; lia. Qed.
Lemma uppers_C : uppers [67]. Proof. repeat constructor; lia. Qed.
Lemma uppers_RC : uppers [82; 67]. Proof. repeat constructor; lia. Qed.

Lemma side_end_brk rest : side_end rest -> brk rest.
Proof. intros [->|(r & ->)]; cbn; [exact I|left; reflexivity]. Qed.
Lemma side_end_stopd rest : side_end rest -> stop is_digit rest.
Proof. intros [->|(r & ->)]; cbn; [exact I|reflexivity]. Qed.

Lemma half_num L n rest : uppers L -> L <> [] -> zlen L <= 3 -> 0 <= n -> stop is_digit rest ->
  half (L ++ str_of_Z n ++ rest) = Some (L, str_of_Z n, rest).
Proof.
  intros HL HN HZ Hn HR. destruct (row_text n Hn) as (HD & HM & _).
  apply half_parts; try assumption. destruct (str_of_Z n); [congruence|exact HR].
Qed.

Lemma half_item_a1 x L o rest : item_ok x -> a1parts x = Some (L, o) -> side_end rest ->
  half (item_text x ++ rest) = Some (L, num_text o, rest) /\ uppers L /\ L <> [] /\ zlen L <= 3.
Proof.
  intros [Hr Hc] Hp He. pose proof (side_end_brk rest He) as Hb. pose proof (side_end_stopd rest He) as Hs.
  destruct x as [[[|n|d]|] [[|m|e]|]]; cbn [a1parts] in Hp; try discriminate; injection Hp as <- <-;
    cbn [item_text fst snd opt_text comp_text num_text app opt_ok comp_ok] in *.
  - split; [apply (half_parts [82; 67] [] rest uppers_RC); [discriminate|cbn; lia|constructor|exact Hb]|].
    split; [exact uppers_RC|split; [discriminate|cbn; lia]].
  - split; [change (82 :: 67 :: str_of_Z m ++ rest) with ([82; 67] ++ str_of_Z m ++ rest);
            apply half_num; [exact uppers_RC|discriminate|cbn; lia|exact Hc|exact Hs]|].
    split; [exact uppers_RC|split; [discriminate|cbn; lia]].
  - split; [apply (half_parts [82] [] rest uppers_R); [discriminate|cbn; lia|constructor|exact Hb]|].
    split; [exact uppers_R|split; [discriminate|cbn; lia]].
  - rewrite app_nil_r.
    split; [change (82 :: str_of_Z n ++ rest) with ([82] ++ str_of_Z n ++ rest);
            apply half_num; [exact uppers_R|discriminate|cbn; lia|exact Hr|exact Hs]|].
    split; [exact uppers_R|split; [discriminate|cbn; lia]].
  - split; [apply (half_parts [67] [] rest uppers_C); [discriminate|cbn; lia|constructor|exact Hb]|].
    split; [exact uppers_C|split; [discriminate|cbn; lia]].
  - split; [change (67 :: str_of_Z m ++ rest) with ([67] ++ str_of_Z m ++ rest);
            apply half_num; [exact uppers_C|discriminate|cbn; lia|exact Hc|exact Hs]|].
    split; [exact uppers_C|split; [discriminate|cbn; lia]].
Qed.

Lemma half_item_not x rest : item_ok x -> a1parts x = None -> x <> (None, None) ->
  exists L D c r, half (item_text x ++ rest) = Some (L, D, c :: r) /\ c <> 58.
Proof.
  intros [Hr Hc] Hp Hne.
  destruct x as [[[|n|d]|] [[|m|e]|]]; cbn [a1parts] in Hp; try discriminate; try congruence;
    cbn [item_text fst snd opt_text comp_text app opt_ok comp_ok] in *; rewrite <- ?app_assoc; cbn [app comp_text].
  (* R C[e] *)
  - exists [82; 67], [], 91, (str_of_Z e ++ [93] ++ rest). split; [|lia].
    apply (half_parts [82; 67] [] _ uppers_RC); [discriminate|cbn; lia|constructor|right; reflexivity].
  (* R<n> C..., three forms *)
  - eexists [82], (str_of_Z n), 67, _. split; [|lia].
    exact (half_num [82] n (67 :: _) uppers_R ltac:(discriminate) ltac:(cbn; lia) Hr eq_refl).
  - eexists [82], (str_of_Z n), 67, _. split; [|lia].
    exact (half_num [82] n (67 :: _) uppers_R ltac:(discriminate) ltac:(cbn; lia) Hr eq_refl).
  - eexists [82], (str_of_Z n), 67, _. split; [|lia].
    exact (half_num [82] n (67 :: _) uppers_R ltac:(discriminate) ltac:(cbn; lia) Hr eq_refl).
  (* R[d] ... *)
  - eexists [82], [], 91, _. split; [|lia].
    apply (half_parts [82] [] _ uppers_R); [discriminate|cbn; lia|constructor|right; reflexivity].
  - eexists [82], [], 91, _. split; [|lia].
    apply (half_parts [82] [] _ uppers_R); [discriminate|cbn; lia|constructor|right; reflexivity].
  - eexists [82], [], 91, _. split; [|lia].
    apply (half_parts [82] [] _ uppers_R); [discriminate|cbn; lia|constructor|right; reflexivity].
  - eexists [82], [], 91, _. split; [|lia].
    apply (half_parts [82] [] _ uppers_R); [discriminate|cbn; lia|constructor|right; reflexivity].
  (* C[e] *)
  - eexists [67], [], 91, _. split; [|lia].
    apply (half_parts [67] [] _ uppers_C); [discriminate|cbn; lia|constructor|right; reflexivity].
Qed.

(* ---------------------------------------------------------- the spellings *)
Inductive spelling :=
| SpCell (r c : comp)                  (* R..C..          *)
| SpRange (r1 c1 r2 c2 : comp)         (* R..C..:R..C..   *)
| SpRows (r1 r2 : comp)                (* R..:R..         *)
| SpCols (c1 c2 : comp).               (* C..:C..         *)
Definition sp_left (sp : spelling) : item :=
  match sp with
  | SpCell r c => (Some r, Some c) | SpRange r1 c1 _ _ => (Some r1, Some c1)
  | SpRows r1 _ => (Some r1, None) | SpCols c1 _ => (None, Some c1)
  end.
Definition sp_right (sp : spelling) : option item :=
  match sp with
  | SpCell _ _ => None | SpRange _ _ r2 c2 => Some (Some r2, Some c2)
  | SpRows _ r2 => Some (Some r2, None) | SpCols _ c2 => Some (None, Some c2)
  end.
Definition sp_text (sp : spelling) : str :=
  item_text (sp_left sp) ++ match sp_right sp with Some y => 58 :: item_text y | None => [] end.
Definition sp_ok (sp : spelling) : Prop :=
  item_ok (sp_left sp) /\ match sp_right sp with Some y => item_ok y | None => True end.
(* the boundaries by offset arithmetic from the anchor (row, column) *)
Definition sp_bounds (anchor : Z * Z) (sp : spelling) : bounds :=
  let cv := comp_val false anchor in let rv := comp_val true anchor in
  match sp with
  | SpCell r c => (Some (cv c), Some (rv r), Some (cv c), Some (rv r))
  | SpRange r1 c1 r2 c2 => (Some (cv c1), Some (rv r1), Some (cv c2), Some (rv r2))
  | SpRows r1 r2 => (None, Some (rv r1), None, Some (rv r2))
  | SpCols c1 c2 => (Some (cv c1), None, Some (cv c2), None)
  end.
(* the text is not ALSO an A1 reference: a single side is not letters+digits (RC5);
   the two sides of a range are not both A1-like with or both without digits
   (R1:R3, C2:C5, RC1:RC2 / R:R, C:C, R:C, RC:RC) *)
Definition has_digits (p : str * option Z) : bool := match snd p with Some _ => true | None => false end.
Definition sp_unambiguous (sp : spelling) : bool :=
  match sp_right sp with
  | None => match a1parts (sp_left sp) with Some p => negb (has_digits p) | None => true end
  | Some y => match a1parts (sp_left sp), a1parts y with
              | Some p, Some q => negb (Bool.eqb (has_digits p) (has_digits q))
              | _, _ => true
              end
  end.

Lemma sp_left_nonempty sp : sp_left sp <> (None, None).
Proof. destruct sp; discriminate. Qed.
Lemma sp_right_nonempty sp y : sp_right sp = Some y -> y <> (None, None).
Proof. destruct sp; intros H; inversion H; discriminate. Qed.

Lemma sp_text_rchar2 sp : Forall rchar2 (sp_text sp) /\ sp_text sp <> [].
Proof.
  split.
  - unfold sp_text. apply Forall_app. split; [apply rchar2_of, item_text_rchar|].
    destruct (sp_right sp); [|constructor]. constructor; [right; reflexivity|apply rchar2_of, item_text_rchar].
  - unfold sp_text. destruct sp; cbn; discriminate.
Qed.

Lemma mem_rchar_colon t : Forall rchar t -> mem 58 t = false.
Proof.
  intros H. apply mem_false. intros Hin. rewrite Forall_forall in H. specialize (H 58 Hin).
  unfold rchar in H. lia.
Qed.

(* the A1 attempt of range_boundaries either fails or defers to the R1C1 reading *)
Lemma a1_defers sp : sp_ok sp -> sp_unambiguous sp = true ->
  openpyxl_range_boundaries (sp_text sp) = Raise ValueError
  \/ exists b, openpyxl_range_boundaries (sp_text sp) = Ok b /\ all_some b || mem 58 (sp_text sp) = false.
Proof.
  intros [Hl Hr] Hu. unfold sp_text, sp_unambiguous in *.
  destruct (sp_right sp) as [y|] eqn:Ey.
  - (* a range *)
    destruct (a1parts (sp_left sp)) as [[L1 o1]|] eqn:P1.
    + destruct (half_item_a1 _ L1 o1 (58 :: item_text y) Hl P1 (or_intror (ex_intro _ _ eq_refl)))
        as (H1 & U1 & N1 & Z1).
      left. unfold openpyxl_range_boundaries. rewrite H1. cbn [Z.eqb Pos.eqb].
      destruct (a1parts y) as [[L2 o2]|] eqn:P2.
      * destruct (half_item_a1 _ L2 o2 [] Hr P2 (or_introl eq_refl)) as (H2 & U2 & N2 & Z2).
        rewrite app_nil_r in H2. rewrite H2.
        destruct L1 as [|l1 L1]; [congruence|]. destruct L2 as [|l2 L2]; [congruence|].
        cbn [nonempty andb orb negb].
        assert (D1 : nonempty (num_text o1) = has_digits (l1 :: L1, o1)).
        { destruct o1 as [n|]; [|reflexivity]. cbn [num_text has_digits snd].
          destruct (signed_text n) as (neg & D & -> & _ & HN & _). destruct neg, D; cbn; congruence. }
        assert (D2 : nonempty (num_text o2) = has_digits (l2 :: L2, o2)).
        { destruct o2 as [n|]; [|reflexivity]. cbn [num_text has_digits snd].
          destruct (signed_text n) as (neg & D & -> & _ & HN & _). destruct neg, D; cbn; congruence. }
        rewrite D1, D2.
        destruct o1, o2; cbn [has_digits snd eqb negb] in Hu |- *; try discriminate Hu; reflexivity.
      * destruct (half_item_not y [] Hr P2 (sp_right_nonempty sp y Ey)) as (L & D & c & r & H2 & _).
        rewrite app_nil_r in H2. rewrite H2. reflexivity.
    + destruct (half_item_not _ (58 :: item_text y) Hl P1 (sp_left_nonempty sp)) as (L & D & c & r & H1 & Hc).
      left. unfold openpyxl_range_boundaries. rewrite H1.
      replace (c =? 58) with false by (symmetry; apply Z.eqb_neq; exact Hc). reflexivity.
  - (* a single reference *)
    rewrite app_nil_r.
    destruct (a1parts (sp_left sp)) as [[L1 o1]|] eqn:P1.
    + destruct (half_item_a1 _ L1 o1 [] Hl P1 (or_introl eq_refl)) as (H1 & U1 & N1 & Z1).
      rewrite app_nil_r in H1. right. unfold openpyxl_range_boundaries. rewrite H1.
      destruct o1 as [n|]; [cbn in Hu; discriminate|]. cbn [num_text opt_row].
      eexists. split; [reflexivity|].
      rewrite (mem_rchar_colon _ (item_text_rchar _)). destruct L1; reflexivity.
    + destruct (half_item_not _ [] Hl P1 (sp_left_nonempty sp)) as (L & D & c & r & H1 & Hc).
      rewrite app_nil_r in H1. left. unfold openpyxl_range_boundaries. rewrite H1.
      replace (c =? 58) with false by (symmetry; apply Z.eqb_neq; exact Hc). reflexivity.
Qed.

Lemma r1c1_spelled sp anchor : sp_ok sp ->
  r1c1_boundaries (sp_text sp) (Some anchor) = Ok (Some (sp_bounds anchor sp)).
Proof.
  intros [Hl Hr]. unfold r1c1_boundaries, sp_text.
  destruct sp as [r c|r1 c1 r2 c2|r1 r2|c1 c2]; cbn [sp_left sp_right] in *.
  - rewrite app_nil_r, (r1c1_match_one _ Hl). cbn [m_row1 m_col1 m_row2 m_col2 m_colon fst snd].
    rewrite !rc_abs_comp. reflexivity.
  - rewrite (r1c1_match_two _ _ Hl Hr). cbn [m_row1 m_col1 m_row2 m_col2 m_colon fst snd].
    rewrite !rc_abs_comp. reflexivity.
  - rewrite (r1c1_match_two _ _ Hl Hr). cbn [m_row1 m_col1 m_row2 m_col2 m_colon fst snd].
    rewrite !rc_abs_comp. reflexivity.
  - rewrite (r1c1_match_two _ _ Hl Hr). cbn [m_row1 m_col1 m_row2 m_col2 m_colon fst snd].
    rewrite !rc_abs_comp. reflexivity.
Qed.

Lemma boundaries_spelled sp anchor : sp_ok sp -> sp_unambiguous sp = true ->
  range_boundaries (sp_text sp) (Some anchor) = Ok (sp_bounds anchor sp).
Proof.
  intros Hs Hu. unfold range_boundaries.
  rewrite (rchar2_not_bad _ (proj1 (sp_text_rchar2 sp))), (r1c1_spelled sp anchor Hs). cbn [bind].
  destruct (a1_defers sp Hs Hu) as [->|(b & -> & ->)]; reflexivity.
Qed.

(* create on "<prefix><coordinate>" when the coordinate has boundaries b *)
Lemma create_bounds s pre coord cell b :
  prefix_of s pre -> ~ In 33 coord -> is_error_code (pre ++ coord) = false ->
  range_boundaries coord cell = Ok b ->
  create (pre ++ coord) [] cell = bind (from_bounds s b) (fun a => Ok (VA a)).
Proof.
  intros Hp Hc Hl Hb. unfold create. rewrite Hl.
  assert (S : split_sheetname (pre ++ coord) [] = Ok (s, coord)).
  { destruct Hp as [->|p Hp Hu].
    - apply split_sheetname_bare, Hc.
    - rewrite <- app_assoc. cbn [app]. rewrite split_sheetname_text; [rewrite Hu; reflexivity|exact Hp|exact Hc]. }
  rewrite S. cbn [bind fst snd]. rewrite Hb. cbn [bind]. destruct (from_bounds s b); reflexivity.
Qed.

(* the theorem: every unambiguous spelling, from every anchor, on every sheet *)
Lemma r1c1_spellings s sp ar ac : sheet_ok s = true -> sp_ok sp -> sp_unambiguous sp = true ->
  create (form_prefix 0 s ++ sp_text sp) [] (Some (ar, ac))
  = bind (from_bounds s (sp_bounds (ar, ac) sp)) (fun a => Ok (VA a)).
Proof.
  intros Hs Hok Hu. destruct (sp_text_rchar2 sp) as [C N]. apply create_bounds.
  - apply (form_prefix_ok 0 s Hs).
  - apply rchar2_no_bang, C.
  - apply rchar2_not_code; assumption.
  - apply boundaries_spelled; assumption.
Qed.

(* ... and what from_bounds makes of them, in the relative / bare case (always on the sheet) *)
Definition rel_or_bare (k : comp) : Prop := match k with KAbs _ => False | _ => True end.
Lemma comp_val_col anchor k : rel_or_bare k -> 1 <= snd anchor <= MAX_COL -> 1 <= comp_val false anchor k <= MAX_COL.
Proof. destruct k; cbn; intros H Ha; [exact Ha|contradiction|apply inc_col_range]. Qed.
Lemma comp_val_row anchor k : rel_or_bare k -> 1 <= fst anchor <= MAX_ROW -> 1 <= comp_val true anchor k <= MAX_ROW.
Proof. destruct k; cbn; intros H Ha; [exact Ha|contradiction|apply inc_row_range]. Qed.

Lemma r1c1_spelling_cell s r c ar ac : sheet_ok s = true -> rel_or_bare r -> rel_or_bare c ->
  1 <= ac <= MAX_COL -> 1 <= ar <= MAX_ROW ->
  create (form_prefix 0 s ++ sp_text (SpCell r c)) [] (Some (ar, ac))
  = Ok (VA (ACell s (comp_val false (ar, ac) c) (comp_val true (ar, ac) r)))
  /\ 1 <= comp_val false (ar, ac) c <= MAX_COL /\ 1 <= comp_val true (ar, ac) r <= MAX_ROW.
Proof.
  intros Hs Hr Hc Hac Har.
  pose proof (comp_val_col (ar, ac) c Hc Hac) as Vc. pose proof (comp_val_row (ar, ac) r Hr Har) as Vr.
  split; [|split; assumption].
  rewrite r1c1_spellings; [| exact Hs | | ].
  - cbn [sp_bounds from_bounds]. rewrite !Z.eqb_refl. cbn [andb].
    rewrite mk_cell_ok by (unfold MAX_COL in *; lia). reflexivity.
  - split; [|exact I]. split; cbn; [destruct r|destruct c]; cbn; try exact I; contradiction.
  - destruct r, c; cbn in Hr, Hc |- *; try contradiction; reflexivity.
Qed.

(* non-vacuity: RC[1], R[2]C, R5C[1], R:R[3], C:C[2], C2:C[1], R[1]C[1]:R[2]C[2] from the anchor (5, 3) *)
Example ex_spell_1 : sp_text (SpCell KBare (KRel 1)) = [82; 67; 91; 49; 93]
  /\ sp_unambiguous (SpCell KBare (KRel 1)) = true
  /\ create (sp_text (SpCell KBare (KRel 1))) [] (Some (5, 3)) = Ok (VA (ACell [] 4 5)).
Proof. vm_compute. repeat split; reflexivity. Qed.
Example ex_spell_2 : create (sp_text (SpCell (KAbs 5) (KRel 1))) [] (Some (5, 16384)) = Ok (VA (ACell [] 1 5)).
Proof. vm_compute. reflexivity. Qed.
Example ex_spell_3 : sp_text (SpRows KBare (KRel 3)) = [82; 58; 82; 91; 51; 93]
  /\ sp_unambiguous (SpRows KBare (KRel 3)) = true
  /\ create (sp_text (SpRows KBare (KRel 3))) [] (Some (5, 3)) = Ok (VA (ARange [] 0 5 0 8)).
Proof. vm_compute. repeat split; reflexivity. Qed.
Example ex_spell_4 : sp_unambiguous (SpCols (KAbs 2) (KRel 1)) = true
  /\ create (sp_text (SpCols (KAbs 2) (KRel 1))) [] (Some (5, 3)) = Ok (VA (ARange [] 2 0 4 0)).
Proof. vm_compute. repeat split; reflexivity. Qed.
(* ambiguous spellings are read as A1: RC5 is the cell in column RC, R1:R3 is in column R *)
Example ex_spell_ambiguous : sp_unambiguous (SpCell KBare (KAbs 5)) = false
  /\ create (sp_text (SpCell KBare (KAbs 5))) [] (Some (5, 3)) = Ok (VA (ACell [] 471 5))
  /\ sp_unambiguous (SpRows (KAbs 1) (KAbs 3)) = false
  /\ create (sp_text (SpRows (KAbs 1) (KAbs 3))) [] (Some (5, 3)) = Ok (VA (ARange [] 18 1 18 3)).
Proof. vm_compute. repeat split; reflexivity. Qed.
(* the hypotheses of the two theorems are met by these *)
Example ex_sp_ok : sp_ok (SpRows KBare (KRel 3)) /\ sp_ok (SpRange (KAbs 5) (KRel (-1)) KBare (KAbs 16384))
  /\ sp_unambiguous (SpRange (KAbs 5) (KRel (-1)) KBare (KAbs 16384)) = true
  /\ rel_or_bare (KRel (-1)) /\ rel_or_bare KBare /\ sheet_ok [83; 104; 101; 101; 116; 32; 49] = true.
Proof. unfold sp_ok, item_ok. cbn. repeat split; try exact I; try reflexivity; lia. Qed.

(* ------------------------------------------------ without an anchor cell *)
(* an all-absolute spelling needs no anchor; any bare or relative component without one is an
   AssertionError (require_cell) *)
Definition comp_absolute (k : comp) : bool := match k with KAbs _ => true | _ => false end.
Definition opt_absolute (o : option comp) : bool := match o with Some k => comp_absolute k | None => true end.
Definition item_absolute (x : item) : bool := opt_absolute (fst x) && opt_absolute (snd x).
Definition sp_absolute (sp : spelling) : bool :=
  item_absolute (sp_left sp) && match sp_right sp with Some y => item_absolute y | None => true end.

Lemma rc_abs_none is_row o :
  rc_abs is_row None (option_map comp_rc o)
  = if opt_absolute o then Ok (option_map (comp_val is_row (0, 0)) o) else Raise AssertionError.
Proof. destruct o as [[|n|d]|]; reflexivity. Qed.

Lemma r1c1_spelled_none sp : sp_ok sp ->
  r1c1_boundaries (sp_text sp) None
  = if sp_absolute sp then Ok (Some (sp_bounds (0, 0) sp)) else Raise AssertionError.
Proof.
  intros [Hl Hr]. unfold r1c1_boundaries, sp_text, sp_absolute, item_absolute.
  destruct sp as [r c|r1 c1 r2 c2|r1 r2|c1 c2]; cbn [sp_left sp_right] in *.
  - rewrite app_nil_r, (r1c1_match_one _ Hl). cbn [m_row1 m_col1 m_row2 m_col2 m_colon fst snd].
    rewrite !rc_abs_none. cbn [opt_absolute option_map]. destruct r, c; reflexivity.
  - rewrite (r1c1_match_two _ _ Hl Hr). cbn [m_row1 m_col1 m_row2 m_col2 m_colon fst snd].
    rewrite !rc_abs_none. cbn [opt_absolute option_map]. destruct r1, c1, r2, c2; reflexivity.
  - rewrite (r1c1_match_two _ _ Hl Hr). cbn [m_row1 m_col1 m_row2 m_col2 m_colon fst snd].
    rewrite !rc_abs_none. cbn [opt_absolute option_map]. destruct r1, r2; reflexivity.
  - rewrite (r1c1_match_two _ _ Hl Hr). cbn [m_row1 m_col1 m_row2 m_col2 m_colon fst snd].
    rewrite !rc_abs_none. cbn [opt_absolute option_map]. destruct c1, c2; reflexivity.
Qed.

Lemma r1c1_spellings_no_anchor s sp : sheet_ok s = true -> sp_ok sp -> sp_unambiguous sp = true ->
  create (form_prefix 0 s ++ sp_text sp) [] None
  = if sp_absolute sp then bind (from_bounds s (sp_bounds (0, 0) sp)) (fun a => Ok (VA a))
    else Raise AssertionError.
Proof.
  intros Hs Hok Hu. destruct (sp_text_rchar2 sp) as [C N].
  assert (RB : range_boundaries (sp_text sp) None
               = if sp_absolute sp then Ok (sp_bounds (0, 0) sp) else Raise AssertionError).
  { unfold range_boundaries. rewrite (rchar2_not_bad _ C), (r1c1_spelled_none sp Hok).
    destruct (a1_defers sp Hok Hu) as [->|(b & -> & ->)]; destruct (sp_absolute sp); reflexivity. }
  destruct (sp_absolute sp) eqn:A.
  - apply create_bounds; [apply (form_prefix_ok 0 s Hs)|apply rchar2_no_bang, C|apply rchar2_not_code; assumption|exact RB].
  - unfold create. rewrite (rchar2_not_code _ _ C N).
    assert (S : split_sheetname (form_prefix 0 s ++ sp_text sp) [] = Ok (s, sp_text sp)).
    { destruct (form_prefix_ok 0 s Hs) as [->|p Hp Hq].
      - apply split_sheetname_bare, rchar2_no_bang, C.
      - rewrite <- app_assoc. cbn [app].
        rewrite split_sheetname_text; [rewrite Hq; reflexivity|exact Hp|apply rchar2_no_bang, C]. }
    rewrite S. cbn [bind fst snd]. rewrite RB. reflexivity.
Qed.

Example ex_no_anchor :
  create (sp_text (SpRange (KAbs 1) (KAbs 1) (KAbs 2) (KAbs 2))) [] None = Ok (VA (ARange [] 1 1 2 2))
  /\ sp_unambiguous (SpRange (KAbs 1) (KAbs 1) (KAbs 2) (KAbs 2)) = true
  /\ create (sp_text (SpCell (KRel 1) (KAbs 1))) [] None = Raise AssertionError.
Proof. vm_compute. repeat split; reflexivity. Qed.
