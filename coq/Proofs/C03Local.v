(* Proofs/C03Local.v — C03: what the saved cell map holds under an address is a
   function of that cell alone.  No condition on the model (no pm_ok, no
   distinct sort keys, repeated keys in pm_order allowed): the entry of n is
   cell_value M n if n is a non-range key of the cell map, and absent otherwise.
   Corollary: as a MAPPING address -> text the saved cell map does not depend on
   the insertion order of the cells nor on collisions of the sort key (the LIST
   does: Proofs/C03Example.v same_key_order_matters; C03_deterministic needs
   distinct keys for that reason). *)
From Coq Require Import List Arith Bool Lia Permutation ZArith.
From PV Require Import Lib.Py Model.Graph Model.Persist.
From PV Require Import Proofs.C03Sort Proofs.C03 Proofs.C03Example.
Import ListNotations.
Local Open Scope nat_scope.

Section Graph.
  Variable F : nat -> pyval.
  Definition graph_of (l : list (nat * pyval)) : Prop := forall x, In x l -> snd x = F (fst x).

  Lemma lookup_graph_in l n : graph_of l -> In n (map fst l) -> lookup l n = Some (F n).
  Proof.
    induction l as [|[m w] l IH]; intros GR H; [destruct H|]. cbn [lookup].
    destruct (Nat.eqb_spec m n) as [->|NE].
    - f_equal. apply (GR (n, w)). now left.
    - apply IH.
      + intros x Hx. apply GR. now right.
      + destruct H as [H|H]; [cbn in H; congruence|exact H].
  Qed.
End Graph.

Section Local.
  Variable G : geometry.

  Definition is_saved_key (M : pmodel) (n : nat) : Prop :=
    In n (pm_order M) /\ wb_range (pm_wb M) n = false.

  Lemma saved_keys_iff M n : In n (map fst (saved_cells G M)) <-> is_saved_key M n.
  Proof.
    unfold is_saved_key.
    assert (P: Permutation (map fst (entries M)) (map fst (saved_cells G M)))
      by apply Permutation_map, saved_cells_perm.
    rewrite entries_keys in P. split; intros H.
    - eapply Permutation_in in H; [|apply Permutation_sym, P].
      apply filter_In in H. destruct H as [H1 H2]. split; auto. now apply negb_true_iff.
    - eapply Permutation_in; [exact P|]. apply filter_In. destruct H as [H1 H2]. split; auto.
      now apply negb_true_iff.
  Qed.

  Lemma saved_graph M : graph_of (cell_value M) (saved_cells G M).
  Proof. intros [n v] H. cbn [fst snd]. now apply (in_saved_value G M n v). Qed.

  Lemma cell_local M n :
    (is_saved_key M n -> lookup (saved_cells G M) n = Some (cell_value M n)) /\
    (~ is_saved_key M n -> lookup (saved_cells G M) n = None).
  Proof.
    split; intros H.
    - apply lookup_graph_in; [apply saved_graph|]. now apply saved_keys_iff.
    - apply lookup_notin. now rewrite saved_keys_iff.
  Qed.

  (* the saved mapping of two models with the same key SET and the same cells *)
  Lemma cell_map_order_free M1 M2 :
    (forall n, In n (pm_order M1) <-> In n (pm_order M2)) ->
    (forall n, In n (pm_order M1) ->
       wb_range (pm_wb M1) n = wb_range (pm_wb M2) n /\ cell_value M1 n = cell_value M2 n) ->
    forall n, lookup (saved_cells G M1) n = lookup (saved_cells G M2) n.
  Proof.
    intros S E n.
    destruct (in_dec Nat.eq_dec n (pm_order M1)) as [I|NI].
    - destruct (E n I) as [ER EV]. destruct (wb_range (pm_wb M1) n) eqn:R.
      + rewrite (proj2 (cell_local M1 n)), (proj2 (cell_local M2 n)); auto;
          unfold is_saved_key; intros [_ H]; congruence.
      + rewrite (proj1 (cell_local M1 n)), (proj1 (cell_local M2 n)); [congruence| |];
          split; auto; try congruence. now apply S.
    - rewrite (proj2 (cell_local M1 n)), (proj2 (cell_local M2 n)); auto;
        unfold is_saved_key; intros [H _]; apply NI; auto. now apply S.
  Qed.
End Local.

(* a concrete instance with COLLIDING sort keys: the two models of
   same_key_order_matters' kind — same cells, other insertion order, every key 0 —
   give different lists but the same mapping *)
Definition Gflat : geometry :=
  {| g_n := 4; g_range := fun n => n =? 2;
     g_members := fun n => if n =? 2 then [0; 1] else []; g_key := fun _ => 0 |}.
Definition M_a : pmodel := mk (VInt 3%Z) None.
Definition M_b : pmodel :=
  {| pm_wb := pm_wb M_a; pm_code := pm_code M_a; pm_state := pm_state M_a;
     pm_order := [1; 0; 2; 3; 1];
     pm_cycles := pm_cycles M_a; pm_filename := pm_filename M_a; pm_hash := pm_hash M_a;
     pm_extra := None |}.

Example order_free_instance :
  (forall n, In n (pm_order M_a) <-> In n (pm_order M_b)) /\
  (forall n, In n (pm_order M_a) ->
     wb_range (pm_wb M_a) n = wb_range (pm_wb M_b) n /\ cell_value M_a n = cell_value M_b n) /\
  saved_cells Gflat M_a <> saved_cells Gflat M_b /\
  is_saved_key M_a 3%nat /\ ~ is_saved_key M_a 2%nat.
Proof.
  split; [|split; [|split; [|split]]].
  - intros n. cbn. intuition.
  - intros n _. split; reflexivity.
  - vm_compute. discriminate.
  - split; [cbn; auto|reflexivity].
  - intros [_ H]. discriminate H.
Qed.
