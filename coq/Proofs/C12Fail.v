(* Proofs/C12Fail.v — C12, failing cells, part 2: the loop of Model/ValidateFail.v
   (raise_exceptions=False).  G is ANY set of nodes closed under precedents on
   which the stored results that are present are what the formulas produce from
   scratch (a G-cell that raises has none); outside G anything goes (altered
   stored results, stored results on cells that raise, dependants of both).
   Invariant FI of the loop, whatever the pop order and the checked outputs:
     - no G-cell is ever reported as a mismatch;
     - every entry of the exception dictionaries names a cell with the chain of
       its message: cells at or above it, the innermost one failing by itself;
       if all the ancestors of the cell are in G, the cell raises from scratch;
     - a verified formula cell of G that raises from scratch is listed.
   Since repair bbbc9be the except branch marks the cell verified and pushes its
   precedents, so (section FTerm) when no cell is skipped by 'No Orig data?' the
   stack discipline of Proofs/C12.v (TI, measure mu) holds again: the loop ends
   with an empty stack within the fuel |outs| + |edges| + 1 and EVERY node the
   outputs depend on — below cells that raise too — is in [verified]. *)
From Coq Require Import List Arith Bool Lia ZArith QArith.
From PV Require Import Lib.Py Model.Graph Model.Fail Model.Validate Model.ValidateFail.
From PV Require Import Proofs.C01Base Proofs.C01Eval Proofs.C01Inv Proofs.C09Eval Proofs.C12Base Proofs.C12.
From PV Require Import Proofs.C12FailBase.
Import ListNotations.
Local Open Scope nat_scope.

Section FLoop.
  Variable W : workbook.
  Variable fsem : nat -> list pyval -> option pyval.
  Variable fpre : nat -> option nat.
  Variable rorder : (nat -> bool) -> nat -> list nat.
  Variable ftext : nat -> list Z.
  Variable tol : option Q.
  Variable outs : list nat.
  Variable G : nat -> Prop.

  Notation N := (wb_n W).
  Notation deps := (wb_deps W).
  Notation isinput := (wb_input W).
  Notation stored := (wb_stored W).
  Notation F := (fspec W fsem fpre (wb_inp0 W)).
  Notation anc := (anc W).
  Notation fcell := (is_fcell W).
  Notation SJ := (SJ W fsem fpre G).
  Notation chain_ok := (chain_ok W fsem fpre).
  Notation semiG := (semiG W G).
  Notation vstep := (vstep_f W fsem fpre rorder ftext tol false).
  Notation vloop := (vloop_f W fsem fpre rorder ftext tol false).

  Hypothesis WF : wf W.
  Hypothesis GD : forall n d, n < N -> G n -> In d (deps n) -> G d.
  Hypothesis GS : forall m, m < N -> G m -> fcell m = true ->
    stored m = VNone \/ F m = FVal (stored m).
  (* the values of the G-cells are Excel scalars, the tolerance is absent or positive *)
  Hypothesis SCG : forall n v, n < N -> G n -> fcell n = true -> F n = FVal v -> is_scalar v = true.
  Hypothesis TP : tol_pos tol.

  Definition listed (exc : list entry) (n : nat) : Prop := exists ch, In (n, ch) exc.
  (* every strict ancestor of n is in G *)
  Definition ancG (n : nat) : Prop := forall a, anc a n -> G a.

  Lemma ancG_semiG n : ancG n -> semiG n.
  Proof. intros A d Hd. apply A. now constructor. Qed.
  Lemma G_ancG n : n < N -> G n -> ancG n.
  Proof. intros L g a A. eapply G_anc; eauto. Qed.

  Record FI (vs : fstate) : Prop := {
    fi_sj : SJ (fs_st vs);
    fi_raised : fs_raised vs = None;
    fi_todo : forall n, In n (fs_todo vs) -> n < N;
    fi_rep : forall n, n < N -> G n -> rep_get (fs_report vs) n = None;
    fi_exc : forall n ch, In (n, ch) (fs_exc vs) ->
               n < N /\ chain_ok n ch /\ (ancG n -> is_raise (F n) = true);
    fi_ver : forall n, mem n (fs_verified vs) = true ->
               n < N /\ (G n -> fcell n = true -> is_raise (F n) = true -> listed (fs_exc vs) n)
  }.

  Lemma listed_app exc n x : listed exc n -> listed (exc ++ [x]) n.
  Proof. intros [ch H]. exists ch. apply in_or_app. auto. Qed.

  Lemma pushed_lt vs n rest v' : FI vs -> fs_todo vs = n :: rest ->
    forall m, In m (push_deps W n v' rest) -> m < N.
  Proof.
    intros Fi T m Hm. pose proof (fi_todo _ Fi n ltac:(rewrite T; left; auto)) as Ln.
    rewrite push_deps_eq, in_app_iff, in_pushed in Hm. destruct Hm as [[Hm _]|Hm].
    - eapply deps_ltN; eauto.
    - apply (fi_todo _ Fi). rewrite T. right. auto.
  Qed.

  (* ---- the except branch (repair bbbc9be: the cell is verified, its precedents pushed) *)
  Lemma FI_fail vs n rest s' r' ch : FI vs -> fs_todo vs = n :: rest -> SJ s' ->
    (forall m, m < N -> G m -> rep_get r' m = None) ->
    chain_ok n ch -> (ancG n -> is_raise (F n) = true) ->
    FI {| fs_st := s'; fs_todo := push_deps W n (vadd n (fs_verified vs)) rest;
          fs_verified := vadd n (fs_verified vs); fs_report := r';
          fs_exc := fs_exc vs ++ [(n, ch)]; fs_raised := None |}.
  Proof.
    intros Fi T Sj R CO RA. pose proof (fi_todo _ Fi n ltac:(rewrite T; left; auto)) as Ln.
    split; cbn [fs_st fs_todo fs_verified fs_report fs_exc fs_raised].
    - exact Sj.
    - reflexivity.
    - eapply pushed_lt; eauto.
    - exact R.
    - intros m c Hm. apply in_app_or in Hm. destruct Hm as [Hm|[Hm|[]]].
      + now apply (fi_exc _ Fi).
      + inversion Hm; subst. auto.
    - intros m Hm. rewrite mem_vadd in Hm. destruct (Nat.eq_dec m n) as [E|NE].
      + subst m. split; auto. intros _ _ _. exists ch. apply in_or_app. right. left. auto.
      + rewrite (proj2 (Nat.eqb_neq m n) NE) in Hm. cbn [orb] in Hm.
        destruct (fi_ver _ Fi m Hm) as [Lm Lst]. split; auto.
        intros g FC RM. apply listed_app. auto.
  Qed.

  (* ---- 'No Orig data?' *)
  Lemma FI_skip vs n rest s' : FI vs -> fs_todo vs = n :: rest -> SJ s' ->
    FI {| fs_st := s'; fs_todo := rest; fs_verified := fs_verified vs; fs_report := fs_report vs;
          fs_exc := fs_exc vs; fs_raised := None |}.
  Proof.
    intros Fi T Sj.
    split; cbn [fs_st fs_todo fs_verified fs_report fs_exc fs_raised].
    - exact Sj.
    - reflexivity.
    - intros m Hm. apply (fi_todo _ Fi). rewrite T. right. auto.
    - apply (fi_rep _ Fi).
    - apply (fi_exc _ Fi).
    - apply (fi_ver _ Fi).
  Qed.

  (* ---- verified.add(addr); push the precedents *)
  Lemma FI_finish vs n rest s' r' : FI vs -> fs_todo vs = n :: rest -> SJ s' ->
    (forall m, m < N -> G m -> rep_get r' m = None) ->
    (G n -> fcell n = true -> is_raise (F n) = false) ->
    FI {| fs_st := s'; fs_todo := push_deps W n (vadd n (fs_verified vs)) rest;
          fs_verified := vadd n (fs_verified vs); fs_report := r';
          fs_exc := fs_exc vs; fs_raised := None |}.
  Proof.
    intros Fi T Sj R OK. pose proof (fi_todo _ Fi n ltac:(rewrite T; left; auto)) as Ln.
    split; cbn [fs_st fs_todo fs_verified fs_report fs_exc fs_raised].
    - exact Sj.
    - reflexivity.
    - eapply pushed_lt; eauto.
    - exact R.
    - apply (fi_exc _ Fi).
    - intros m Hm. rewrite mem_vadd in Hm. destruct (Nat.eq_dec m n) as [E|NE].
      + subst m. split; auto. intros g FC RM. rewrite (OK g FC) in RM. discriminate.
      + rewrite (proj2 (Nat.eqb_neq m n) NE) in Hm. cbn [orb] in Hm. apply (fi_ver _ Fi m Hm).
  Qed.

  Lemma rep_set_clean r n x : ~ G n -> (forall m, m < N -> G m -> rep_get r m = None) ->
    forall m, m < N -> G m -> rep_get (rep_set r n x) m = None.
  Proof.
    intros NG R m L g. rewrite rep_get_set. destruct (Nat.eqb_spec m n) as [->|NE]; [contradiction|auto].
  Qed.

  Lemma FVal_inj a b : FVal a = FVal b -> a = b.
  Proof. intros H. now inversion H. Qed.

  (* ---- one iteration *)
  Lemma vstep_FI vs n rest : FI vs -> fs_todo vs = n :: rest -> FI (vstep vs).
  Proof.
    intros Fi T. pose proof (fi_todo _ Fi n ltac:(rewrite T; left; auto)) as Ln.
    pose proof (fi_sj _ Fi) as Sj.
    unfold vstep_f. rewrite T. cbv beta iota zeta.
    destruct (build_c_SJ W fsem fpre rorder G WF GD GS (fs_st vs) n Sj Ln)
      as (Sj1 & Bn & _ & _ & _ & _ & _ & Fl). cbn zeta in *.
    destruct (build_c W fsem fpre rorder (fs_st vs) n) as [s1 [[e ch]|]]; cbn [fst snd] in *.
    { destruct Fl as (CO & _ & RA). apply (FI_fail vs n rest); auto. apply (fi_rep _ Fi). }
    destruct (fcell n) eqn:FC.
    2:{ apply (FI_finish vs n rest); auto; [apply (fi_rep _ Fi)|congruence]. }
    pose proof (fcell_noninput W n FC) as In.
    pose proof (j_sound _ _ _ _ _ Sj1) as [K1 K2].
    destruct (py_eq (st_cache s1 n) (VStr (ftext n))) eqn:PT.
    { apply (FI_skip vs n rest); auto. }
    destruct (recalc_c_SJ W fsem fpre rorder G WF GD s1 n Sj1 Bn In)
      as (Sj2 & B2 & _ & _ & Ag & Ch & Vl & _). cbn zeta in *.
    destruct (recalc_c W fsem fpre rorder s1 n) as [s2 [v|e ch]]; cbn [fst snd] in *.
    2:{ apply (FI_fail vs n rest); auto; [apply (fi_rep _ Fi)|now apply (Ch e ch)|].
        intros A. apply (Ag (ancG_semiG n A)). }
    specialize (Vl v eq_refl).
    destruct (is_none (st_cache s1 n) || close_enough tol (st_cache s2 n) (st_cache s1 n)) eqn:CE.
    { apply (FI_finish vs n rest); auto; [apply (fi_rep _ Fi)|].
      intros g _. pose proof (Ag (G_semiG W G GD n Ln g)) as A. unfold agrees in A. now rewrite A. }
    (* a mismatch: n is not in G *)
    assert (NG: ~ G n).
    { intros g. apply orb_false_iff in CE. destruct CE as [E CE]. apply is_none_false in E.
      pose proof (K2 n Ln g In E) as F1.
      pose proof (Ag (G_semiG W G GD n Ln g)) as F2. unfold agrees in F2. rewrite F1 in F2.
      apply FVal_inj in F2. rewrite Vl, <- F2 in CE.
      rewrite close_enough_refl in CE; [discriminate|auto|]. eapply SCG; eauto. }
    assert (Bn2: st_built s2 n = true) by (now rewrite B2).
    destruct (recalc_c_SJ W fsem fpre rorder G WF GD s2 n Sj2 Bn2 In)
      as (Sj3 & _ & _ & _ & Ag3 & Ch3 & _). cbn zeta in *.
    destruct (recalc_c W fsem fpre rorder s2 n) as [s3 [v3|e3 ch3]]; cbn [fst snd] in *.
    - apply (FI_finish vs n rest); auto; [|contradiction]. apply rep_set_clean; auto. apply (fi_rep _ Fi).
    - apply (FI_fail vs n rest); auto; [|now apply (Ch3 e3 ch3)|].
      + apply rep_set_clean; auto. apply (fi_rep _ Fi).
      + intros A. apply (Ag3 (ancG_semiG n A)).
  Qed.

  Lemma vloop_FI : forall f vs, FI vs -> FI (vloop f vs).
  Proof.
    induction f as [|f IH]; intros vs Fi; cbn [vloop_f]; auto.
    rewrite (fi_raised _ Fi). destruct (fs_todo vs) as [|n rest] eqn:T; auto.
    apply IH. eapply vstep_FI; eauto.
  Qed.

  Hypothesis OUTS : forall o, In o outs -> o < N.

  Lemma FI_start : FI {| fs_st := init W; fs_todo := rev outs; fs_verified := []; fs_report := [];
                         fs_exc := []; fs_raised := None |}.
  Proof.
    split; cbn [fs_st fs_todo fs_verified fs_report fs_exc fs_raised]; auto; try (intros; discriminate).
    - apply SJ_init.
    - intros n H. apply OUTS. now rewrite in_rev.
    - intros n ch [].
  Qed.

  Notation final := (validate_f W fsem fpre rorder ftext tol false outs).

  Lemma validate_FI : FI final.
  Proof. unfold validate_f, validate_f_from. apply vloop_FI, FI_start. Qed.

  (* ---------------------------------------------------------------- theorems *)
  (* failing cells do not disturb the mismatch report: no cell of G is reported *)
  Theorem mismatches_unaffected n : n < N -> G n -> rep_get (fs_report final) n = None.
  Proof. apply (fi_rep _ validate_FI). Qed.

  (* what is listed under exceptions / not-implemented *)
  Theorem listed_sound n ch : In (n, ch) (fs_exc final) ->
    n < N /\ chain_ok n ch /\ (ancG n -> is_raise (F n) = true).
  Proof. apply (fi_exc _ validate_FI). Qed.

  Theorem never_raised : fs_raised final = None.
  Proof. apply (fi_raised _ validate_FI). Qed.

  (* a verified formula cell of G that raises from scratch is listed, one that
     evaluates is not *)
  Theorem verified_listed n : mem n (fs_verified final) = true -> G n -> fcell n = true ->
    (is_raise (F n) = true -> exists ch, In (n, ch) (fs_exc final) /\ chain_ok n ch) /\
    (is_raise (F n) = false -> ~ listed (fs_exc final) n).
  Proof.
    intros V g FC. pose proof validate_FI as Fi. destruct (fi_ver _ Fi n V) as [L Lst]. split.
    - intros R. destruct (Lst g FC R) as [ch H]. exists ch. split; auto. apply (fi_exc _ Fi n ch H).
    - intros OK [ch H]. destruct (fi_exc _ Fi n ch H) as (_ & _ & RA).
      rewrite (RA (G_ancG n L g)) in OK. discriminate.
  Qed.
End FLoop.

(* ------------------------------------------------------------ counting *)
Fixpoint occ (l : list nat) (n : nat) : nat :=
  match l with [] => 0 | x :: l' => (if Nat.eqb x n then 1 else 0) + occ l' n end.
(* the entries of the exception dictionaries that carry the address n *)
Definition cnt (l : list entry) (n : nat) : nat := occ (map fst l) n.

Lemma occ_app l1 l2 n : occ (l1 ++ l2) n = occ l1 n + occ l2 n.
Proof. induction l1 as [|x l1 IH]; cbn [occ app]; auto. rewrite IH. lia. Qed.
Lemma occ_rev l n : occ (rev l) n = occ l n.
Proof. induction l as [|x l IH]; cbn [occ rev]; auto. rewrite occ_app, IH. cbn [occ]. lia. Qed.
Lemma occ_filter (f : nat -> bool) l n : occ (filter f l) n <= occ l n.
Proof. induction l as [|x l IH]; cbn [occ filter]; auto. destruct (f x); cbn [occ]; lia. Qed.

(* ------------------------------------------------------------------------
   Termination and reachability (repair bbbc9be): when the 'No Orig data?'
   branch is never taken — no stored result and no value a formula computes is
   the text of the cell's own formula, the side condition of Props/C12.v
   C12_no_silent_skip_partial — every pop ends in  verified.add; push the
   unverified precedents , whether the cell evaluated, mismatched or raised.
   Nothing else is assumed: any stored results, any failing cells. *)
Section FTerm.
  Variable W : workbook.
  Variable fsem : nat -> list pyval -> option pyval.
  Variable fpre : nat -> option nat.
  Variable rorder : (nat -> bool) -> nat -> list nat.
  Variable ftext : nat -> list Z.
  Variable tol : option Q.
  Variable outs : list nat.

  Notation N := (wb_n W).
  Notation deps := (wb_deps W).
  Notation stored := (wb_stored W).
  Notation anc := (anc W).
  Notation fcell := (is_fcell W).
  Notation G0 := (fun _ : nat => False).
  Notation SJ0 := (SJ W fsem fpre G0).
  Notation vstep := (vstep_f W fsem fpre rorder ftext tol false).
  Notation vloop := (vloop_f W fsem fpre rorder ftext tol false).
  Notation TI := (TI W outs).
  Notation mu := (mu W).

  Hypothesis WF : wf W.
  Hypothesis TXs : forall n, n < N -> fcell n = true -> py_eq (stored n) (VStr (ftext n)) = false.
  Hypothesis TXv : forall n vals v, n < N -> fcell n = true -> fsem n vals = Some v ->
                     py_eq v (VStr (ftext n)) = false.

  Lemma GD0 : forall n d, n < N -> G0 n -> In d (deps n) -> G0 d.
  Proof. intros n d _ []. Qed.
  Lemma GS0 : forall m, m < N -> G0 m -> fcell m = true ->
    stored m = VNone \/ fspec W fsem fpre (wb_inp0 W) m = FVal (stored m).
  Proof. intros m _ []. Qed.

  (* no formula cell holds the text of its own formula *)
  Definition NT (c : cache) : Prop :=
    forall m, m < N -> fcell m = true -> py_eq (c m) (VStr (ftext m)) = false.

  Lemma NT_step c c' : NT c ->
    (forall m, c' m = c m \/ c' m = VNone \/ c' m = stored m \/ computed fsem m (c' m)) -> NT c'.
  Proof.
    intros H D m L FC. destruct (D m) as [E|[E|[E|[vals E]]]].
    - rewrite E. auto.
    - rewrite E. reflexivity.
    - rewrite E. auto.
    - eapply TXv; eauto.
  Qed.


  (* how often n is a precedent of a node that is not verified yet *)
  Definition pend (n : nat) (v l : list nat) : nat :=
    fold_right (fun m a => (if mem m v then 0 else occ (deps m) n) + a) 0 l.
  (* how often n is a precedent at all *)
  Definition indeg (n : nat) : nat := pend n [] (seq 0 N).

  Lemma pend_notin n x v l : ~ In x l -> pend n (x :: v) l = pend n v l.
  Proof.
    induction l as [|y l IH]; intros H; cbn [pend fold_right]; auto.
    fold (pend n (x :: v) l). fold (pend n v l). rewrite IH by (intros I; apply H; right; auto).
    rewrite mem_cons. destruct (Nat.eqb_spec y x) as [->|NE]; [exfalso; apply H; left; auto|].
    reflexivity.
  Qed.

  Lemma pend_in n x v l : mem x v = false -> NoDup l -> In x l ->
    pend n (x :: v) l + occ (deps x) n = pend n v l.
  Proof.
    intros M. induction l as [|y l IH]; intros ND I; [destruct I|].
    inversion ND as [|y' l' NI ND']; subst. cbn [pend fold_right].
    fold (pend n (x :: v) l). fold (pend n v l). rewrite mem_cons.
    destruct (Nat.eqb_spec y x) as [->|NE].
    - rewrite M, pend_notin by auto. cbn [orb]. lia.
    - destruct I as [I|I]; [congruence|]. specialize (IH ND' I). cbn [orb]. lia.
  Qed.

  Record FT (vs : fstate) : Prop := {
    ft_sj : SJ0 (fs_st vs);
    ft_raised : fs_raised vs = None;
    ft_ti : TI (fs_todo vs) (fs_verified vs);
    ft_nt : NT (st_cache (fs_st vs));
    (* every listing of n is paid for by an occurrence among the outputs or by an edge into n *)
    ft_cnt : forall k, cnt (fs_exc vs) k + occ (fs_todo vs) k + pend k (fs_verified vs) (seq 0 N)
                       <= occ outs k + indeg k
  }.

  Lemma vstep_FT vs n rest : FT vs -> fs_todo vs = n :: rest ->
    FT (vstep vs) /\
    mu (fs_todo (vstep vs)) (fs_verified (vstep vs)) < mu (fs_todo vs) (fs_verified vs).
  Proof.
    intros [Sj Rz Ti Nt Cn] T. rewrite T in Ti, Cn.
    pose proof (ti_todo _ _ _ _ Ti n ltac:(left; auto)) as Ln.
    pose proof (TI_step W outs WF n rest _ Ti) as Ti'.
    pose proof (mu_step W outs n rest _ Ti) as Mu.
    (* every branch but 'No Orig data?' ends in this shape *)
    assert (Shape: forall s' r' e', SJ0 s' -> NT (st_cache s') ->
              (e' = fs_exc vs \/ exists ch, e' = fs_exc vs ++ [(n, ch)]) ->
              let vs' := {| fs_st := s'; fs_todo := push_deps W n (vadd n (fs_verified vs)) rest;
                            fs_verified := vadd n (fs_verified vs); fs_report := r';
                            fs_exc := e'; fs_raised := None |} in
              FT vs' /\ mu (fs_todo vs') (fs_verified vs') < mu (n :: rest) (fs_verified vs)).
    { intros s' r' e' S' N' He. cbn zeta. split; [split|]; cbn [fs_st fs_todo fs_verified fs_exc fs_raised]; auto.
      intros k. specialize (Cn k). cbn [occ] in Cn.
      assert (Ce: cnt e' k <= cnt (fs_exc vs) k + (if Nat.eqb n k then 1 else 0)).
      { destruct He as [->|[ch ->]]; [destruct (Nat.eqb n k); lia|]. unfold cnt. rewrite map_app, occ_app.
        cbn [map fst occ]. destruct (Nat.eqb n k); rewrite ?Nat.add_0_r; apply Nat.le_refl. }
      rewrite push_deps_eq, occ_app, occ_rev.
      destruct (mem n (fs_verified vs)) eqn:M.
      - assert (E: vadd n (fs_verified vs) = fs_verified vs) by (unfold vadd; now rewrite M). rewrite E.
        rewrite filter_none; [cbn [occ]; lia|].
        intros d Hd. apply negb_false_iff.
        destruct (ti_pos _ _ _ _ Ti [] n rest eq_refl M d Hd) as [H|[]]. exact H.
      - assert (E: vadd n (fs_verified vs) = n :: fs_verified vs) by (unfold vadd; now rewrite M). rewrite E.
        pose proof (occ_filter (fun d => negb (mem d (n :: fs_verified vs))) (deps n) k).
        pose proof (pend_in k n (fs_verified vs) (seq 0 N) M (seq_NoDup N 0) ltac:(apply in_seq; lia)). lia. }
    unfold vstep_f. rewrite T. cbv beta iota zeta.
    destruct (build_c_SJ W fsem fpre rorder G0 WF GD0 GS0 (fs_st vs) n Sj Ln)
      as (Sj1 & Bn & _ & _ & _ & _ & D1 & _). cbn zeta in *.
    destruct (build_c W fsem fpre rorder (fs_st vs) n) as [s1 [[e ch]|]]; cbn [fst snd] in *.
    { apply Shape; eauto. eapply NT_step; eauto. }
    assert (Nt1: NT (st_cache s1)) by (eapply NT_step; eauto).
    destruct (fcell n) eqn:FC.
    2:{ apply Shape; auto. }
    pose proof (fcell_noninput W n FC) as In.
    rewrite (Nt1 n Ln FC).
    destruct (recalc_c_SJ W fsem fpre rorder G0 WF GD0 s1 n Sj1 Bn In)
      as (Sj2 & B2 & _ & _ & _ & _ & _ & D2). cbn zeta in *.
    assert (W2: forall m, st_cache (fst (recalc_c W fsem fpre rorder s1 n)) m = st_cache s1 m \/
                          st_cache (fst (recalc_c W fsem fpre rorder s1 n)) m = VNone \/
                          st_cache (fst (recalc_c W fsem fpre rorder s1 n)) m = stored m \/
                          computed fsem m (st_cache (fst (recalc_c W fsem fpre rorder s1 n)) m)).
    { intros m. destruct (D2 m) as [E|[E|E]]; auto. }
    pose proof (NT_step _ _ Nt1 W2) as Nt2.
    destruct (recalc_c W fsem fpre rorder s1 n) as [s2 [v|e ch]]; cbn [fst snd] in *.
    2:{ apply Shape; eauto. }
    destruct (is_none (st_cache s1 n) || close_enough tol (st_cache s2 n) (st_cache s1 n)).
    { apply Shape; auto. }
    assert (Bn2: st_built s2 n = true) by (now rewrite B2).
    destruct (recalc_c_SJ W fsem fpre rorder G0 WF GD0 s2 n Sj2 Bn2 In)
      as (Sj3 & _ & _ & _ & _ & _ & _ & D3). cbn zeta in *.
    assert (W3: forall m, st_cache (fst (recalc_c W fsem fpre rorder s2 n)) m = st_cache s2 m \/
                          st_cache (fst (recalc_c W fsem fpre rorder s2 n)) m = VNone \/
                          st_cache (fst (recalc_c W fsem fpre rorder s2 n)) m = stored m \/
                          computed fsem m (st_cache (fst (recalc_c W fsem fpre rorder s2 n)) m)).
    { intros m. destruct (D3 m) as [E|[E|E]]; auto. }
    pose proof (NT_step _ _ Nt2 W3) as Nt3.
    destruct (recalc_c W fsem fpre rorder s2 n) as [s3 [v3|e3 ch3]]; cbn [fst snd] in *;
      apply Shape; eauto.
  Qed.

  Lemma vloop_FT : forall f vs, FT vs -> mu (fs_todo vs) (fs_verified vs) <= f ->
    FT (vloop f vs) /\ fs_todo (vloop f vs) = [].
  Proof.
    induction f as [|f IH]; intros vs Ft M; cbn [vloop_f].
    - split; auto. unfold C12.mu in M. destruct (fs_todo vs); auto. cbn in M. lia.
    - rewrite (ft_raised _ Ft). destruct (fs_todo vs) as [|n rest] eqn:T; [split; auto|].
      destruct (vstep_FT vs n rest Ft T) as [Ft' M']. rewrite T in M'. apply IH; auto. lia.
  Qed.

  Hypothesis OUTS : forall o, In o outs -> o < N.

  Notation final := (validate_f W fsem fpre rorder ftext tol false outs).

  Lemma validate_FT : FT final /\ fs_todo final = [].
  Proof.
    unfold validate_f, validate_f_from. apply vloop_FT.
    - split; cbn [fs_st fs_todo fs_verified fs_raised]; auto.
      + apply SJ_init.
      + split; try (intros; discriminate).
        * intros n H. apply OUTS. rewrite in_rev. exact H.
        * intros o H. right. rewrite <- in_rev. exact H.
      + intros m L FC. cbn [init st_cache]. rewrite (fcell_noninput W m FC). reflexivity.
      + intros k. unfold cnt, indeg. cbn [map occ fs_exc fs_todo fs_verified]. rewrite occ_rev. apply Nat.le_refl.
    - cbn [fs_todo fs_verified]. unfold C12.mu. rewrite rev_length, ue_nil. unfold edges. lia.
  Qed.

  (* the loop ends with an empty stack within the fuel |outs| + |edges| + 1 *)
  Theorem terminates_f : fs_todo final = [].
  Proof. apply validate_FT. Qed.

  (* a cell is listed at most once per occurrence among the checked outputs plus
     once per edge into it (each listing is one pop of the cell; a verified cell
     is never pushed again, but a cell that sits on the stack several times is
     popped — and listed — several times) *)
  Theorem listed_bound k : cnt (fs_exc final) k <= occ outs k + indeg k.
  Proof. destruct validate_FT as [Ft _]. pose proof (ft_cnt _ Ft k). lia. Qed.

  (* every node the checked outputs depend on — below cells that raise too — has
     been processed *)
  Theorem reachable_verified_f o n : In o outs -> n = o \/ anc n o ->
    mem n (fs_verified final) = true.
  Proof.
    destruct validate_FT as [Ft E]. pose proof (ft_ti _ Ft) as Ti. rewrite E in Ti.
    set (v := fs_verified final) in *.
    assert (Cl: forall a m, anc a m -> mem m v = true -> mem a v = true).
    { intros a m A. induction A as [a m H|a b m A IH H]; intros Hm.
      - destruct (ti_closed _ _ _ _ Ti m a Hm H) as [X|[]]. exact X.
      - apply IH. destruct (ti_closed _ _ _ _ Ti m b Hm H) as [X|[]]. exact X. }
    intros Ho Hn. assert (Vo: mem o v = true) by (destruct (ti_outs _ _ _ _ Ti o Ho) as [X|[]]; exact X).
    destruct Hn as [->|A]; auto. eapply Cl; eauto.
  Qed.
End FTerm.

(* ------------------------------------------------------------------------
   Both together: nothing reachable is skipped silently. *)
Section FFull.
  Variable W : workbook.
  Variable fsem : nat -> list pyval -> option pyval.
  Variable fpre : nat -> option nat.
  Variable rorder : (nat -> bool) -> nat -> list nat.
  Variable ftext : nat -> list Z.
  Variable tol : option Q.
  Variable outs : list nat.
  Variable G : nat -> Prop.

  Notation N := (wb_n W).
  Notation F := (fspec W fsem fpre (wb_inp0 W)).
  Notation final := (validate_f W fsem fpre rorder ftext tol false outs).

  Hypothesis WF : wf W.
  Hypothesis GD : forall n d, n < N -> G n -> In d (wb_deps W n) -> G d.
  Hypothesis GS : forall m, m < N -> G m -> is_fcell W m = true ->
    wb_stored W m = VNone \/ F m = FVal (wb_stored W m).
  Hypothesis SCG : forall n v, n < N -> G n -> is_fcell W n = true -> F n = FVal v -> is_scalar v = true.
  Hypothesis TP : tol_pos tol.
  Hypothesis TXs : forall n, n < N -> is_fcell W n = true ->
                     py_eq (wb_stored W n) (VStr (ftext n)) = false.
  Hypothesis TXv : forall n vals v, n < N -> is_fcell W n = true -> fsem n vals = Some v ->
                     py_eq v (VStr (ftext n)) = false.
  Hypothesis OUTS : forall o, In o outs -> o < N.

  Theorem nothing_skipped o n : In o outs -> n = o \/ anc W n o ->
    fs_todo final = [] /\
    mem n (fs_verified final) = true /\
    (G n -> is_fcell W n = true ->
       (is_raise (F n) = true -> exists ch, In (n, ch) (fs_exc final) /\ chain_ok W fsem fpre n ch) /\
       (is_raise (F n) = false -> ~ listed (fs_exc final) n)).
  Proof.
    intros Ho Hn.
    pose proof (reachable_verified_f W fsem fpre rorder ftext tol outs WF TXs TXv OUTS o n Ho Hn) as V.
    split; [apply (terminates_f W fsem fpre rorder ftext tol outs WF TXs TXv OUTS)|split; [exact V|]].
    intros g FC. apply (verified_listed W fsem fpre rorder ftext tol outs G WF GD GS SCG TP OUTS n V g FC).
  Qed.
End FFull.
