(* Proofs/C12Fail.v — C12, failing cells, part 2: the loop of Model/ValidateFail.v
   (raise_exceptions=False).  G is ANY set of nodes closed under precedents on
   which the stored results that are present are what the formulas produce from
   scratch (a G-cell that raises has none); outside G anything goes (altered
   stored results, stored results on cells that raise, dependants of both).
   Invariant FI of the loop, whatever the pop order and the checked outputs:
     - no G-cell is ever reported as a mismatch;
     - every entry of the exception dictionaries names a cell with the chain of
       its message: cells at or above it, the innermost one failing by itself;
       if all the ancestors of the cell are in G, the cell raises from scratch;
     - a verified formula cell of G evaluates from scratch;
     - every G-precedent of a verified node is verified, on the stack, or listed
       under exceptions / not-implemented — and so is every checked output in G. *)
From Coq Require Import List Arith Bool Lia ZArith QArith.
From PV Require Import Lib.Py Model.Graph Model.Fail Model.Validate Model.ValidateFail.
From PV Require Import Proofs.C01Base Proofs.C01Eval Proofs.C01Inv Proofs.C09Eval Proofs.C12Base Proofs.C12.
From PV Require Import Proofs.C12FailBase.
Import ListNotations.
Local Open Scope nat_scope.

Section FLoop.
  Variable W : workbook.
  Variable fsem : nat -> list pyval -> option pyval.
  Variable fpre : nat -> option nat.
  Variable rorder : (nat -> bool) -> nat -> list nat.
  Variable ftext : nat -> list Z.
  Variable tol : option Q.
  Variable outs : list nat.
  Variable G : nat -> Prop.

  Notation N := (wb_n W).
  Notation deps := (wb_deps W).
  Notation isinput := (wb_input W).
  Notation stored := (wb_stored W).
  Notation F := (fspec W fsem fpre (wb_inp0 W)).
  Notation anc := (anc W).
  Notation fcell := (is_fcell W).
  Notation SJ := (SJ W fsem fpre G).
  Notation chain_ok := (chain_ok W fsem fpre).
  Notation semiG := (semiG W G).
  Notation vstep := (vstep_f W fsem fpre rorder ftext tol false).
  Notation vloop := (vloop_f W fsem fpre rorder ftext tol false).

  Hypothesis WF : wf W.
  Hypothesis GD : forall n d, n < N -> G n -> In d (deps n) -> G d.
  Hypothesis GS : forall m, m < N -> G m -> fcell m = true ->
    stored m = VNone \/ F m = FVal (stored m).
  (* no G-cell computes the text of its own formula ('No Orig data?' is not taken) *)
  Hypothesis TXG : forall n v, n < N -> G n -> fcell n = true -> F n = FVal v ->
    py_eq v (VStr (ftext n)) = false.
  (* the values of the G-cells are Excel scalars, the tolerance is absent or positive *)
  Hypothesis SCG : forall n v, n < N -> G n -> fcell n = true -> F n = FVal v -> is_scalar v = true.
  Hypothesis TP : tol_pos tol.

  Definition listed (exc : list entry) (n : nat) : Prop := exists ch, In (n, ch) exc.
  (* every strict ancestor of n is in G *)
  Definition ancG (n : nat) : Prop := forall a, anc a n -> G a.

  Lemma ancG_semiG n : ancG n -> semiG n.
  Proof. intros A d Hd. apply A. now constructor. Qed.
  Lemma G_ancG n : n < N -> G n -> ancG n.
  Proof. intros L g a A. eapply G_anc; eauto. Qed.

  Record FI (vs : fstate) : Prop := {
    fi_sj : SJ (fs_st vs);
    fi_raised : fs_raised vs = None;
    fi_todo : forall n, In n (fs_todo vs) -> n < N;
    fi_rep : forall n, n < N -> G n -> rep_get (fs_report vs) n = None;
    fi_exc : forall n ch, In (n, ch) (fs_exc vs) ->
               n < N /\ chain_ok n ch /\ (ancG n -> is_raise (F n) = true);
    fi_ver : forall n, mem n (fs_verified vs) = true ->
               n < N /\ (G n -> fcell n = true -> is_raise (F n) = false);
    fi_closed : forall n d, mem n (fs_verified vs) = true -> In d (deps n) -> G d ->
                  mem d (fs_verified vs) = true \/ In d (fs_todo vs) \/ listed (fs_exc vs) d;
    fi_outs : forall o, In o outs -> G o ->
                mem o (fs_verified vs) = true \/ In o (fs_todo vs) \/ listed (fs_exc vs) o
  }.

  Lemma listed_app exc n x : listed exc n -> listed (exc ++ [x]) n.
  Proof. intros [ch H]. exists ch. apply in_or_app. auto. Qed.

  (* ---- the except branch *)
  Lemma FI_fail vs n rest s' r' ch : FI vs -> fs_todo vs = n :: rest -> SJ s' ->
    (forall m, m < N -> G m -> rep_get r' m = None) ->
    chain_ok n ch -> (ancG n -> is_raise (F n) = true) ->
    FI {| fs_st := s'; fs_todo := rest; fs_verified := fs_verified vs; fs_report := r';
          fs_exc := fs_exc vs ++ [(n, ch)]; fs_raised := None |}.
  Proof.
    intros Fi T Sj R CO RA. pose proof (fi_todo _ Fi n ltac:(rewrite T; left; auto)) as Ln.
    split; cbn [fs_st fs_todo fs_verified fs_report fs_exc fs_raised].
    - exact Sj.
    - reflexivity.
    - intros m Hm. apply (fi_todo _ Fi). rewrite T. right. auto.
    - exact R.
    - intros m c Hm. apply in_app_or in Hm. destruct Hm as [Hm|[Hm|[]]].
      + now apply (fi_exc _ Fi).
      + inversion Hm; subst. auto.
    - apply (fi_ver _ Fi).
    - intros m d Hm Hd g. destruct (fi_closed _ Fi m d Hm Hd g) as [H|[H|H]]; auto.
      + rewrite T in H. destruct H as [<-|H]; auto.
        right. right. exists ch. apply in_or_app. right. left. auto.
      + right. right. now apply listed_app.
    - intros o Ho g. destruct (fi_outs _ Fi o Ho g) as [H|[H|H]]; auto.
      + rewrite T in H. destruct H as [<-|H]; auto.
        right. right. exists ch. apply in_or_app. right. left. auto.
      + right. right. now apply listed_app.
  Qed.

  (* ---- 'No Orig data?': only outside G *)
  Lemma FI_skip vs n rest s' : FI vs -> fs_todo vs = n :: rest -> SJ s' -> ~ G n ->
    FI {| fs_st := s'; fs_todo := rest; fs_verified := fs_verified vs; fs_report := fs_report vs;
          fs_exc := fs_exc vs; fs_raised := None |}.
  Proof.
    intros Fi T Sj NG.
    split; cbn [fs_st fs_todo fs_verified fs_report fs_exc fs_raised].
    - exact Sj.
    - reflexivity.
    - intros m Hm. apply (fi_todo _ Fi). rewrite T. right. auto.
    - apply (fi_rep _ Fi).
    - apply (fi_exc _ Fi).
    - apply (fi_ver _ Fi).
    - intros m d Hm Hd g. destruct (fi_closed _ Fi m d Hm Hd g) as [H|[H|H]]; auto.
      rewrite T in H. destruct H as [<-|H]; [contradiction|auto].
    - intros o Ho g. destruct (fi_outs _ Fi o Ho g) as [H|[H|H]]; auto.
      rewrite T in H. destruct H as [<-|H]; [contradiction|auto].
  Qed.

  (* ---- verified.add(addr); push the precedents *)
  Lemma FI_finish vs n rest s' r' : FI vs -> fs_todo vs = n :: rest -> SJ s' ->
    (forall m, m < N -> G m -> rep_get r' m = None) ->
    (G n -> fcell n = true -> is_raise (F n) = false) ->
    FI {| fs_st := s'; fs_todo := push_deps W n (vadd n (fs_verified vs)) rest;
          fs_verified := vadd n (fs_verified vs); fs_report := r';
          fs_exc := fs_exc vs; fs_raised := None |}.
  Proof.
    intros Fi T Sj R OK. pose proof (fi_todo _ Fi n ltac:(rewrite T; left; auto)) as Ln.
    set (v := fs_verified vs). set (v' := vadd n v).
    assert (InP: forall d, In d (push_deps W n v' rest) <->
                           (In d (deps n) /\ mem d v' = false) \/ In d rest).
    { intros d. rewrite push_deps_eq, in_app_iff, in_pushed. tauto. }
    assert (Mono: forall m, mem m v = true -> mem m v' = true).
    { intros m H. unfold v'. rewrite mem_vadd, H. apply orb_true_r. }
    assert (Old: forall d, In d (n :: rest) -> mem d v' = true \/ In d (push_deps W n v' rest)).
    { intros d [<-|H]; [left; apply mem_vadd_same|right; apply InP; auto]. }
    split; cbn [fs_st fs_todo fs_verified fs_report fs_exc fs_raised].
    - exact Sj.
    - reflexivity.
    - intros m Hm. apply InP in Hm. destruct Hm as [[Hm _]|Hm].
      + eapply deps_ltN; eauto.
      + apply (fi_todo _ Fi). rewrite T. right. auto.
    - exact R.
    - apply (fi_exc _ Fi).
    - intros m Hm. unfold v' in Hm. rewrite mem_vadd in Hm.
      destruct (Nat.eq_dec m n) as [E|NE]; [subst m; split; auto|].
      rewrite (proj2 (Nat.eqb_neq m n) NE) in Hm. apply (fi_ver _ Fi). exact Hm.
    - intros m d Hm Hd g. unfold v' in Hm. rewrite mem_vadd in Hm.
      destruct (Nat.eq_dec m n) as [E|NE].
      + subst m. destruct (mem d v') eqn:M; auto. right. left. apply InP. auto.
      + rewrite (proj2 (Nat.eqb_neq m n) NE) in Hm. cbn [orb] in Hm. destruct (fi_closed _ Fi m d Hm Hd g) as [H|[H|H]]; auto.
        rewrite T in H. destruct (Old d H); auto.
    - intros o Ho g. destruct (fi_outs _ Fi o Ho g) as [H|[H|H]]; auto.
      rewrite T in H. destruct (Old o H); auto.
  Qed.

  Lemma rep_set_clean r n x : ~ G n -> (forall m, m < N -> G m -> rep_get r m = None) ->
    forall m, m < N -> G m -> rep_get (rep_set r n x) m = None.
  Proof.
    intros NG R m L g. rewrite rep_get_set. destruct (Nat.eqb_spec m n) as [->|NE]; [contradiction|auto].
  Qed.

  Lemma FVal_inj a b : FVal a = FVal b -> a = b.
  Proof. intros H. now inversion H. Qed.

  (* ---- one iteration *)
  Lemma vstep_FI vs n rest : FI vs -> fs_todo vs = n :: rest -> FI (vstep vs).
  Proof.
    intros Fi T. pose proof (fi_todo _ Fi n ltac:(rewrite T; left; auto)) as Ln.
    pose proof (fi_sj _ Fi) as Sj.
    unfold vstep_f. rewrite T. cbv beta iota zeta.
    destruct (build_c_SJ W fsem fpre rorder G WF GD GS (fs_st vs) n Sj Ln)
      as (Sj1 & Bn & _ & _ & _ & _ & Fl). cbn zeta in *.
    destruct (build_c W fsem fpre rorder (fs_st vs) n) as [s1 [[e ch]|]]; cbn [fst snd] in *.
    { destruct Fl as (CO & _ & RA). apply (FI_fail vs n rest); auto. apply (fi_rep _ Fi). }
    destruct (fcell n) eqn:FC.
    2:{ apply (FI_finish vs n rest); auto; [apply (fi_rep _ Fi)|congruence]. }
    pose proof (fcell_noninput W n FC) as In.
    pose proof (j_sound _ _ _ _ _ Sj1) as [K1 K2].
    destruct (py_eq (st_cache s1 n) (VStr (ftext n))) eqn:PT.
    { apply (FI_skip vs n rest); auto. intros g.
      destruct (is_none (st_cache s1 n)) eqn:E.
      - apply is_none_true in E. rewrite E in PT. cbn in PT. discriminate.
      - apply is_none_false in E. pose proof (TXG n _ Ln g FC (K2 n Ln g In E)) as X. congruence. }
    destruct (recalc_c_SJ W fsem fpre rorder G WF GD s1 n Sj1 Bn In)
      as (Sj2 & B2 & _ & _ & Ag & Ch & Vl). cbn zeta in *.
    destruct (recalc_c W fsem fpre rorder s1 n) as [s2 [v|e ch]]; cbn [fst snd] in *.
    2:{ apply (FI_fail vs n rest); auto; [apply (fi_rep _ Fi)|now apply (Ch e ch)|].
        intros A. apply (Ag (ancG_semiG n A)). }
    specialize (Vl v eq_refl).
    destruct (is_none (st_cache s1 n) || close_enough tol (st_cache s2 n) (st_cache s1 n)) eqn:CE.
    { apply (FI_finish vs n rest); auto; [apply (fi_rep _ Fi)|].
      intros g _. pose proof (Ag (G_semiG W G GD n Ln g)) as A. unfold agrees in A. now rewrite A. }
    (* a mismatch: n is not in G *)
    assert (NG: ~ G n).
    { intros g. apply orb_false_iff in CE. destruct CE as [E CE]. apply is_none_false in E.
      pose proof (K2 n Ln g In E) as F1.
      pose proof (Ag (G_semiG W G GD n Ln g)) as F2. unfold agrees in F2. rewrite F1 in F2.
      apply FVal_inj in F2. rewrite Vl, <- F2 in CE.
      rewrite close_enough_refl in CE; [discriminate|auto|]. eapply SCG; eauto. }
    assert (Bn2: st_built s2 n = true) by (now rewrite B2).
    destruct (recalc_c_SJ W fsem fpre rorder G WF GD s2 n Sj2 Bn2 In)
      as (Sj3 & _ & _ & _ & Ag3 & Ch3 & _). cbn zeta in *.
    destruct (recalc_c W fsem fpre rorder s2 n) as [s3 [v3|e3 ch3]]; cbn [fst snd] in *.
    - apply (FI_finish vs n rest); auto; [|contradiction]. apply rep_set_clean; auto. apply (fi_rep _ Fi).
    - apply (FI_fail vs n rest); auto; [|now apply (Ch3 e3 ch3)|].
      + apply rep_set_clean; auto. apply (fi_rep _ Fi).
      + intros A. apply (Ag3 (ancG_semiG n A)).
  Qed.

  Lemma vloop_FI : forall f vs, FI vs -> FI (vloop f vs).
  Proof.
    induction f as [|f IH]; intros vs Fi; cbn [vloop_f]; auto.
    rewrite (fi_raised _ Fi). destruct (fs_todo vs) as [|n rest] eqn:T; auto.
    apply IH. eapply vstep_FI; eauto.
  Qed.

  Hypothesis OUTS : forall o, In o outs -> o < N.

  Lemma FI_start : FI {| fs_st := init W; fs_todo := rev outs; fs_verified := []; fs_report := [];
                         fs_exc := []; fs_raised := None |}.
  Proof.
    split; cbn [fs_st fs_todo fs_verified fs_report fs_exc fs_raised]; auto; try (intros; discriminate).
    - apply SJ_init.
    - intros n H. apply OUTS. now rewrite in_rev.
    - intros n ch [].
    - intros o H _. right. left. now rewrite <- in_rev.
  Qed.

  Notation final := (validate_f W fsem fpre rorder ftext tol false outs).

  Lemma validate_FI : FI final.
  Proof. unfold validate_f, validate_f_from. apply vloop_FI, FI_start. Qed.

  (* ---------------------------------------------------------------- theorems *)
  (* failing cells do not disturb the mismatch report: no cell of G is reported *)
  Theorem mismatches_unaffected n : n < N -> G n -> rep_get (fs_report final) n = None.
  Proof. apply (fi_rep _ validate_FI). Qed.

  (* what is listed under exceptions / not-implemented *)
  Theorem listed_sound n ch : In (n, ch) (fs_exc final) ->
    n < N /\ chain_ok n ch /\ (ancG n -> is_raise (F n) = true).
  Proof. apply (fi_exc _ validate_FI). Qed.

  Theorem never_raised : fs_raised final = None.
  Proof. apply (fi_raised _ validate_FI). Qed.

  (* reachable from o through G-nodes that evaluate from scratch *)
  Inductive reach_ok : nat -> nat -> Prop :=
  | reach_refl o : reach_ok o o
  | reach_step o m d : reach_ok o m -> is_raise (F m) = false -> In d (deps m) -> reach_ok o d.

  Lemma reach_lt o n : o < N -> reach_ok o n -> n < N.
  Proof.
    intros L R. induction R as [o|o m d R IH OKm Hd]; auto.
    apply (deps_ltN W WF m d); auto.
  Qed.
  Lemma reach_G o n : o < N -> G o -> reach_ok o n -> G n.
  Proof.
    intros L g R. induction R as [o|o m d R IH OKm Hd]; auto.
    apply (GD m d); auto. eapply reach_lt; eauto.
  Qed.

  (* nothing reachable through cells that evaluate is skipped silently: when the
     stack is empty, every such node is verified or listed *)
  Theorem nothing_skipped o n : fs_todo final = [] -> In o outs -> G o -> reach_ok o n ->
    mem n (fs_verified final) = true \/ listed (fs_exc final) n.
  Proof.
    intros E Ho g R. pose proof validate_FI as Fi. pose proof (OUTS o Ho) as Lo.
    induction R as [o|o m d R IH OKm Hd].
    - destruct (fi_outs _ Fi o Ho g) as [H|[H|H]]; auto. rewrite E in H. destruct H.
    - specialize (IH Ho g Lo).
      pose proof (reach_lt o m Lo R) as Lm. pose proof (reach_G o m Lo g R) as Gm.
      assert (Vm: mem m (fs_verified final) = true).
      { destruct IH as [H|[ch H]]; auto.
        destruct (fi_exc _ Fi m ch H) as (_ & _ & RA). rewrite (RA (G_ancG m Lm Gm)) in OKm. discriminate. }
      destruct (fi_closed _ Fi m d Vm Hd ltac:(eapply GD; eauto)) as [H|[H|H]]; auto.
      rewrite E in H. destruct H.
  Qed.

  (* a reachable formula cell that raises from scratch is listed, with the chain
     of its message; a reachable formula cell that evaluates is verified *)
  Theorem failing_reported o n : fs_todo final = [] -> In o outs -> G o -> reach_ok o n ->
    fcell n = true -> is_raise (F n) = true ->
    exists ch, In (n, ch) (fs_exc final) /\ chain_ok n ch.
  Proof.
    intros E Ho g R FC RA. pose proof validate_FI as Fi. pose proof (OUTS o Ho) as Lo.
    destruct (nothing_skipped o n E Ho g R) as [H|[ch H]].
    - destruct (fi_ver _ Fi n H) as [_ OK]. rewrite (OK (reach_G o n Lo g R) FC) in RA. discriminate.
    - exists ch. split; auto. apply (fi_exc _ Fi n ch H).
  Qed.

  Theorem evaluating_verified o n : fs_todo final = [] -> In o outs -> G o -> reach_ok o n ->
    is_raise (F n) = false -> mem n (fs_verified final) = true.
  Proof.
    intros E Ho g R OK. pose proof validate_FI as Fi. pose proof (OUTS o Ho) as Lo.
    destruct (nothing_skipped o n E Ho g R) as [H|[ch H]]; auto.
    destruct (fi_exc _ Fi n ch H) as (_ & _ & RA).
    rewrite (RA (G_ancG n (reach_lt o n Lo R) (reach_G o n Lo g R))) in OK. discriminate.
  Qed.
End FLoop.
