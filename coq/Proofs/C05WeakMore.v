(* Proofs/C05WeakMore.v — the remaining C05 theorems (order_nodata, repeat,
   path) under the weak non-blank condition of Proofs/C01Weak.v, by transfer:
   [evaluate] cannot tell [sem] from a strongly non-blank function that agrees
   with it on admissible argument lists.  For [path] the guarded function is
   left as it is at the range node r (a range node never computes a blank), so
   that the hypothesis "r is a range node with [cols] columns" carries over. *)
From Coq Require Import List Arith Bool Lia ZArith.
From PV Require Import Lib.Py Model.Graph Model.GraphExpr.
From PV Require Import Proofs.C01Base Proofs.C01Inv Proofs.C01 Proofs.C01Weak Proofs.C01Alias
                       Proofs.C01AliasExample Proofs.C05 Proofs.C05Weak.
Import ListNotations.
Local Open Scope nat_scope.

Section C05WeakMore.
  Variable W : workbook.
  Variable sem : nat -> list pyval -> pyval.
  Hypothesis WF : wf W.
  Hypothesis NBW : sem_nonblank_weak W sem.

  Notation N := (wb_n W).
  Notation g := (guard W sem).
  Let NB2 : sem_nonblank W g := guard_nonblank W sem NBW.
  Let AG : forall n vals, n < N -> wb_input W n = false -> args_ok W n vals ->
             sem n vals = g n vals := fun n vals _ _ H => guard_agree W sem n vals H.

  Theorem order_nodata_weak : (forall n, wb_stored W n = VNone) ->
    forall h1 h2 n, Forall (be_op W) h1 -> Forall (be_op W) h2 -> n < N ->
      snd (evaluate W sem (fst (run W sem (init W) h1)) n)
      = snd (evaluate W sem (fst (run W sem (init W) h2)) n).
  Proof.
    intros NS h1 h2 n F1 F2 L.
    apply (order_weak W sem WF NBW); auto. split; intros; [exfalso|]; auto.
  Qed.

  Hypothesis SO : stored_ok W sem.

  Theorem repeat_weak s n : Inv W sem s -> n < N ->
    let s1 := fst (evaluate W sem s n) in
    let v1 := snd (evaluate W sem s n) in
    let s2 := fst (evaluate W sem s1 n) in
    let v2 := snd (evaluate W sem s1 n) in
    v2 = v1 /\ st_built s2 = st_built s1 /\ forall m, st_cache s2 m = st_cache s1 m.
  Proof.
    intros I L. cbv zeta.
    rewrite !(evaluate_transfer W sem g WF NB2 AG _ n L).
    apply (repeat_eval W g WF NB2 (stored_ok_transfer W sem g WF NB2 AG SO) s n); auto.
    now apply Inv_guard.
  Qed.

  (* the guard that leaves node r alone *)
  Definition guard_but (r : nat) (n : nat) (vals : list pyval) : pyval :=
    if Nat.eqb n r then sem n vals else g n vals.

  Theorem path_weak s r cols i j : Inv W sem s -> r < N -> wb_input W r = false ->
    (forall vals, sem r vals = sem_formula (FRange cols) vals) ->
    0 < cols -> j < cols -> i * cols + j < length (wb_deps W r) ->
    let cell := nth (i * cols + j) (wb_deps W r) 0 in
    tuple_at (snd (evaluate W sem s r)) i j = snd (evaluate W sem s cell)
    /\ tuple_at (snd (evaluate W sem s r)) i j
       = snd (evaluate W sem (fst (evaluate W sem s r)) cell).
  Proof.
    intros I L Ir Sr C J H cell.
    assert (NB3: sem_nonblank W (guard_but r)).
    { intros n vals Ln In. unfold guard_but. destruct (Nat.eqb_spec n r) as [->|NE].
      - rewrite Sr. discriminate.
      - now apply NB2. }
    assert (AG3: forall n vals, n < N -> wb_input W n = false -> args_ok W n vals ->
                   sem n vals = guard_but r n vals).
    { intros n vals Ln In OK. unfold guard_but. destruct (Nat.eqb n r); auto. }
    assert (Hc: In cell (wb_deps W r)) by (apply nth_In; auto).
    assert (Lc: cell < N) by (eapply deps_ltN; eauto).
    rewrite (evaluate_transfer W sem (guard_but r) WF NB3 AG3 s r L).
    rewrite !(evaluate_transfer W sem (guard_but r) WF NB3 AG3 _ cell Lc).
    apply (path W (guard_but r) WF NB3 (stored_ok_transfer W sem (guard_but r) WF NB3 AG3 SO)
             s r cols i j); auto.
    - now apply (Inv_transfer W sem (guard_but r) WF NB3 AG3).
    - intros vals. unfold guard_but. rewrite Nat.eqb_refl. apply Sr.
  Qed.
End C05WeakMore.

(* ---- the hypotheses are satisfiable on the two-column workbook of
   Proofs/C01AliasExample.v (whole-column reference; the strong condition of
   Proofs/C05.v fails there: exa_not_strong) — tests, not theorems *)
Local Open Scope nat_scope.
Example xo_stored : stored_ok exaW exa_sem.
Proof. split; intros; [exfalso|]; auto. Qed.
Example xo_inv : Inv exaW exa_sem (init exaW).
Proof. apply (invariant_weak exaW exa_sem (exa_wf _) (exa_weak _) xo_stored). Qed.

Example xo_order :
  snd (evaluate exaW exa_sem (fst (run exaW exa_sem (init exaW) [Evaluate 5; Build 3])) 4)
  = snd (evaluate exaW exa_sem (fst (run exaW exa_sem (init exaW) [Evaluate 2; Evaluate 3])) 4).
Proof.
  apply (order_nodata_weak exaW exa_sem (exa_wf _) (exa_weak _)); try reflexivity;
    repeat constructor; cbn; lia.
Qed.

Example xo_repeat :
  let s1 := fst (evaluate exaW exa_sem (init exaW) 4) in
  snd (evaluate exaW exa_sem s1 4) = snd (evaluate exaW exa_sem (init exaW) 4)
  /\ st_built (fst (evaluate exaW exa_sem s1 4)) = st_built s1
  /\ forall m, st_cache (fst (evaluate exaW exa_sem s1 4)) m = st_cache s1 m.
Proof.
  apply (repeat_weak exaW exa_sem (exa_wf _) (exa_weak _) xo_stored (init exaW) 4 xo_inv).
  cbn. lia.
Qed.

(* node 2 = B1:B2 as a range node of Model/GraphExpr.v with one column: its
   element (1, 0) is B2 *)
Definition xp_sem (n : nat) (vals : list pyval) : pyval :=
  if n =? 2 then sem_formula (FRange 1) vals else exa_sem n vals.
Example xp_weak : sem_nonblank_weak exaW xp_sem.
Proof.
  apply alias_weak. intros n L I. destruct (Nat.eq_dec n 3) as [->|NE].
  - left. exists 2. repeat split; try reflexivity. cbn. lia.
  - right. intros vals. unfold xp_sem, exa_sem. destruct (n =? 2); [apply graphexpr_range_nonblank|].
    destruct (Nat.eqb_spec n 3); [congruence|discriminate].
Qed.
Example xp_stored : stored_ok exaW xp_sem.
Proof. split; intros; [exfalso|]; auto. Qed.
Example xp_inv : Inv exaW xp_sem (init exaW).
Proof. apply (invariant_weak exaW xp_sem (exa_wf _) xp_weak xp_stored). Qed.
Example xo_path :
  tuple_at (snd (evaluate exaW xp_sem (init exaW) 2)) 1 0 = snd (evaluate exaW xp_sem (init exaW) 1)
  /\ tuple_at (snd (evaluate exaW xp_sem (init exaW) 2)) 1 0
     = snd (evaluate exaW xp_sem (fst (evaluate exaW xp_sem (init exaW) 2)) 1).
Proof.
  apply (path_weak exaW xp_sem (exa_wf _) xp_weak xp_stored (init exaW) 2 1 1 0 xp_inv);
    try (cbn; lia); reflexivity.
Qed.
Example xo_path_value : tuple_at (snd (evaluate exaW xp_sem (init exaW) 2)) 1 0 = VInt 4.
Proof. vm_compute. reflexivity. Qed.
