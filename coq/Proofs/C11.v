(* Proofs/C11.v — address algebra. *)
From Coq Require Import ZArith List Bool Lia.
From PV Require Import Lib.Py Model.Addr.
Import ListNotations.
Open Scope Z_scope.

Lemma inc_col_range c k : 1 <= inc_col c k <= MAX_COL.
Proof. unfold inc_col, MAX_COL. pose proof (Z.mod_pos_bound (c + k - 1) 16384). lia. Qed.
