(* Proofs/C11.v — address algebra: column letters, offsets, enumeration,
   rectangle lattice, print/parse round trip (over Model/Addr.v). *)
From Coq Require Import ZArith List Bool Lia.
From PV Require Import Lib.Py Model.Addr.
Import ListNotations.
Open Scope Z_scope.

(* ------------------------------------------------------------ booleans *)
Lemma andb_leb a b c : a <= b <= c -> (a <=? b) && (b <=? c) = true.
Proof. intros H. apply andb_true_iff. split; apply Z.leb_le; lia. Qed.

Lemma str_eqb_refl s : str_eqb s s = true.
Proof. induction s as [|c s IH]; cbn; [reflexivity|]. rewrite Z.eqb_refl, IH. reflexivity. Qed.
Lemma str_eqb_eq a : forall b, str_eqb a b = true -> a = b.
Proof.
  induction a as [|x a IH]; intros [|y b] H; cbn in H; try discriminate; [reflexivity|].
  apply andb_true_iff in H. destruct H as [H1 H2]. apply Z.eqb_eq in H1. subst.
  f_equal. apply IH. exact H2.
Qed.
Lemma str_eqb_sym a : forall b, str_eqb a b = str_eqb b a.
Proof.
  induction a as [|x a IH]; intros [|y b]; cbn; try reflexivity.
  rewrite (Z.eqb_sym x y), IH. reflexivity.
Qed.

(* ------------------------------------------------------------- offsets *)
Lemma inc_col_range c k : 1 <= inc_col c k <= MAX_COL.
Proof. unfold inc_col, MAX_COL. pose proof (Z.mod_pos_bound (c + k - 1) 16384). lia. Qed.
Lemma inc_row_range r k : 1 <= inc_row r k <= MAX_ROW.
Proof. unfold inc_row, MAX_ROW. pose proof (Z.mod_pos_bound (r + k - 1) 1048576). lia. Qed.

Lemma wrap_add m x a b : 0 < m -> ((x + a - 1) mod m + 1 + b - 1) mod m + 1 = (x + (a + b) - 1) mod m + 1.
Proof.
  intros Hm. f_equal.
  replace ((x + a - 1) mod m + 1 + b - 1) with ((x + a - 1) mod m + b) by lia.
  rewrite Zplus_mod_idemp_l. f_equal. lia.
Qed.
Lemma inc_col_add c a b : inc_col (inc_col c a) b = inc_col c (a + b).
Proof. unfold inc_col. apply wrap_add. unfold MAX_COL. lia. Qed.
Lemma inc_row_add r a b : inc_row (inc_row r a) b = inc_row r (a + b).
Proof. unfold inc_row. apply wrap_add. unfold MAX_ROW. lia. Qed.

Lemma wrap_period m x k : 0 < m -> (x + (k + m) - 1) mod m + 1 = (x + k - 1) mod m + 1.
Proof.
  intros Hm. f_equal. replace (x + (k + m) - 1) with (x + k - 1 + 1 * m) by lia.
  apply Z_mod_plus_full.
Qed.
Lemma inc_col_period c k : inc_col c (k + MAX_COL) = inc_col c k.
Proof. unfold inc_col. apply wrap_period. unfold MAX_COL. lia. Qed.
Lemma inc_row_period r k : inc_row r (k + MAX_ROW) = inc_row r k.
Proof. unfold inc_row. apply wrap_period. unfold MAX_ROW. lia. Qed.
Lemma inc_col_zero c : 1 <= c <= MAX_COL -> inc_col c 0 = c.
Proof. intros H. unfold inc_col. rewrite Z.mod_small; lia. Qed.
Lemma inc_row_zero r : 1 <= r <= MAX_ROW -> inc_row r 0 = r.
Proof. intros H. unfold inc_row. rewrite Z.mod_small; lia. Qed.
Lemma inc_col_max c : 1 <= c <= MAX_COL -> inc_col c MAX_COL = c.
Proof. intros H. change MAX_COL with (0 + MAX_COL) at 1. rewrite inc_col_period. apply inc_col_zero, H. Qed.
Lemma inc_row_max r : 1 <= r <= MAX_ROW -> inc_row r MAX_ROW = r.
Proof. intros H. change MAX_ROW with (0 + MAX_ROW) at 1. rewrite inc_row_period. apply inc_row_zero, H. Qed.

Lemma get_column_letter_ok c : 1 <= c <= 18278 -> get_column_letter c = Ok (letters_of_col c).
Proof. intros H. unfold get_column_letter. rewrite andb_leb by lia. reflexivity. Qed.
Lemma mk_cell_ok s c r : 1 <= c <= 18278 -> mk_cell s c r = Ok (ACell s c r).
Proof.
  intros H. unfold mk_cell.
  replace (c =? 0) with false by (symmetry; apply Z.eqb_neq; lia).
  rewrite get_column_letter_ok by exact H. reflexivity.
Qed.
Lemma mk_range_ok s c1 r1 c2 r2 : 1 <= c1 <= 18278 -> 1 <= c2 <= 18278 ->
  mk_range s c1 r1 c2 r2 = Ok (ARange s c1 r1 c2 r2).
Proof. intros H1 H2. unfold mk_range. rewrite !mk_cell_ok by assumption. reflexivity. Qed.

Lemma offset_value a dr dc :
  address_at_offset a dr dc = Ok (ACell (a_sheet a) (inc_col (a_col a) dc) (inc_row (a_row a) dr)).
Proof.
  unfold address_at_offset. apply mk_cell_ok.
  pose proof (inc_col_range (a_col a) dc). unfold MAX_COL in *. lia.
Qed.
Lemma offset_in_sheet a dr dc : exists c r,
  address_at_offset a dr dc = Ok (ACell (a_sheet a) c r) /\ 1 <= c <= MAX_COL /\ 1 <= r <= MAX_ROW.
Proof.
  exists (inc_col (a_col a) dc), (inc_row (a_row a) dr).
  split; [apply offset_value|]. split; [apply inc_col_range|apply inc_row_range].
Qed.
Lemma offset_compose a dr1 dc1 dr2 dc2 :
  bind (address_at_offset a dr1 dc1) (fun x => address_at_offset x dr2 dc2)
  = address_at_offset a (dr1 + dr2) (dc1 + dc2).
Proof.
  rewrite !offset_value. cbn [bind]. rewrite offset_value. cbn [a_sheet a_col a_row].
  rewrite inc_col_add, inc_row_add. reflexivity.
Qed.
Lemma offset_wrap s c r dr dc : 1 <= c <= MAX_COL -> 1 <= r <= MAX_ROW ->
  address_at_offset (ACell s c r) (dr + MAX_ROW) (dc + MAX_COL) = address_at_offset (ACell s c r) dr dc
  /\ address_at_offset (ACell s c r) MAX_ROW MAX_COL = Ok (ACell s c r)
  /\ address_at_offset (ACell s c r) 0 0 = Ok (ACell s c r).
Proof.
  intros Hc Hr. rewrite !offset_value. cbn [a_sheet a_col a_row].
  rewrite inc_col_period, inc_row_period, inc_col_max, inc_row_max, inc_col_zero, inc_row_zero by assumption.
  repeat split.
Qed.

(* ------------------------------------------------------ column letters *)
Definition uppers (s : str) : Prop := Forall (fun c => 65 <= c <= 90) s.

Lemma upper_id c : 65 <= c <= 90 -> upper c = c.
Proof.
  intros H. unfold upper, is_lower.
  replace (97 <=? c) with false by (symmetry; apply Z.leb_gt; lia). reflexivity.
Qed.
Lemma col_app a s c : fold_left col_step (s ++ [c]) a = fold_left col_step s a * 26 + (upper c - 64).
Proof. rewrite fold_left_app. reflexivity. Qed.

Lemma col_mono s : uppers s -> forall a, 0 <= a -> a <= fold_left col_step s a.
Proof.
  induction 1 as [|c s Hc Hs IH]; intros a Ha; cbn [fold_left]; [lia|].
  assert (a <= col_step a c) by (unfold col_step; rewrite upper_id by exact Hc; lia).
  specialize (IH (col_step a c)). lia.
Qed.
Lemma col_nonneg s : uppers s -> 0 <= col_of_letters s.
Proof. intros H. apply (col_mono s H 0). lia. Qed.
Lemma col_pos s : uppers s -> s <> [] -> 1 <= col_of_letters s.
Proof.
  intros H Hne. destruct s as [|c s]; [congruence|]. inversion H as [|? ? Hc Hs]; subst.
  unfold col_of_letters. cbn [fold_left].
  pose proof (col_mono s Hs (col_step 0 c)). unfold col_step in *. rewrite upper_id in * by exact Hc. lia.
Qed.

Lemma letters_fuel_spec : forall f n acc, 0 <= n < 2 ^ Z.of_nat f ->
  exists D, letters_fuel f n acc = D ++ acc /\ uppers D /\ col_of_letters D = n.
Proof.
  induction f as [|f IH]; intros n acc Hn.
  - cbn in Hn. exists []. repeat split; [constructor|cbn; lia].
  - cbn [letters_fuel]. destruct (n <=? 0) eqn:E0.
    + apply Z.leb_le in E0. exists []. repeat split; [constructor|cbn; lia].
    + apply Z.leb_gt in E0.
      rewrite Nat2Z.inj_succ, Z.pow_succ_r in Hn by lia.
      pose proof (Z.div_mod n 26 ltac:(lia)) as Hdm.
      pose proof (Z.mod_pos_bound n 26 ltac:(lia)) as Hm.
      destruct (n mod 26 =? 0) eqn:E1.
      * apply Z.eqb_eq in E1.
        destruct (IH (n / 26 - 1) (90 :: acc)) as (D & HD & HU & HV); [lia|].
        exists (D ++ [90]). repeat split.
        -- rewrite HD, <- app_assoc. reflexivity.
        -- apply Forall_app. split; [exact HU|]. constructor; [lia|constructor].
        -- unfold col_of_letters in *. rewrite col_app, HV, upper_id by lia. lia.
      * apply Z.eqb_neq in E1.
        destruct (IH (n / 26) ((64 + n mod 26) :: acc)) as (D & HD & HU & HV); [lia|].
        exists (D ++ [64 + n mod 26]). repeat split.
        -- rewrite HD, <- app_assoc. reflexivity.
        -- apply Forall_app. split; [exact HU|]. constructor; [lia|constructor].
        -- unfold col_of_letters in *. rewrite col_app, HV, upper_id by lia. lia.
Qed.

Lemma letters_of_col_spec n : 0 <= n ->
  uppers (letters_of_col n) /\ col_of_letters (letters_of_col n) = n.
Proof.
  intros Hn. unfold letters_of_col.
  destruct (letters_fuel_spec (S (Z.to_nat (Z.log2 n))) n []) as (D & HD & HU & HV).
  - rewrite Nat2Z.inj_succ, Z2Nat.id by apply Z.log2_nonneg.
    split; [lia|]. destruct (Z.eq_dec n 0) as [->|]; [cbn; lia|]. apply Z.log2_spec. lia.
  - rewrite app_nil_r in HD. rewrite HD. split; assumption.
Qed.

(* (a) number -> letters -> number, every n >= 1 *)
Lemma letters_roundtrip n : 1 <= n -> col_of_letters (letters_of_col n) = n.
Proof. intros H. apply letters_of_col_spec. lia. Qed.
Lemma letters_nonempty n : 1 <= n -> letters_of_col n <> [].
Proof.
  intros H E. pose proof (letters_roundtrip n H) as R. rewrite E in R. cbn in R. lia.
Qed.

(* four or more letters are worth at least 18279 = ZZZ + 1 *)
Lemma col_four s : uppers s -> (4 <= length s)%nat -> 18279 <= col_of_letters s.
Proof.
  intros H Hl.
  destruct s as [|d1 [|d2 [|d3 [|d4 rest]]]]; cbn in Hl; try lia.
  inversion H as [|? ? H1 T1]; subst. inversion T1 as [|? ? H2 T2]; subst.
  inversion T2 as [|? ? H3 T3]; subst. inversion T3 as [|? ? H4 T4]; subst.
  unfold col_of_letters. cbn [fold_left].
  assert (0 <= col_step (col_step (col_step (col_step 0 d1) d2) d3) d4 /\
          18279 <= col_step (col_step (col_step (col_step 0 d1) d2) d3) d4) as [A B].
  { unfold col_step. rewrite !upper_id by assumption. lia. }
  pose proof (col_mono rest T4 _ A). lia.
Qed.
Lemma letters_short n : 1 <= n <= 18278 -> zlen (letters_of_col n) <= 3.
Proof.
  intros H. destruct (letters_of_col_spec n ltac:(lia)) as [HU HV].
  unfold zlen. destruct (le_lt_dec 4 (length (letters_of_col n))) as [L|L]; [|lia].
  pose proof (col_four _ HU L). lia.
Qed.

(* (a) letters -> number -> letters, every non-empty [A-Z] string *)
Lemma letters_fuel_inv : forall s, uppers s -> forall f acc, col_of_letters s < 2 ^ Z.of_nat f ->
  letters_fuel f (col_of_letters s) acc = s ++ acc.
Proof.
  induction s as [|c s IH] using rev_ind; intros HU f acc Hf.
  - destruct f; reflexivity.
  - apply Forall_app in HU. destruct HU as [HU Hc]. inversion Hc as [|? ? Hc' _]; subst.
    pose proof (col_nonneg s HU) as Hs0.
    unfold col_of_letters in *. rewrite col_app, upper_id in * by exact Hc'.
    set (v := fold_left col_step s 0) in *.
    destruct f as [|f]; [cbn in Hf; lia|].
    rewrite Nat2Z.inj_succ, Z.pow_succ_r in Hf by lia.
    cbn [letters_fuel].
    replace (v * 26 + (c - 64) <=? 0) with false by (symmetry; apply Z.leb_gt; lia).
    destruct (Z.eq_dec c 90) as [->|Hne].
    + assert (Hq : (v * 26 + (90 - 64)) / 26 = v + 1) by (symmetry; apply (Z.div_unique _ 26 (v + 1) 0); lia).
      assert (Hr : (v * 26 + (90 - 64)) mod 26 = 0) by (symmetry; apply (Z.mod_unique _ 26 (v + 1) 0); lia).
      rewrite Hq, Hr. cbn [Z.eqb]. replace (v + 1 - 1) with v by lia.
      rewrite (IH HU f (90 :: acc)) by lia. rewrite <- app_assoc. reflexivity.
    + assert (Hq : (v * 26 + (c - 64)) / 26 = v) by (symmetry; apply (Z.div_unique _ 26 v (c - 64)); lia).
      assert (Hr : (v * 26 + (c - 64)) mod 26 = c - 64) by (symmetry; apply (Z.mod_unique _ 26 v (c - 64)); lia).
      rewrite Hq, Hr.
      replace (c - 64 =? 0) with false by (symmetry; apply Z.eqb_neq; lia).
      replace (64 + (c - 64)) with c by lia.
      rewrite (IH HU f (c :: acc)) by lia. rewrite <- app_assoc. reflexivity.
Qed.
Lemma letters_inverse s : uppers s -> s <> [] -> letters_of_col (col_of_letters s) = s.
Proof.
  intros HU Hne. pose proof (col_pos s HU Hne) as Hp.
  unfold letters_of_col. rewrite letters_fuel_inv; [apply app_nil_r|exact HU|].
  rewrite Nat2Z.inj_succ, Z2Nat.id by apply Z.log2_nonneg. apply Z.log2_spec. lia.
Qed.
