(* Proofs/C20TextConv.v — _number_token_converter ([conv]/[place]) on digit
   strings, grouping, and the digit-level facts used by C20Text.v. *)
From Coq Require Import ZArith QArith List Bool Lia.
From PV Require Import Lib.Py Model.TextFormat Proofs.Radix Proofs.C20TextSpec Proofs.C20TextTok.
Import ListNotations.
Open Scope Z_scope.

Definition dflt (c : Z) : option Z := if c =? 35 then None else Some 48.

(* ------------------------------------------------ place, one at a time *)
Lemma place_S n df ds :
  place (S n) df ds
  = let '(r1, ds1) := place 1 df ds in let '(r2, ds2) := place n df ds1 in (r1 ++ r2, ds2).
Proof.
  cbn [place]. destruct (next_d df ds) as [[c|] ds1].
  - destruct (is_digit c).
    + destruct (place n df ds1). reflexivity.
    + destruct (next_d df ds1) as [[c2|] ds2]; destruct (place n df ds2); reflexivity.
  - destruct (place n df ds1). reflexivity.
Qed.

Fixpoint fill (phs ds : str) : str * str :=
  match phs with
  | [] => ([], ds)
  | p :: phs' => let '(r1, ds1) := place 1 (dflt p) ds in
                 let '(r2, ds2) := fill phs' ds1 in (r1 ++ r2, ds2)
  end.

Lemma conv_N1 : forall phs rest ds,
  conv (map N1 phs ++ rest) ds [] = let '(r, ds') := fill phs ds in r ++ conv rest ds' [].
Proof.
  induction phs as [|p phs IH]; intros rest ds; [reflexivity|].
  cbn [map app N1 conv fill]. fold (dflt p).
  destruct (place 1 (dflt p) ds) as [r1 ds1]. rewrite IH.
  destruct (fill phs ds1) as [r2 ds2]. cbn [app]. rewrite app_assoc. reflexivity.
Qed.

Lemma conv_filler_N1 p phs rest ds fl :
  conv (map N1 (p :: phs) ++ rest) ds fl = fl ++ conv (map N1 (p :: phs) ++ rest) ds [].
Proof.
  cbn [map app N1 conv]. destruct (place 1 (if p =? 35 then None else Some 48) ds). reflexivity.
Qed.

Lemma conv_strs : forall a ts ds fl, conv (map TStr a ++ ts) ds fl = conv ts ds (fl ++ a).
Proof.
  induction a as [|c a IH]; intros ts ds fl; [cbn [map app]; rewrite app_nil_r; reflexivity|].
  cbn [map app conv]. rewrite IH, <- app_assoc. reflexivity.
Qed.

Lemma conv_only_strs a ds fl : conv (map TStr a) ds fl = ds ++ fl ++ a.
Proof.
  rewrite <- (app_nil_r (map TStr a)), conv_strs. reflexivity.
Qed.

(* -------------------------------------------- invariance under [norm] *)
Lemma conv_repeat c rest : forall m ds fl,
  conv (repeat (N1 c) (S m) ++ rest) ds fl
  = let '(r, ds') := place (S m) (dflt c) ds in fl ++ r ++ conv rest ds' [].
Proof.
  induction m as [|m IH]; intros ds fl; [reflexivity|].
  change (repeat (N1 c) (S (S m))) with (N1 c :: repeat (N1 c) (S m)).
  cbn [app N1 conv]. fold (dflt c). fold (N1 c).
  rewrite (place_S (S m)).
  destruct (place 1 (dflt c) ds) as [r1 ds1]. rewrite IH.
  destruct (place (S m) (dflt c) ds1) as [r2 ds2]. cbn [app]. rewrite <- app_assoc. reflexivity.
Qed.

Lemma conv_norm : forall ts ds fl, Forall pos_tok ts -> conv (norm ts) ds fl = conv ts ds fl.
Proof.
  induction ts as [|t ts IH]; intros ds fl Hp; [reflexivity|].
  inversion Hp as [|? ? Ht Hts]; subst.
  change (norm (t :: ts)) with ((match t with TNum c n => repeat (N1 c) n | _ => [t] end) ++ norm ts).
  destruct t as [c n| |c].
  - destruct n as [|m]; [destruct Ht|].
    rewrite conv_repeat. cbn [conv]. fold (dflt c).
    destruct (place (S m) (dflt c) ds) as [r ds']. rewrite IH by exact Hts. reflexivity.
  - cbn [app conv]. apply IH. exact Hts.
  - cbn [app conv]. apply IH. exact Hts.
Qed.

Lemma split_dot_repeat c : forall n l,
  split_dot (repeat (N1 c) n ++ l) = let '(a, b) := split_dot l in (repeat (N1 c) n ++ a, b).
Proof.
  induction n as [|n IH]; intros l; [cbn [repeat app]; destruct (split_dot l); reflexivity|].
  cbn [repeat app N1 split_dot]. fold (N1 c). rewrite IH. destruct (split_dot l). reflexivity.
Qed.

Lemma split_dot_norm : forall ts,
  split_dot (norm ts) = let '(a, b) := split_dot ts in (norm a, norm b).
Proof.
  induction ts as [|t ts IH]; [reflexivity|].
  change (norm (t :: ts)) with ((match t with TNum c n => repeat (N1 c) n | _ => [t] end) ++ norm ts).
  destruct t as [c n| |c].
  - rewrite split_dot_repeat, IH. cbn [split_dot]. destruct (split_dot ts) as [a b]. reflexivity.
  - reflexivity.
  - cbn [app split_dot]. rewrite IH. destruct (split_dot ts) as [a b]. reflexivity.
Qed.

Lemma split_dot_pos : forall ts, Forall pos_tok ts ->
  Forall pos_tok (fst (split_dot ts)) /\ Forall pos_tok (snd (split_dot ts)).
Proof.
  induction ts as [|t ts IH]; intros Hp; [split; constructor|].
  inversion Hp as [|? ? Ht Hts]; subst. destruct (IH Hts) as [A B].
  destruct t; cbn [split_dot]; try (split; [constructor|assumption]);
    destruct (split_dot ts); cbn [fst snd] in *; (split; [constructor; assumption|assumption]).
Qed.

Lemma count_ph_repeat c : forall n l, count_ph (repeat (N1 c) n ++ l) = (n + count_ph l)%nat.
Proof. induction n as [|n IH]; intros l; [reflexivity|]. cbn [repeat app N1 count_ph]. fold (N1 c). rewrite IH. lia. Qed.

Lemma count_ph_norm : forall ts, count_ph (norm ts) = count_ph ts.
Proof.
  induction ts as [|t ts IH]; [reflexivity|].
  change (norm (t :: ts)) with ((match t with TNum c n => repeat (N1 c) n | _ => [t] end) ++ norm ts).
  destruct t as [c n| |c]; [rewrite count_ph_repeat|cbn [app count_ph]|cbn [app count_ph]]; rewrite IH; reflexivity.
Qed.

Lemma existsb_norm : forall ts,
  existsb is_number_tok (norm ts) = true -> existsb is_number_tok ts = true.
Proof.
  induction ts as [|t ts IH]; [auto|].
  destruct t as [c n| |c]; try reflexivity.
  change (norm (TStr c :: ts)) with (TStr c :: norm ts). cbn [existsb is_number_tok orb]. exact IH.
Qed.

(* split_dot on explicit lists *)
Definition nodot (t : tok) : bool := match t with TDot => false | _ => true end.
Lemma split_dot_at : forall a b, forallb nodot a = true -> split_dot (a ++ TDot :: b) = (a, b).
Proof.
  induction a as [|t a IH]; intros b H; [reflexivity|].
  cbn [forallb] in H. apply andb_true_iff in H. destruct H as [Ht H].
  destruct t; try discriminate; cbn [app split_dot]; rewrite IH by exact H; reflexivity.
Qed.
Lemma split_dot_none : forall a, forallb nodot a = true -> split_dot a = (a, []).
Proof.
  induction a as [|t a IH]; intros H; [reflexivity|].
  cbn [forallb] in H. apply andb_true_iff in H. destruct H as [Ht H].
  destruct t; try discriminate; cbn [split_dot]; rewrite IH by exact H; reflexivity.
Qed.
Lemma nodot_N1 s : forallb nodot (map N1 s) = true.
Proof. induction s; [reflexivity|exact IHs]. Qed.
Lemma nodot_strs s : forallb nodot (map TStr s) = true.
Proof. induction s; [reflexivity|exact IHs]. Qed.
Lemma count_ph_N1 : forall s l, count_ph (map N1 s ++ l) = (length s + count_ph l)%nat.
Proof. induction s as [|c s IH]; intros l; [reflexivity|]. cbn [map app N1 count_ph length]. fold (N1 c). rewrite IH. lia. Qed.
Lemma count_ph_strs : forall s, count_ph (map TStr s) = O.
Proof. induction s; [reflexivity|exact IHs]. Qed.
Lemma repeat_TStr c k : repeat (TStr c) k = map TStr (repeat c k).
Proof. induction k as [|k IH]; [reflexivity|]. cbn [repeat map]. rewrite IH. reflexivity. Qed.

(* ------------------------------------------ the placeholders eat digits *)
Definition digitc (c : Z) : Prop := is_digit c = true.
Definition phc (c : Z) : Prop := ph c = true.

Lemma place1_digit df d ds : digitc d -> place 1 df (d :: ds) = ([d], ds).
Proof. intros H. cbn [place next_d]. rewrite H. reflexivity. Qed.
Lemma place1_comma df d ds : place 1 df (44 :: d :: ds) = ([44; d], ds).
Proof. reflexivity. Qed.
Lemma place1_nil p : phc p -> place 1 (dflt p) [] = (zeros_of [p], []).
Proof.
  unfold phc, ph. intros H. apply orb_true_iff in H.
  destruct H as [H|H]; apply Z.eqb_eq in H; subst p; reflexivity.
Qed.
Lemma zeros_of_cons p s : zeros_of (p :: s) = zeros_of [p] ++ zeros_of s.
Proof. unfold zeros_of. cbn [filter]. destruct (p =? 48); reflexivity. Qed.

Lemma fill_nil : forall phs, Forall phc phs -> fill phs [] = (zeros_of phs, []).
Proof.
  induction phs as [|p phs IH]; intros H; [reflexivity|].
  inversion H as [|? ? Hp Hs]; subst. cbn [fill]. rewrite (place1_nil p Hp), (IH Hs).
  rewrite (zeros_of_cons p phs). reflexivity.
Qed.

Lemma fill_plain : forall phs D, Forall phc phs -> Forall digitc D ->
  let '(r, ds') := fill phs D in r ++ ds' = D ++ zeros_of (skipn (length D) phs).
Proof.
  induction phs as [|p phs IH]; intros D Hp HD.
  - cbn [fill app]. rewrite skipn_nil. cbn. rewrite app_nil_r. reflexivity.
  - inversion Hp as [|? ? Hp1 Hps]; subst.
    destruct D as [|d D].
    + rewrite (fill_nil (p :: phs) Hp). cbn [length skipn app]. apply app_nil_r.
    + inversion HD as [|? ? Hd HD']; subst. cbn [fill]. rewrite (place1_digit _ d D Hd).
      specialize (IH D Hps HD'). destruct (fill phs D) as [r2 ds2].
      cbn [length skipn app]. rewrite IH. reflexivity.
Qed.

Lemma fill_grouped : forall phs D k, Forall phc phs -> Forall digitc D ->
  let '(r, ds') := fill phs (group_rev D k) in
  r ++ ds' = group_rev D k ++ zeros_of (skipn (length D) phs).
Proof.
  induction phs as [|p phs IH]; intros D k Hp HD.
  - cbn [fill app]. rewrite skipn_nil. cbn. rewrite app_nil_r. reflexivity.
  - inversion Hp as [|? ? Hp1 Hps]; subst.
    destruct D as [|d D].
    + cbn [group_rev]. rewrite (fill_nil (p :: phs) Hp). cbn [length skipn app]. apply app_nil_r.
    + inversion HD as [|? ? Hd HD']; subst.
      assert (Hk : group_rev (d :: D) k
                   = (if Nat.eqb k 3 then [44; d] else [d]) ++ group_rev D (if Nat.eqb k 3 then 1 else S k)).
      { destruct k as [|[|[|[|k]]]]; reflexivity. }
      rewrite Hk. cbn [fill].
      destruct (Nat.eqb k 3).
      * cbn [app]. rewrite place1_comma.
        specialize (IH D 1%nat Hps HD'). destruct (fill phs (group_rev D 1)) as [r2 ds2].
        cbn [length skipn app]. rewrite IH. reflexivity.
      * cbn [app]. rewrite (place1_digit _ d _ Hd).
        specialize (IH D (S k) Hps HD'). destruct (fill phs (group_rev D (S k))) as [r2 ds2].
        cbn [length skipn app]. rewrite IH. reflexivity.
Qed.

(* ------------------------------------------------------------- grouping *)
Lemma group_rev_3 l : group_rev l 3 = match l with [] => [] | _ => 44 :: group_rev l 0 end.
Proof. destruct l; reflexivity. Qed.

Lemma group_rev_commas : forall n l, (length l <= n)%nat -> group_rev l 0 = commas_lsd l.
Proof.
  induction n as [|n IH]; intros l H.
  - destruct l; [reflexivity|cbn in H; lia].
  - destruct l as [|a [|b [|c [|d r]]]]; try reflexivity.
    cbn [group_rev commas_lsd]. do 4 f_equal.
    change (d :: group_rev r 1) with (group_rev (d :: r) 0).
    apply IH. cbn [length] in *. lia.
Qed.

Lemma group3_model s : rev (group_rev (rev s) 0) = group3 s.
Proof. unfold group3. rewrite (group_rev_commas (length (rev s))) by lia. reflexivity. Qed.

(* the two equations that determine group3 *)
Lemma group3_short s : (length s <= 3)%nat -> group3 s = s.
Proof.
  intros H. unfold group3.
  assert (E : commas_lsd (rev s) = rev s).
  { assert (L : (length (rev s) <= 3)%nat) by (rewrite rev_length; exact H).
    destruct (rev s) as [|a [|b [|c [|d r]]]]; try reflexivity. cbn [length] in L. lia. }
  rewrite E. apply rev_involutive.
Qed.
Lemma group3_step s a b c : s <> [] -> group3 (s ++ [a; b; c]) = group3 s ++ [44; a; b; c].
Proof.
  intros H. unfold group3. rewrite rev_app_distr. cbn [rev app].
  destruct (rev s) as [|d r] eqn:E.
  - apply (f_equal (@rev Z)) in E. rewrite rev_involutive in E. contradiction.
  - cbn [commas_lsd]. cbn [rev]. rewrite <- !app_assoc. reflexivity.
Qed.
Lemma filter_rev' {A} (f : A -> bool) : forall l, filter f (rev l) = rev (filter f l).
Proof.
  induction l as [|a l IH]; [reflexivity|].
  cbn [rev filter]. rewrite filter_app, IH. cbn [filter]. destruct (f a); [reflexivity|apply app_nil_r].
Qed.

Lemma group3_digits s : filter (fun c => negb (c =? 44)) (group3 s) = filter (fun c => negb (c =? 44)) s.
Proof.
  unfold group3.
  assert (E : forall n l, (length l <= n)%nat ->
              filter (fun c => negb (c =? 44)) (commas_lsd l) = filter (fun c => negb (c =? 44)) l).
  { induction n as [|n IH]; intros l H.
    - destruct l; [reflexivity|cbn in H; lia].
    - destruct l as [|a [|b [|c [|d r]]]]; try reflexivity.
      change (commas_lsd (a :: b :: c :: d :: r)) with (a :: b :: c :: 44 :: commas_lsd (d :: r)).
      assert (IH' := IH (d :: r) ltac:(cbn [length] in *; lia)).
      cbn [filter] in *. change (negb (44 =? 44)) with false. cbv iota.
      rewrite IH'. reflexivity. }
  rewrite filter_rev', (E (length (rev s))) by lia.
  rewrite filter_rev', rev_involutive. reflexivity.
Qed.

Lemma group_rev_last : forall l a k, exists g, group_rev (l ++ [a]) k = g ++ [a].
Proof.
  induction l as [|d l IH]; intros a k.
  - destruct k as [|[|[|[|k]]]]; cbn [app group_rev];
      try (exists []; reflexivity). exists [44]. reflexivity.
  - cbn [app].
    destruct k as [|[|[|[|k]]]]; cbn [group_rev];
      match goal with |- context [group_rev (l ++ [a]) ?j] => destruct (IH a j) as [g E]; rewrite E end;
      try (exists (d :: g); reflexivity). exists (44 :: d :: g). reflexivity.
Qed.

(* ------------------------------------------------------------- digits *)
Lemma str_of_Z_nonneg n : 0 <= n -> str_of_Z n = digits 10 n.
Proof. intros H. unfold str_of_Z. replace (n <? 0) with false by (symmetry; apply Z.ltb_ge; lia). reflexivity. Qed.

Lemma dchar_digit d : 0 <= d < 10 -> digitc (dchar d) /\ dchar d = 48 + d.
Proof.
  intros H. unfold dchar. replace (d <? 10) with true by (symmetry; apply Z.ltb_lt; lia).
  split; [|reflexivity]. unfold digitc, is_digit. apply andb_true_iff. split; apply Z.leb_le; lia.
Qed.

Lemma str_of_Z_digits n : 0 <= n -> Forall digitc (str_of_Z n).
Proof.
  intros H. rewrite str_of_Z_nonneg by exact H.
  destruct (digits_spec 10 ltac:(lia) n H) as (D & HD & _ & _ & Hall & _).
  rewrite HD. eapply Forall_impl; [|exact Hall].
  intros c (d & -> & Hd). apply dchar_digit. exact Hd.
Qed.

Lemma horner_bound : forall D, Forall (fun c => exists d, c = dchar d /\ 0 <= d < 10) D ->
  0 <= horner 10 0 D < 10 ^ Z.of_nat (length D).
Proof.
  induction D as [|c D IH] using rev_ind; intros H.
  - cbn. lia.
  - apply Forall_app in H. destruct H as [HD Hc]. inversion Hc as [|? ? (d & -> & Hd) _]; subst.
    specialize (IH HD). rewrite horner_app.
    assert (E : horner 10 (horner 10 0 D) [dchar d] = horner 10 0 D * 10 + d).
    { unfold horner at 1. cbn [fold_left]. rewrite (dchar_valid 10 d Hd) by lia. reflexivity. }
    rewrite E.
    rewrite app_length. cbn [length]. rewrite Nat2Z.inj_add. change (Z.of_nat 1) with 1.
    rewrite Z.pow_add_r, Z.pow_1_r by lia. lia.
Qed.

(* no leading zero *)
Lemma str_of_Z_head n : 0 < n -> exists c s, str_of_Z n = c :: s /\ c <> 48.
Proof.
  intros H. rewrite str_of_Z_nonneg by lia.
  destruct (digits_spec 10 ltac:(lia) n ltac:(lia)) as (D & HD & Hne & Hv & Hall & _ & Hlow & _).
  rewrite HD. destruct D as [|c D]; [contradiction|]. exists c, D. split; [reflexivity|].
  intros Hc48. rewrite Hc48 in *. inversion Hall as [|c' D' (d & Hc & Hd) HallD [Ec' ED']].
  assert (d = 0) by (destruct (dchar_digit d Hd) as [_ E]; lia).
  specialize (Hlow H). cbn [length] in Hlow.
  replace (Z.of_nat (S (length D)) - 1) with (Z.of_nat (length D)) in Hlow by lia.
  pose proof (horner_bound D HallD) as B.
  assert (E : horner 10 0 (48 :: D) = horner 10 0 D) by reflexivity.
  rewrite E in Hv. lia.
Qed.

Lemma lstrip0_head c s : c <> 48 -> lstrip0 (c :: s) = c :: s.
Proof. intros H. cbn [lstrip0]. destruct (Z.eqb_spec c 48); [contradiction|reflexivity]. Qed.

(* lstrip of the (grouped) digits of i = the (grouped) digits of i, none for 0 *)
Lemma left_digits (thou : bool) i : 0 <= i ->
  lstrip0 (if thou then rev (group_rev (rev (str_of_Z i)) 0) else str_of_Z i)
  = if thou then rev (group_rev (rev (idigits i)) 0) else idigits i.
Proof.
  intros H. unfold idigits. destruct (Z.eqb_spec i 0) as [->|Hne].
  - destruct thou; reflexivity.
  - destruct (str_of_Z_head i ltac:(lia)) as (c & s & E & Hc). rewrite E.
    destruct thou; [|apply lstrip0_head; exact Hc].
    cbn [rev]. destruct (group_rev_last (rev s) c 0) as [g Eg]. rewrite Eg.
    rewrite rev_app_distr. cbn [rev app]. apply lstrip0_head. exact Hc.
Qed.

Lemma idigits_digits i : 0 <= i -> Forall digitc (idigits i).
Proof. intros H. unfold idigits. destruct (i =? 0); [constructor|apply str_of_Z_digits; exact H]. Qed.

(* rstrip *)
Lemma lstrip0_snoc : forall l c,
  lstrip0 (l ++ [c]) = match lstrip0 l with
                       | [] => if c =? 48 then [] else [c]
                       | _ => lstrip0 l ++ [c]
                       end.
Proof.
  induction l as [|d l IH]; intros c; [reflexivity|].
  cbn [app lstrip0]. destruct (d =? 48); [apply IH|reflexivity].
Qed.

Lemma rstrip0_drop : forall s, rstrip0 s = drop_trailing0 s.
Proof.
  unfold rstrip0. induction s as [|c s IH]; [reflexivity|].
  cbn [rev drop_trailing0]. rewrite lstrip0_snoc, <- IH.
  destruct (lstrip0 (rev s)) as [|t l].
  - cbn [rev]. destruct (c =? 48); reflexivity.
  - rewrite rev_app_distr. cbn [rev app].
    destruct (rev l ++ [t]) as [|u v] eqn:E; [destruct (rev l); discriminate|reflexivity].
Qed.

Lemma drop_trailing0_forall (P : Z -> Prop) : forall s, Forall P s -> Forall P (drop_trailing0 s).
Proof.
  induction s as [|c s IH]; intros H; [constructor|].
  inversion H as [|? ? Hc Hs]; subst. cbn [drop_trailing0]. specialize (IH Hs).
  destruct (drop_trailing0 s).
  - destruct (c =? 48); [constructor|constructor; [exact Hc|constructor]].
  - constructor; assumption.
Qed.

Lemma fdigits_digits d r : 0 <= r -> Forall digitc (fdigits d r).
Proof.
  intros H. unfold fdigits, zpad. apply drop_trailing0_forall. apply Forall_app. split.
  - clear. induction (d - length (str_of_Z r))%nat; constructor; [reflexivity|assumption].
  - apply str_of_Z_digits. exact H.
Qed.

(* what the dropped zeros were *)
Lemma drop_trailing0_spec : forall s,
  exists j, s = drop_trailing0 s ++ repeat 48 j /\ last (drop_trailing0 s) 0 <> 48.
Proof.
  induction s as [|c s (j & E & L)].
  - exists O. split; [reflexivity|cbn; lia].
  - cbn [drop_trailing0]. destruct (drop_trailing0 s) as [|u v] eqn:D.
    + destruct (Z.eqb_spec c 48) as [->|Hc].
      * exists (S j). split; [cbn [repeat app]; rewrite E at 1; reflexivity|cbn; lia].
      * exists j. split; [cbn [app]; rewrite E at 1; reflexivity|exact Hc].
    + exists j. split; [cbn [app]; rewrite E at 1; reflexivity|exact L].
Qed.

(* the d-digit rendering of r < 10^d: d digits with value r *)
Lemma zpad_value d r : 0 <= r < 10 ^ Z.of_nat d ->
  length (zpad d (str_of_Z r)) = Nat.max d 1 /\ horner 10 0 (zpad d (str_of_Z r)) = r
  /\ Forall digitc (zpad d (str_of_Z r)).
Proof.
  intros H. rewrite str_of_Z_nonneg by lia.
  destruct (digits_spec 10 ltac:(lia) r ltac:(lia)) as (D & HD & Hne & Hv & Hall & Hlen & _ & _).
  rewrite HD. unfold zpad.
  assert (L1 : (1 <= length D)%nat) by (destruct D; [contradiction|cbn; lia]).
  assert (L2 : (length D <= Nat.max d 1)%nat).
  { destruct d as [|d]; [cbn in H; assert (r = 0) by lia; subst r;
                         specialize (Hlen 1 ltac:(lia) ltac:(lia)); lia|].
    specialize (Hlen (Z.of_nat (S d)) ltac:(lia) ltac:(lia)). lia. }
  repeat split.
  - rewrite app_length, repeat_length. lia.
  - rewrite horner_app.
    assert (Z0 : forall k, horner 10 0 (repeat 48 k) = 0) by (induction k; [reflexivity|exact IHk]).
    rewrite Z0. exact Hv.
  - apply Forall_app. split.
    + clear. induction (d - length D)%nat; constructor; [reflexivity|assumption].
    + eapply Forall_impl; [|exact Hall]. intros c (x & -> & Hx). apply dchar_digit. exact Hx.
Qed.
