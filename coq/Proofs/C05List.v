(* Proofs/C05List.v — C05, the access paths and orders that Proofs/C05.v left to
   the oracle, for the machine of Model/Graph.v and the list form of evaluate
   (Model/C05List.v):
     list_path     evaluate(list of addresses) returns, at every position, what
                   evaluate of that address alone returns, whatever the other
                   members and their order;
     built_iff     the cell map after evaluating a list = the start cell map
                   plus the members and all their ancestors;
     settled       every built formula/range node holds a value (true at the
                   start, kept by evaluate);
     permutation   two lists with the same members (in particular two
                   permutations) give the same values per address and
                   pointwise EQUAL final machine states;
     idempotent    after any Build/Evaluate history in which n was evaluated,
                   evaluate of n or of any ancestor of n returns the cached
                   value and leaves the WHOLE state unchanged;
     unbounded     element (i, j) of the value of the reference node of an
                   unbounded range (alias of a bounded range node) is the value
                   of the member cell;
     valued_is_spec / states_agree   after any history every non-empty cache
                   entry is the from-scratch value;
     run_valued_iff    EXACTLY which entries hold a value after a Build/Evaluate
                   history: those that did, the newly built cells with a stored
                   result, the newly built range nodes with their ancestors, the
                   evaluated nodes with their ancestors;
     history_order     hence two histories with the same operations end in
                   pointwise equal states (and same_members / permutation /
                   list_repeat need no side condition on the start state);
     history_values    the value an operation returns does not depend on its
                   position in the history;
     path_any_range    one cell through any two range nodes that contain it.
   Everything is proved under the strong non-blank condition first and then
   transferred to the weak one (Proofs/C01Weak.v), which is the form in
   Props/C05.v (sem_nonblank implies sem_nonblank_weak: nonblank_weaken). *)
From Coq Require Import List Arith Bool Lia Permutation.
From PV Require Import Lib.Py Model.Graph Model.GraphExpr Model.C05List.
From PV Require Import Proofs.C01Base Proofs.C01Eval Proofs.C01Inv Proofs.C01 Proofs.C01Weak
                       Proofs.C01Alias Proofs.C05 Proofs.C05Weak Proofs.C05WeakMore.
Import ListNotations.
Local Open Scope nat_scope.

Lemma evaluate_list_cons W sem s a l :
  evaluate_list W sem s (a :: l) =
  (fst (evaluate_list W sem (fst (evaluate W sem s a)) l),
   snd (evaluate W sem s a) :: snd (evaluate_list W sem (fst (evaluate W sem s a)) l)).
Proof.
  cbn [evaluate_list]. destruct (evaluate W sem s a) as [s1 v]. cbn [fst snd].
  destruct (evaluate_list W sem s1 l); auto.
Qed.

(* the list form is the history "Evaluate a1; ...; Evaluate ak" *)
Lemma evaluate_list_run W sem : forall l s,
  evaluate_list W sem s l = run W sem s (map Evaluate l).
Proof.
  induction l as [|a l IH]; intros s; [reflexivity|].
  rewrite evaluate_list_cons. cbn [map]. rewrite run_cons. cbn [step]. now rewrite IH.
Qed.

Lemma run_app_fst W sem : forall h1 h2 s,
  fst (run W sem s (h1 ++ h2)) = fst (run W sem (fst (run W sem s h1)) h2).
Proof.
  induction h1 as [|o h1 IH]; intros h2 s; [reflexivity|].
  cbn [app]. rewrite !run_cons. cbn [fst]. apply IH.
Qed.

(* every built formula/range node holds a value *)
Definition settled (W : workbook) (s : state) : Prop :=
  forall m, st_built s m = true -> wb_input W m = false -> st_cache s m <> VNone.

Lemma settled_init W : settled W (init W).
Proof. intros m B. discriminate. Qed.

Section Strong.
  Variable W : workbook.
  Variable sem : nat -> list pyval -> pyval.
  Hypothesis WF : wf W.
  Hypothesis NB : sem_nonblank W sem.
  Hypothesis SO : stored_ok W sem.

  Notation N := (wb_n W).
  Notation deps := (wb_deps W).
  Notation isinput := (wb_input W).
  Notation Inv := (Inv W sem).
  Notation evaluate := (evaluate W sem).
  Notation evaluate_list := (evaluate_list W sem).
  Notation settled := (settled W).
  Notation be_op := (be_op W).

  Definition ltN (l : list nat) : Prop := Forall (fun a => a < N) l.

  (* ------------------------------------------------------------ list_path *)
  Lemma evaluate_same s s' n : Inv s -> Inv s' -> n < N ->
    (forall k, isinput k = true -> st_cache s' k = st_cache s k) ->
    snd (evaluate s' n) = snd (evaluate s n).
  Proof.
    intros I I' L E.
    destruct (evaluate_inv W sem WF NB s n SO I L) as (_ & V & _).
    destruct (evaluate_inv W sem WF NB s' n SO I' L) as (_ & V' & _).
    rewrite V, V'. apply spec_ext; auto.
  Qed.

  Lemma list_inv : forall l s, Inv s -> ltN l ->
    Inv (fst (evaluate_list s l))
    /\ (forall k, isinput k = true -> st_cache (fst (evaluate_list s l)) k = st_cache s k)
    /\ snd (evaluate_list s l) = map (fun a => snd (evaluate s a)) l.
  Proof.
    induction l as [|a l IH]; intros s I F; [cbn; auto|].
    inversion F as [|? ? La Fl]; subst. rewrite evaluate_list_cons. cbn [fst snd map].
    destruct (evaluate_inv W sem WF NB s a SO I La) as (I1 & _ & K1).
    destruct (IH _ I1 Fl) as (I2 & K2 & E2). split; [exact I2|]. split.
    - intros k Ik. rewrite K2, K1; auto.
    - f_equal. rewrite E2. apply map_ext_in. intros x Hx.
      apply evaluate_same; auto. unfold ltN in Fl. rewrite Forall_forall in Fl. auto.
  Qed.

  Theorem list_path s l : Inv s -> ltN l ->
    snd (evaluate_list s l) = map (fun a => snd (evaluate s a)) l
    /\ forall i, i < length l ->
         nth i (snd (evaluate_list s l)) VNone = snd (evaluate s (nth i l 0)).
  Proof.
    intros I F. destruct (list_inv l s I F) as (_ & _ & E). split; [exact E|].
    intros i Hi. rewrite E.
    rewrite (nth_indep _ VNone (snd (evaluate s 0))) by (rewrite map_length; auto).
    apply (map_nth (fun a => snd (evaluate s a))).
  Qed.

  (* ------------------------------------------------------ the cell map *)
  Lemma closure_sub : forall f n b, n < f -> n < N ->
    forall m, closure W f b n m = true -> b m = true \/ m = n \/ anc W m n.
  Proof.
    induction f as [|f IH]; intros n b Lf L m; [lia|]. rewrite closure_unfold.
    destruct (b n) eqn:Bn; [auto|].
    assert (F: forall l, (forall d, In d l -> In d (deps n)) ->
               forall b1 x, fold_left (fun b d => closure W f b d) l b1 x = true ->
                            b1 x = true \/ anc W x n).
    { induction l as [|d l IHl]; intros Hl b1 x; cbn [fold_left]; auto.
      intros H.
      destruct (IHl ltac:(intros; apply Hl; right; auto) _ x H) as [H1|H1]; auto.
      assert (Hd : In d (deps n)) by (apply Hl; left; auto).
      pose proof (deps_lt W WF n d L Hd) as Ld.
      destruct (IH d b1 ltac:(lia) ltac:(lia) x H1) as [H2|[->|H2]]; auto.
      - right. now constructor.
      - right. eapply anc_trans; eauto. }
    intros H. destruct (F (deps n) ltac:(auto) _ m H) as [H1|H1]; auto.
    cbv beta in H1. destruct (Nat.eqb_spec m n); auto.
  Qed.

  Lemma build_built_iff s n : Inv s -> n < N -> forall m,
    st_built (build W sem s n) m = true <-> st_built s m = true \/ m = n \/ anc W m n.
  Proof.
    intros I L m. rewrite build_unfold. cbn zeta. cbn [st_built].
    destruct (closure_props W WF (st_built s) n L (inv_lt W sem s I) (inv_deps W sem s I))
      as (C1 & C2 & C3 & C4).
    split.
    - apply closure_sub; auto.
    - intros [H|[->|A]]; auto. eapply anc_closed; eauto.
  Qed.

  Lemma evaluate_built s n : st_built (fst (evaluate s n)) = st_built (build W sem s n).
  Proof. rewrite evaluate_unfold. reflexivity. Qed.

  Lemma evaluate_built_iff s n : Inv s -> n < N -> forall m,
    st_built (fst (evaluate s n)) m = true <-> st_built s m = true \/ m = n \/ anc W m n.
  Proof. intros I L m. rewrite evaluate_built. now apply build_built_iff. Qed.

  Lemma list_built_iff : forall l s, Inv s -> ltN l -> forall m,
    st_built (fst (evaluate_list s l)) m = true
    <-> st_built s m = true \/ exists n, In n l /\ (m = n \/ anc W m n).
  Proof.
    induction l as [|a l IH]; intros s I F m.
    - cbn. split; auto. intros [H|[n [[] _]]]; auto.
    - inversion F as [|? ? La Fl]; subst. rewrite evaluate_list_cons. cbn [fst].
      destruct (evaluate_inv W sem WF NB s a SO I La) as (I1 & _ & _).
      rewrite (IH _ I1 Fl m), (evaluate_built_iff s a I La m). split.
      + intros [[H|H]|[n [Hn H]]]; auto.
        * right. exists a. split; [left; auto|auto].
        * right. exists n. split; [right; auto|auto].
      + intros [H|[n [[->|Hn] H]]]; auto.
        right. exists n. auto.
  Qed.

  (* ------------------------------------------------- values are kept *)
  Lemma build_keeps s n m : Inv s -> n < N -> st_built s m = true -> st_cache s m <> VNone ->
    st_cache (build W sem s n) m = st_cache s m.
  Proof.
    intros I L B H. rewrite build_unfold. cbn zeta. cbn [st_cache].
    set (b' := closure W (S N) (st_built s) n).
    destruct (closure_props W WF (st_built s) n L (inv_lt W sem s I) (inv_deps W sem s I))
      as (C1 & C2 & C3 & C4).
    fold b' in C1, C2, C3, C4.
    destruct (bfold W sem WF NB s b' C3 C4 (seq 0 N) (build_c1 W s b')
                (build_c1_coherent W sem WF s b' I)) as [E _].
    assert (E0: build_c1 W s b' m = st_cache s m).
    { unfold build_c1, fresh. rewrite B. cbn [negb]. rewrite andb_false_r. reflexivity. }
    rewrite <- E0. eapply ext_some; [exact E|]. now rewrite E0.
  Qed.

  Lemma evaluate_keeps s n m : Inv s -> n < N -> st_built s m = true ->
    st_built (fst (evaluate s n)) m = true
    /\ (st_cache s m <> VNone -> st_cache (fst (evaluate s n)) m = st_cache s m).
  Proof.
    intros I L B. split.
    - apply evaluate_built_iff; auto.
    - intros H. rewrite evaluate_unfold. cbn [fst st_cache].
      pose proof (build_inv W sem WF NB s n SO I L) as I1.
      destruct (eval_top W sem WF NB _ n L (Inv_coherent W sem _ I1)) as (E & _ & _).
      rewrite <- (build_keeps s n m I L B H).
      eapply ext_some; [exact E|]. now rewrite build_keeps.
  Qed.

  Lemma evaluate_valued s n : Inv s -> n < N ->
    st_built (fst (evaluate s n)) n = true
    /\ (isinput n = false -> st_cache (fst (evaluate s n)) n <> VNone).
  Proof.
    intros I L. split; [apply evaluate_built_iff; auto|].
    intros In. rewrite evaluate_unfold. cbn [fst st_cache].
    apply (eval_top W sem WF NB); auto. apply Inv_coherent. now apply build_inv.
  Qed.

  (* in a state of the invariant a node with a value has valued precedents *)
  Lemma dep_valued s n a : Inv s -> st_built s n = true -> st_cache s n <> VNone ->
    In a (deps n) -> isinput a = false -> st_cache s a <> VNone.
  Proof.
    intros I B H Hd Ia E. apply H.
    apply (Inv_I2 W sem s I a n); auto. eapply inv_deps; eauto.
  Qed.

  Lemma anc_valued s : Inv s -> forall m n, anc W m n -> st_built s n = true ->
    st_cache s n <> VNone -> isinput m = false ->
    st_built s m = true /\ st_cache s m <> VNone.
  Proof.
    intros I m n A. induction A as [a n Hd|a b n A IH Hd]; intros B H Ia.
    - split; [eapply inv_deps; eauto|apply (dep_valued s n a); auto].
    - assert (Bb: st_built s b = true) by (eapply inv_deps; eauto).
      assert (Lb: b < N) by (eapply inv_lt; eauto).
      assert (Ib: isinput b = false) by (eapply anc_noninput; eauto).
      apply IH; auto. apply (dep_valued s n b); auto.
  Qed.

  (* ---------------------------------------------------------- settled *)
  Lemma settled_evaluate s n : Inv s -> settled s -> n < N -> settled (fst (evaluate s n)).
  Proof.
    intros I S L m B' Im.
    destruct (evaluate_inv W sem WF NB s n SO I L) as (I1 & _ & _).
    destruct (evaluate_valued s n I L) as [Bn Vn].
    apply (evaluate_built_iff s n I L m) in B'. destruct B' as [B|[->|A]].
    - destruct (evaluate_keeps s n m I L B) as [_ K]. rewrite K; auto.
    - auto.
    - assert (In: isinput n = false) by (eapply anc_noninput; eauto).
      eapply anc_valued; eauto.
  Qed.

  Lemma settled_list : forall l s, Inv s -> settled s -> ltN l ->
    settled (fst (evaluate_list s l)).
  Proof.
    induction l as [|a l IH]; intros s I S F; [exact S|].
    inversion F as [|? ? La Fl]; subst. rewrite evaluate_list_cons. cbn [fst].
    destruct (evaluate_inv W sem WF NB s a SO I La) as (I1 & _ & _).
    apply IH; auto. now apply settled_evaluate.
  Qed.

  (* a settled state of the invariant is determined by its cell map and its
     input entries *)
  Lemma state_determined s1 s2 : Inv s1 -> Inv s2 -> settled s1 -> settled s2 ->
    (forall m, st_built s1 m = st_built s2 m) ->
    (forall k, isinput k = true -> st_cache s1 k = st_cache s2 k) ->
    forall m, st_cache s1 m = st_cache s2 m.
  Proof.
    intros I1 I2 S1 S2 EB EI m. destruct (isinput m) eqn:Im; [auto|].
    destruct (st_built s1 m) eqn:B1.
    - assert (B2: st_built s2 m = true) by (now rewrite <- EB).
      rewrite (Inv_I1 W sem s1 I1 m B1 Im (S1 m B1 Im)).
      rewrite (Inv_I1 W sem s2 I2 m B2 Im (S2 m B2 Im)).
      apply spec_ext; auto. eapply inv_lt; eauto.
    - assert (B2: st_built s2 m = false) by (now rewrite <- EB).
      rewrite (inv_unbuilt W sem s1 I1 m B1), (inv_unbuilt W sem s2 I2 m B2). reflexivity.
  Qed.

  (* ------------------------------------------------------ permutation *)
  Theorem same_members s l1 l2 : Inv s -> settled s -> ltN l1 -> ltN l2 ->
    (forall n, In n l1 <-> In n l2) ->
    (forall m, st_built (fst (evaluate_list s l1)) m = st_built (fst (evaluate_list s l2)) m
               /\ st_cache (fst (evaluate_list s l1)) m = st_cache (fst (evaluate_list s l2)) m)
    /\ (forall c, c < N -> snd (evaluate (fst (evaluate_list s l1)) c)
                           = snd (evaluate (fst (evaluate_list s l2)) c))
    /\ (forall i1 i2, i1 < length l1 -> i2 < length l2 -> nth i1 l1 0 = nth i2 l2 0 ->
          nth i1 (snd (evaluate_list s l1)) VNone = nth i2 (snd (evaluate_list s l2)) VNone).
  Proof.
    intros I S F1 F2 EM.
    destruct (list_inv l1 s I F1) as (I1 & K1 & _).
    destruct (list_inv l2 s I F2) as (I2 & K2 & _).
    assert (EB: forall m, st_built (fst (evaluate_list s l1)) m
                          = st_built (fst (evaluate_list s l2)) m).
    { intros m. apply eq_true_iff_eq.
      rewrite (list_built_iff l1 s I F1 m), (list_built_iff l2 s I F2 m).
      split; (intros [H|[n [Hn H]]]; [auto|right; exists n; split; [apply EM; auto|auto]]). }
    assert (EI: forall k, isinput k = true ->
              st_cache (fst (evaluate_list s l1)) k = st_cache (fst (evaluate_list s l2)) k).
    { intros k Ik. rewrite K1, K2; auto. }
    split; [|split].
    - intros m. split; [apply EB|].
      apply state_determined; auto; apply settled_list; auto.
    - intros c Lc. apply evaluate_same; auto.
    - intros i1 i2 H1 H2 E.
      destruct (list_path s l1 I F1) as [_ P1]. destruct (list_path s l2 I F2) as [_ P2].
      rewrite P1, P2, E; auto.
  Qed.

  Lemma combine_map {A B} (f : A -> B) : forall l, combine l (map f l) = map (fun a => (a, f a)) l.
  Proof. induction l as [|a l IH]; cbn; [auto|now rewrite IH]. Qed.

  Theorem permutation s l1 l2 : Inv s -> settled s -> ltN l1 -> Permutation l1 l2 ->
    Permutation (combine l1 (snd (evaluate_list s l1))) (combine l2 (snd (evaluate_list s l2)))
    /\ (forall c, c < N -> snd (evaluate (fst (evaluate_list s l1)) c)
                           = snd (evaluate (fst (evaluate_list s l2)) c))
    /\ (forall m, st_built (fst (evaluate_list s l1)) m = st_built (fst (evaluate_list s l2)) m
                  /\ st_cache (fst (evaluate_list s l1)) m = st_cache (fst (evaluate_list s l2)) m).
  Proof.
    intros I S F1 P.
    assert (F2: ltN l2).
    { unfold ltN in *. rewrite Forall_forall in *. intros x Hx. apply F1.
      eapply Permutation_in; [apply Permutation_sym; exact P|exact Hx]. }
    assert (EM: forall n, In n l1 <-> In n l2).
    { intros n. split; apply Permutation_in; auto. now apply Permutation_sym. }
    destruct (same_members s l1 l2 I S F1 F2 EM) as (A & B & _).
    split; [|split; auto].
    destruct (list_path s l1 I F1) as [E1 _]. destruct (list_path s l2 I F2) as [E2 _].
    rewrite E1, E2, !combine_map. now apply Permutation_map.
  Qed.

  (* ------------------------------------------------------- idempotent *)
  Lemma evaluate_valued_id s n : Inv s -> st_built s n = true ->
    (isinput n = false -> st_cache s n <> VNone) ->
    st_built (fst (evaluate s n)) = st_built s
    /\ (forall k, st_cache (fst (evaluate s n)) k = st_cache s k)
    /\ snd (evaluate s n) = st_cache s n.
  Proof.
    intros I B H. destruct (build_built_id W sem s n B) as [EB EC].
    rewrite evaluate_unfold. cbn [fst snd st_built st_cache]. rewrite eval_unfold.
    destruct (isinput n) eqn:In; cbn [fst snd].
    - repeat split; auto.
    - assert (E: is_none (st_cache (build W sem s n) n) = false).
      { apply is_none_false. rewrite EC. auto. }
      rewrite E. cbn [fst snd]. repeat split; auto.
  Qed.

  Lemma be_step_keeps s o m : Inv s -> be_op o -> st_built s m = true ->
    st_built (fst (step W sem s o)) m = true
    /\ (st_cache s m <> VNone -> st_cache (fst (step W sem s o)) m = st_cache s m).
  Proof.
    intros I OK B. destruct o as [n|a v|n]; cbn [C05.be_op] in OK; [| contradiction |];
      cbn [step fst].
    - now apply evaluate_keeps.
    - split; [apply build_built_iff; auto|]. intros H. now apply build_keeps.
  Qed.

  Lemma be_run_keeps m : forall h s, Inv s -> Forall be_op h -> st_built s m = true ->
    st_built (fst (run W sem s h)) m = true
    /\ (st_cache s m <> VNone -> st_cache (fst (run W sem s h)) m = st_cache s m).
  Proof.
    induction h as [|o h IH]; intros s I F B; [cbn; auto|].
    inversion F as [|? ? Fo Fh]; subst. rewrite run_cons. cbn [fst].
    destruct (be_step W sem WF NB SO s o I Fo) as [I1 _].
    destruct (be_step_keeps s o m I Fo B) as [B1 K1].
    destruct (IH _ I1 Fh B1) as [B2 K2]. split; auto.
    intros H. rewrite K2; rewrite K1; auto.
  Qed.

  Theorem idempotent_state s h n m : Inv s -> Forall be_op h -> In (Evaluate n) h ->
    (m = n \/ anc W m n) ->
    let s' := fst (run W sem s h) in
    st_built (fst (evaluate s' m)) = st_built s'
    /\ (forall k, st_cache (fst (evaluate s' m)) k = st_cache s' k)
    /\ snd (evaluate s' m) = st_cache s' m.
  Proof.
    intros I F Hn Hm. cbn zeta.
    destruct (in_split _ _ Hn) as (h1 & h2 & ->).
    apply Forall_app in F. destruct F as [F1 F2].
    inversion F2 as [|? ? Ln F3]; subst. cbn [C05.be_op] in Ln.
    rewrite run_app_fst, run_cons. cbn [fst step].
    destruct (be_run W sem WF NB SO h1 s I F1) as [I1 _].
    set (s1 := fst (run W sem s h1)) in *.
    destruct (evaluate_inv W sem WF NB s1 n SO I1 Ln) as (I2 & _ & _).
    destruct (evaluate_valued s1 n I1 Ln) as [Bn Vn].
    set (s2 := fst (evaluate s1 n)) in *.
    assert (M2: st_built s2 m = true /\ (isinput m = false -> st_cache s2 m <> VNone)).
    { destruct Hm as [->|A]; [auto|].
      assert (In: isinput n = false) by (eapply anc_noninput; eauto).
      split.
      - eapply anc_closed; eauto. apply (inv_deps W sem s2 I2).
      - intros Im. eapply anc_valued; eauto. }
    destruct M2 as [Bm Vm].
    destruct (be_run W sem WF NB SO h2 s2 I2 F3) as [I3 _].
    destruct (be_run_keeps m h2 s2 I2 F3 Bm) as [B3 K3].
    apply evaluate_valued_id; auto.
    intros Im. rewrite K3; auto.
  Qed.

  (* ------------------------------------- cache entries after any history *)
  (* after ANY Build/Evaluate history from a state of the invariant, an input
     entry and every non-empty entry is the from-scratch value *)
  Theorem valued_is_spec s h m : Inv s -> Forall be_op h -> m < N ->
    (isinput m = true \/ st_cache (fst (run W sem s h)) m <> VNone) ->
    st_cache (fst (run W sem s h)) m = spec W sem (st_cache s) m.
  Proof.
    intros I F L H. destruct (be_run W sem WF NB SO h s I F) as [I1 K].
    destruct (isinput m) eqn:Im.
    - rewrite K by auto. symmetry. now apply spec_input.
    - destruct H as [H|H]; [discriminate|].
      destruct (st_built (fst (run W sem s h)) m) eqn:B.
      + rewrite (Inv_I1 W sem _ I1 m B Im H). apply spec_ext; auto.
      + exfalso. apply H. rewrite (inv_unbuilt W sem _ I1 m B), Im. reflexivity.
  Qed.
  (* ------------------------------------------------------- list, twice *)
  Theorem list_repeat s l : Inv s -> settled s -> ltN l ->
    snd (evaluate_list (fst (evaluate_list s l)) l) = snd (evaluate_list s l)
    /\ forall m, st_built (fst (evaluate_list (fst (evaluate_list s l)) l)) m
                 = st_built (fst (evaluate_list s l)) m
              /\ st_cache (fst (evaluate_list (fst (evaluate_list s l)) l)) m
                 = st_cache (fst (evaluate_list s l)) m.
  Proof.
    intros I S F.
    destruct (list_inv l s I F) as (I1 & K1 & E1).
    pose proof (settled_list l s I S F) as S1.
    set (s1 := fst (evaluate_list s l)) in *.
    destruct (list_inv l s1 I1 F) as (I2 & K2 & E2).
    pose proof (settled_list l s1 I1 S1 F) as S2.
    split.
    - rewrite E1, E2. apply map_ext_in. intros a Ha.
      unfold ltN in F. rewrite Forall_forall in F. apply evaluate_same; auto.
    - assert (EB: forall m, st_built (fst (evaluate_list s1 l)) m = st_built s1 m).
      { intros m. apply eq_true_iff_eq. rewrite (list_built_iff l s1 I1 F m).
        unfold s1. rewrite (list_built_iff l s I F m). tauto. }
      intros m. split; [apply EB|]. apply state_determined; auto.
  Qed.
  (* =============== any Build/Evaluate history: the exact final state *)
  Definition newly (s s' : state) (m : nat) : Prop :=
    st_built s' m = true /\ st_built s m = false.
  (* entries that get a value because a cell enters the cell map: a formula cell
     with a stored result, and a range node (evaluated when built) with all its
     ancestors *)
  Definition gainA (s s' : state) (m : nat) : Prop :=
    (newly s s' m /\ wb_range W m = false /\ wb_stored W m <> VNone)
    \/ exists r, newly s s' r /\ wb_range W r = true /\ (m = r \/ anc W m r).
  (* entries that get a value because a node was evaluated *)
  Definition gainE (h : list gop) (m : nat) : Prop :=
    exists n, In (Evaluate n) h /\ (m = n \/ anc W m n).

  Lemma newly_split s s1 s' x :
    (forall y, st_built s y = true -> st_built s1 y = true) ->
    (forall y, st_built s1 y = true -> st_built s' y = true) ->
    (newly s s' x <-> newly s s1 x \/ newly s1 s' x).
  Proof.
    intros M1 M2. specialize (M1 x). specialize (M2 x). unfold newly.
    destruct (st_built s x), (st_built s1 x), (st_built s' x);
      try (specialize (M1 eq_refl); discriminate); try (specialize (M2 eq_refl); discriminate);
      intuition congruence.
  Qed.

  Lemma gainA_split s s1 s' m :
    (forall y, st_built s y = true -> st_built s1 y = true) ->
    (forall y, st_built s1 y = true -> st_built s' y = true) ->
    (gainA s s' m <-> gainA s s1 m \/ gainA s1 s' m).
  Proof.
    intros M1 M2. unfold gainA. split.
    - intros [[Nw R]|[r [Nw R]]]; apply (newly_split s s1 s' _ M1 M2) in Nw; destruct Nw as [Nw|Nw].
      + left; left; auto.
      + right; left; auto.
      + left; right; exists r; auto.
      + right; right; exists r; auto.
    - intros [[[Nw R]|[r [Nw R]]]|[[Nw R]|[r [Nw R]]]].
      + left. split; auto. apply (newly_split s s1 s' _ M1 M2); auto.
      + right. exists r. split; auto. apply (newly_split s s1 s' _ M1 M2); auto.
      + left. split; auto. apply (newly_split s s1 s' _ M1 M2); auto.
      + right. exists r. split; auto. apply (newly_split s s1 s' _ M1 M2); auto.
  Qed.

  Lemma gainE_cons o h m :
    gainE (o :: h) m <-> (exists n, o = Evaluate n /\ (m = n \/ anc W m n)) \/ gainE h m.
  Proof.
    unfold gainE. split.
    - intros [n [[Hn|Hn] A]]; [left|right]; exists n; auto.
    - intros [[n [Hn A]]|[n [Hn A]]]; exists n; split; auto; [left|right]; auto.
  Qed.

  Lemma bfold_region s b' : (forall m, b' m = true -> m < N) ->
    forall l c, Coherent W sem c -> forall m,
      fold_left (bstep W sem s b') l c m = c m
      \/ exists r, In r l /\ fresh s b' r && wb_range W r = true /\ (m = r \/ anc W m r).
  Proof.
    intros BL. induction l as [|a l IHl]; intros c K m; cbn [fold_left]; [left; auto|].
    set (c1 := bstep W sem s b' c a).
    assert (St: Coherent W sem c1 /\
                (c1 m = c m \/ (fresh s b' a && wb_range W a = true /\ (m = a \/ anc W m a)))).
    { unfold c1, bstep. destruct (fresh s b' a && wb_range W a) eqn:C.
      - pose proof C as C'. apply andb_prop in C'. destruct C' as [Fa _].
        unfold fresh in Fa. apply andb_prop in Fa. destruct Fa as [Ba _].
        pose proof (BL a Ba) as La.
        destruct (eval_top W sem WF NB c a La K) as (E & _ & _). split.
        + apply (ext_coherent W sem WF _ c _ K E).
        + destruct (ext_region W sem _ _ _ m E) as [H|H]; auto.
      - split; auto. }
    destruct St as [K1 H1]. destruct (IHl c1 K1 m) as [H2|[r [Hr H2]]].
    - destruct H1 as [H1|H1].
      + left; congruence.
      + right; exists a; split; [left; auto|auto].
    - right; exists r; split; [right; auto|auto].
  Qed.

  Lemma valued_built s m : Inv s -> isinput m = false -> st_cache s m <> VNone ->
    st_built s m = true.
  Proof.
    intros I Im H. destruct (st_built s m) eqn:B; auto.
    exfalso. apply H. rewrite (inv_unbuilt W sem s I m B), Im. reflexivity.
  Qed.

  Lemma build_valued_iff s n m : Inv s -> n < N -> isinput m = false ->
    (st_cache (build W sem s n) m <> VNone
     <-> st_cache s m <> VNone \/ gainA s (build W sem s n) m).
  Proof.
    intros I L Im. pose proof (build_inv W sem WF NB s n SO I L) as I1. split.
    - rewrite build_unfold. cbn zeta. unfold gainA, newly. cbn [st_cache st_built].
      set (b' := closure W (S N) (st_built s) n).
      destruct (closure_props W WF (st_built s) n L (inv_lt W sem s I) (inv_deps W sem s I))
        as (C1 & C2 & C3 & C4).
      fold b' in C1, C2, C3, C4.
      intros H.
      destruct (bfold_region s b' C3 (seq 0 N) (build_c1 W s b')
                  (build_c1_coherent W sem WF s b' I) m) as [E|[r [_ [Fr A]]]].
      + rewrite E in H. unfold build_c1 in H. rewrite Im in H. cbn [negb] in H.
        rewrite andb_true_r in H. destruct (fresh s b' m) eqn:Fm.
        * unfold fresh in Fm. apply andb_prop in Fm. destruct Fm as [B1 B0].
          apply negb_true_iff in B0.
          destruct (wb_range W m) eqn:Rm; [congruence|]. right. left. auto.
        * left. exact H.
      + apply andb_prop in Fr. destruct Fr as [Fr Rr]. unfold fresh in Fr.
        apply andb_prop in Fr. destruct Fr as [B1 B0]. apply negb_true_iff in B0.
        right. right. exists r. auto.
    - intros [H|[[[B1 B0] [Rm Sm]]|[r [[B1 B0] [Rr A]]]]].
      + rewrite build_keeps; auto. now apply valued_built.
      + revert B1. rewrite build_unfold. cbn zeta. cbn [st_cache st_built].
        set (b' := closure W (S N) (st_built s) n). intros B1.
        destruct (closure_props W WF (st_built s) n L (inv_lt W sem s I) (inv_deps W sem s I))
          as (C1 & C2 & C3 & C4).
        fold b' in C1, C2, C3, C4.
        destruct (bfold W sem WF NB s b' C3 C4 (seq 0 N) (build_c1 W s b')
                    (build_c1_coherent W sem WF s b' I)) as [E _].
        assert (E0: build_c1 W s b' m = wb_stored W m).
        { unfold build_c1, fresh. rewrite B1, B0, Im, Rm. reflexivity. }
        eapply ext_keeps; [exact E|]. now rewrite E0.
      + assert (Vr: st_cache (build W sem s n) r <> VNone).
        { apply (build_range_valued W sem WF (nonblank_weaken W sem NB) s n r I L Rr B0 B1). }
        destruct A as [->|A]; auto.
        apply (anc_valued (build W sem s n) I1 m r A B1 Vr Im).
  Qed.

  Lemma evaluate_valued_iff s n m : Inv s -> n < N -> isinput m = false ->
    (st_cache (fst (evaluate s n)) m <> VNone
     <-> st_cache (build W sem s n) m <> VNone \/ (m = n \/ anc W m n)).
  Proof.
    intros I L Im. pose proof (build_inv W sem WF NB s n SO I L) as I1.
    destruct (evaluate_inv W sem WF NB s n SO I L) as (I2 & _ & _).
    destruct (evaluate_valued s n I L) as [Bn Vn].
    destruct (eval_top W sem WF NB _ n L (Inv_coherent W sem _ I1)) as (E & _ & _).
    split.
    - rewrite evaluate_unfold. cbn [fst st_cache]. intros H.
      destruct (ext_region W sem _ _ _ m E) as [H1|H1]; [left; now rewrite <- H1|right; exact H1].
    - intros [H|[->|A]].
      + rewrite evaluate_unfold. cbn [fst st_cache]. eapply ext_keeps; eauto.
      + auto.
      + assert (In: isinput n = false) by (eapply anc_noninput; eauto).
        apply (anc_valued _ I2 m n A Bn (Vn In) Im).
  Qed.

  Lemma step_valued_iff s o m : Inv s -> be_op o -> isinput m = false ->
    (st_cache (fst (step W sem s o)) m <> VNone
     <-> st_cache s m <> VNone \/ gainA s (fst (step W sem s o)) m
         \/ exists n, o = Evaluate n /\ (m = n \/ anc W m n)).
  Proof.
    intros I OK Im. destruct o as [n|a v|n]; cbn [C05.be_op] in OK; [| contradiction |];
      cbn [step fst].
    - pose proof (evaluate_valued_iff s n m I OK Im) as P1.
      pose proof (build_valued_iff s n m I OK Im) as P2.
      assert (P3: gainA s (fst (evaluate s n)) m <-> gainA s (build W sem s n) m).
      { unfold gainA, newly. rewrite evaluate_built. tauto. }
      split.
      + intros H. apply P1 in H. destruct H as [H|H].
        * apply P2 in H. destruct H as [H|H]; auto. right; left. now apply P3.
        * right; right. exists n; auto.
      + intros [H|[H|[n0 [Eq H]]]]; apply P1.
        * left. apply P2. auto.
        * left. apply P2. right. now apply P3.
        * inversion Eq; subst. auto.
    - pose proof (build_valued_iff s n m I OK Im) as P2. split.
      + intros H. apply P2 in H. destruct H; auto.
      + intros [H|[H|[n0 [Eq _]]]]; [apply P2; auto|apply P2; auto|discriminate].
  Qed.

  Lemma run_valued_iff : forall h s, Inv s -> Forall be_op h -> forall m, isinput m = false ->
    (st_cache (fst (run W sem s h)) m <> VNone
     <-> st_cache s m <> VNone \/ gainA s (fst (run W sem s h)) m \/ gainE h m).
  Proof.
    induction h as [|o h IH]; intros s I F m Im.
    - cbn [run fst]. split; auto. intros [H|[H|H]]; auto.
      + destruct H as [[[B1 B0] _]|[r [[B1 B0] _]]]; congruence.
      + destruct H as [n [[] _]].
    - inversion F as [|? ? Fo Fh]; subst. rewrite run_cons. cbn [fst].
      destruct (be_step W sem WF NB SO s o I Fo) as [I1 _].
      pose proof (step_valued_iff s o m I Fo Im) as P2.
      set (s1 := fst (step W sem s o)) in *.
      pose proof (IH s1 I1 Fh m Im) as P1.
      assert (M1: forall y, st_built s y = true -> st_built s1 y = true).
      { intros y B. apply (be_step_keeps s o y I Fo B). }
      assert (M2: forall y, st_built s1 y = true -> st_built (fst (run W sem s1 h)) y = true).
      { intros y B. apply (be_run_keeps y h s1 I1 Fh B). }
      pose proof (gainA_split s s1 (fst (run W sem s1 h)) m M1 M2) as P3.
      pose proof (gainE_cons o h m) as P4.
      tauto.
  Qed.

  Definition op_node (o : gop) : nat :=
    match o with Evaluate n => n | Build n => n | SetValue a _ => a end.

  Lemma run_built_iff : forall h s, Inv s -> Forall be_op h -> forall m,
    st_built (fst (run W sem s h)) m = true
    <-> st_built s m = true \/ exists o, In o h /\ (m = op_node o \/ anc W m (op_node o)).
  Proof.
    induction h as [|o h IH]; intros s I F m.
    - cbn. split; auto. intros [H|[o [[] _]]]; auto.
    - inversion F as [|? ? Fo Fh]; subst. rewrite run_cons. cbn [fst].
      destruct (be_step W sem WF NB SO s o I Fo) as [I1 _].
      assert (P: st_built (fst (step W sem s o)) m = true
                 <-> st_built s m = true \/ (m = op_node o \/ anc W m (op_node o))).
      { destruct o as [n|a v|n]; cbn [C05.be_op] in Fo; [| contradiction |]; cbn [step fst op_node].
        - now apply evaluate_built_iff.
        - now apply build_built_iff. }
      pose proof (IH _ I1 Fh m) as Q. split.
      + intros H. apply Q in H. destruct H as [H|[o' [Ho H]]].
        * apply P in H. destruct H as [H|H]; auto. right. exists o. split; [left; auto|auto].
        * right. exists o'. split; [right; auto|auto].
      + intros [H|[o' [[->|Ho] H]]]; apply Q.
        * left. apply P. auto.
        * left. apply P. auto.
        * right. exists o'. auto.
  Qed.

  (* two histories with the same operations (in particular two permutations of
     one history): pointwise EQUAL final states *)
  Theorem history_order s h1 h2 : Inv s -> Forall be_op h1 -> Forall be_op h2 ->
    (forall o, In o h1 <-> In o h2) ->
    forall m, st_built (fst (run W sem s h1)) m = st_built (fst (run W sem s h2)) m
              /\ st_cache (fst (run W sem s h1)) m = st_cache (fst (run W sem s h2)) m.
  Proof.
    intros I F1 F2 EM.
    assert (EB: forall m, st_built (fst (run W sem s h1)) m = st_built (fst (run W sem s h2)) m).
    { intros m. apply eq_true_iff_eq.
      rewrite (run_built_iff h1 s I F1 m), (run_built_iff h2 s I F2 m).
      split; (intros [H|[o [Ho H]]]; [auto|right; exists o; split; [apply EM; auto|auto]]). }
    intros m. split; [apply EB|].
    destruct (be_run W sem WF NB SO h1 s I F1) as [I1 K1].
    destruct (be_run W sem WF NB SO h2 s I F2) as [I2 K2].
    destruct (isinput m) eqn:Im; [rewrite K1, K2; auto|].
    pose proof (run_valued_iff h1 s I F1 m Im) as P1.
    pose proof (run_valued_iff h2 s I F2 m Im) as P2.
    assert (GA: gainA s (fst (run W sem s h1)) m <-> gainA s (fst (run W sem s h2)) m).
    { unfold gainA, newly. split.
      - intros [[[B1 B0] R]|[r [[B1 B0] R]]].
        + left. split; auto. split; auto. now rewrite <- EB.
        + right. exists r. split; auto. split; auto. now rewrite <- EB.
      - intros [[[B1 B0] R]|[r [[B1 B0] R]]].
        + left. split; auto. split; auto. now rewrite EB.
        + right. exists r. split; auto. split; auto. now rewrite EB. }
    assert (GE: gainE h1 m <-> gainE h2 m).
    { unfold gainE. split; intros [n [Hn A]]; exists n; split; auto; apply EM; auto. }
    assert (X: st_cache (fst (run W sem s h1)) m <> VNone
               <-> st_cache (fst (run W sem s h2)) m <> VNone) by tauto.
    destruct (is_none (st_cache (fst (run W sem s h1)) m)) eqn:E1;
      destruct (is_none (st_cache (fst (run W sem s h2)) m)) eqn:E2.
    - apply is_none_true in E1, E2. now rewrite E1, E2.
    - apply is_none_true in E1. apply is_none_false in E2. apply X in E2. contradiction.
    - apply is_none_true in E2. apply is_none_false in E1. apply X in E1. contradiction.
    - apply is_none_false in E1, E2.
      assert (L: m < N) by (apply (inv_lt W sem _ I1), valued_built; auto).
      rewrite (valued_is_spec s h1 m I F1 L (or_intror E1)).
      rewrite (valued_is_spec s h2 m I F2 L (or_intror E2)). reflexivity.
  Qed.
  (* ---- address lists again, from ANY state of the invariant (no [settled]) *)
  Lemma be_map l : ltN l -> Forall be_op (map Evaluate l).
  Proof.
    unfold ltN. rewrite !Forall_forall. intros F o Ho. apply in_map_iff in Ho.
    destruct Ho as [a [<- Ha]]. cbn. auto.
  Qed.

  Lemma list_state_any s l1 l2 : Inv s -> ltN l1 -> ltN l2 -> (forall n, In n l1 <-> In n l2) ->
    forall m, st_built (fst (evaluate_list s l1)) m = st_built (fst (evaluate_list s l2)) m
              /\ st_cache (fst (evaluate_list s l1)) m = st_cache (fst (evaluate_list s l2)) m.
  Proof.
    intros I F1 F2 EM. rewrite !evaluate_list_run.
    apply history_order; auto using be_map.
    intros o. rewrite !in_map_iff. split; intros [a [E Ha]]; exists a; split; auto; apply EM; auto.
  Qed.

  Theorem same_members_any s l1 l2 : Inv s -> ltN l1 -> ltN l2 ->
    (forall n, In n l1 <-> In n l2) ->
    (forall m, st_built (fst (evaluate_list s l1)) m = st_built (fst (evaluate_list s l2)) m
               /\ st_cache (fst (evaluate_list s l1)) m = st_cache (fst (evaluate_list s l2)) m)
    /\ (forall c, c < N -> snd (evaluate (fst (evaluate_list s l1)) c)
                           = snd (evaluate (fst (evaluate_list s l2)) c))
    /\ (forall i1 i2, i1 < length l1 -> i2 < length l2 -> nth i1 l1 0 = nth i2 l2 0 ->
          nth i1 (snd (evaluate_list s l1)) VNone = nth i2 (snd (evaluate_list s l2)) VNone).
  Proof.
    intros I F1 F2 EM.
    destruct (list_inv l1 s I F1) as (I1 & K1 & _).
    destruct (list_inv l2 s I F2) as (I2 & K2 & _).
    split; [now apply list_state_any|]. split.
    - intros c Lc. apply evaluate_same; auto. intros k Ik. rewrite K1, K2; auto.
    - intros i1 i2 H1 H2 E.
      destruct (list_path s l1 I F1) as [_ P1]. destruct (list_path s l2 I F2) as [_ P2].
      rewrite P1, P2, E; auto.
  Qed.

  Theorem permutation_any s l1 l2 : Inv s -> ltN l1 -> Permutation l1 l2 ->
    Permutation (combine l1 (snd (evaluate_list s l1))) (combine l2 (snd (evaluate_list s l2)))
    /\ (forall c, c < N -> snd (evaluate (fst (evaluate_list s l1)) c)
                           = snd (evaluate (fst (evaluate_list s l2)) c))
    /\ (forall m, st_built (fst (evaluate_list s l1)) m = st_built (fst (evaluate_list s l2)) m
                  /\ st_cache (fst (evaluate_list s l1)) m = st_cache (fst (evaluate_list s l2)) m).
  Proof.
    intros I F1 P.
    assert (F2: ltN l2).
    { unfold ltN in *. rewrite Forall_forall in *. intros x Hx. apply F1.
      eapply Permutation_in; [apply Permutation_sym; exact P|exact Hx]. }
    assert (EM: forall n, In n l1 <-> In n l2).
    { intros n. split; apply Permutation_in; auto. now apply Permutation_sym. }
    destruct (same_members_any s l1 l2 I F1 F2 EM) as (A & B & _).
    split; [|split; auto].
    destruct (list_path s l1 I F1) as [E1 _]. destruct (list_path s l2 I F2) as [E2 _].
    rewrite E1, E2, !combine_map. now apply Permutation_map.
  Qed.

  Theorem list_repeat_any s l : Inv s -> ltN l ->
    snd (evaluate_list (fst (evaluate_list s l)) l) = snd (evaluate_list s l)
    /\ forall m, st_built (fst (evaluate_list (fst (evaluate_list s l)) l)) m
                 = st_built (fst (evaluate_list s l)) m
              /\ st_cache (fst (evaluate_list (fst (evaluate_list s l)) l)) m
                 = st_cache (fst (evaluate_list s l)) m.
  Proof.
    intros I F.
    destruct (list_inv l s I F) as (I1 & K1 & E1).
    destruct (list_inv l (fst (evaluate_list s l)) I1 F) as (I2 & K2 & E2).
    split.
    - rewrite E1, E2. apply map_ext_in. intros a Ha.
      unfold ltN in F. rewrite Forall_forall in F. apply evaluate_same; auto.
    - assert (FF: ltN (l ++ l)) by (apply Forall_app; auto).
      assert (E: fst (evaluate_list (fst (evaluate_list s l)) l) = fst (evaluate_list s (l ++ l))).
      { rewrite !evaluate_list_run, map_app, run_app_fst. reflexivity. }
      rewrite E. apply list_state_any; auto.
      intros n. rewrite in_app_iff. tauto.
  Qed.
  (* ---- the value an operation returns does not depend on its position *)
  Lemma step_same s s' o : Inv s -> Inv s' -> be_op o ->
    (forall k, isinput k = true -> st_cache s' k = st_cache s k) ->
    snd (step W sem s' o) = snd (step W sem s o).
  Proof.
    intros I I' OK E. destruct o as [n|a v|n]; cbn [C05.be_op] in OK; [| contradiction |];
      cbn [step snd]; auto. now apply evaluate_same.
  Qed.

  Theorem history_values : forall h s, Inv s -> Forall be_op h ->
    snd (run W sem s h) = map (fun o => snd (step W sem s o)) h.
  Proof.
    induction h as [|o h IH]; intros s I F; [reflexivity|].
    inversion F as [|? ? Fo Fh]; subst. rewrite run_cons. cbn [snd map].
    destruct (be_step W sem WF NB SO s o I Fo) as [I1 K1].
    f_equal. rewrite (IH _ I1 Fh). apply map_ext_in. intros x Hx.
    rewrite Forall_forall in Fh. apply step_same; auto.
  Qed.

  Theorem history_values_perm s h1 h2 : Inv s -> Forall be_op h1 -> Permutation h1 h2 ->
    Permutation (combine h1 (snd (run W sem s h1))) (combine h2 (snd (run W sem s h2))).
  Proof.
    intros I F1 P.
    assert (F2: Forall be_op h2).
    { rewrite Forall_forall in *. intros x Hx. apply F1.
      eapply Permutation_in; [apply Permutation_sym; exact P|exact Hx]. }
    rewrite (history_values h1 s I F1), (history_values h2 s I F2), !combine_map.
    now apply Permutation_map.
  Qed.
End Strong.

(* ================================================================ weak *)
Section WeakList.
  Variable W : workbook.
  Variable sem : nat -> list pyval -> pyval.
  Hypothesis WF : wf W.
  Hypothesis NBW : sem_nonblank_weak W sem.
  Hypothesis SO : stored_ok W sem.

  Notation N := (wb_n W).
  Notation g := (guard W sem).
  Let NB2 : sem_nonblank W g := guard_nonblank W sem NBW.
  Let AG : forall n vals, n < N -> wb_input W n = false -> args_ok W n vals ->
             sem n vals = g n vals := fun n vals _ _ H => guard_agree W sem n vals H.
  Let SO2 : stored_ok W g := stored_ok_transfer W sem g WF NB2 AG SO.

  Lemma evaluate_g s n : n < N -> evaluate W sem s n = evaluate W g s n.
  Proof. apply (evaluate_transfer W sem g WF NB2 AG). Qed.

  Lemma evaluate_list_g : forall l s, ltN W l -> evaluate_list W sem s l = evaluate_list W g s l.
  Proof.
    induction l as [|a l IH]; intros s F; [reflexivity|].
    inversion F as [|? ? La Fl]; subst. rewrite !evaluate_list_cons.
    rewrite (evaluate_g s a La), IH; auto.
  Qed.

  Lemma run_g : forall h s, Forall (be_op W) h -> run W sem s h = run W g s h.
  Proof.
    induction h as [|o h IH]; intros s F; [reflexivity|].
    inversion F as [|? ? Fo Fh]; subst. rewrite !run_cons.
    rewrite (step_guard W sem WF NBW s o), IH; auto.
    destruct o; cbn in *; auto.
  Qed.

  Lemma evaluate_inv_weak s n : Inv W sem s -> n < N ->
    Inv W sem (fst (evaluate W sem s n))
    /\ snd (evaluate W sem s n) = spec W sem (st_cache s) n
    /\ (forall k, wb_input W k = true -> st_cache (fst (evaluate W sem s n)) k = st_cache s k).
  Proof.
    intros I L. rewrite (evaluate_g s n L).
    destruct (evaluate_inv W g WF NB2 s n SO2 (proj2 (Inv_guard W sem WF NBW s) I) L)
      as (I1 & V & K).
    split; [now apply (Inv_guard W sem WF NBW)|]. split; auto.
    rewrite V. symmetry. now apply spec_guard.
  Qed.

  (* C05_list_path *)
  Theorem list_path_weak s l : Inv W sem s -> ltN W l ->
    snd (evaluate_list W sem s l) = map (fun a => snd (evaluate W sem s a)) l
    /\ forall i, i < length l ->
         nth i (snd (evaluate_list W sem s l)) VNone = snd (evaluate W sem s (nth i l 0)).
  Proof.
    intros I F. apply (Inv_guard W sem WF NBW) in I.
    destruct (list_path W g WF NB2 SO2 s l I F) as [E P].
    rewrite (evaluate_list_g l s F).
    unfold ltN in F. rewrite Forall_forall in F. split.
    - rewrite E. apply map_ext_in. intros a Ha. rewrite evaluate_g; auto.
    - intros i Hi. rewrite (P i Hi). rewrite evaluate_g; auto. apply F. now apply nth_In.
  Qed.

  Lemma list_inv_weak l s : Inv W sem s -> ltN W l -> Inv W sem (fst (evaluate_list W sem s l)).
  Proof.
    intros I F. rewrite (evaluate_list_g l s F). apply (Inv_guard W sem WF NBW).
    apply (list_inv W g WF NB2 SO2 l s); auto. now apply (Inv_guard W sem WF NBW).
  Qed.

  Lemma settled_list_weak l s : Inv W sem s -> settled W s -> ltN W l ->
    settled W (fst (evaluate_list W sem s l)).
  Proof.
    intros I S F. rewrite (evaluate_list_g l s F).
    apply (settled_list W g WF NB2 SO2); auto. now apply (Inv_guard W sem WF NBW).
  Qed.

  (* C05_same_members *)
  Theorem same_members_weak s l1 l2 : Inv W sem s -> ltN W l1 -> ltN W l2 ->
    (forall n, In n l1 <-> In n l2) ->
    (forall m, st_built (fst (evaluate_list W sem s l1)) m
               = st_built (fst (evaluate_list W sem s l2)) m
               /\ st_cache (fst (evaluate_list W sem s l1)) m
                  = st_cache (fst (evaluate_list W sem s l2)) m)
    /\ (forall c, c < N -> snd (evaluate W sem (fst (evaluate_list W sem s l1)) c)
                           = snd (evaluate W sem (fst (evaluate_list W sem s l2)) c))
    /\ (forall i1 i2, i1 < length l1 -> i2 < length l2 -> nth i1 l1 0 = nth i2 l2 0 ->
          nth i1 (snd (evaluate_list W sem s l1)) VNone
          = nth i2 (snd (evaluate_list W sem s l2)) VNone).
  Proof.
    intros I F1 F2 EM. apply (Inv_guard W sem WF NBW) in I.
    rewrite (evaluate_list_g l1 s F1), (evaluate_list_g l2 s F2).
    destruct (same_members_any W g WF NB2 SO2 s l1 l2 I F1 F2 EM) as (A & B & C).
    split; [exact A|]. split; [|exact C].
    intros c Lc. rewrite !(evaluate_g _ c Lc). now apply B.
  Qed.

  (* C05_permutation *)
  Theorem permutation_weak s l1 l2 : Inv W sem s -> ltN W l1 -> Permutation l1 l2 ->
    Permutation (combine l1 (snd (evaluate_list W sem s l1)))
                (combine l2 (snd (evaluate_list W sem s l2)))
    /\ (forall c, c < N -> snd (evaluate W sem (fst (evaluate_list W sem s l1)) c)
                           = snd (evaluate W sem (fst (evaluate_list W sem s l2)) c))
    /\ (forall m, st_built (fst (evaluate_list W sem s l1)) m
                  = st_built (fst (evaluate_list W sem s l2)) m
                  /\ st_cache (fst (evaluate_list W sem s l1)) m
                     = st_cache (fst (evaluate_list W sem s l2)) m).
  Proof.
    intros I F1 P. apply (Inv_guard W sem WF NBW) in I.
    assert (F2: ltN W l2).
    { unfold ltN in *. rewrite Forall_forall in *. intros x Hx. apply F1.
      eapply Permutation_in; [apply Permutation_sym; exact P|exact Hx]. }
    rewrite (evaluate_list_g l1 s F1), (evaluate_list_g l2 s F2).
    destruct (permutation_any W g WF NB2 SO2 s l1 l2 I F1 P) as (A & B & C).
    split; [exact A|]. split; [|exact C].
    intros c Lc. rewrite !(evaluate_g _ c Lc). now apply B.
  Qed.

  (* C05_idempotent_state *)
  Theorem idempotent_state_weak s h n m : Inv W sem s -> Forall (be_op W) h ->
    In (Evaluate n) h -> (m = n \/ anc W m n) ->
    st_built (fst (evaluate W sem (fst (run W sem s h)) m)) = st_built (fst (run W sem s h))
    /\ (forall k, st_cache (fst (evaluate W sem (fst (run W sem s h)) m)) k
                  = st_cache (fst (run W sem s h)) k)
    /\ snd (evaluate W sem (fst (run W sem s h)) m) = st_cache (fst (run W sem s h)) m.
  Proof.
    intros I F Hn Hm. apply (Inv_guard W sem WF NBW) in I.
    assert (Ln: n < N).
    { rewrite Forall_forall in F. apply (F _ Hn). }
    assert (Lm: m < N).
    { destruct Hm as [->|A]; auto. pose proof (anc_lt W WF m n Ln A). lia. }
    rewrite (run_g h s F), (evaluate_g _ m Lm).
    apply (idempotent_state W g WF NB2 SO2 s h n m I F Hn Hm).
  Qed.

  (* C05_unbounded_path: r is the reference node of an unbounded range (S!B:B),
     p the bounded range node it stands for (S!B1:B4), with [cols] columns *)
  Theorem unbounded_path_weak s r p cols i j : Inv W sem s -> alias_node W sem r p -> p < N ->
    (forall vals, sem p vals = sem_formula (FRange cols) vals) ->
    0 < cols -> j < cols -> i * cols + j < length (wb_deps W p) ->
    snd (evaluate W sem s r) = snd (evaluate W sem s p)
    /\ tuple_at (snd (evaluate W sem s r)) i j
       = snd (evaluate W sem s (nth (i * cols + j) (wb_deps W p) 0))
    /\ tuple_at (snd (evaluate W sem s r)) i j
       = snd (evaluate W sem (fst (evaluate W sem s r)) (nth (i * cols + j) (wb_deps W p) 0)).
  Proof.
    intros I AL Lp Sp C J H.
    pose proof AL as (Lr & Ir & Dr & Ip & Sr).
    set (cell := nth (i * cols + j) (wb_deps W p) 0).
    assert (Hc: In cell (wb_deps W p)) by (apply nth_In; auto).
    assert (Lc: cell < N) by (apply (deps_ltN W WF p cell Lp Hc)).
    destruct (evaluate_inv_weak s r I Lr) as (I1 & Vr & K1).
    destruct (evaluate_inv_weak s p I Lp) as (_ & Vp & _).
    destruct (evaluate_inv_weak s cell I Lc) as (_ & Vc & _).
    destruct (evaluate_inv_weak _ cell I1 Lc) as (_ & Vc1 & _).
    assert (E: snd (evaluate W sem s r) = snd (evaluate W sem s p)).
    { rewrite Vr, Vp. now apply alias_spec. }
    destruct (path_weak W sem WF NBW SO s p cols i j I Lp Ip Sp C J H) as [P1 _].
    cbv zeta in P1. fold cell in P1.
    split; [exact E|]. rewrite E. split; [exact P1|].
    rewrite P1, Vc, Vc1. symmetry. apply spec_ext; auto.
  Qed.
  (* C05_states_agree: after ANY two Build/Evaluate histories the final caches
     agree on every input cell and on every cell that holds a value in both *)
  Theorem states_agree_weak s h1 h2 m : Inv W sem s -> Forall (be_op W) h1 -> Forall (be_op W) h2 ->
    m < N ->
    (wb_input W m = true \/ (st_cache (fst (run W sem s h1)) m <> VNone
                              /\ st_cache (fst (run W sem s h2)) m <> VNone)) ->
    st_cache (fst (run W sem s h1)) m = st_cache (fst (run W sem s h2)) m
    /\ st_cache (fst (run W sem s h1)) m = spec W sem (st_cache s) m.
  Proof.
    intros I F1 F2 L H. apply (Inv_guard W sem WF NBW) in I.
    rewrite (spec_guard W sem WF NBW _ m L).
    rewrite (run_g h1 s F1), (run_g h2 s F2) in *.
    rewrite (valued_is_spec W g WF NB2 SO2 s h1 m I F1 L) by (destruct H as [H|[H _]]; auto).
    rewrite (valued_is_spec W g WF NB2 SO2 s h2 m I F2 L) by (destruct H as [H|[_ H]]; auto).
    auto.
  Qed.

  (* C05_settled: the side condition of C05_permutation / C05_same_members holds
     at the start and after every address list *)
  Theorem settled_weak : settled W (init W) /\ Inv W sem (init W)
    /\ forall s l, Inv W sem s -> settled W s -> ltN W l ->
         settled W (fst (evaluate_list W sem s l)) /\ Inv W sem (fst (evaluate_list W sem s l)).
  Proof.
    split; [apply settled_init|]. split.
    - apply (invariant_weak W sem WF NBW SO).
    - intros s l I S F. split; [now apply settled_list_weak|now apply list_inv_weak].
  Qed.
  (* C05_list_repeat *)
  Theorem list_repeat_weak s l : Inv W sem s -> ltN W l ->
    snd (evaluate_list W sem (fst (evaluate_list W sem s l)) l) = snd (evaluate_list W sem s l)
    /\ forall m, st_built (fst (evaluate_list W sem (fst (evaluate_list W sem s l)) l)) m
                 = st_built (fst (evaluate_list W sem s l)) m
              /\ st_cache (fst (evaluate_list W sem (fst (evaluate_list W sem s l)) l)) m
                 = st_cache (fst (evaluate_list W sem s l)) m.
  Proof.
    intros I F. apply (Inv_guard W sem WF NBW) in I.
    rewrite (evaluate_list_g l s F), (evaluate_list_g l _ F).
    apply (list_repeat_any W g WF NB2 SO2 s l I F).
  Qed.

  (* C05_history_order *)
  Theorem history_order_weak s h1 h2 : Inv W sem s -> Forall (be_op W) h1 -> Forall (be_op W) h2 ->
    (forall o, In o h1 <-> In o h2) ->
    forall m, st_built (fst (run W sem s h1)) m = st_built (fst (run W sem s h2)) m
              /\ st_cache (fst (run W sem s h1)) m = st_cache (fst (run W sem s h2)) m.
  Proof.
    intros I F1 F2 EM. apply (Inv_guard W sem WF NBW) in I.
    rewrite (run_g h1 s F1), (run_g h2 s F2).
    apply (history_order W g WF NB2 SO2 s h1 h2 I F1 F2 EM).
  Qed.
  (* C05_history_values *)
  Theorem history_values_weak s h : Inv W sem s -> Forall (be_op W) h ->
    snd (run W sem s h) = map (fun o => snd (step W sem s o)) h.
  Proof.
    intros I F. apply (Inv_guard W sem WF NBW) in I.
    rewrite (run_g h s F), (history_values W g WF NB2 SO2 h s I F).
    apply map_ext_in. intros o Ho. rewrite Forall_forall in F.
    rewrite (step_guard W sem WF NBW s o); auto.
    specialize (F o Ho). destruct o; cbn in *; auto.
  Qed.

  Theorem history_values_perm_weak s h1 h2 : Inv W sem s -> Forall (be_op W) h1 -> Permutation h1 h2 ->
    Permutation (combine h1 (snd (run W sem s h1))) (combine h2 (snd (run W sem s h2))).
  Proof.
    intros I F1 P.
    assert (F2: Forall (be_op W) h2).
    { rewrite Forall_forall in *. intros x Hx. apply F1.
      eapply Permutation_in; [apply Permutation_sym; exact P|exact Hx]. }
    rewrite (history_values_weak s h1 I F1), (history_values_weak s h2 I F2), !combine_map.
    now apply Permutation_map.
  Qed.
  Lemma be_run_weak h s : Inv W sem s -> Forall (be_op W) h ->
    Inv W sem (fst (run W sem s h))
    /\ forall k, wb_input W k = true -> st_cache (fst (run W sem s h)) k = st_cache s k.
  Proof.
    intros I F. rewrite (run_g h s F).
    destruct (be_run W g WF NB2 SO2 h s (proj2 (Inv_guard W sem WF NBW s) I) F) as [I1 K].
    split; auto. now apply (Inv_guard W sem WF NBW).
  Qed.

  Lemma evaluate_same_weak s s' n : Inv W sem s -> Inv W sem s' -> n < N ->
    (forall k, wb_input W k = true -> st_cache s' k = st_cache s k) ->
    snd (evaluate W sem s' n) = snd (evaluate W sem s n).
  Proof.
    intros I I' L E.
    destruct (evaluate_inv_weak s n I L) as (_ & V & _).
    destruct (evaluate_inv_weak s' n I' L) as (_ & V' & _).
    rewrite V, V'. apply spec_ext; auto.
  Qed.

  (* C05_path_any_range: the same cell reached through ANY two range nodes that
     contain it, asked at two different moments of a history *)
  Theorem path_any_range_weak s h r1 cols1 i1 j1 r2 cols2 i2 j2 :
    Inv W sem s -> Forall (be_op W) h ->
    r1 < N -> wb_input W r1 = false ->
    (forall vals, sem r1 vals = sem_formula (FRange cols1) vals) ->
    0 < cols1 -> j1 < cols1 -> i1 * cols1 + j1 < length (wb_deps W r1) ->
    r2 < N -> wb_input W r2 = false ->
    (forall vals, sem r2 vals = sem_formula (FRange cols2) vals) ->
    0 < cols2 -> j2 < cols2 -> i2 * cols2 + j2 < length (wb_deps W r2) ->
    nth (i1 * cols1 + j1) (wb_deps W r1) 0 = nth (i2 * cols2 + j2) (wb_deps W r2) 0 ->
    tuple_at (snd (evaluate W sem s r1)) i1 j1
    = tuple_at (snd (evaluate W sem (fst (run W sem s h)) r2)) i2 j2.
  Proof.
    intros I F L1 I1 S1 C1 J1 H1 L2 I2 S2 C2 J2 H2 E.
    destruct (be_run_weak h s I F) as [I' K].
    destruct (path_weak W sem WF NBW SO s r1 cols1 i1 j1 I L1 I1 S1 C1 J1 H1) as [P1 _].
    destruct (path_weak W sem WF NBW SO _ r2 cols2 i2 j2 I' L2 I2 S2 C2 J2 H2) as [P2 _].
    cbv zeta in P1, P2. rewrite P1, P2, E.
    symmetry. apply evaluate_same_weak; auto.
    apply (deps_ltN W WF r2). auto. apply nth_In. auto.
  Qed.
  (* C05_unbounded_any_range: a cell through the reference node of an unbounded
     range and through any range node that contains it *)
  Theorem unbounded_any_range_weak s h r p cols1 i1 j1 r2 cols2 i2 j2 :
    Inv W sem s -> Forall (be_op W) h -> alias_node W sem r p -> p < N ->
    (forall vals, sem p vals = sem_formula (FRange cols1) vals) ->
    0 < cols1 -> j1 < cols1 -> i1 * cols1 + j1 < length (wb_deps W p) ->
    r2 < N -> wb_input W r2 = false ->
    (forall vals, sem r2 vals = sem_formula (FRange cols2) vals) ->
    0 < cols2 -> j2 < cols2 -> i2 * cols2 + j2 < length (wb_deps W r2) ->
    nth (i1 * cols1 + j1) (wb_deps W p) 0 = nth (i2 * cols2 + j2) (wb_deps W r2) 0 ->
    tuple_at (snd (evaluate W sem s r)) i1 j1
    = tuple_at (snd (evaluate W sem (fst (run W sem s h)) r2)) i2 j2
    /\ tuple_at (snd (evaluate W sem (fst (run W sem s h)) r)) i1 j1
       = tuple_at (snd (evaluate W sem s r2)) i2 j2.
  Proof.
    intros I F AL Lp Sp C1 J1 H1 L2 I2 S2 C2 J2 H2 E.
    pose proof AL as (_ & _ & _ & Ip & _).
    destruct (be_run_weak h s I F) as [I' K].
    destruct (unbounded_path_weak s r p cols1 i1 j1 I AL Lp Sp C1 J1 H1) as (E1 & _ & _).
    destruct (unbounded_path_weak _ r p cols1 i1 j1 I' AL Lp Sp C1 J1 H1) as (E2 & _ & _).
    rewrite E1, E2. split.
    - apply (path_any_range_weak s h p cols1 i1 j1 r2 cols2 i2 j2); auto.
    - symmetry. apply (path_any_range_weak s h r2 cols2 i2 j2 p cols1 i1 j1); auto.
  Qed.
End WeakList.

(* ---- the hypotheses are satisfiable (tests, not theorems): the two-column
   workbook of Proofs/C01AliasExample.v (0, 1 = B1, B2; 2 = B1:B2; 3 = the
   reference node B:B; 4 reads B:B; 5 reads B1:B2 and node 4) *)
From Coq Require Import ZArith.
From PV Require Import Proofs.C01AliasExample.
Local Open Scope nat_scope.

Example xl_ltN : ltN exaW [5; 2; 4; 2].
Proof. repeat constructor; cbn; lia. Qed.

Example xl_list_path :
  snd (evaluate_list exaW exa_sem (init exaW) [5; 2; 4; 2])
  = map (fun a => snd (evaluate exaW exa_sem (init exaW) a)) [5; 2; 4; 2]
  /\ snd (evaluate_list exaW exa_sem (init exaW) [5; 2; 4; 2])
     = [VInt 23; VTuple [VInt 3; VInt 4]; VInt 11; VTuple [VInt 3; VInt 4]]%Z.
Proof.
  split; [|vm_compute; reflexivity].
  apply (list_path_weak exaW exa_sem (exa_wf _) (exa_weak _) xo_stored (init exaW) _ xo_inv xl_ltN).
Qed.

Example xl_permutation :
  forall m, st_built (fst (evaluate_list exaW exa_sem (init exaW) [5; 3; 0])) m
            = st_built (fst (evaluate_list exaW exa_sem (init exaW) [0; 5; 3])) m
         /\ st_cache (fst (evaluate_list exaW exa_sem (init exaW) [5; 3; 0])) m
            = st_cache (fst (evaluate_list exaW exa_sem (init exaW) [0; 5; 3])) m.
Proof.
  apply (permutation_weak exaW exa_sem (exa_wf _) (exa_weak _) xo_stored (init exaW) [5; 3; 0] [0; 5; 3]
           xo_inv).
  - repeat constructor; cbn; lia.
  - apply Permutation_sym, (Permutation_cons_append [5; 3] 0).
Qed.

Example xl_idempotent :
  let s' := fst (run exaW exa_sem (init exaW) [Evaluate 5; Build 3]) in
  st_built (fst (evaluate exaW exa_sem s' 2)) = st_built s'
  /\ (forall k, st_cache (fst (evaluate exaW exa_sem s' 2)) k = st_cache s' k)
  /\ snd (evaluate exaW exa_sem s' 2) = st_cache s' 2.
Proof.
  apply (idempotent_state_weak exaW exa_sem (exa_wf _) (exa_weak _) xo_stored (init exaW)
           [Evaluate 5; Build 3] 5 2 xo_inv).
  - repeat constructor; cbn; lia.
  - left; reflexivity.
  - right. constructor. cbn. auto.
Qed.

(* node 3 = B:B, alias of node 2 = B1:B2 (one column): element (1, 0) is B2 *)
Example xl_alias : alias_node exaW xp_sem 3 2.
Proof. repeat split; try reflexivity. cbn. lia. Qed.
Example xl_unbounded :
  snd (evaluate exaW xp_sem (init exaW) 3) = snd (evaluate exaW xp_sem (init exaW) 2)
  /\ tuple_at (snd (evaluate exaW xp_sem (init exaW) 3)) 1 0
     = snd (evaluate exaW xp_sem (init exaW) (nth (1 * 1 + 0) (wb_deps exaW 2) 0))
  /\ tuple_at (snd (evaluate exaW xp_sem (init exaW) 3)) 1 0
     = snd (evaluate exaW xp_sem (fst (evaluate exaW xp_sem (init exaW) 3))
              (nth (1 * 1 + 0) (wb_deps exaW 2) 0)).
Proof.
  apply (unbounded_path_weak exaW xp_sem (exa_wf _) xp_weak xp_stored (init exaW) 3 2 1 1 0
           xp_inv xl_alias); try (cbn; lia); reflexivity.
Qed.
Example xl_unbounded_value : tuple_at (snd (evaluate exaW xp_sem (init exaW) 3)) 1 0 = VInt 4.
Proof. vm_compute. reflexivity. Qed.

Example xl_states_agree :
  st_cache (fst (run exaW exa_sem (init exaW) [Evaluate 5; Build 3])) 4
  = st_cache (fst (run exaW exa_sem (init exaW) [Build 2; Evaluate 4; Evaluate 0])) 4
  /\ st_cache (fst (run exaW exa_sem (init exaW) [Evaluate 5; Build 3])) 4 = VInt 11.
Proof.
  destruct (states_agree_weak exaW exa_sem (exa_wf _) (exa_weak _) xo_stored (init exaW)
              [Evaluate 5; Build 3] [Build 2; Evaluate 4; Evaluate 0] 4 xo_inv) as [A B].
  - repeat constructor; cbn; lia.
  - repeat constructor; cbn; lia.
  - cbn; lia.
  - right. split; vm_compute; discriminate.
  - split; [exact A|]. vm_compute. reflexivity.
Qed.

Example xl_list_repeat :
  snd (evaluate_list exaW exa_sem (fst (evaluate_list exaW exa_sem (init exaW) [5; 2; 4; 2])) [5; 2; 4; 2])
  = snd (evaluate_list exaW exa_sem (init exaW) [5; 2; 4; 2]).
Proof.
  apply (list_repeat_weak exaW exa_sem (exa_wf _) (exa_weak _) xo_stored (init exaW) _ xo_inv xl_ltN).
Qed.

(* two orders of the same Build/Evaluate operations (a stored-result workbook:
   exaWs of Proofs/C01AliasExample.v stores results for nodes 4 and 5) *)
Example xl_history_order :
  forall m, st_built (fst (run exaWs exa_sem (init exaWs) [Build 5; Evaluate 4; Build 2; Evaluate 0])) m
            = st_built (fst (run exaWs exa_sem (init exaWs) [Evaluate 0; Build 2; Evaluate 4; Build 5; Build 2])) m
         /\ st_cache (fst (run exaWs exa_sem (init exaWs) [Build 5; Evaluate 4; Build 2; Evaluate 0])) m
            = st_cache (fst (run exaWs exa_sem (init exaWs) [Evaluate 0; Build 2; Evaluate 4; Build 5; Build 2])) m.
Proof.
  assert (SO: stored_ok exaWs exa_sem).
  { split.
    - intros n L I R _. now apply exas_consistent.
    - intros p d Ld Hd Ip Rp Sp _. exfalso.
      pose proof (deps_ltN exaWs (exa_wf _) _ _ Ld Hd) as Lp.
      rewrite (exas_consistent p Lp Ip Rp) in Sp. cbn in Lp.
      destruct p as [|[|[|[|[|[|p]]]]]]; try lia; try discriminate; vm_compute in Sp; discriminate. }
  apply (history_order_weak exaWs exa_sem (exa_wf _) (exa_weak _) SO (init exaWs)).
  - apply (invariant_weak exaWs exa_sem (exa_wf _) (exa_weak _) SO).
  - repeat constructor; cbn; lia.
  - repeat constructor; cbn; lia.
  - intros o. cbn [In]. tauto.
Qed.

Example xl_history_values :
  snd (run exaW exa_sem (init exaW) [Build 5; Evaluate 4; Evaluate 2; Evaluate 5])
  = map (fun o => snd (step exaW exa_sem (init exaW) o)) [Build 5; Evaluate 4; Evaluate 2; Evaluate 5]
  /\ snd (run exaW exa_sem (init exaW) [Build 5; Evaluate 4; Evaluate 2; Evaluate 5])
     = [VNone; VInt 11; VTuple [VInt 3; VInt 4]; VInt 23]%Z.
Proof.
  split; [|vm_compute; reflexivity].
  apply (history_values_weak exaW exa_sem (exa_wf _) (exa_weak _) xo_stored (init exaW) _ xo_inv).
  repeat constructor; cbn; lia.
Qed.

(* B2 through B1:B2 (node 2, element (1,0)) now, and through the same range node
   after a history - the hypotheses of path_any_range_weak are satisfiable *)
Example xl_path_any_range :
  tuple_at (snd (evaluate exaW xp_sem (init exaW) 2)) 1 0
  = tuple_at (snd (evaluate exaW xp_sem (fst (run exaW xp_sem (init exaW) [Evaluate 5; Build 3])) 2)) 1 0.
Proof.
  apply (path_any_range_weak exaW xp_sem (exa_wf _) xp_weak xp_stored (init exaW) [Evaluate 5; Build 3]
           2 1 1 0 2 1 1 0 xp_inv); try (cbn; lia); try reflexivity.
  repeat constructor; cbn; lia.
Qed.

(* B2 through B:B (node 3, alias of node 2) and through B1:B2 (node 2) *)
Example xl_unbounded_any_range :
  tuple_at (snd (evaluate exaW xp_sem (init exaW) 3)) 1 0
  = tuple_at (snd (evaluate exaW xp_sem (fst (run exaW xp_sem (init exaW) [Evaluate 5; Build 3])) 2)) 1 0.
Proof.
  apply (unbounded_any_range_weak exaW xp_sem (exa_wf _) xp_weak xp_stored (init exaW) [Evaluate 5; Build 3]
           3 2 1 1 0 2 1 1 0 xp_inv); try (cbn; lia); try reflexivity.
  - repeat constructor; cbn; lia.
  - apply xl_alias.
Qed.
