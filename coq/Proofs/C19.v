(* Proofs/C19.v — the rounding family (Gen/excellib.v, regenerated from
   excellib.py) in closed form over exact rationals, and its bracket laws. *)
From Coq Require Import ZArith QArith Qround Qabs List Bool Lia Lqa.
From PV Require Import Lib.Py Proofs.PyTac Proofs.NumLemmas.
From PV Require Gen.excelutil Gen.excellib.
Import ListNotations.
Open Scope Z_scope.

Ltac st := cbn [bind lift1 lift2 cmp2 eq2 ne2 val_of cond_of b_and b_or b_not py_and py_or].

Lemma qv0 : qv (VInt 0) = 0%Q. Proof. reflexivity. Qed.

(* ------------------------------------------------------------------ INT *)
Lemma int_floor x : numeric x -> excellib.f_int_ x = Ok (VInt (Qfloor (qv x))).
Proof. intros Hx. unfold excellib.f_int_. st. apply py_floor_num. exact Hx. Qed.

(* -------------------------------------------------------- CEILING / FLOOR *)
Lemma q_trunc_neg q : (q < 0)%Q -> q_trunc q = Qceiling q.
Proof. intros H. unfold q_trunc. apply q_ltb_lt in H. rewrite H. reflexivity. Qed.

Lemma Qdiv_neg_pos a b : (a < 0)%Q -> (0 < b)%Q -> (a / b < 0)%Q.
Proof.
  intros Ha Hb. unfold Qdiv.
  assert (0 < / b)%Q by (apply Qinv_lt_0_compat; exact Hb).
  setoid_replace 0%Q with (0 * / b)%Q by ring.
  apply Qmult_lt_compat_r; assumption.
Qed.

Lemma pos_neq0 s : (0 < s)%Q -> ~ (s == 0)%Q.
Proof. intros H E. rewrite E in H. apply (Qlt_irrefl 0). exact H. Qed.

Lemma ceiling_pos x s : numeric x -> numeric s -> (0 < qv s)%Q ->
  exists r, excellib.f_ceiling x s = Ok r /\ numeric r
            /\ (qv r == qv s * inject_Z (Qceiling (qv x / qv s)))%Q.
Proof.
  intros Hx Hs Hpos. unfold excellib.f_ceiling. st.
  rewrite (py_lt_num s (VInt 0) Hs I), qv0.
  replace (q_ltb (qv s) 0) with false by (symmetry; apply q_ltb_ge; apply Qlt_le_weak; exact Hpos).
  st. rewrite (py_eq_num x (VInt 0) Hx I), (py_eq_num s (VInt 0) Hs I), qv0.
  replace (q_eqb (qv s) 0) with false by (symmetry; apply q_eqb_neq; apply pos_neq0; exact Hpos).
  destruct (q_eqb (qv x) 0) eqn:Ex0; st.
  - apply q_eqb_eq in Ex0. exists (VInt 0). repeat split. rewrite qv0.
    assert (E : (qv x / qv s == 0)%Q) by (rewrite Ex0; unfold Qdiv; ring).
    rewrite (Qceiling_comp _ _ E). change (Qceiling 0) with 0. cbn. ring.
  - rewrite (py_lt_num x (VInt 0) Hx I), (py_lt_num (VInt 0) s I Hs), qv0.
    replace (q_ltb 0 (qv s)) with true by (symmetry; apply q_ltb_lt; exact Hpos).
    rewrite (py_truediv_num x s Hx Hs (pos_neq0 _ Hpos)). st.
    destruct (q_ltb (qv x) 0) eqn:Exn; st.
    + apply q_ltb_lt in Exn.
      rewrite (py_int_num (mkfloat (qv x / qv s)) I).
      rewrite (q_trunc_comp _ _ (qv_mkfloat _)).
      rewrite (q_trunc_neg _ (Qdiv_neg_pos _ _ Exn Hpos)). st.
      destruct (py_mul_num s (VInt (Qceiling (qv x / qv s))) Hs I) as (r & Hr & Hn & Hq).
      exists r. repeat split; auto.
    + rewrite (py_ceil_num (mkfloat (qv x / qv s)) I).
      rewrite (Qceiling_comp _ _ (qv_mkfloat _)). st.
      destruct (py_mul_num s (VInt (Qceiling (qv x / qv s))) Hs I) as (r & Hr & Hn & Hq).
      exists r. repeat split; auto.
Qed.

Lemma floor_pos x s : numeric x -> numeric s -> (0 < qv s)%Q ->
  exists r, excellib.f_floor x s = Ok r /\ numeric r
            /\ (qv r == qv s * inject_Z (Qfloor (qv x / qv s)))%Q.
Proof.
  intros Hx Hs Hpos. unfold excellib.f_floor. st.
  rewrite (py_lt_num s (VInt 0) Hs I), qv0.
  replace (q_ltb (qv s) 0) with false by (symmetry; apply q_ltb_ge; apply Qlt_le_weak; exact Hpos).
  st. rewrite (py_eq_num x (VInt 0) Hx I), qv0.
  destruct (q_eqb (qv x) 0) eqn:Ex0; st.
  - apply q_eqb_eq in Ex0. exists (VInt 0). repeat split. rewrite qv0.
    assert (E : (qv x / qv s == 0)%Q) by (rewrite Ex0; unfold Qdiv; ring).
    rewrite (Qfloor_comp _ _ E). change (Qfloor 0) with 0. cbn. ring.
  - rewrite (py_eq_num s (VInt 0) Hs I), qv0.
    replace (q_eqb (qv s) 0) with false by (symmetry; apply q_eqb_neq; apply pos_neq0; exact Hpos).
    st. rewrite (py_truediv_num x s Hx Hs (pos_neq0 _ Hpos)). st.
    rewrite (py_floor_num (mkfloat (qv x / qv s)) I).
    rewrite (Qfloor_comp _ _ (qv_mkfloat _)).
    destruct (py_mul_num s (VInt (Qfloor (qv x / qv s))) Hs I) as (r & Hr & Hn & Hq).
    exists r. repeat split; auto.
Qed.

(* the bracket: for s > 0, floor <= x <= ceiling, both multiples of s, and they
   are less than s away from x *)
Lemma mul_div_cancel x s : ~ (s == 0)%Q -> (s * (x / s) == x)%Q.
Proof. intros H. field. exact H. Qed.

Lemma ceiling_bracket x s k : (0 < s)%Q -> k = Qceiling (x / s) ->
  (x <= s * inject_Z k)%Q /\ (s * inject_Z k < x + s)%Q.
Proof.
  intros Hs ->. set (q := (x / s)%Q).
  assert (Hx : (x == s * q)%Q) by (unfold q; symmetry; apply mul_div_cancel; apply pos_neq0; exact Hs).
  pose proof (Qle_ceiling q) as H1. pose proof (Qceiling_lt q) as H2.
  split.
  - rewrite Hx at 1. apply Qmult_le_l; assumption.
  - assert (E : (x + s == s * (q + 1))%Q) by (rewrite Hx at 1; ring). rewrite E.
    apply Qmult_lt_l; [exact Hs|].
    unfold Z.sub in H2. rewrite inject_Z_plus in H2. change (inject_Z (-1)) with (-1 # 1)%Q in H2.
    apply Qplus_lt_l with (z := (-1 # 1)%Q).
    setoid_replace (q + 1 + (-1 # 1))%Q with q by ring. exact H2.
Qed.

Lemma floor_bracket x s k : (0 < s)%Q -> k = Qfloor (x / s) ->
  (s * inject_Z k <= x)%Q /\ (x < s * inject_Z k + s)%Q.
Proof.
  intros Hs ->. set (q := (x / s)%Q).
  assert (Hx : (x == s * q)%Q) by (unfold q; symmetry; apply mul_div_cancel; apply pos_neq0; exact Hs).
  pose proof (Qfloor_le q) as H1. pose proof (Qlt_floor q) as H2.
  split.
  - apply Qle_trans with (s * q)%Q; [apply Qmult_le_l; assumption|rewrite <- Hx; apply Qle_refl].
  - assert (E : (s * inject_Z (Qfloor q) + s == s * (inject_Z (Qfloor q) + 1))%Q) by ring.
    rewrite E. rewrite Hx at 1. apply Qmult_lt_l; [exact Hs|].
    rewrite inject_Z_plus in H2. exact H2.
Qed.

Lemma ceiling_floor_bracket x s : numeric x -> numeric s -> (0 < qv s)%Q ->
  exists c f kc kf,
    excellib.f_ceiling x s = Ok c /\ excellib.f_floor x s = Ok f
    /\ (qv c == qv s * inject_Z kc)%Q /\ (qv f == qv s * inject_Z kf)%Q
    /\ (qv f <= qv x)%Q /\ (qv x <= qv c)%Q
    /\ (qv c < qv x + qv s)%Q /\ (qv x < qv f + qv s)%Q.
Proof.
  intros Hx Hs Hpos.
  destruct (ceiling_pos x s Hx Hs Hpos) as (c & Hc & _ & Qc).
  destruct (floor_pos x s Hx Hs Hpos) as (f & Hf & _ & Qf).
  destruct (ceiling_bracket (qv x) (qv s) _ Hpos eq_refl) as [C1 C2].
  destruct (floor_bracket (qv x) (qv s) _ Hpos eq_refl) as [F1 F2].
  exists c, f, (Qceiling (qv x / qv s)), (Qfloor (qv x / qv s)).
  repeat split; auto; rewrite ?Qc, ?Qf; assumption.
Qed.

(* ------------------------------------------------------------------ MOD *)
Lemma mod_zero n d : numeric n -> numeric d -> (qv d == 0)%Q ->
  excellib.f_mod n d = Ok excelutil.c_DIV0.
Proof.
  intros Hn Hd Hz. unfold excellib.f_mod. st.
  rewrite (py_eq_num d (VInt 0) Hd I), qv0.
  replace (q_eqb (qv d) 0) with true by (symmetry; apply q_eqb_eq; exact Hz). reflexivity.
Qed.

Lemma frac_range q : (0 <= q - inject_Z (Qfloor q))%Q /\ (q - inject_Z (Qfloor q) < 1)%Q.
Proof.
  pose proof (Qfloor_le q) as H1. pose proof (Qlt_floor q) as H2.
  rewrite inject_Z_plus in H2. change (inject_Z 1) with 1%Q in H2. split; lra.
Qed.

Lemma mod_spec n d : numeric n -> numeric d -> ~ (qv d == 0)%Q ->
  exists r, excellib.f_mod n d = Ok r /\ numeric r
    /\ (qv n == qv d * inject_Z (Qfloor (qv n / qv d)) + qv r)%Q
    /\ ((0 < qv d)%Q -> (0 <= qv r)%Q /\ (qv r < qv d)%Q)
    /\ ((qv d < 0)%Q -> (qv d < qv r)%Q /\ (qv r <= 0)%Q).
Proof.
  intros Hn Hd Hz. unfold excellib.f_mod. st.
  rewrite (py_eq_num d (VInt 0) Hd I), qv0.
  replace (q_eqb (qv d) 0) with false by (symmetry; apply q_eqb_neq; exact Hz).
  destruct (py_mod_num n d Hn Hd Hz) as (r & Hr & Hnr & Hq).
  exists r. split; [exact Hr|]. split; [exact Hnr|].
  set (q := (qv n / qv d)%Q) in *.
  assert (Hnq : (qv n == qv d * q)%Q) by (unfold q; symmetry; apply mul_div_cancel; exact Hz).
  assert (Hr2 : (qv r == qv d * (q - inject_Z (Qfloor q)))%Q).
  { rewrite Hq. rewrite Hnq at 1. ring. }
  destruct (frac_range q) as [F0 F1].
  set (f := (q - inject_Z (Qfloor q))%Q) in *.
  split; [rewrite Hq; ring|]. split; intros Hs; rewrite Hr2; split; nra.
Qed.

(* ------------------------------------------ ROUND / ROUNDUP / ROUNDDOWN / TRUNC *)
Lemma pow10_pos n : (0 < pow10 n)%Q.
Proof.
  unfold pow10. destruct (0 <=? n) eqn:E.
  - apply Z.leb_le in E. change 0%Q with (inject_Z 0). rewrite <- Zlt_Qlt.
    apply Z.pow_pos_nonneg; lia.
  - apply Z.leb_gt in E. apply Qinv_lt_0_compat.
    change 0%Q with (inject_Z 0). rewrite <- Zlt_Qlt. apply Z.pow_pos_nonneg; lia.
Qed.

Lemma quantize_closed x d m : numeric x ->
  py_quantize x (VInt d) m
  = Ok (mkfloat (inject_Z (q_round_mode m (qv x / pow10 (- d))) * pow10 (- d))).
Proof.
  intros Hx. destruct (numeric_as_num x Hx) as (n & En & Qn).
  unfold py_quantize. rewrite En, Qn. reflexivity.
Qed.

Definition digits_unit (d : Z) : Q := pow10 (- d).

(* nearest integer, ties away from zero *)
Definition nearest_away (q : Q) (z : Z) : Prop :=
  ((0 <= q)%Q -> (q - (1#2) < inject_Z z)%Q /\ (inject_Z z <= q + (1#2))%Q)
  /\ ((q < 0)%Q -> (q - (1#2) <= inject_Z z)%Q /\ (inject_Z z < q + (1#2))%Q).
(* toward zero / away from zero *)
Definition toward_zero (q : Q) (z : Z) : Prop :=
  ((0 <= q)%Q -> (inject_Z z <= q)%Q /\ (q < inject_Z z + 1)%Q)
  /\ ((q < 0)%Q -> (inject_Z z - 1 < q)%Q /\ (q <= inject_Z z)%Q).
Definition away_from_zero (q : Q) (z : Z) : Prop :=
  ((0 <= q)%Q -> (inject_Z z - 1 < q)%Q /\ (q <= inject_Z z)%Q)
  /\ ((q < 0)%Q -> (inject_Z z <= q)%Q /\ (q < inject_Z z + 1)%Q).

Lemma floor_spec q : (inject_Z (Qfloor q) <= q)%Q /\ (q < inject_Z (Qfloor q) + 1)%Q.
Proof.
  pose proof (Qfloor_le q) as H1. pose proof (Qlt_floor q) as H2.
  rewrite inject_Z_plus in H2. change (inject_Z 1) with 1%Q in H2. auto.
Qed.
Lemma ceiling_spec q : (inject_Z (Qceiling q) - 1 < q)%Q /\ (q <= inject_Z (Qceiling q))%Q.
Proof.
  pose proof (Qle_ceiling q) as H1. pose proof (Qceiling_lt q) as H2.
  unfold Z.sub in H2. rewrite inject_Z_plus, inject_Z_opp in H2. change (inject_Z 1) with 1%Q in H2.
  split; [lra|exact H1].
Qed.

Lemma half_up_nearest q : nearest_away q (q_round_half_up q).
Proof.
  unfold nearest_away, q_round_half_up. split; intros Hq.
  - replace (q_ltb q 0) with false by (symmetry; apply q_ltb_ge; exact Hq).
    destruct (floor_spec (q + (1#2))) as [F1 F2]. split; lra.
  - replace (q_ltb q 0) with true by (symmetry; apply q_ltb_lt; exact Hq).
    destruct (floor_spec (- q + (1#2))) as [F1 F2]. rewrite inject_Z_opp. split; lra.
Qed.
Lemma trunc_toward_zero q : toward_zero q (q_trunc q).
Proof.
  unfold toward_zero, q_trunc. split; intros Hq.
  - replace (q_ltb q 0) with false by (symmetry; apply q_ltb_ge; exact Hq). apply floor_spec.
  - replace (q_ltb q 0) with true by (symmetry; apply q_ltb_lt; exact Hq). apply ceiling_spec.
Qed.
Lemma round_up_away q : away_from_zero q (q_round_up q).
Proof.
  unfold away_from_zero, q_round_up. split; intros Hq.
  - replace (q_ltb q 0) with false by (symmetry; apply q_ltb_ge; exact Hq). apply ceiling_spec.
  - replace (q_ltb q 0) with true by (symmetry; apply q_ltb_lt; exact Hq). apply floor_spec.
Qed.

(* an exact multiple is left alone by all three *)
Lemma round_modes_fix k :
  q_round_half_up (inject_Z k) = k /\ q_trunc (inject_Z k) = k /\ q_round_up (inject_Z k) = k.
Proof.
  repeat split.
  - destruct (half_up_nearest (inject_Z k)) as [H1 H2].
    destruct (Qlt_le_dec (inject_Z k) 0) as [Hn|Hp].
    + destruct (H2 Hn) as [A B]. set (z := q_round_half_up (inject_Z k)) in *.
      assert (inject_Z k - 1 < inject_Z z)%Q by lra. assert (inject_Z z < inject_Z k + 1)%Q by lra.
      assert (k - 1 < z) by (rewrite Zlt_Qlt; unfold Z.sub; rewrite inject_Z_plus, inject_Z_opp; exact H).
      assert (z < k + 1) by (rewrite Zlt_Qlt; rewrite inject_Z_plus; exact H0). lia.
    + destruct (H1 Hp) as [A B]. set (z := q_round_half_up (inject_Z k)) in *.
      assert (inject_Z k - 1 < inject_Z z)%Q by lra. assert (inject_Z z < inject_Z k + 1)%Q by lra.
      assert (k - 1 < z) by (rewrite Zlt_Qlt; unfold Z.sub; rewrite inject_Z_plus, inject_Z_opp; exact H).
      assert (z < k + 1) by (rewrite Zlt_Qlt; rewrite inject_Z_plus; exact H0). lia.
  - apply q_trunc_inject.
  - unfold q_round_up. rewrite Qfloor_inject, Qceiling_inject. destruct (q_ltb _ _); reflexivity.
Qed.

Ltac round_tac Hx :=
  unfold excellib.f_round_, excellib.f_rounddown, excellib.f_roundup, excellib.f_trunc,
         excellib.f__round, excellib.c_ROUND_HALF_UP, excellib.c_ROUND_DOWN, excellib.c_ROUND_UP;
  st; cbn [py_int];
  st; repeat match goal with |- context [py_ge ?a ?b] => destruct (py_ge a b) as [[|]|]; st end;
  unfold py_quantize_v; cbn [rounding_of str_eqb]; zlit; cbn [andb];
  try (rewrite (quantize_closed _ _ _ Hx); reflexivity).

Lemma round_closed x d : numeric x ->
  excellib.f_round_ x (VInt d)
  = Ok (mkfloat (inject_Z (q_round_half_up (qv x / digits_unit d)) * digits_unit d)).
Proof.
  intros Hx. unfold excellib.f_round_, excellib.f__round, excellib.c_ROUND_HALF_UP. st. cbn [py_int]. st.
  cbn [py_ge py_le as_num]. st.
  assert (E : py_quantize_v x (VInt d) (VStr [82; 79; 85; 78; 68; 95; 72; 65; 76; 70; 95; 85; 80])
              = Ok (mkfloat (inject_Z (q_round_half_up (qv x / digits_unit d)) * digits_unit d))).
  { unfold py_quantize_v. cbn [rounding_of str_eqb]. zlit. cbn [andb].
    rewrite (quantize_closed _ _ _ Hx). reflexivity. }
  destruct (0 <=? d); st; exact E.
Qed.
Lemma rounddown_closed x d : numeric x ->
  excellib.f_rounddown x (VInt d)
  = Ok (mkfloat (inject_Z (q_trunc (qv x / digits_unit d)) * digits_unit d)).
Proof.
  intros Hx. unfold excellib.f_rounddown, excellib.f__round, excellib.c_ROUND_DOWN. st. cbn [py_int]. st.
  unfold py_quantize_v. cbn [rounding_of str_eqb]. zlit. cbn [andb].
  rewrite (quantize_closed _ _ _ Hx). reflexivity.
Qed.
Lemma roundup_closed x d : numeric x ->
  excellib.f_roundup x (VInt d)
  = Ok (mkfloat (inject_Z (q_round_up (qv x / digits_unit d)) * digits_unit d)).
Proof.
  intros Hx. unfold excellib.f_roundup, excellib.f__round, excellib.c_ROUND_UP. st. cbn [py_int]. st.
  unfold py_quantize_v. cbn [rounding_of str_eqb]. zlit. cbn [andb].
  rewrite (quantize_closed _ _ _ Hx). reflexivity.
Qed.
Lemma trunc_closed x d : numeric x ->
  excellib.f_trunc x (VInt d)
  = Ok (mkfloat (inject_Z (q_trunc (qv x / digits_unit d)) * digits_unit d)).
Proof.
  intros Hx. unfold excellib.f_trunc, excellib.f__round, excellib.c_ROUND_DOWN. st. cbn [py_int]. st.
  unfold py_quantize_v. cbn [rounding_of str_eqb]. zlit. cbn [andb].
  rewrite (quantize_closed _ _ _ Hx). reflexivity.
Qed.

(* ------------------------------------------------------------ EVEN / ODD *)
Lemma py_copysign_num a b : numeric a -> numeric b ->
  py_copysign a b = Ok (mkfloat (if q_ltb (qv b) 0 then - Qabs (qv a) else Qabs (qv a))).
Proof.
  intros Ha Hb. destruct (numeric_as_num a Ha) as (na & Ea & Qa).
  destruct (numeric_as_num b Hb) as (nb & Eb & Qb).
  unfold py_copysign. rewrite Ea, Eb, Qa, Qb. reflexivity.
Qed.

Lemma two_neq0 : ~ (qv (VInt 2) == 0)%Q.
Proof. unfold qv. cbn. discriminate. Qed.

(* EVEN x = sign(x) * 2 * ceil(|x| / 2) *)
Lemma even_closed x : numeric x ->
  exists r, excellib.f_even x = Ok r /\ numeric r
    /\ (qv r == (if q_ltb (qv x) 0 then -1 else 1) * inject_Z (2 * Qceiling (Qabs (qv x) / 2)))%Q.
Proof.
  intros Hx. unfold excellib.f_even. st.
  destruct (py_abs_num x Hx) as (a & Ha & Hna & Qa). rewrite Ha. st.
  rewrite (py_truediv_num a (VInt 2) Hna I two_neq0). st.
  rewrite (py_ceil_num (mkfloat (qv a / qv (VInt 2))) I). st.
  cbn [py_mul arith as_num]. st.
  match goal with |- context [py_copysign ?a x] => rewrite (py_copysign_num a x I Hx) end.
  eexists. split; [reflexivity|]. split; [exact I|].
  rewrite qv_mkfloat.
  assert (E : (qv (mkfloat (qv a / qv (VInt 2))) == Qabs (qv x) / 2)%Q).
  { rewrite qv_mkfloat, Qa. reflexivity. }
  rewrite (Qceiling_comp _ _ E).
  set (k := Qceiling (Qabs (qv x) / 2)).
  assert (Hk : 0 <= k).
  { unfold k. change 0 with (Qceiling 0). apply Qceiling_resp_le.
    apply Qle_shift_div_l; [reflexivity|]. ring_simplify. apply Qabs_nonneg. }
  rewrite qv_int.
  assert (Habs : (Qabs (inject_Z (k * 2)) == inject_Z (2 * k))%Q).
  { rewrite Qabs_pos by (change 0%Q with (inject_Z 0); rewrite <- Zle_Qle; lia).
    replace (k * 2) with (2 * k) by lia. reflexivity. }
  destruct (q_ltb (qv x) 0); rewrite Habs; ring.
Qed.

Lemma even_bracket x : numeric x ->
  exists r k, excellib.f_even x = Ok r
    /\ (Qabs (qv r) == inject_Z (2 * k))%Q /\ (Qabs (qv x) <= Qabs (qv r))%Q
    /\ (Qabs (qv r) < Qabs (qv x) + 2)%Q
    /\ ((qv x < 0)%Q -> (qv r <= 0)%Q) /\ ((0 <= qv x)%Q -> (0 <= qv r)%Q).
Proof.
  intros Hx. destruct (even_closed x Hx) as (r & Hr & _ & Q).
  set (k := Qceiling (Qabs (qv x) / 2)) in *.
  exists r, k. split; [exact Hr|].
  destruct (ceiling_spec (Qabs (qv x) / 2)) as [C1 C2]. fold k in C1, C2.
  assert (Hk0 : (0 <= inject_Z (2 * k))%Q).
  { rewrite inject_Z_mult. change (inject_Z 2) with 2%Q.
    pose proof (Qabs_nonneg (qv x)). 
    assert (0 <= Qabs (qv x) / 2)%Q by (apply Qle_shift_div_l; [reflexivity|]; lra). lra. }
  assert (Hx2 : (Qabs (qv x) / 2 * 2 == Qabs (qv x))%Q) by (field).
  assert (B1 : (Qabs (qv x) <= inject_Z (2 * k))%Q).
  { rewrite inject_Z_mult. change (inject_Z 2) with 2%Q. lra. }
  assert (B2 : (inject_Z (2 * k) < Qabs (qv x) + 2)%Q).
  { rewrite inject_Z_mult. change (inject_Z 2) with 2%Q. lra. }
  assert (Habs : (Qabs (qv r) == inject_Z (2 * k))%Q).
  { rewrite Q. destruct (q_ltb (qv x) 0).
    - setoid_replace (-1 * inject_Z (2 * k))%Q with (- inject_Z (2 * k))%Q by ring.
      rewrite Qabs_opp. apply Qabs_pos. exact Hk0.
    - setoid_replace (1 * inject_Z (2 * k))%Q with (inject_Z (2 * k))%Q by ring.
      apply Qabs_pos. exact Hk0. }
  repeat split.
  - exact Habs.
  - rewrite Habs. exact B1.
  - rewrite Habs. exact B2.
  - intros Hneg. rewrite Q. apply q_ltb_lt in Hneg. rewrite Hneg. lra.
  - intros Hpos. rewrite Q. apply q_ltb_ge in Hpos. rewrite Hpos. lra.
Qed.

(* ODD x = sign(x) * (2 * ceil((|x| - 1) / 2) + 1) *)
Lemma odd_closed x : numeric x ->
  exists r, excellib.f_odd x = Ok r /\ numeric r
    /\ (qv r == (if q_ltb (qv x) 0 then -1 else 1)
                * Qabs (inject_Z (2 * Qceiling ((Qabs (qv x) - 1) / 2) + 1)))%Q.
Proof.
  intros Hx. unfold excellib.f_odd. st.
  destruct (py_abs_num x Hx) as (a & Ha & Hna & Qa). rewrite Ha. st.
  destruct (py_sub_num a (VInt 1) Hna I) as (b & Hb & Hnb & Qb). rewrite Hb. st.
  rewrite (py_truediv_num b (VInt 2) Hnb I two_neq0). st.
  rewrite (py_ceil_num (mkfloat (qv b / qv (VInt 2))) I). st.
  repeat (progress (st; cbn [py_mul py_add arith as_num])).
  match goal with |- context [py_copysign ?a x] => rewrite (py_copysign_num a x I Hx) end.
  eexists. split; [reflexivity|]. split; [exact I|].
  rewrite qv_mkfloat.
  assert (E : (qv (mkfloat (qv b / qv (VInt 2))) == (Qabs (qv x) - 1) / 2)%Q).
  { rewrite qv_mkfloat, Qb, Qa. reflexivity. }
  rewrite (Qceiling_comp _ _ E).
  set (k := Qceiling ((Qabs (qv x) - 1) / 2)).
  rewrite qv_int. replace (k * 2 + 1) with (2 * k + 1) by lia.
  destruct (q_ltb (qv x) 0); ring.
Qed.

(* a positive number with a negative significance is #NUM! *)
Lemma ceiling_num_error x s : numeric x -> numeric s -> (qv s < 0)%Q -> (0 < qv x)%Q ->
  excellib.f_ceiling x s = Ok excelutil.c_NUM_ERROR.
Proof.
  intros Hx Hs Hneg Hpos. unfold excellib.f_ceiling. st.
  rewrite (py_lt_num s (VInt 0) Hs I), qv0.
  replace (q_ltb (qv s) 0) with true by (symmetry; apply q_ltb_lt; exact Hneg). st.
  rewrite (py_lt_num (VInt 0) x I Hx), qv0.
  replace (q_ltb 0 (qv x)) with true by (symmetry; apply q_ltb_lt; exact Hpos). reflexivity.
Qed.
Lemma floor_num_error x s : numeric x -> numeric s -> (qv s < 0)%Q -> (0 < qv x)%Q ->
  excellib.f_floor x s = Ok excelutil.c_NUM_ERROR.
Proof.
  intros Hx Hs Hneg Hpos. unfold excellib.f_floor. st.
  rewrite (py_lt_num s (VInt 0) Hs I), qv0.
  replace (q_ltb (qv s) 0) with true by (symmetry; apply q_ltb_lt; exact Hneg). st.
  rewrite (py_lt_num (VInt 0) x I Hx), qv0.
  replace (q_ltb 0 (qv x)) with true by (symmetry; apply q_ltb_lt; exact Hpos). reflexivity.
Qed.

(* .PRECISE / .MATH (mode 0): |s| * ceil / floor (x / |s|) for every sign of s *)
Lemma abs_neq0 a : ~ (a == 0)%Q -> ~ (Qabs a == 0)%Q.
Proof.
  intros H E. apply H. destruct (Qlt_le_dec a 0) as [Hn|Hp].
  - rewrite Qabs_neg in E by (apply Qlt_le_weak; exact Hn). lra.
  - rewrite Qabs_pos in E by exact Hp. exact E.
Qed.

Lemma ceiling_precise_closed x s : numeric x -> numeric s -> ~ (qv s == 0)%Q ->
  exists r, excellib.f_ceiling_precise x s = Ok r /\ numeric r
    /\ (qv r == Qabs (qv s) * inject_Z (Qceiling (qv x / Qabs (qv s))))%Q.
Proof.
  intros Hx Hs Hnz. unfold excellib.f_ceiling_precise. st.
  rewrite (py_eq_num s (VInt 0) Hs I), qv0.
  replace (q_eqb (qv s) 0) with false by (symmetry; apply q_eqb_neq; exact Hnz).
  destruct (py_abs_num s Hs) as (a & Ha & Hna & Qa). rewrite Ha. st.
  assert (Hanz : ~ (qv a == 0)%Q) by (rewrite Qa; apply abs_neq0; exact Hnz).
  rewrite (py_truediv_num x a Hx Hna Hanz). st.
  rewrite (py_ceil_num (mkfloat (qv x / qv a)) I).
  rewrite (Qceiling_comp _ (qv x / Qabs (qv s))%Q) by (rewrite qv_mkfloat, Qa; reflexivity).
  destruct (py_mul_num a (VInt (Qceiling (qv x / Qabs (qv s)))) Hna I) as (r & Hr & Hnr & Qr).
  exists r. split; [exact Hr|]. split; [exact Hnr|]. rewrite Qr, Qa. reflexivity.
Qed.
Lemma floor_precise_closed x s : numeric x -> numeric s -> ~ (qv s == 0)%Q ->
  exists r, excellib.f_floor_precise x s = Ok r /\ numeric r
    /\ (qv r == Qabs (qv s) * inject_Z (Qfloor (qv x / Qabs (qv s))))%Q.
Proof.
  intros Hx Hs Hnz. unfold excellib.f_floor_precise. st.
  rewrite (py_eq_num s (VInt 0) Hs I), qv0.
  replace (q_eqb (qv s) 0) with false by (symmetry; apply q_eqb_neq; exact Hnz).
  destruct (py_abs_num s Hs) as (a & Ha & Hna & Qa). rewrite Ha. st.
  assert (Hanz : ~ (qv a == 0)%Q) by (rewrite Qa; apply abs_neq0; exact Hnz).
  rewrite (py_truediv_num x a Hx Hna Hanz). st.
  rewrite (py_floor_num (mkfloat (qv x / qv a)) I).
  rewrite (Qfloor_comp _ (qv x / Qabs (qv s))%Q) by (rewrite qv_mkfloat, Qa; reflexivity).
  destruct (py_mul_num a (VInt (Qfloor (qv x / Qabs (qv s)))) Hna I) as (r & Hr & Hnr & Qr).
  exists r. split; [exact Hr|]. split; [exact Hnr|]. rewrite Qr, Qa. reflexivity.
Qed.
