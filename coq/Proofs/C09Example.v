(* Proofs/C09Example.v — C09: the hypotheses of the theorems are satisfiable on a
   7-node workbook with a range node, a formula that raises (plugin) and an
   unknown function (tests, not theorems).
     0: A1 = 1 (input)   1: A2 = 2 (input)   2: B1 = BOOM(A1)       raises
     3: A2:B1 -> nodes [1; 2] (range node)   4: C1 = f4(A2:B1, A1)
     5: D1 = f5(A2)      6: E1 = NOSUCHFUNC(D1)                      unknown function *)
From Coq Require Import List Arith Bool Lia ZArith.
From PV Require Import Lib.Py Model.Graph Model.Fail.
From PV Require Import Proofs.C01Base Proofs.C01Inv Proofs.C01Example.
From PV Require Import Proofs.C09Eval Proofs.C09Inv Proofs.C09 Proofs.C09Repair.
Import ListNotations.
Local Open Scope nat_scope.

Definition fx_wb : workbook :=
  {| wb_n := 7;
     wb_input := fun n => n <? 2;
     wb_deps := fun n => match n with 2 => [0] | 3 => [1; 2] | 4 => [3; 0] | 5 => [1] | 6 => [5] | _ => [] end;
     wb_range := fun n => n =? 3;
     wb_inp0 := fun n => match n with 0 => VInt 1 | 1 => VInt 2 | _ => VNone end;
     wb_stored := fun _ => VNone |}.

(* range node: the tuple of its members; formula node n: n + the sum of the numbers it reads;
   the formula of node 2 raises *)
Definition fx_fsem (n : nat) (vals : list pyval) : option pyval :=
  if n =? 2 then None
  else Some (if n =? 3 then VTuple vals else VInt (Z.of_nat n + tot (VTuple vals))).
Definition fx_fpre (n : nat) : option nat := if n =? 6 then Some 0 else None.
(* a total completion *)
Definition fx_sem (n : nat) (vals : list pyval) : pyval :=
  match fx_fsem n vals with Some v => v | None => VStr [] end.

Example fx_wf : wf fx_wb.
Proof. apply wfb_sound. reflexivity. Qed.
Example fx_nonblank : sem_nonblank fx_wb fx_sem.
Proof.
  intros n vals _ _. unfold fx_sem, fx_fsem. destruct (n =? 2); [discriminate|].
  destruct (n =? 3); discriminate.
Qed.
Example fx_completes : completes fx_fsem fx_fpre fx_sem.
Proof. intros n vals v _ H. unfold fx_sem. now rewrite H. Qed.
Example fx_nostored : forall n, wb_stored fx_wb n = VNone.
Proof. reflexivity. Qed.

Notation fx_order := (gen_order fx_wb).

(* from-scratch outcomes: B1 raises, so do the range that contains it and C1
   (re-raised as FormulaEvalError); D1 is fine; E1 is an unknown function *)
Example fx_fspec : map (fspec fx_wb fx_fsem fx_fpre (wb_inp0 fx_wb)) [2; 3; 4; 5; 6]
  = [FRaise EFormula; FRaise EFormula; FRaise EFormula; FVal (VInt 7); FRaise EUnknown].
Proof. vm_compute. reflexivity. Qed.

(* a history: C1 fails twice (the first time while the graph is built: the new
   range node is evaluated), D1 is unaffected, E1 fails, B1 is repaired, C1 has
   a value, an upstream write of A2 (not a precedent of B1) keeps the repair *)
Definition fx_h : list gop :=
  [ Evaluate 4; Evaluate 4; Evaluate 5; Evaluate 6; SetValue 2 (VInt 5); Evaluate 4;
    SetValue 1 (VInt 10); Evaluate 4 ].

Example fx_trace : snd (run_f fx_wb fx_fsem fx_fpre fx_order (init fx_wb) fx_h)
  = [FRaise EFormula; FRaise EFormula; FVal (VInt 7); FRaise EUnknown; FVal VNone; FVal (VInt 12);
     FVal VNone; FVal (VInt 20)].
Proof. vm_compute. reflexivity. Qed.

(* the state after the first (failed) evaluate: everything is in the cell map, nothing is cached *)
Example fx_after_failure :
  let s := fst (evaluate_f fx_wb fx_fsem fx_fpre fx_order (init fx_wb) 4) in
  map (st_built s) [0; 1; 2; 3; 4; 5] = [true; true; true; true; true; false]
  /\ map (st_cache s) [2; 3; 4] = [VNone; VNone; VNone].
Proof. vm_compute. auto. Qed.

(* the theorems apply: invariant after the whole history *)
Example fx_first_ok : fok_history fx_wb fx_fsem fx_fpre fx_order (init fx_wb) [Evaluate 4; Evaluate 5].
Proof. cbn [fok_history]. repeat split; vm_compute; lia. Qed.

Example fx_inv : FInv fx_wb fx_fsem fx_fpre fx_sem
  (fst (run_f fx_wb fx_fsem fx_fpre fx_order (init fx_wb) [Evaluate 4; Evaluate 5])).
Proof.
  apply run_f_inv; auto using fx_wf, fx_nonblank, fx_completes, fx_nostored, fx_first_ok.
  apply FInv_init; auto using fx_wf, fx_nostored.
Qed.

(* C09_retry on the example: C1 (a dependant of the failing B1) fails again *)
Example fx_retry :
  let s1 := fst (evaluate_f fx_wb fx_fsem fx_fpre fx_order (init fx_wb) 2) in
  is_raise (snd (evaluate_f fx_wb fx_fsem fx_fpre fx_order
                            (fst (run_f fx_wb fx_fsem fx_fpre fx_order s1 [Evaluate 5; SetValue 1 (VInt 3)])) 4))
  = true.
Proof.
  apply (retry fx_wb fx_fsem fx_fpre fx_order fx_sem fx_wf fx_nonblank fx_completes fx_nostored
               (init fx_wb) 2 [Evaluate 5; SetValue 1 (VInt 3)]).
  - apply FInv_init; auto using fx_wf, fx_nostored.
  - vm_compute; lia.
  - vm_compute. reflexivity.
  - cbn [fok_history]. repeat split; try (vm_compute; reflexivity); vm_compute; lia.
  - intros a v [H|[H|[]]]; inversion H; subst. intros A.
    pose proof (anc_lt fx_wb fx_wf 1 2 ltac:(vm_compute; lia) A). 
    inversion A as [? ? Hd|? b ? A' Hd]; subst; cbn in Hd;
      repeat (destruct Hd as [Hd|Hd]; try lia; subst); try contradiction.
    inversion A' as [? ? Hd'|? b' ? A'' Hd']; subst; cbn in Hd'; contradiction.
  - vm_compute; lia.
  - right. apply (anc_trans fx_wb 2 3 4); [constructor; cbn; auto|cbn; auto].
Qed.

(* C09_repair on the example: B1 := 5 after the failure, then D1 is evaluated and
   A2 (not a precedent of B1) is written; C1 evaluates as in the workbook where
   B1 is an input holding 5 *)
Example fx_repair :
  let s := fst (run_f fx_wb fx_fsem fx_fpre fx_order (init fx_wb) [Evaluate 4]) in
  let s1 := set_value fx_wb s 2 (VInt 5) in
  let s2 := fst (run_f fx_wb fx_fsem fx_fpre fx_order s1 [Evaluate 5; SetValue 1 (VInt 10)]) in
  st_cache s2 2 = VInt 5 /\
  fval (snd (evaluate_f fx_wb fx_fsem fx_fpre fx_order s2 4))
  = fval (fspec (as_input fx_wb 2 (VInt 5)) fx_fsem fx_fpre (st_cache s2) 4).
Proof.
  apply (repair fx_wb fx_fsem fx_fpre fx_order fx_sem 2 (VInt 5) fx_wf fx_nonblank fx_completes
                fx_nostored).
  - vm_compute; lia.
  - reflexivity.
  - discriminate.
  - apply run_f_inv; auto using fx_wf, fx_nonblank, fx_completes, fx_nostored.
    + apply FInv_init; auto using fx_wf, fx_nostored.
    + cbn [fok_history]. repeat split; vm_compute; lia.
  - vm_compute. reflexivity.
  - vm_compute. reflexivity.
  - cbn [rok_history]. repeat split; try (vm_compute; reflexivity); try (vm_compute; lia).
    intros A. pose proof (anc_lt fx_wb fx_wf 1 2 ltac:(vm_compute; lia) A).
    inversion A as [? ? Hd|? b ? A' Hd]; subst; cbn in Hd;
      repeat (destruct Hd as [Hd|Hd]; try lia; subst); try contradiction.
    inversion A' as [? ? Hd'|? b' ? A'' Hd']; subst; cbn in Hd'; contradiction.
  - vm_compute; lia.
Qed.

Example fx_repair_value :
  let s := fst (run_f fx_wb fx_fsem fx_fpre fx_order (init fx_wb) [Evaluate 4]) in
  let s1 := set_value fx_wb s 2 (VInt 5) in
  let s2 := fst (run_f fx_wb fx_fsem fx_fpre fx_order s1 [Evaluate 5; SetValue 1 (VInt 10)]) in
  snd (evaluate_f fx_wb fx_fsem fx_fpre fx_order s2 4) = FVal (VInt 20)
  /\ fspec (as_input fx_wb 2 (VInt 5)) fx_fsem fx_fpre (st_cache s2) 4 = FVal (VInt 20).
Proof. vm_compute. auto. Qed.
