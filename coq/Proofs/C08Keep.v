(* Proofs/C08Keep.v — C08: [trim_keepref] (Model/TrimKeep.v: trim_graph with
   repair 17855a0, the reference cell of an unbounded range is kept whenever
   walk_precedents walks into it) against [trim] (Model/Trim.v).

   [unb n] = node n is such a reference cell; it is a node of range kind ([UR]).
   1) simulation: the two walks over the precedents go the same way; they
      differ in needed_cells only, by reference nodes the walk processed
      ([Sim], [walk_outputs_sim]); so the trimmed workbook, the frozen cells
      and their values are the same ([keep_same]), and the cell map of
      [trim_keepref] is the cell map of [trim] plus such reference nodes;
   2) the state after [trim_keepref] satisfies the live-region invariant of
      Proofs/C08Run.v, so its outputs are those of [trim] for every history of
      the property ([keep_outputs]); hence every theorem of Props/C08.v holds
      for [trim_keepref] as well;
   3) the same under the weak non-blank condition ([keep_outputs_weak]) — the
      one a workbook with a whole-column reference meets. *)
From Coq Require Import List Arith Bool Lia.
From PV Require Import Lib.Py Model.Graph Model.Trim Model.TrimKeep.
From PV Require Import Proofs.C01Base Proofs.C01Reset Proofs.C01Eval Proofs.C01Inv Proofs.C01
                       Proofs.C01Weak Proofs.C05 Proofs.C08Walk Proofs.C08Run Proofs.C08Trim
                       Proofs.C08 Proofs.C08WeakCut Proofs.C08Weak.
Import ListNotations.
Local Open Scope nat_scope.

(* ------------------------------------------------------------ simulation *)
Section Sim.
  Variable W : workbook.
  Variable sem : nat -> list pyval -> pyval.
  Variable unb : nat -> bool.
  Hypothesis UR : forall m, unb m = true -> wb_range W m = true.

  Record Sim (st st' : pw) : Prop := {
    s_proc : pw_proc st' = pw_proc st;
    s_frz : pw_frz st' = pw_frz st;
    s_cache : pw_cache st' = pw_cache st;
    s_sub : forall m, pw_need st m = true -> pw_need st' m = true;
    s_sup : forall m, pw_need st' m = true ->
              pw_need st m = true \/ (unb m = true /\ pw_proc st m = true)
  }.

  Lemma Sim_refl st : Sim st st.
  Proof. split; auto. Qed.

  Lemma Sim_mark st st' ch : Sim st st' -> Sim (mark st ch) (mark st' ch).
  Proof.
    intros [A B C D E]. split; cbn [mark pw_proc pw_need pw_frz pw_cache]; auto.
    - now rewrite A.
    - intros m Hm. destruct (E m Hm) as [H|[H1 H2]]; auto. right. split; auto. now apply badd_mono.
  Qed.

  Lemma Sim_keepref st st' ch : Sim st st' -> pw_proc st ch = true -> Sim st (keepref unb st' ch).
  Proof.
    intros [A B C D E] P. unfold keepref. destruct (unb ch) eqn:U; [|split; auto].
    split; cbn [pw_proc pw_need pw_frz pw_cache]; auto.
    - intros m Hm. apply badd_mono; auto.
    - intros m Hm. apply badd_true in Hm. destruct Hm as [->|Hm]; auto.
  Qed.

  Lemma Sim_freeze st st' ch : Sim st st' -> Sim (freeze W sem st ch) (freeze W sem st' ch).
  Proof.
    intros [A B C D E]. split; cbn [freeze pw_proc pw_need pw_frz pw_cache]; auto.
    - now rewrite B.
    - now rewrite C.
    - intros m Hm. apply badd_true in Hm. apply badd_true. destruct Hm; auto.
    - intros m Hm. apply badd_true in Hm. destruct Hm as [->|Hm].
      + left. apply badd_same.
      + destruct (E m Hm) as [H|H]; auto. left. now apply badd_mono.
  Qed.

  Lemma sim_cond st st' ch : Sim st st' ->
    pw_need st' ch || wb_range W ch = pw_need st ch || wb_range W ch.
  Proof.
    intros S. destruct (wb_range W ch) eqn:R; [now rewrite !orb_true_r|]. rewrite !orb_false_r.
    destruct (pw_need st ch) eqn:E; [now apply (s_sub _ _ S)|].
    destruct (pw_need st' ch) eqn:E'; auto.
    destruct (s_sup _ _ S ch E') as [H|[H _]]; [congruence|]. apply UR in H. congruence.
  Qed.

  Lemma walk_prec_sim : forall f n st st', Sim st st' ->
    Sim (walk_prec W sem f n st) (walk_prec_k W sem unb f n st').
  Proof.
    induction f as [|f IH]; intros n st st' S; [exact S|].
    cbn [walk_prec walk_prec_k]. generalize (wb_deps W n). intros l. revert st st' S.
    induction l as [|ch l IHl]; intros st st' S; cbn [fold_left]; [exact S|].
    apply IHl. rewrite (s_proc _ _ S). destruct (pw_proc st ch) eqn:P; [exact S|]. cbv zeta.
    rewrite (sim_cond (mark st ch) (mark st' ch) ch (Sim_mark _ _ ch S)).
    destruct (pw_need (mark st ch) ch || wb_range W ch).
    - apply IH. apply Sim_keepref; [now apply Sim_mark|]. cbn [mark pw_proc]. apply badd_same.
    - apply Sim_freeze. now apply Sim_mark.
  Qed.

  Lemma walk_outputs_sim : forall O st st', Sim st st' ->
    Sim (walk_outputs W sem O st) (walk_outputs_k W sem unb O st').
  Proof.
    unfold walk_outputs, walk_outputs_k.
    induction O as [|o O IH]; intros st st' S; cbn [fold_left]; [exact S|].
    apply IH. now apply walk_prec_sim.
  Qed.
End Sim.

(* ------------------------------------------------- the state after the trim *)
Section Keep.
  Variable W : workbook.
  Variable sem : nat -> list pyval -> pyval.
  Hypothesis WF : wf W.
  Hypothesis NB : sem_nonblank W sem.
  Hypothesis SO : stored_ok W sem.
  Variable unb : nat -> bool.
  Hypothesis UR : forall m, unb m = true -> wb_range W m = true.

  Notation N := (wb_n W).
  Notation deps := (wb_deps W).
  Notation isinput := (wb_input W).

  Variable I O : list nat.
  Variable s : state.
  Hypothesis INV : Inv W sem s.
  Hypothesis OL : forall o, In o O -> o < N.

  Notation V := (C08Trim.VV W sem I O s).
  Notation t := (C08Trim.tt W sem I O s).
  Notation st3 := (C08Trim.st3 W sem I O s).
  Notation c3 := (C08Trim.c3 W sem I O s).
  Notation bb := (C08Trim.bb W sem O s).
  Notation lv := (C08Trim.lv W sem I O s).
  Notation KK := (C08Trim.KK W sem I O s).
  Notation g3 := (C08Trim.g3 W sem WF NB SO I O s INV OL).

  Definition st3k : pw :=
    walk_outputs_k W sem unb O (st0 (C08Trim.nd1 W sem I O s) (C08Trim.c0 W sem O s)).
  Definition Tk : trimmed := trim_keepref W sem unb I O s.
  Definition tk : state := tr_st Tk.
  Definition KKk : bset := st_built tk.

  Lemma sim3 : Sim unb st3 st3k.
  Proof. unfold C08Trim.st3, st3k. apply walk_outputs_sim; auto. apply Sim_refl. Qed.

  (* workbook, frozen cells, processed cells: the same; needed_cells: more *)
  Lemma Tk_wb : tr_wb Tk = V.
  Proof.
    change (cut W (pw_frz st3k) (pw_cache st3k) = cut W (pw_frz st3) (pw_cache st3)).
    now rewrite (s_frz _ _ _ sim3), (s_cache _ _ _ sim3).
  Qed.
  Lemma Tk_frz : tr_frz Tk = tr_frz (trim W sem I O s).
  Proof. exact (s_frz _ _ _ sim3). Qed.
  Lemma Tk_proc : tr_proc Tk = tr_proc (trim W sem I O s).
  Proof. exact (s_proc _ _ _ sim3). Qed.

  Lemma KKk_eq n : KKk n = bb n && pw_need st3k n.
  Proof. reflexivity. Qed.
  Lemma KK_sub n : KK n = true -> KKk n = true.
  Proof.
    rewrite KKk_eq. change (KK n) with (bb n && pw_need st3 n).
    intros H. apply andb_prop in H. destruct H as [A B].
    rewrite A. cbn [andb]. now apply (s_sub _ _ _ sim3).
  Qed.
  Lemma KKk_inv n : KKk n = true ->
    KK n = true \/ (unb n = true /\ pw_proc st3 n = true /\ KK n = false).
  Proof.
    rewrite KKk_eq. change (KK n) with (bb n && pw_need st3 n).
    intros H. apply andb_prop in H. destruct H as [A B].
    rewrite A. cbn [andb]. destruct (pw_need st3 n) eqn:E; auto.
    destruct (s_sup _ _ _ sim3 n B) as [H|[H1 H2]]; [congruence|auto].
  Qed.
  Lemma KKk_bb n : KKk n = true -> bb n = true.
  Proof. rewrite KKk_eq. intros H. apply andb_prop in H. tauto. Qed.
  Lemma KKk_lt n : KKk n = true -> n < wb_n V.
  Proof. intros H. apply (bb_lt W sem WF NB SO I O s INV OL). now apply KKk_bb. Qed.

  Lemma tk_cache n : st_cache tk n =
    if KKk n then c3 n else if wb_input V n then wb_inp0 V n else VNone.
  Proof.
    change (st_cache tk n) with
      (if KKk n then pw_cache st3k n
       else if wb_input (cut W (pw_frz st3k) (pw_cache st3k)) n
            then wb_inp0 (cut W (pw_frz st3k) (pw_cache st3k)) n else VNone).
    now rewrite (s_frz _ _ _ sim3), (s_cache _ _ _ sim3).
  Qed.
  Lemma keptk_cache m : KKk m = true -> st_cache tk m = c3 m.
  Proof. intros H. rewrite tk_cache, H. reflexivity. Qed.

  (* a cell of the cell map of [trim] holds the same value in both states; the
     two states differ on reference nodes only *)
  Lemma keep_same :
    tr_wb Tk = tr_wb (trim W sem I O s) /\ tr_frz Tk = tr_frz (trim W sem I O s) /\
    (forall m, st_built (tr_st (trim W sem I O s)) m = true ->
               st_built tk m = true /\ st_cache tk m = st_cache (tr_st (trim W sem I O s)) m) /\
    (forall m, st_built tk m = true -> st_built (tr_st (trim W sem I O s)) m = false ->
               unb m = true /\ tr_proc (trim W sem I O s) m = true) /\
    (forall m, unb m = false -> st_built tk m = st_built (tr_st (trim W sem I O s)) m).
  Proof.
    split; [exact Tk_wb|]. split; [exact Tk_frz|]. split; [|split].
    - intros m Hm. split; [now apply KK_sub|].
      rewrite keptk_cache by (now apply KK_sub).
      change (st_cache (tr_st (trim W sem I O s)) m)
        with (if KK m then c3 m else if wb_input V m then wb_inp0 V m else VNone).
      change (KK m = true) in Hm. now rewrite Hm.
    - intros m Hk Hn. destruct (KKk_inv m Hk) as [H|(A & B & _)]; auto.
      change (KK m = false) in Hn. congruence.
    - intros m U. change (KKk m = KK m). destruct (KKk m) eqn:E.
      + destruct (KKk_inv m E) as [H|(A & _)]; congruence.
      + destruct (KK m) eqn:E2; auto. apply KK_sub in E2. congruence.
  Qed.

  (* ---- the live-region invariant *)
  Hypothesis II : forall a, In a I -> wb_input V a = true /\ KKk a = true.

  Lemma iik_lv a : In a I -> lv a = true.
  Proof.
    intros Ia. destruct (II a Ia) as [Iv Ka].
    destruct (KKk_inv a Ka) as [K|(_ & P & _)].
    2:{ apply (lv_true W sem WF NB SO I O s INV OL). auto. }
    rewrite (KK_eq W sem WF NB SO I O s INV OL) in K. apply andb_prop in K. destruct K as [Ba Na].
    apply (g_need _ _ _ _ _ _ g3) in Na. destruct Na as [Na|Fa].
    - apply (nd1_spec W sem WF NB SO I O s INV OL) in Na.
      destruct Na as [(x & Hx & Bx & (A & _))|Ho]; [|apply (lv_true W sem WF NB SO I O s INV OL); auto].
      exfalso. rewrite (VV_eq W sem WF NB SO I O s INV OL) in Iv. cbn [cut wb_input] in Iv.
      rewrite (anc_noninput W WF x a (bb_lt W sem WF NB SO I O s INV OL a Ba) A) in Iv. cbn [orb] in Iv.
      destruct (g_frz _ _ _ _ _ _ g3 a Iv) as (_ & Nf & _).
      assert (C08Trim.nd1 W sem I O s a = true); [|congruence].
      eapply (nd1_below W sem WF NB SO I O s INV OL); eauto.
    - now apply (frz_lv W sem WF NB SO I O s INV OL).
  Qed.

  Lemma IIk' : forall a, In a I -> wb_input V a = true /\ KKk a = true /\ lv a = true.
  Proof. intros a Ia. destruct (II a Ia). repeat split; auto. now apply iik_lv. Qed.

  Lemma zkk d n : lv d = true -> Zs V I n -> In n (wb_deps V d) -> KKk d = true.
  Proof. intros L Z H. apply KK_sub. eapply (zk W sem WF NB SO I O s INV OL); eauto. Qed.

  Lemma tinvk : TInv V sem KKk lv I tk.
  Proof.
    split.
    - reflexivity.
    - intros m L Im H.
      assert (Km: KKk m = true).
      { rewrite tk_cache in H. destruct (KKk m); auto. rewrite Im in H. congruence. }
      rewrite keptk_cache in * by auto.
      assert (Iw: isinput m = false).
      { rewrite (VV_eq W sem WF NB SO I O s INV OL) in Im. cbn [cut wb_input] in Im. apply orb_false_elim in Im. tauto. }
      rewrite (c3_coherent W sem WF NB SO I O s INV OL m (lv_lt W sem WF NB SO I O s INV OL m L) Iw H) at 1.
      symmetry. apply (spec_rel W sem WF NB SO I O s INV OL); auto.
      + intros k Lk Ik. apply keptk_cache. apply KK_sub.
        now apply (lv_input_kept W sem WF NB SO I O s INV OL).
      + intros f F. rewrite keptk_cache by (apply KK_sub; now apply (frz_kept W sem WF NB SO I O s INV OL)).
        now apply (frozen_value W sem WF NB SO I O s INV OL).
    - intros p d Zp Ip Ld Hd Hp.
      assert (Id: wb_input V d = false)
        by (eapply (dep_noninput V (VV_wf W sem WF NB SO I O s INV OL)); eauto).
      destruct (KKk d) eqn:Kd; [|rewrite tk_cache, Kd, Id; reflexivity].
      rewrite keptk_cache by auto.
      pose proof (KKk_bb d Kd) as Bd.
      rewrite (VV_eq W sem WF NB SO I O s INV OL) in Hd. apply cut_deps in Hd. destruct Hd as [Hd _].
      assert (Bp: bb p = true) by (eapply (bb_deps W sem WF NB SO I O s INV OL); eauto).
      assert (Kp: KKk p = true).
      { destruct (zs_needed W sem WF NB SO I O s INV OL p Zp Bp) as [Hi|Hn].
        - destruct (II p Hi). congruence.
        - apply KK_sub. rewrite (KK_eq W sem WF NB SO I O s INV OL), Bp, Hn. reflexivity. }
      rewrite keptk_cache in Hp by auto.
      assert (Iw: isinput p = false).
      { rewrite (VV_eq W sem WF NB SO I O s INV OL) in Ip. cbn [cut wb_input] in Ip. apply orb_false_elim in Ip. tauto. }
      pose proof (g_ext _ _ _ _ _ _ g3) as E.
      assert (H0: C08Trim.c0 W sem O s p = VNone) by (eapply ext_none; eauto).
      pose proof (Inv_I2 W sem _ (inv0 W sem WF NB SO I O s INV OL) p d Bp Iw H0 Bd Hd) as Old.
      destruct (E d) as [U|(_&_&_&_&_&_&Fd)]; [unfold C08Trim.c3; rewrite U; exact Old|].
      exfalso. now apply (Fd p Hd Iw).
    - intros n d Zn Hd Ld H.
      assert (Id: wb_input V d = false)
        by (eapply (dep_noninput V (VV_wf W sem WF NB SO I O s INV OL)); eauto).
      rewrite tk_cache in H. destruct (KKk d); auto. rewrite Id in H. congruence.
  Qed.

  Lemma outk_live o : In o O -> lv o = true /\ KKk o = true.
  Proof.
    intros Ho. destruct (out_live W sem WF NB SO I O s INV OL o Ho) as [A B]. split; auto.
    now apply KK_sub.
  Qed.

  Lemma lagrees_k : lagrees V lv (st_cache tk) (st_cache t).
  Proof.
    intros k Lk Ik.
    assert (Kk: KK k = true).
    { rewrite (VV_eq W sem WF NB SO I O s INV OL) in Ik. cbn [cut wb_input] in Ik. apply orb_prop in Ik.
      destruct Ik as [Ik|Fk]; [now apply (lv_input_kept W sem WF NB SO I O s INV OL)
                              |now apply (frz_kept W sem WF NB SO I O s INV OL)]. }
    rewrite keptk_cache by (now apply KK_sub). symmetry.
    now apply (kept_cache W sem WF NB SO I O s INV OL).
  Qed.

  Theorem keep_coherent :
    (forall a, In a I -> scalar_exact (st_cache t a) = true) ->
    forall h, Forall (io_op I O) h ->
      snd (run V sem tk h) = run_spec V sem (st_cache t) h.
  Proof.
    intros HI h F.
    apply (trun V sem (VV_wf W sem WF NB SO I O s INV OL) (VV_nb W sem WF NB SO I O s INV OL) KKk lv I
                KKk_lt (lv_lt W sem WF NB SO I O s INV OL)
                (lv_deps W sem WF NB SO I O s INV OL) zkk IIk' h tk (st_cache t)).
    - apply tinvk.
    - apply lagrees_k.
    - exact HI.
    - eapply Forall_impl; [|exact F]. intros [n|a v|n]; cbn; auto. apply outk_live.
  Qed.
End Keep.

(* ----------------------------------------------------------- the theorems *)
Section KeepOutputs.
  Variable W : workbook.
  Variable sem : nat -> list pyval -> pyval.
  Variable unb : nat -> bool.
  Hypothesis WF : wf W.
  Hypothesis UR : forall m, unb m = true -> wb_range W m = true.
  Variable I O : list nat.
  Variable s : state.
  Hypothesis OL : forall o, In o O -> o < wb_n W.

  Notation T := (trim W sem I O s).
  Notation TK := (trim_keepref W sem unb I O s).

  (* every history of the property returns the same values after [trim] and
     after [trim_keepref] (hypotheses: those of C08_preserve_buried_partial) *)
  Theorem keep_outputs : sem_nonblank W sem -> stored_ok W sem -> Inv W sem s ->
    (forall a, In a I -> wb_input (tr_wb T) a = true /\ st_built (tr_st T) a = true
                         /\ scalar_exact (st_cache (tr_st T) a) = true) ->
    forall h, Forall (io_op I O) h ->
      snd (run (tr_wb TK) sem (tr_st TK) h) = snd (run (tr_wb T) sem (tr_st T) h).
  Proof.
    intros NB SO INV HI h F.
    transitivity (run_spec (tr_wb T) sem (st_cache (tr_st T)) h);
      [|symmetry; exact (trimmed_coherent W sem WF NB SO I O s INV OL HI h F)].
    change (tr_wb TK) with (tr_wb (Tk W sem unb I O s)). rewrite (Tk_wb W sem unb UR I O s).
    apply (keep_coherent W sem WF NB SO unb UR I O s INV OL); auto.
    - intros a Ia. destruct (HI a Ia) as (A & B & _). split; auto.
      now apply (KK_sub W sem unb UR I O s).
    - intros a Ia. now apply HI.
  Qed.

End KeepOutputs.

(* ---- the weak condition *)
Section KeepWeak.
  Variable W : workbook.
  Variable sem : nat -> list pyval -> pyval.
  Variable unb : nat -> bool.
  Hypothesis WF : wf W.
  Hypothesis UR : forall m, unb m = true -> wb_range W m = true.
  Variable I O : list nat.
  Variable s : state.
  Hypothesis OL : forall o, In o O -> o < wb_n W.

  Notation T := (trim W sem I O s).
  Notation TK := (trim_keepref W sem unb I O s).
  Hypothesis NBW : sem_nonblank_weak W sem.
  Notation g := (guard W sem).
  Let NB2 : sem_nonblank W g := guard_nonblank W sem NBW.
  Let AG : forall n vals, n < wb_n W -> wb_input W n = false -> args_ok W n vals ->
             sem n vals = g n vals := fun n vals _ _ H => guard_agree W sem n vals H.

  Lemma walk_prec_k_guard : forall f n st, n < wb_n W ->
    walk_prec_k W sem unb f n st = walk_prec_k W g unb f n st.
  Proof.
    induction f as [|f IH]; intros n st L; [reflexivity|].
    cbn [walk_prec_k]. apply fold_left_ext_in. intros st0 ch Hch.
    pose proof (deps_ltN W WF n ch L Hch) as Lc.
    destruct (pw_proc st0 ch); auto. cbv zeta.
    destruct (pw_need (mark st0 ch) ch || wb_range W ch);
      [now apply IH|now apply (freeze_guard W sem WF NBW)].
  Qed.

  Lemma trim_keepref_guard : trim_keepref W sem unb I O s = trim_keepref W g unb I O s.
  Proof.
    unfold trim_keepref. rewrite (build_all_guard W sem WF NBW). cbv zeta.
    assert (E: forall st, walk_outputs_k W sem unb O st = walk_outputs_k W g unb O st).
    { intros st. unfold walk_outputs_k. apply fold_left_ext_in. intros st0 o Ho.
      apply walk_prec_k_guard. now apply OL. }
    rewrite E. reflexivity.
  Qed.

  Theorem keep_outputs_weak : stored_ok W sem -> Inv W sem s ->
    (forall a, In a I -> wb_input (tr_wb T) a = true /\ st_built (tr_st T) a = true
                         /\ scalar_exact (st_cache (tr_st T) a) = true) ->
    forall h, Forall (io_op I O) h -> Forall (nonblank_write W) h ->
      snd (run (tr_wb TK) sem (tr_st TK) h) = snd (run (tr_wb T) sem (tr_st T) h).
  Proof.
    intros SO INV HI h F1 F2.
    pose proof (stored_ok_transfer W sem g WF NB2 AG SO) as SO2.
    pose proof (proj2 (Inv_guard W sem WF NBW s) INV) as INV2.
    rewrite (trimmed_run_guard W sem WF NBW SO I O s INV OL h F1 F2).
    rewrite (trim_guard W sem WF NBW I O s OL) in HI.
    rewrite <- (keep_outputs W g unb WF UR I O s OL NB2 SO2 INV2 HI h F1).
    rewrite trim_keepref_guard.
    f_equal.
    change (tr_wb (trim_keepref W g unb I O s)) with (tr_wb (Tk W g unb I O s)).
    rewrite (Tk_wb W g unb UR I O s).
    apply (C08WeakCut.run_transfer _ (wb_input W) (V_wf W sem WF NBW SO I O s INV OL) sem g
             (V_nb W sem WF NBW SO I O s INV OL) (V_agree W sem I O s) h _
             (io_wops W sem I O s OL h F1 F2)).
    (* a frozen formula cell holds a non-blank value in the kept state too *)
    intros d L Iv Iw.
    assert (Fz: pw_frz (C08Trim.st3 W g I O s) d = true).
    { cbn [trim tr_wb cut wb_input] in Iv. rewrite Iw in Iv. exact Iv. }
    pose proof (frz_kept W g WF NB2 SO2 I O s INV2 OL d Fz) as Kd.
    change (st_cache (tk W g unb I O s) d <> VNone).
    rewrite (keptk_cache W g unb UR I O s d (KK_sub W g unb UR I O s d Kd)).
    rewrite (frozen_value W g WF NB2 SO2 I O s INV2 OL d Fz).
    apply spec_nonblank; auto.
  Qed.
End KeepWeak.
