(* Proofs/C04Graph.v — C04, graph half, part 2 (over Model/Graph.v):
     influence   the from-scratch value of a cell depends only on the input
                 cells among its ancestors; on the machine: after any admissible
                 history, a write to a cell that is not an ancestor of c leaves
                 evaluate c unchanged (through C01's coherence theorem);
     edges       after ANY history of evaluate / build / set_value the built set
                 is closed under declared precedents and range members, and
                 dep_graph.successors has the edge precedent -> dependant;
     composition with the code half (Proofs/C04.v [cover]): when the declared
                 precedents of a formula cell are the nodes named by
                 [needed e], every _C_/_R_ read of the emitted code is an edge. *)
From Coq Require Import ZArith List Arith Bool Lia Relations.
From PV Require Import Lib.Py Model.Syntax Model.Emit Model.Scan.
From PV Require Import Model.Graph Model.ReadTrace.
From PV Require Import Proofs.C01Base Proofs.C01Eval Proofs.C01Inv Proofs.C01.
From PV Require Proofs.C04.
From PV Require Import Proofs.C04Trace.
Import ListNotations.
Local Open Scope nat_scope.

(* ================================================================ influence *)
Section Influence.
  Variable W : workbook.
  Hypothesis WF : wf W.

  Notation N := (wb_n W).
  Notation deps := (wb_deps W).
  Notation isinput := (wb_input W).

  (* two input assignments that agree on the input cells among the ancestors
     of c give c the same from-scratch value *)
  Theorem influence_spec sem c inp1 inp2 : c < N ->
    (forall a, isinput a = true -> ancestor W a c -> inp1 a = inp2 a) ->
    spec W sem inp1 c = spec W sem inp2 c.
  Proof.
    intros L E. apply spec_agree; auto. intros m Im H. apply E; auto.
    apply ancestor_anc. exact H.
  Qed.

  (* ---- the same with the reading discipline explicit *)
  Lemma env_of_map (g : nat -> pyval) : forall l p, In p l -> env_of l (map g l) p = g p.
  Proof.
    induction l as [|a l IH]; intros p H; [destruct H|]. cbn [map env_of].
    destruct (Nat.eqb_spec p a) as [->|NE]; [reflexivity|]. apply IH.
    destruct H as [H|H]; [congruence|exact H].
  Qed.

  Lemma espec_spec esem : reads_declared W esem -> forall f inp n, n < N -> n < f ->
    espec_fuel W esem f inp n = spec W (sem_of W esem) inp n.
  Proof.
    intros RD. induction f as [|f IH]; intros inp n L Lf; [lia|]. cbn [espec_fuel].
    rewrite (spec_unfold W _ WF) by auto. destruct (isinput n); [reflexivity|].
    unfold sem_of. apply RD. intros p Hp. rewrite env_of_map by auto.
    pose proof (deps_lt W WF _ _ L Hp). apply IH; lia.
  Qed.

  Theorem influence_env esem : reads_declared W esem -> forall c inp1 inp2, c < N ->
    (forall a, isinput a = true -> ancestor W a c -> inp1 a = inp2 a) ->
    espec W esem inp1 c = espec W esem inp2 c.
  Proof.
    intros RD c inp1 inp2 L E. unfold espec. rewrite !(espec_spec esem RD) by lia.
    now apply influence_spec.
  Qed.

  (* Graph.v's [sem] is an environment meaning that reads only declared precedents *)
  Lemma esem_of_declared sem : reads_declared W (esem_of W sem).
  Proof. intros n e1 e2 H. unfold esem_of. f_equal. now apply map_ext_in. Qed.

  Lemma espec_esem_of sem inp n : n < N -> espec W (esem_of W sem) inp n = spec W sem inp n.
  Proof.
    intros L. unfold espec. revert inp n L. generalize (le_n N).
    assert (G: forall f inp n, n < N -> n < f ->
                 espec_fuel W (esem_of W sem) f inp n = spec W sem inp n).
    { induction f as [|f IH]; intros inp n L Lf; [lia|]. cbn [espec_fuel].
      rewrite (spec_unfold W _ WF) by auto. destruct (isinput n); [reflexivity|].
      unfold esem_of. f_equal. apply map_ext_in. intros p Hp.
      pose proof (deps_lt W WF _ _ L Hp). apply IH; lia. }
    intros _ inp n L. apply G; lia.
  Qed.
End Influence.

Theorem sem_reads_declared W sem : wf W ->
  reads_declared W (esem_of W sem) /\
  forall inp n, n < wb_n W -> espec W (esem_of W sem) inp n = spec W sem inp n.
Proof. intros WF. split; [apply esem_of_declared|apply espec_esem_of; exact WF]. Qed.

(* ==================================================================== edges *)
Section Edges.
  Variable W : workbook.
  Variable sem : nat -> list pyval -> pyval.
  Hypothesis WF : wf W.

  Notation N := (wb_n W).
  Notation deps := (wb_deps W).
  Notation step := (step W sem).
  Notation run := (run W sem).

  (* the only condition on a history: evaluate / build name nodes of the workbook *)
  Definition in_range (o : gop) : Prop :=
    match o with Evaluate n | Build n => n < N | SetValue _ _ => True end.

  Definition built_closed (b : nat -> bool) : Prop :=
    (forall n, b n = true -> n < N) /\
    (forall n d, b n = true -> In d (deps n) -> b d = true).

  Lemma set_value_built s a v : st_built (set_value W s a v) = st_built s.
  Proof.
    rewrite set_value_unfold. destruct (negb (st_built s a)); [reflexivity|].
    destruct (py_eq (st_cache s a) v && same_type (st_cache s a) v); reflexivity.
  Qed.
  Lemma evaluate_built s n : st_built (fst (evaluate W sem s n)) = st_built (build W sem s n).
  Proof. rewrite evaluate_unfold. reflexivity. Qed.
  Lemma build_built_set s n : st_built (build W sem s n) = closure W (S N) (st_built s) n.
  Proof. reflexivity. Qed.

  Definition requested (o : gop) (n : nat) : Prop :=
    match o with Evaluate m | Build m => m = n | SetValue _ _ => False end.

  Lemma step_closed s o : in_range o -> built_closed (st_built s) ->
    built_closed (st_built (fst (step s o)))
    /\ (forall m, st_built s m = true -> st_built (fst (step s o)) m = true)
    /\ (forall n, requested o n -> st_built (fst (step s o)) n = true).
  Proof.
    intros R [B1 B2]. destruct o as [n|a v|n]; cbn [Graph.step fst in_range requested] in *.
    - rewrite evaluate_built, build_built_set.
      destruct (closure_props W WF (st_built s) n R B1 B2) as (C1 & C2 & C3 & C4).
      split; [split; assumption|]. split; [assumption|]. intros m <-. exact C2.
    - rewrite set_value_built. split; [split; assumption|]. split; [auto|intros ? []].
    - rewrite build_built_set.
      destruct (closure_props W WF (st_built s) n R B1 B2) as (C1 & C2 & C3 & C4).
      split; [split; assumption|]. split; [assumption|]. intros m <-. exact C2.
  Qed.

  Lemma run_fst_cons s o h : fst (run s (o :: h)) = fst (run (fst (step s o)) h).
  Proof. rewrite run_cons. reflexivity. Qed.

  Lemma run_closed : forall h s, Forall in_range h -> built_closed (st_built s) ->
    built_closed (st_built (fst (run s h)))
    /\ (forall m, st_built s m = true -> st_built (fst (run s h)) m = true)
    /\ (forall o n, In o h -> requested o n -> st_built (fst (run s h)) n = true).
  Proof.
    induction h as [|o h IH]; intros s F B.
    - cbn. split; [exact B|]. split; [auto|intros ? ? []].
    - inversion F as [|? ? Fo Fh]; subst. rewrite run_fst_cons.
      destruct (step_closed s o Fo B) as (B' & M & Rq).
      destruct (IH (fst (step s o)) Fh B') as (B'' & M' & Rq').
      split; [exact B''|]. split; [auto|].
      intros o' n [<-|Ho] Hr; [apply M', Rq, Hr|eapply Rq'; eauto].
  Qed.

  Lemma init_closed : built_closed (st_built (init W)).
  Proof. split; cbn; discriminate. Qed.

  (* after any history: every declared precedent / range member p of a built
     node f is built, both are nodes of the workbook, and the dependency graph
     has the edge p -> f (f is among dep_graph.successors(p)); every node an
     evaluate / build asked for is built *)
  Theorem edges_built : forall h, Forall in_range h ->
    let s := fst (run (init W) h) in
    (forall f p, st_built s f = true -> edge W p f ->
       p < f /\ f < N /\ st_built s p = true /\ In f (succs W (st_built s) p))
    /\ (forall o n, In o h -> requested o n -> st_built s n = true).
  Proof.
    intros h F. destruct (run_closed h (init W) F init_closed) as ([B1 B2] & _ & Rq).
    cbn zeta. split; [|exact Rq]. intros f p Bf E. unfold edge in E.
    pose proof (B1 f Bf) as Lf. split; [eapply deps_lt; eauto|]. split; [exact Lf|].
    split; [eapply B2; eauto|]. apply succs_spec. auto.
  Qed.

  (* ... hence every ancestor of a built node is built and reaches it through
     edges of the dependency graph *)
  Theorem ancestors_built : forall h, Forall in_range h ->
    let s := fst (run (init W) h) in
    forall c a, st_built s c = true -> ancestor W a c -> st_built s a = true.
  Proof.
    intros h F. destruct (run_closed h (init W) F init_closed) as ([B1 B2] & _ & _).
    cbn zeta. intros c a Bc A. apply ancestor_anc in A. destruct A as [->|A]; [exact Bc|].
    eapply anc_closed; eauto.
  Qed.
End Edges.

(* ======================================================== machine influence *)
Section MachineInfluence.
  Variable W : workbook.
  Variable sem : nat -> list pyval -> pyval.
  Hypothesis WF : wf W.
  Hypothesis NB : sem_nonblank W sem.
  Hypothesis SO : stored_ok W sem.

  Notation N := (wb_n W).
  Notation step := (step W sem).
  Notation run := (run W sem).

  Lemma agrees_self s : agrees W (st_cache s) (st_cache s).
  Proof. intros m _ _. reflexivity. Qed.

  (* one admissible write to a cell that is not an ancestor of c *)
  Lemma write_indep s a v c : Inv W sem s -> ok_op W s (SetValue a v) -> c < N ->
    ~ ancestor W a c ->
    snd (step (fst (step s (SetValue a v))) (Evaluate c)) = snd (step s (Evaluate c)).
  Proof.
    intros I OK L NA.
    pose proof (step_inv W sem WF NB SO s _ I OK) as I'.
    rewrite (step_value W sem WF NB SO _ c _ I' L (agrees_self _)).
    rewrite (step_value W sem WF NB SO _ c _ I L (agrees_self _)).
    destruct OK as (Ba & Ia & _ & Late). cbn [Graph.step fst].
    rewrite set_value_unfold, Ba. cbn [negb].
    destruct (py_eq (st_cache s a) v && same_type (st_cache s a) v); [reflexivity|].
    destruct (write_inv W sem WF s a v I Ba Ia Late) as (_ & _ & Wo). cbn zeta in Wo.
    apply (spec_indep W sem WF _ _ a c L).
    - intros m Lm Im Hm. apply Wo; auto.
    - intros ->. apply NA, ancestor_refl.
    - intros A. apply NA, ancestor_anc. right. exact A.
  Qed.

  (* after ANY admissible history *)
  Theorem influence_machine : inputs_exact W (wb_inp0 W) ->
    forall h, ok_history W sem (ok_op W) (init W) h ->
    let s := fst (run (init W) h) in
    forall a v c, ok_op W s (SetValue a v) -> c < N -> ~ ancestor W a c ->
      snd (step (fst (step s (SetValue a v))) (Evaluate c)) = snd (step s (Evaluate c)).
  Proof.
    intros Ex h OKh. cbn zeta. intros a v c OK L NA.
    destruct (run_coherent W sem WF NB SO h (init W) (wb_inp0 W)) as [_ I]; auto.
    - now apply Inv_init.
    - intros m _ Im. cbn. now rewrite Im.
    - now apply write_indep.
  Qed.
End MachineInfluence.

(* ================================================= composition with the code *)
(* [node a] = the node of the workbook that the address text a names (the
   cell_map of ExcelCompiler); [fm n] = the formula of the formula cell n *)
Definition ref_covered (R : nat -> Prop) (node : list Z -> option nat) (r : rd) : Prop :=
  match r with
  | RExact a => exists p, node a = Some p /\ R p
  | RWithin l => forall a, In a l -> exists p, node a = Some p /\ R p
  | RNew => False
  end.

(* the declared precedents of each formula cell are the nodes named by [needed] *)
Definition declared_needed (W : workbook) (node : list Z -> option nat) (fm : nat -> option expr) : Prop :=
  forall n e, fm n = Some e ->
    forall a, In a (needed e) -> exists p, node a = Some p /\ edge W p n.
Definition declared_only_needed (W : workbook) (node : list Z -> option nat) (fm : nat -> option expr) : Prop :=
  forall n e, fm n = Some e ->
    forall p, edge W p n -> exists a, In a (needed e) /\ node a = Some p.

Lemma covered_ref_covered (R : nat -> Prop) node S r :
  (forall a, In a S -> exists p, node a = Some p /\ R p) -> covered S r -> ref_covered R node r.
Proof. intros H. destruct r; cbn [covered ref_covered]; auto. Qed.

(* C04_cover composed with the declaration: every _C_/_R_ read of the emitted
   code of a formula cell n is (RExact) the address of a node p with an edge
   p -> n, or (RWithin) a range computed by the intersection operator from
   addresses of such nodes *)
Theorem reads_are_edges W node fm : declared_needed W node fm ->
  forall n e, fm n = Some e -> refs_written (emit CtxTop e) = true ->
  forall r, In r (reads (emit CtxTop e)) -> ref_covered (fun p => edge W p n) node r.
Proof.
  intros D n e F RW r Hr.
  apply (covered_ref_covered _ node (needed e) r (D n e F)).
  exact (C04.cover e RW r Hr).
Qed.

(* ... and with [edges_built]: once n is built — after any history — the node
   read is built and the dependency graph has the edge read -> n *)
Theorem reads_are_graph_edges W sem node fm : wf W -> declared_needed W node fm ->
  forall h, Forall (in_range W) h ->
  let s := fst (run W sem (init W) h) in
  forall n e, fm n = Some e -> refs_written (emit CtxTop e) = true -> st_built s n = true ->
  forall r, In r (reads (emit CtxTop e)) ->
    ref_covered (fun p => st_built s p = true /\ In n (succs W (st_built s) p)) node r.
Proof.
  intros WF D h F. cbn zeta. intros n e Fe RW Bn r Hr.
  destruct (edges_built W sem WF h F) as [EB _]. cbn zeta in EB.
  apply (covered_ref_covered _ node (needed e) r); [|exact (C04.cover e RW r Hr)].
  intros a Ha. destruct (D n e Fe a Ha) as (p & Np & E). exists p. split; [exact Np|].
  destruct (EB n p Bn E) as (_ & _ & Bp & Sp). auto.
Qed.

(* the converse reading on the machine: every read the evaluation of a
   formula cell performs (a pair of the read trace whose reader is that cell)
   is the node of one of its [needed] addresses *)
Theorem traced_reads_needed W sem node fm : declared_only_needed W node fm ->
  forall f c m n p e, In (n, p) (snd (eval_traced W sem f c m)) -> fm n = Some e ->
    exists a, In a (needed e) /\ node a = Some p.
Proof.
  intros D f c m n p e H Fe. destruct (evalT_edges W sem f c m n p H) as (E & _).
  exact (D n e Fe p E).
Qed.

(* a range computed by the intersection operator (RWithin l): [cells a m] = the
   cell node m lies in the range named a.  When the range nodes have their cells
   as members, every cell of a range that lies inside each operand (this is
   C11_intersection) reaches n through a declared range that contains it *)
Theorem within_path W node (cells : list Z -> nat -> Prop) n l :
  ref_covered (fun p => edge W p n) node (RWithin l) ->
  (forall a p m, In a l -> node a = Some p -> cells a m -> edge W m p) ->
  forall (X : nat -> Prop), (forall m, X m -> forall a, In a l -> cells a m) ->
  forall a m, In a l -> X m -> exists p, node a = Some p /\ edge W m p /\ edge W p n.
Proof.
  intros C Mem X In a m Ha Xm. destruct (C a Ha) as (p & Np & E). exists p.
  split; [exact Np|]. split; [|exact E]. eapply Mem; eauto.
Qed.
