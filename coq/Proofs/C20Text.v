(* Proofs/C20Text.v — TEXT(x, f) of Model/TextFormat.v is [text_spec] with
   round-half-even, for every rational x and every format of the grammar of
   C20TextSpec.v; on non-ties that is the half-away-from-zero rendering. *)
From Coq Require Import ZArith QArith Qround Qabs List Bool Lia Lqa.
From PV Require Import Lib.Py Model.Text Model.TextFormat Proofs.NumLemmas Proofs.Radix.
From PV Require Import Proofs.C20TextSpec Proofs.C20TextTok Proofs.C20TextConv.
From PV Require Gen.excelutil.
Import ListNotations.
Open Scope Z_scope.

(* ------------------------------------------------------------- rounding *)
Lemma floor_unique q z : (inject_Z z <= q)%Q -> (q < inject_Z (z + 1))%Q -> Qfloor q = z.
Proof.
  intros H1 H2.
  assert (A : z <= Qfloor q).
  { rewrite <- (Qfloor_Z z). apply Qfloor_resp_le. exact H1. }
  assert (B : Qfloor q < z + 1).
  { rewrite Zlt_Qlt. eapply Qle_lt_trans; [apply Qfloor_le|exact H2]. }
  lia.
Qed.

Lemma frac_range q : (0 <= q - inject_Z (Qfloor q))%Q /\ (q - inject_Z (Qfloor q) < 1)%Q.
Proof.
  pose proof (Qfloor_le q) as H1. pose proof (Qlt_floor q) as H2.
  rewrite inject_Z_plus in H2. change (inject_Z 1) with 1%Q in H2. split; lra.
Qed.

Lemma half_even_comp q q' : (q == q')%Q -> q_round_half_even q = q_round_half_even q'.
Proof.
  intros H. unfold q_round_half_even. rewrite (Qfloor_comp q q' H).
  assert (E : (q - inject_Z (Qfloor q') ?= 1 # 2)%Q = (q' - inject_Z (Qfloor q') ?= 1 # 2)%Q).
  { apply Qcompare_comp; [rewrite H; reflexivity|reflexivity]. }
  rewrite E. reflexivity.
Qed.

Lemma half_even_nonneg q : (0 <= q)%Q -> 0 <= q_round_half_even q.
Proof.
  intros H. unfold q_round_half_even.
  assert (F : 0 <= Qfloor q).
  { change 0 with (Qfloor 0). apply Qfloor_resp_le. exact H. }
  destruct (q - inject_Z (Qfloor q) ?= 1 # 2)%Q; [destruct (Z.even (Qfloor q))|..]; lia.
Qed.

Lemma half_away_nonneg q : (0 <= q)%Q -> q_round_half_up q = Qfloor (q + (1 # 2)).
Proof.
  intros H. unfold q_round_half_up.
  replace (q_ltb q 0) with false by (symmetry; apply q_ltb_ge; exact H). reflexivity.
Qed.

(* off the ties the two modes agree *)
Lemma nontie_modes q : (0 <= q)%Q -> ~ is_tie q -> q_round_half_even q = q_round_half_up q.
Proof.
  intros H Ht. rewrite half_away_nonneg by exact H. unfold q_round_half_even, is_tie in *.
  destruct (frac_range q) as [F0 F1].
  set (f := Qfloor q) in *.
  destruct (q - inject_Z f ?= 1 # 2)%Q eqn:E.
  - apply Qeq_alt in E. contradiction.
  - apply Qlt_alt in E. symmetry. apply floor_unique.
    + lra.
    + rewrite inject_Z_plus. change (inject_Z 1) with 1%Q. lra.
  - apply Qgt_alt in E. symmetry. apply floor_unique.
    + rewrite inject_Z_plus. change (inject_Z 1) with 1%Q. lra.
    + rewrite !inject_Z_plus. change (inject_Z 1) with 1%Q. lra.
Qed.

(* on a tie they differ exactly when the floor is even *)
Lemma tie_modes q : (0 <= q)%Q -> is_tie q ->
  q_round_half_up q = Qfloor q + 1
  /\ q_round_half_even q = if Z.even (Qfloor q) then Qfloor q else Qfloor q + 1.
Proof.
  intros H Ht. rewrite half_away_nonneg by exact H. unfold q_round_half_even, is_tie in *. split.
  - apply floor_unique.
    + rewrite inject_Z_plus. change (inject_Z 1) with 1%Q. lra.
    + rewrite !inject_Z_plus. change (inject_Z 1) with 1%Q. lra.
  - apply Qeq_alt in Ht. rewrite Ht. reflexivity.
Qed.

Lemma text_arg_nonneg x F : (0 <= text_arg x F)%Q.
Proof.
  unfold text_arg.
  assert (A : (0 <= Qabs x)%Q) by apply Qabs_nonneg.
  assert (B : forall b n, 0 < b -> (0 <= inject_Z (b ^ Z.of_nat n))%Q).
  { intros b n Hb. change 0%Q with (inject_Z 0). rewrite <- Zle_Qle.
    apply Z.lt_le_incl, Z.pow_pos_nonneg; lia. }
  apply Qmult_le_0_compat; [apply Qmult_le_0_compat|]; auto; apply B; lia.
Qed.

(* --------------------------------------------------- the body of text_fmt *)
Definition render (x : Q) (toks0 : list tok) (dec thou : bool) (pct : nat) : res str :=
  let neg := q_ltb x 0 in
  let ax := Qabs x in
  let toks := if neg then TStr 45 :: toks0 else toks0 in
  if negb (existsb is_number_tok toks) then Ok (tok_chars toks)
  else
    let scaled := (ax * inject_Z (100 ^ Z.of_nat pct))%Q in
    let grp (ds : str) := if thou then rev (group_rev (rev ds) 0) else ds in
    let '(ltoks, rtoks) := split_dot toks in
    if dec then
      let n := count_ph rtoks in
      let m := q_round_half_even (scaled * inject_Z (10 ^ Z.of_nat n)) in
      let ip := m / 10 ^ Z.of_nat n in
      let fp := m mod 10 ^ Z.of_nat n in
      let left := lstrip0 (grp (str_of_Z ip)) in
      let right := rstrip0 (pad0 n (if (n =? 0)%nat then [] else str_of_Z fp)) in
      Ok (rev (conv (rev ltoks) (rev left) []) ++ 46 :: conv rtoks right [])
    else
      let m := q_round_half_even scaled in
      let left := lstrip0 (grp (str_of_Z m)) in
      Ok (rev (conv (rev ltoks) (rev left) [])).

Lemma text_fmt_eq x f :
  text_fmt x f
  = bind (tokenize f) (fun st =>
      match rev (t_toks st) with
      | [] => Ok (if q_ltb x 0 then [45] else [])
      | _ :: _ => render x (rev (t_toks st)) (t_dec st) (t_thou st) (t_pct st)
      end).
Proof. reflexivity. Qed.

(* ------------------------------------------------------- the two sides *)
Lemma filter_ph_all s : Forall phc (filter ph s).
Proof. apply Forall_forall. intros c H. apply filter_In in H. exact (proj2 H). Qed.

Lemma forallb_ph_all s : forallb ph s = true -> Forall phc s.
Proof. intros H. apply Forall_forall. intros c Hc. exact (proj1 (forallb_forall ph s) H c Hc). Qed.

Lemma zeros_of_rev s : zeros_of (rev s) = rev (zeros_of s).
Proof. apply filter_rev'. Qed.

(* integer part: placeholders phs, digits ids (most significant first), text
   pre after and nl before the number *)
Lemma left_side (thou : bool) phs ids pre nl :
  Forall phc phs -> Forall digitc ids -> (pre = [] \/ phs <> []) ->
  rev (conv (map TStr pre ++ map N1 (rev phs) ++ map TStr nl)
            (if thou then group_rev (rev ids) 0 else rev ids) [])
  = rev nl ++ zeros_of (firstn (length phs - length ids) phs)
    ++ (if thou then group3 ids else ids) ++ rev pre.
Proof.
  intros Hp Hd Hpre.
  set (X := if thou then group_rev (rev ids) 0 else rev ids).
  assert (Hfill : let '(r, ds') := fill (rev phs) X in
                  r ++ ds' = X ++ zeros_of (skipn (length ids) (rev phs))).
  { assert (Hp' : Forall phc (rev phs)) by (apply Forall_rev; exact Hp).
    assert (Hd' : Forall digitc (rev ids)) by (apply Forall_rev; exact Hd).
    subst X. rewrite <- (rev_length ids). destruct thou.
    - apply fill_grouped; assumption.
    - apply fill_plain; assumption. }
  assert (Hrev : rev X = if thou then group3 ids else ids).
  { subst X. destruct thou; [apply group3_model|apply rev_involutive]. }
  assert (Hconv : conv (map TStr pre ++ map N1 (rev phs) ++ map TStr nl) X []
                  = pre ++ X ++ zeros_of (skipn (length ids) (rev phs)) ++ nl).
  { rewrite conv_strs. cbn [app].
    assert (E : forall fl, (fl = [] \/ phs <> []) ->
                conv (map N1 (rev phs) ++ map TStr nl) X fl
                = fl ++ X ++ zeros_of (skipn (length ids) (rev phs)) ++ nl).
    { intros fl Hfl.
      assert (E0 : conv (map N1 (rev phs) ++ map TStr nl) X []
                   = X ++ zeros_of (skipn (length ids) (rev phs)) ++ nl).
      { rewrite conv_N1. destruct (fill (rev phs) X) as [r ds'].
        rewrite conv_only_strs. cbn [app]. rewrite app_assoc, Hfill, <- app_assoc. reflexivity. }
      destruct Hfl as [->|Hne]; [exact E0|].
      destruct (rev phs) as [|p ps] eqn:Er.
      - apply (f_equal (@rev Z)) in Er. rewrite rev_involutive in Er. contradiction.
      - rewrite conv_filler_N1, E0. reflexivity. }
    apply E. exact Hpre. }
  rewrite Hconv. rewrite !rev_app_distr, <- zeros_of_rev, skipn_rev, rev_involutive, Hrev.
  rewrite <- !app_assoc. reflexivity.
Qed.

Lemma right_side fp fd pcts : Forall phc fp -> Forall digitc fd ->
  conv (map N1 fp ++ map TStr pcts) fd [] = fd ++ zeros_of (skipn (length fd) fp) ++ pcts.
Proof.
  intros Hp Hd. rewrite conv_N1. pose proof (fill_plain fp fd Hp Hd) as H.
  destruct (fill fp fd) as [r ds']. rewrite conv_only_strs. cbn [app].
  rewrite app_assoc, H, <- app_assoc. reflexivity.
Qed.

Lemma right_digits n r : (n = O -> r = 0) ->
  rstrip0 (pad0 n (if (n =? 0)%nat then [] else str_of_Z r)) = fdigits n r.
Proof.
  intros H. destruct n as [|n].
  - rewrite (H eq_refl). reflexivity.
  - cbn [Nat.eqb]. rewrite rstrip0_drop. reflexivity.
Qed.

(* ---------------------------------------------------------- the theorem *)
Lemma int_ok_head ip : int_ok false ip = true -> ip <> [] -> filter ph ip <> [].
Proof.
  destruct ip as [|c ip]; [contradiction|]. cbn [int_ok filter]. intros H _.
  destruct (ph c); [discriminate|]. rewrite andb_false_r in H. discriminate.
Qed.

Lemma render_spec x F toks0 :
  fmt_ok F = true -> Forall pos_tok toks0 -> norm toks0 = fmt_toks F ->
  render x toks0 (f_dot F) (thousands (f_int F)) (f_pct F) = Ok (text_spec half_even x F).
Proof.
  intros Hok Hpos Hnorm.
  destruct F as [ip dot fp k]. unfold fmt_ok, fmt_toks in *. cbn [f_int f_dot f_frac f_pct] in *.
  apply andb_true_iff in Hok. destruct Hok as [Hok H4].
  apply andb_true_iff in Hok. destruct Hok as [Hok H3].
  apply andb_true_iff in Hok. destruct Hok as [H1 H2].
  set (phs := filter ph ip) in *.
  assert (Hphs : Forall phc phs) by apply filter_ph_all.
  assert (Hfp : Forall phc fp) by (apply forallb_ph_all; exact H2).
  unfold render.
  set (nl := if q_ltb x 0 then [45] else []).
  assert (Etoks : (if q_ltb x 0 then TStr 45 :: toks0 else toks0) = map TStr nl ++ toks0).
  { subst nl. destruct (q_ltb x 0); reflexivity. }
  assert (Enl : rev nl = nl) by (subst nl; destruct (q_ltb x 0); reflexivity).
  cbv zeta. rewrite Etoks.
  set (toks := map TStr nl ++ toks0).
  assert (Hpos' : Forall pos_tok toks).
  { subst toks. apply Forall_app. split; [|exact Hpos].
    clear. induction nl; constructor; [exact I|assumption]. }
  assert (Hnorm' : norm toks = map TStr nl ++ map N1 phs
                    ++ (if dot then TDot :: map N1 fp else []) ++ repeat (TStr 37) k).
  { subst toks. rewrite norm_app, Hnorm. f_equal.
    clear. induction nl as [|c nl IH]; [reflexivity|]. cbn [map norm flat_map app] in *. f_equal. exact IH. }
  assert (Hex : existsb is_number_tok toks = true).
  { apply existsb_norm. rewrite Hnorm'. rewrite !existsb_app.
    destruct dot; [cbn [existsb is_number_tok]; rewrite !orb_true_r; reflexivity|].
    cbn [orb] in H4. assert (Hne : phs <> []).
    { apply int_ok_head; [exact H1|]. destruct ip; [discriminate|discriminate]. }
    destruct phs; [contradiction|]. cbn [map existsb N1 is_number_tok]. rewrite orb_true_r. reflexivity. }
  rewrite Hex. cbn [negb].
  pose proof (split_dot_norm toks) as Hsd. pose proof (split_dot_pos toks Hpos') as [Pl Pr].
  destruct (split_dot toks) as [lt rt]. cbn [fst snd] in Pl, Pr.
  rewrite Hnorm' in Hsd.
  unfold text_spec. cbn [f_int f_dot f_frac f_pct]. fold phs. fold nl.
  pose proof (text_arg_nonneg x {| f_int := ip; f_dot := dot; f_frac := fp; f_pct := k |}) as Hq.
  unfold text_arg in *. cbn [f_int f_dot f_frac f_pct] in *.
  destruct dot.
  - (* with a decimal point *)
    rewrite (app_assoc (map TStr nl)) in Hsd. cbn [app] in Hsd.
    rewrite split_dot_at in Hsd
      by (rewrite forallb_app, nodot_strs, nodot_N1; reflexivity).
    injection Hsd as El Er.
    assert (En : count_ph rt = length fp).
    { rewrite <- count_ph_norm, <- Er, count_ph_N1, repeat_TStr, count_ph_strs. lia. }
    rewrite En.
    set (N := q_round_half_even
                (Qabs x * inject_Z (100 ^ Z.of_nat k) * inject_Z (10 ^ Z.of_nat (length fp)))) in *.
    assert (HN : 0 <= N) by (apply half_even_nonneg; exact Hq).
    assert (Hp10 : 0 < 10 ^ Z.of_nat (length fp)) by (apply Z.pow_pos_nonneg; lia).
    assert (HI : 0 <= N / 10 ^ Z.of_nat (length fp)) by (apply Z.div_pos; lia).
    assert (HR : 0 <= N mod 10 ^ Z.of_nat (length fp)) by (apply Z.mod_pos_bound; lia).
    rewrite (left_digits _ _ HI).
    rewrite right_digits
      by (intros E0; apply length_zero_iff_nil in E0; rewrite E0; apply Z.mod_1_r).
    f_equal.
    (* left *)
    rewrite <- (conv_norm (rev lt)) by (apply Forall_rev; exact Pl).
    rewrite norm_rev, <- El, rev_app_distr, <- !map_rev.
    assert (EL : rev (if thousands ip then rev (group_rev (rev (idigits (N / 10 ^ Z.of_nat (length fp)))) 0)
                      else idigits (N / 10 ^ Z.of_nat (length fp)))
                 = if thousands ip then group_rev (rev (idigits (N / 10 ^ Z.of_nat (length fp)))) 0
                   else rev (idigits (N / 10 ^ Z.of_nat (length fp)))).
    { destruct (thousands ip); [apply rev_involutive|reflexivity]. }
    unfold str in *. rewrite EL.
    pose proof (left_side (thousands ip) phs (idigits (N / 10 ^ Z.of_nat (length fp))) [] (rev nl)
                  Hphs (idigits_digits _ HI) (or_introl eq_refl)) as HL.
    cbn [map app] in HL. unfold str in *. rewrite HL, rev_involutive. cbn [rev]. rewrite app_nil_r.
    (* right *)
    rewrite <- (conv_norm rt) by exact Pr. rewrite <- Er, repeat_TStr.
    rewrite right_side by (try exact Hfp; apply fdigits_digits; exact HR).
    rewrite <- !app_assoc. cbn [app]. rewrite <- !app_assoc. reflexivity.
  - (* without *)
    cbn [orb] in H3, H4. destruct fp; [|discriminate].
    cbn [app length] in *. change (Z.of_nat 0) with 0 in *. change (10 ^ 0) with 1 in *.
    rewrite !app_assoc in Hsd.
    rewrite split_dot_none in Hsd
      by (rewrite !forallb_app, nodot_strs, nodot_N1, repeat_TStr, nodot_strs; reflexivity).
    injection Hsd as El Er.
    rewrite (half_even_comp (Qabs x * inject_Z (100 ^ Z.of_nat k))
               (Qabs x * inject_Z (100 ^ Z.of_nat k) * inject_Z 1))
      by (change (inject_Z 1) with 1%Q; ring).
    set (N := q_round_half_even (Qabs x * inject_Z (100 ^ Z.of_nat k) * inject_Z 1)) in *.
    assert (HN : 0 <= N) by (apply half_even_nonneg; exact Hq).
    rewrite Z.div_1_r.
    rewrite (left_digits _ _ HN).
    f_equal.
    rewrite <- (conv_norm (rev lt)) by (apply Forall_rev; exact Pl).
    rewrite norm_rev, <- El, !rev_app_distr, <- !map_rev, rev_repeat, repeat_TStr.
    assert (EL : rev (if thousands ip then rev (group_rev (rev (idigits N)) 0) else idigits N)
                 = if thousands ip then group_rev (rev (idigits N)) 0 else rev (idigits N)).
    { destruct (thousands ip); [apply rev_involutive|reflexivity]. }
    unfold str in *. rewrite EL.
    assert (Hne : phs <> []).
    { apply int_ok_head; [exact H1|]. destruct ip; [discriminate|discriminate]. }
    pose proof (left_side (thousands ip) phs (idigits N) (repeat 37 k) (rev nl)
                  Hphs (idigits_digits _ HN) (or_intror Hne)) as HL.
    unfold str in *. rewrite HL, rev_involutive, rev_repeat. reflexivity.
Qed.

Lemma text_halfeven x F : fmt_ok F = true ->
  text_fmt x (fmt_string F) = Ok (text_spec half_even x F).
Proof.
  intros Hok. rewrite text_fmt_eq.
  destruct (tokenize_fmt F Hok) as (st & E & D & T & P & Q & N).
  rewrite E. cbn [bind].
  assert (Hpos : Forall pos_tok (rev (t_toks st))) by (apply Forall_rev; exact Q).
  destruct (rev (t_toks st)) as [|t l] eqn:Er.
  - exfalso. cbn in N. unfold fmt_toks, fmt_ok in *.
    destruct F as [ip dot fp k]. cbn [f_int f_dot f_frac f_pct] in *.
    apply andb_true_iff in Hok. destruct Hok as [Hok H4].
    apply andb_true_iff in Hok. destruct Hok as [Hok H3].
    apply andb_true_iff in Hok. destruct Hok as [H1 H2].
    destruct dot; [destruct (map N1 (filter ph ip)); discriminate|].
    cbn [orb] in H4. assert (Hne : filter ph ip <> []).
    { apply int_ok_head; [exact H1|]. destruct ip; [discriminate|discriminate]. }
    destruct (filter ph ip); [contradiction|discriminate].
  - rewrite D, T, P. apply render_spec; assumption.
Qed.

Lemma text_nontie x F : fmt_ok F = true -> ~ is_tie (text_arg x F) ->
  text_fmt x (fmt_string F) = Ok (text_spec half_away x F).
Proof.
  intros Hok Ht. rewrite (text_halfeven x F Hok). f_equal.
  unfold text_spec, half_even, half_away.
  rewrite (nontie_modes (text_arg x F) (text_arg_nonneg x F) Ht). reflexivity.
Qed.

(* on a tie whose floor is even the half-away rendering is the one of N + 1,
   the implementation's the one of N: the known finding, for every such x *)
Lemma text_tie_rounds_down x F : fmt_ok F = true -> is_tie (text_arg x F) ->
  Z.even (Qfloor (text_arg x F)) = true ->
  half_even (text_arg x F) = Qfloor (text_arg x F)
  /\ half_away (text_arg x F) = Qfloor (text_arg x F) + 1.
Proof.
  intros _ Ht He. destruct (tie_modes _ (text_arg_nonneg x F) Ht) as [A B].
  unfold half_even, half_away. rewrite A, B, He. auto.
Qed.
