(* Proofs/C17Cal.v — calendar facts on the pure integer functions of
   Lib/PyDate.v (independent of the generated code, so the sweeps below are
   rebuilt only when the calendar model itself changes). *)
From Coq Require Import ZArith List Bool Lia.
From PV Require Import Lib.Py Lib.PyDate.
Open Scope Z_scope.

Fixpoint allb (f : Z -> bool) (n : nat) (start : Z) : bool :=
  match n with O => true | S n' => f start && allb f n' (start + 1) end.

Lemma allb_spec f n : forall start, allb f n start = true ->
  forall i, start <= i < start + Z.of_nat n -> f i = true.
Proof.
  induction n as [|n IH]; intros start H i Hi; [lia|].
  cbn [allb] in H. apply andb_true_iff in H. destruct H as [H1 H2].
  destruct (Z.eq_dec i start) as [->|Hne]; [exact H1|].
  apply (IH (start + 1) H2). lia.
Qed.

(* ord2ymd (DATE_ZERO + n) is a valid date of the years 1900..9999 and ymd2ord inverts it *)
Definition greg_ok (n : Z) : bool :=
  let '(y, m, d) := ord2ymd (693594 + n) in
  (1900 <=? y) && (y <=? 9999) && (1 <=? m) && (m <=? 12) && (1 <=? d)
  && (d <=? days_in_month y m) && (ymd2ord y m d =? 693594 + n).
