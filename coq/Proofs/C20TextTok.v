(* Proofs/C20TextTok.v — the tokenizer of Model/TextFormat.v on the grammar of
   C20TextSpec.v: up to splitting a run of n placeholders into n runs of one
   ([norm]), the tokens are the placeholders of the integer part, the dot, the
   placeholders of the fraction part and the percent signs; the thousands flag
   is [thousands]. *)
From Coq Require Import ZArith QArith List Bool Lia.
From PV Require Import Lib.Py Model.TextFormat Proofs.C20TextSpec.
Import ListNotations.
Open Scope Z_scope.

Definition N1 (c : Z) : tok := TNum c 1.
Definition norm (ts : list tok) : list tok :=
  flat_map (fun t => match t with TNum c n => repeat (N1 c) n | _ => [t] end) ts.
Definition pos_tok (t : tok) : Prop := match t with TNum _ O => False | _ => True end.

Lemma ph_is c : is_ph c = ph c.
Proof. reflexivity. Qed.

Lemma norm_app a b : norm (a ++ b) = norm a ++ norm b.
Proof. apply flat_map_app. Qed.

Lemma rev_repeat {A} (a : A) n : rev (repeat a n) = repeat a n.
Proof.
  induction n as [|n IH]; [reflexivity|].
  cbn [repeat rev]. rewrite IH. symmetry. apply repeat_cons.
Qed.

Lemma norm_rev l : norm (rev l) = rev (norm l).
Proof.
  induction l as [|t l IH]; [reflexivity|].
  cbn [rev]. rewrite norm_app, IH.
  change (t :: l) with ([t] ++ l). rewrite norm_app, rev_app_distr. f_equal.
  destruct t; cbn [norm flat_map]; rewrite ?app_nil_r; [|reflexivity|reflexivity].
  symmetry. apply rev_repeat.
Qed.

Lemma norm_map_N1 s : norm (map N1 s) = map N1 s.
Proof. induction s as [|c s IH]; [reflexivity|]. cbn [map norm flat_map N1 repeat app] in *. f_equal. exact IH. Qed.

Lemma norm_repeat_str c k : norm (repeat (TStr c) k) = repeat (TStr c) k.
Proof. induction k as [|k IH]; [reflexivity|]. cbn [repeat norm flat_map app] in *. f_equal. exact IH. Qed.

(* ------------------------------------------------------------ single steps *)
Definition same_flags (a b : tstate) : Prop :=
  t_dec a = t_dec b /\ t_thou a = t_thou b /\ t_pct a = t_pct b.

Lemma step_ph st prev c next : ph c = true -> Forall pos_tok (t_toks st) ->
  exists st', tok_step st prev c next = Ok st' /\ same_flags st' st
              /\ Forall pos_tok (t_toks st')
              /\ norm (rev (t_toks st')) = norm (rev (t_toks st)) ++ [N1 c].
Proof.
  intros Hc Hpos. unfold tok_step. rewrite ph_is, Hc.
  assert (Hnew : exists st',
    Ok {| t_toks := TNum c 1 :: t_toks st; t_dec := t_dec st; t_thou := t_thou st; t_pct := t_pct st |}
      = Ok st' /\ same_flags st' st /\ Forall pos_tok (t_toks st')
    /\ norm (rev (t_toks st')) = norm (rev (t_toks st)) ++ [N1 c]).
  { eexists. split; [reflexivity|]. cbn [t_toks t_dec t_thou t_pct]. unfold same_flags.
    repeat split.
    - constructor; [exact I|exact Hpos].
    - cbn [rev]. rewrite norm_app. reflexivity. }
  destruct prev as [p|]; [|exact Hnew].
  destruct (t_toks st) as [|[d n| |c0] ts] eqn:Et; try exact Hnew.
  destruct ((p =? c) && (d =? c)) eqn:E; [|exact Hnew].
  apply andb_true_iff in E. destruct E as [_ E]. apply Z.eqb_eq in E. subst d.
  eexists. split; [reflexivity|]. cbn [t_toks t_dec t_thou t_pct]. unfold same_flags.
  repeat split.
  - inversion Hpos; subst. constructor; [exact I|assumption].
  - cbn [rev]. rewrite !norm_app. cbn [norm flat_map]. rewrite !app_nil_r, <- app_assoc. f_equal.
    cbn [repeat]. apply repeat_cons.
Qed.

Lemma step_comma st p next : ph p = true -> t_dec st = false ->
  tok_step st (Some p) 44 next
  = Ok {| t_toks := t_toks st; t_dec := false; t_thou := t_thou st || opt_ph next; t_pct := t_pct st |}.
Proof.
  intros Hp Hd. unfold tok_step. change (is_ph 44) with false. change (44 =? 44) with true.
  cbv iota. destruct st as [ts dc th pc]. cbn [t_toks t_dec t_thou t_pct] in *. subst dc.
  cbn [opt_ph]. rewrite (ph_is p), Hp.
  destruct th; [reflexivity|]. cbn [orb negb].
  destruct next as [d|]; cbn [opt_ph orb negb]; [|reflexivity].
  rewrite ph_is. destruct (ph d); reflexivity.
Qed.

Lemma step_dot st prev next : t_dec st = false ->
  tok_step st prev 46 next
  = Ok {| t_toks := TDot :: t_toks st; t_dec := true; t_thou := t_thou st; t_pct := t_pct st |}.
Proof.
  intros Hd. unfold tok_step. change (is_ph 46) with false. change (46 =? 44) with false.
  change (46 =? 46) with true. cbv iota. rewrite Hd. reflexivity.
Qed.

Lemma step_pct st prev next :
  tok_step st prev 37 next
  = Ok {| t_toks := TStr 37 :: t_toks st; t_dec := t_dec st; t_thou := t_thou st; t_pct := S (t_pct st) |}.
Proof. reflexivity. Qed.

Lemma tok_loop_cons st prev c s :
  tok_loop st prev (c :: s)
  = bind (tok_step st prev c (match s with d :: _ => Some d | [] => None end))
         (fun st' => tok_loop st' (Some c) s).
Proof. reflexivity. Qed.

(* ------------------------------------------------------------------ phases *)
Lemma thousands_ph c s : ph c = true -> thousands (c :: s) = thousands s.
Proof.
  intros H. cbn [thousands].
  assert (E : (c =? 44) = false).
  { unfold ph in H. apply orb_true_iff in H. destruct H as [H|H]; apply Z.eqb_eq in H; subst; reflexivity. }
  rewrite E. destruct s; reflexivity.
Qed.

Definition head_not_ph (s : str) : Prop := match s with d :: _ => ph d = false | [] => True end.

Lemma loop_int : forall ip st prev rest,
  int_ok (opt_ph prev) ip = true -> t_dec st = false -> head_not_ph rest ->
  Forall pos_tok (t_toks st) ->
  exists st' prev', tok_loop st prev (ip ++ rest) = tok_loop st' prev' rest
    /\ t_dec st' = false /\ t_pct st' = t_pct st
    /\ t_thou st' = t_thou st || thousands ip
    /\ Forall pos_tok (t_toks st')
    /\ norm (rev (t_toks st')) = norm (rev (t_toks st)) ++ map N1 (filter ph ip).
Proof.
  induction ip as [|c ip IH]; intros st prev rest Hok Hd Hrest Hpos.
  - exists st, prev. cbn [app thousands filter map]. rewrite orb_false_r, app_nil_r. repeat split; auto.
  - cbn [int_ok] in Hok. cbn [app]. rewrite tok_loop_cons.
    destruct (ph c) eqn:Ec.
    + destruct (step_ph st prev c (match ip ++ rest with d :: _ => Some d | [] => None end) Ec Hpos)
        as (st1 & E1 & (F1 & F2 & F3) & P1 & N1').
      rewrite E1. cbn [bind].
      destruct (IH st1 (Some c) rest) as (st' & prev' & E & D & P & T & Q & N).
      * cbn [opt_ph]. rewrite ph_is, Ec. exact Hok.
      * congruence.
      * exact Hrest.
      * exact P1.
      * exists st', prev'. rewrite E. repeat split; try assumption; try congruence.
        -- rewrite T, F2, thousands_ph by exact Ec. reflexivity.
        -- rewrite N, N1'. cbn [filter]. rewrite Ec. cbn [map]. rewrite <- app_assoc. reflexivity.
    + apply andb_true_iff in Hok. destruct Hok as [Hok Hok2].
      apply andb_true_iff in Hok. destruct Hok as [Hc Hprev].
      apply Z.eqb_eq in Hc. subst c.
      destruct prev as [p|]; [|discriminate]. cbn [opt_ph] in Hprev. rewrite ph_is in Hprev.
      rewrite (step_comma st p _ Hprev Hd). cbn [bind].
      match goal with |- context [tok_loop ?s (Some 44) _] => set (st1 := s) end.
      destruct (IH st1 (Some 44) rest) as (st' & prev' & E & D & P & T & Q & N).
      * exact Hok2.
      * reflexivity.
      * exact Hrest.
      * exact Hpos.
      * exists st', prev'. rewrite E. repeat split; try assumption.
        rewrite T. subst st1. cbn [t_thou thousands]. change (44 =? 44) with true.
           rewrite <- orb_assoc. f_equal. f_equal.
           destruct ip as [|d ip']; cbn [app opt_ph].
           ++ destruct rest as [|r rest']; cbn [opt_ph]; [reflexivity|]. rewrite ph_is. exact Hrest.
           ++ rewrite ph_is. reflexivity.
Qed.

Lemma loop_frac : forall fp st prev rest,
  forallb ph fp = true -> Forall pos_tok (t_toks st) ->
  exists st' prev', tok_loop st prev (fp ++ rest) = tok_loop st' prev' rest
    /\ same_flags st' st /\ Forall pos_tok (t_toks st')
    /\ norm (rev (t_toks st')) = norm (rev (t_toks st)) ++ map N1 fp.
Proof.
  induction fp as [|c fp IH]; intros st prev rest Hok Hpos.
  - exists st, prev. cbn [app map]. rewrite app_nil_r. unfold same_flags. repeat split; auto.
  - cbn [forallb] in Hok. apply andb_true_iff in Hok. destruct Hok as [Ec Hok].
    cbn [app]. rewrite tok_loop_cons.
    destruct (step_ph st prev c (match fp ++ rest with d :: _ => Some d | [] => None end) Ec Hpos)
      as (st1 & E1 & (F1 & F2 & F3) & P1 & N1').
    rewrite E1. cbn [bind].
    destruct (IH st1 (Some c) rest Hok P1) as (st' & prev' & E & (G1 & G2 & G3) & Q & N).
    exists st', prev'. rewrite E. unfold same_flags. repeat split; try congruence; try assumption.
    rewrite N, N1'. cbn [map]. rewrite <- app_assoc. reflexivity.
Qed.

Lemma loop_pct : forall k st prev, Forall pos_tok (t_toks st) ->
  exists st', tok_loop st prev (repeat 37 k) = Ok st'
    /\ t_dec st' = t_dec st /\ t_thou st' = t_thou st /\ t_pct st' = (t_pct st + k)%nat
    /\ Forall pos_tok (t_toks st')
    /\ norm (rev (t_toks st')) = norm (rev (t_toks st)) ++ repeat (TStr 37) k.
Proof.
  induction k as [|k IH]; intros st prev Hpos.
  - exists st. cbn [repeat tok_loop]. rewrite app_nil_r, Nat.add_0_r. repeat split; auto.
  - cbn [repeat]. rewrite tok_loop_cons, step_pct. cbn [bind].
    match goal with |- context [tok_loop ?s (Some 37) _] => set (st1 := s) end.
    destruct (IH st1 (Some 37)) as (st' & E & D & T & P & Q & N).
    { subst st1. cbn [t_toks]. constructor; [exact I|exact Hpos]. }
    exists st'. rewrite E. subst st1. cbn [t_toks t_dec t_thou t_pct] in *.
    repeat split; try assumption; [lia|].
    rewrite N. cbn [rev]. rewrite norm_app. cbn [norm flat_map app]. rewrite <- app_assoc. reflexivity.
Qed.

(* ------------------------------------------------------- the whole format *)
Definition fmt_toks (F : tfmt) : list tok :=
  map N1 (filter ph (f_int F))
  ++ (if f_dot F then TDot :: map N1 (f_frac F) else [])
  ++ repeat (TStr 37) (f_pct F).

Lemma tokenize_fmt F : fmt_ok F = true ->
  exists st, tokenize (fmt_string F) = Ok st
    /\ t_dec st = f_dot F /\ t_thou st = thousands (f_int F) /\ t_pct st = f_pct F
    /\ Forall pos_tok (t_toks st)
    /\ norm (rev (t_toks st)) = fmt_toks F.
Proof.
  destruct F as [ip dot fp k]. unfold fmt_ok, fmt_string, fmt_toks. cbn [f_int f_dot f_frac f_pct].
  intros H. apply andb_true_iff in H. destruct H as [H H4].
  apply andb_true_iff in H. destruct H as [H H3].
  apply andb_true_iff in H. destruct H as [H1 H2].
  unfold tokenize.
  set (st0 := {| t_toks := []; t_dec := false; t_thou := false; t_pct := 0 |}).
  destruct (loop_int ip st0 None ((if dot then 46 :: fp else []) ++ repeat 37 k))
    as (st1 & prev1 & E1 & D1 & P1 & T1 & Q1 & N1').
  { exact H1. } { reflexivity. }
  { destruct dot; cbn [app head_not_ph]; [reflexivity|]. destruct k; cbn [repeat head_not_ph]; auto. }
  { constructor. }
  rewrite E1. subst st0. cbn [t_toks t_thou t_pct rev norm flat_map app] in *.
  destruct dot.
  - cbn [app]. rewrite tok_loop_cons, (step_dot st1 _ _ D1). cbn [bind].
    match goal with |- context [tok_loop ?s (Some 46) _] => set (st2 := s) end.
    destruct (loop_frac fp st2 (Some 46) (repeat 37 k) H2) as (st3 & prev3 & E3 & (F1 & F2 & F3) & Q3 & N3).
    { subst st2. cbn [t_toks]. constructor; [exact I|exact Q1]. }
    rewrite E3.
    destruct (loop_pct k st3 prev3 Q3) as (st4 & E4 & D4 & T4 & P4 & Q4 & N4).
    exists st4. rewrite E4. subst st2. cbn [t_toks t_dec t_thou t_pct] in *.
    split; [reflexivity|]. split; [congruence|]. split; [rewrite T4, F2; exact T1|].
    split; [rewrite P4, F3, P1; reflexivity|]. split; [exact Q4|].
    rewrite N4, N3. cbn [rev]. rewrite norm_app, N1'. cbn [norm flat_map app].
    rewrite <- !app_assoc. reflexivity.
  - cbn [app]. cbn [orb] in H3. destruct fp; [|discriminate].
    destruct (loop_pct k st1 prev1 Q1) as (st4 & E4 & D4 & T4 & P4 & Q4 & N4).
    exists st4. rewrite E4.
    split; [reflexivity|]. split; [congruence|]. split; [rewrite T4; exact T1|].
    split; [rewrite P4, P1; reflexivity|]. split; [exact Q4|].
    rewrite N4, N1'. reflexivity.
Qed.
