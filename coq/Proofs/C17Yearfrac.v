(* Proofs/C17Yearfrac.v — YEARFRAC is symmetric in its two dates: the generated
   yearfrac (Gen/date_time.v) orders the dates before it looks at them, and every
   check it makes before that is symmetric.  For ALL integer dates (in or out of
   range) and EVERY basis value (valid, invalid, any Python value). *)
From Coq Require Import ZArith QArith Qround List Bool Lia.
From PV Require Import Lib.Py Lib.PyDate Proofs.PyTac Proofs.NumLemmas.
From PV Require Gen.excelutil Gen.date_time.
Import ListNotations.
Open Scope Z_scope.

Ltac same_head :=
  repeat (py_run; match goal with
  | |- bind ?X _ = bind ?X _ => destruct X; [|reflexivity]
  | |- (if ?c then _ else _) = (if ?c then _ else _) => destruct c; [reflexivity|]
  end).

Lemma yearfrac_swap a b basis : a < b ->
  date_time.f_yearfrac (VInt b) (VInt a) basis = date_time.f_yearfrac (VInt a) (VInt b) basis.
Proof.
  intros H. unfold date_time.f_yearfrac. same_head.
  unfold excelutil.c_ERROR_CODES, date_time.c_DATE_MAX_INT. py_run.
  replace (a <? b) with true by (symmetry; apply Z.ltb_lt; lia).
  replace (b <? a) with false by (symmetry; apply Z.ltb_ge; lia).
  destruct (0 <=? a); destruct (0 <=? b); destruct (a <? 2958466); destruct (b <? 2958466);
    py_run; reflexivity.
Qed.

Lemma yearfrac_symmetric a b basis :
  date_time.f_yearfrac (VInt a) (VInt b) basis = date_time.f_yearfrac (VInt b) (VInt a) basis.
Proof.
  destruct (Z.lt_trichotomy a b) as [L|[->|L]].
  - symmetry. apply yearfrac_swap. exact L.
  - reflexivity.
  - apply yearfrac_swap. exact L.
Qed.

(* non-vacuity: the two orders give the same non-trivial value (30/360 US, actual/365, 30/360 EU) *)
Example yearfrac_ex :
  date_time.f_yearfrac (VInt 45322) (VInt 44000) (VInt 0) = Ok (VFloat (1303 # 360))
  /\ date_time.f_yearfrac (VInt 44000) (VInt 45322) (VInt 0) = Ok (VFloat (1303 # 360))
  /\ date_time.f_yearfrac (VInt 45322) (VInt 44000) (VInt 3) = Ok (VFloat (1322 # 365))
  /\ date_time.f_yearfrac (VInt 45322) (VInt 44000) (VInt 4) = date_time.f_yearfrac (VInt 44000) (VInt 45322) (VInt 4).
Proof. repeat split; vm_compute; reflexivity. Qed.

(* the same through the decorator wrapper (Model/DateFuncs.v), with an integer basis or none *)
From PV Require Import Model.Wrap Model.DateFuncs.
Lemma X_yearfrac_int a b bs :
  X_yearfrac [VInt a; VInt b; VInt bs] = date_time.f_yearfrac (VInt a) (VInt b) (VInt bs)
  /\ X_yearfrac [VInt a; VInt b] = date_time.f_yearfrac (VInt a) (VInt b) (VInt 0).
Proof. split; reflexivity. Qed.

Lemma yearfrac_wrapped_symmetric a b bs :
  X_yearfrac [VInt a; VInt b; VInt bs] = X_yearfrac [VInt b; VInt a; VInt bs]
  /\ X_yearfrac [VInt a; VInt b] = X_yearfrac [VInt b; VInt a].
Proof.
  destruct (X_yearfrac_int a b bs) as [E1 E2]. destruct (X_yearfrac_int b a bs) as [E3 E4].
  rewrite E1, E2, E3, E4. split; apply yearfrac_symmetric.
Qed.
