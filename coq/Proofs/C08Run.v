(* Proofs/C08Run.v — C08, part 2: the machine after a trim.  The trimmed state
   does not satisfy C01's invariant (a surviving formula may read a deleted
   range node, a surviving dependant of an input may read a deleted cell), so
   this file proves coherence from a weaker invariant [TInv] that talks about
   the live region only (the outputs and everything walk_precedents
   processed):
     T1  a cached value of a live formula/range node is its from-scratch value;
     TZ  below the inputs I, the readers of an empty node are empty;
     T4  a reader of an input of I (or of one of its descendants) that holds a
         value is in the cell map — so _reset reaches it.
   [TInv] is preserved by set_value on a cell of I and by evaluate of a live
   surviving node, and under it evaluate returns the from-scratch value. *)
From Coq Require Import List Arith Bool Lia.
From PV Require Import Lib.Py Model.Graph.
From PV Require Import Proofs.C01Base Proofs.C01Reset Proofs.C01Eval Proofs.C01Inv Proofs.C01
                       Proofs.C05.
Import ListNotations.

(* ---------------------------------------------------------------- eval_agree
   [eval] of node n reads and writes only n and its ancestors *)
Section Agree.
  Variable W : workbook.
  Variable sem : nat -> list pyval -> pyval.
  Notation deps := (wb_deps W).
  Notation eval := (eval W sem).
  Notation anc := (anc W).
  Notation anceq := (anceq W).

  Definition agree_ok (f : nat) := forall (c1 c2 : cache) n, (forall m, anceq n m -> c1 m = c2 m) ->
    snd (eval f c1 n) = snd (eval f c2 n) /\
    (forall m, anceq n m -> fst (eval f c1 n) m = fst (eval f c2 n) m) /\
    (forall m, fst (eval f c1 n) m = c1 m \/ anceq n m).

  Lemma estep_eq f (c : cache) (vs : list pyval) d :
    estep W sem f (c, vs) d = (fst (eval f c d), vs ++ [snd (eval f c d)]).
  Proof. unfold estep. destruct (eval f c d). reflexivity. Qed.

  Lemma agree_fold f n : agree_ok f ->
    forall l, (forall d, In d l -> In d (deps n)) ->
    forall (c1 c2 : cache) (vs : list pyval), (forall m, anc m n -> c1 m = c2 m) ->
      snd (fold_left (estep W sem f) l (c1, vs)) = snd (fold_left (estep W sem f) l (c2, vs)) /\
      (forall m, anc m n -> fst (fold_left (estep W sem f) l (c1, vs)) m
                            = fst (fold_left (estep W sem f) l (c2, vs)) m) /\
      (forall m, fst (fold_left (estep W sem f) l (c1, vs)) m = c1 m \/ anc m n).
  Proof.
    intros IH. induction l as [|d l IHl]; intros Sub c1 c2 vs H; cbn [fold_left].
    - cbn [fst snd]. auto.
    - assert (Dn: In d (deps n)) by (apply Sub; left; auto).
      assert (Up: forall m, anceq d m -> anc m n).
      { intros m [->|A]; [now constructor|eapply anc_trans; eauto]. }
      destruct (IH c1 c2 d ltac:(intros; apply H; auto)) as (V12 & A12 & O1).
      destruct (IH c2 c1 d ltac:(intros; symmetry; apply H; auto)) as (_ & _ & O2).
      rewrite !estep_eq. destruct (eval f c1 d) as [c1' v1]. destruct (eval f c2 d) as [c2' v2].
      cbn [fst snd] in *. subst v2.
      assert (H': forall m, anc m n -> c1' m = c2' m).
      { intros m A. destruct (O1 m) as [E1|Y]; [|auto]. destruct (O2 m) as [E2|Y]; [|auto].
        rewrite E1, E2. auto. }
      destruct (IHl ltac:(intros; apply Sub; right; auto) c1' c2' (vs ++ [v1]) H') as (A & B & C).
      split; [auto|]. split; [auto|].
      intros m. destruct (C m) as [E|Y]; [|auto].
      destruct (O1 m) as [E1|Y]; [left; etransitivity; [exact E|exact E1]|auto].
  Qed.

  Lemma eval_unfold2 f (c : cache) n : eval (S f) c n =
    if wb_input W n then (c, c n)
    else if is_none (c n) then
      (upd (fst (fold_left (estep W sem f) (deps n) (c, @nil pyval))) n
           (sem n (snd (fold_left (estep W sem f) (deps n) (c, @nil pyval)))),
       sem n (snd (fold_left (estep W sem f) (deps n) (c, @nil pyval))))
    else (c, c n).
  Proof.
    rewrite eval_unfold. destruct (wb_input W n); auto. destruct (is_none (c n)); auto.
    destruct (fold_left (estep W sem f) (deps n) (c, @nil pyval)). reflexivity.
  Qed.

  Lemma eval_agree : forall f, agree_ok f.
  Proof.
    induction f as [|f IH]; intros c1 c2 n H.
    - cbn. auto.
    - rewrite !eval_unfold2. assert (Hn: c1 n = c2 n) by (apply H; left; auto).
      destruct (wb_input W n).
      { cbn [fst snd]. auto. }
      rewrite <- Hn. destruct (is_none (c1 n)).
      2:{ cbn [fst snd]. auto. }
      destruct (agree_fold f n IH (deps n) ltac:(auto) c1 c2 []
                           ltac:(intros; apply H; right; auto)) as (A & B & C).
      cbn [fst snd]. rewrite <- A. split; [auto|]. split.
      + intros m Hm. destruct (Nat.eq_dec m n) as [->|NE]; [now rewrite !upd_same|].
        rewrite !upd_other by auto. destruct Hm as [->|Hm]; [congruence|auto].
      + intros m. destruct (Nat.eq_dec m n) as [->|NE]; [right; left; auto|].
        rewrite upd_other by auto. destruct (C m); auto. right. right. auto.
  Qed.
End Agree.

(* ------------------------------------------------------------------- TInv *)
Section Run.
  Variable W : workbook.                 (* the workbook AFTER the trim *)
  Variable sem : nat -> list pyval -> pyval.
  Hypothesis WF : wf W.
  Hypothesis NB : sem_nonblank W sem.

  Notation N := (wb_n W).
  Notation deps := (wb_deps W).
  Notation isinput := (wb_input W).
  Notation spec := (spec W sem).
  Notation eval := (eval W sem).
  Notation anc := (anc W).
  Notation anceq := (anceq W).

  Variable K : nat -> bool.              (* the cell map after the trim *)
  Variable lv : nat -> bool.             (* the live region: outputs and processed cells *)
  Variable I : list nat.                 (* the inputs *)

  (* an input of I, or a descendant of one *)
  Definition Zs (n : nat) : Prop := In n I \/ exists a, In a I /\ anc a n.

  Hypothesis KL : forall n, K n = true -> n < N.
  Hypothesis LvL : forall m, lv m = true -> m < N.
  Hypothesis LvD : forall m d, lv m = true -> In d (deps m) -> lv d = true.
  Hypothesis ZK : forall d n, lv d = true -> Zs n -> In n (deps d) -> K d = true.
  Hypothesis II : forall a, In a I -> isinput a = true /\ K a = true /\ lv a = true.

  Record TInv (t : state) : Prop := {
    t_built : st_built t = K;
    t_coh : forall m, lv m = true -> isinput m = false -> st_cache t m <> VNone ->
              st_cache t m = spec (st_cache t) m;
    t_clo : forall p d, Zs p -> isinput p = false -> d < N -> In p (deps d) ->
              st_cache t p = VNone -> st_cache t d = VNone;
    t_kept : forall n d, Zs n -> In n (deps d) -> d < N -> st_cache t d <> VNone -> K d = true
  }.

  Lemma lv_anceq o m : lv o = true -> anceq o m -> lv m = true.
  Proof.
    intros L [->|A]; auto. induction A as [a n H|a x n A IH H]; eauto.
  Qed.

  Lemma Zs_dep n d : Zs n -> In n (deps d) -> Zs d.
  Proof.
    intros [H|(a & Ha & A)] D; right.
    - exists n. split; auto. now constructor.
    - exists a. split; auto. eapply anc_trans; eauto.
  Qed.

  (* -------------------------------------------------------------- evaluate *)
  Definition ghost (c : cache) : cache :=
    fun m => if lv m then c m else if isinput m then c m else VNone.

  Lemma ghost_coherent c :
    (forall m, lv m = true -> isinput m = false -> c m <> VNone -> c m = spec c m) ->
    Coherent W sem (ghost c).
  Proof.
    intros T1 m L Im H. unfold ghost in H |- * at 1. rewrite Im in *.
    destruct (lv m) eqn:E; [|congruence]. rewrite (T1 m E Im H) at 1.
    apply spec_ext; auto. intros k _ Ik. unfold ghost. rewrite Ik. now destruct (lv k).
  Qed.

  Lemma eval_live (ct c : cache) o :
    (forall m, lv m = true -> isinput m = false -> ct m <> VNone -> ct m = spec ct m) ->
    (forall m, c m = ct m) -> lv o = true ->
    ext W sem (anceq o) ct (fst (eval (S N) c o)) /\ snd (eval (S N) c o) = spec ct o /\
    (isinput o = false -> fst (eval (S N) c o) o <> VNone).
  Proof.
    intros T1 Ec Lo. pose proof (LvL o Lo) as L.
    pose proof (ghost_coherent ct T1) as Kg.
    destruct (eval_top W sem WF NB (ghost ct) o L Kg) as (E & V & F).
    assert (Ag: forall m, anceq o m -> c m = ghost ct m).
    { intros m Hm. unfold ghost. rewrite (lv_anceq o m Lo Hm). apply Ec. }
    destruct (eval_agree W sem (S N) c (ghost ct) o Ag) as (V' & A' & O').
    assert (Sg: forall m, m < N -> spec (ghost ct) m = spec ct m).
    { intros m Lm. apply spec_ext; auto. intros k _ Ik. unfold ghost. rewrite Ik. now destruct (lv k). }
    split; [|split].
    - intros m. destruct (O' m) as [U|Hm]; [left; now rewrite U|].
      rewrite (A' m Hm).
      assert (Gm: ghost ct m = ct m) by (unfold ghost; now rewrite (lv_anceq o m Lo Hm)).
      destruct (E m) as [U|(R1 & R2 & R3 & R4 & R5 & R6 & R7)]; [left; congruence|].
      right. repeat split; auto; try congruence.
      + rewrite R5. now apply Sg.
      + intros p Hp Ip. assert (Hpo: anceq o p).
        { right. destruct Hm as [->|A]; [now constructor|eapply anc_step; eauto]. }
        rewrite (A' p Hpo). auto.
    - rewrite V', V. now apply Sg.
    - intros Io. rewrite (A' o ltac:(left; auto)). auto.
  Qed.

  Lemma evaluate_tinv t o : TInv t -> lv o = true -> K o = true ->
    TInv (fst (evaluate W sem t o)) /\ snd (evaluate W sem t o) = spec (st_cache t) o /\
    (forall k, isinput k = true -> st_cache (fst (evaluate W sem t o)) k = st_cache t k).
  Proof.
    intros T Lo Ko. rewrite evaluate_unfold. cbn [fst snd].
    assert (Bo: st_built t o = true) by (rewrite (t_built t T); auto).
    destruct (build_built_id W sem t o Bo) as [EB EC]. rewrite EB.
    destruct (eval_live (st_cache t) (st_cache (build W sem t o)) o (t_coh t T) EC Lo)
      as (E & V & _).
    set (c' := fst (eval (S N) (st_cache (build W sem t o)) o)) in *.
    split; [|split; [exact V|intros k Ik; eapply ext_inputs; eauto]].
    split; cbn [st_cache st_built].
    - apply (t_built t T).
    - intros m Lm Im H. rewrite (ext_spec W sem WF _ _ _ m E (LvL m Lm)).
      destruct (E m) as [U|(_&_&_&_&U&_)]; [|auto]. rewrite U in *. now apply (t_coh t T).
    - intros p d Zp Ip Ld Hd Hp.
      pose proof (t_clo t T p d Zp Ip Ld Hd (ext_none W sem _ _ _ p E Hp)) as Old.
      destruct (E d) as [U|(_&_&_&_&_&_&Fd)]; [congruence|]. exfalso. now apply (Fd p Hd Ip).
    - intros n d Zn Hd Ld H. destruct (E d) as [U|(R1&_)].
      + rewrite U in H. now apply (t_kept t T n d).
      + eapply ZK; eauto. eapply lv_anceq; eauto.
  Qed.

  (* ------------------------------------------------------------- set_value *)
  Lemma write_tinv t a v : TInv t -> In a I ->
    let t' := {| st_cache := upd (reset_forced W (st_built t) a (upd (st_cache t) a v)) a v;
                 st_built := st_built t |} in
    TInv t' /\ st_cache t' a = v /\
    (forall k, k < N -> isinput k = true -> k <> a -> st_cache t' k = st_cache t k).
  Proof.
    intros T Ia. destruct (II a Ia) as (Ina & Ka & La). pose proof (KL a Ka) as LNa.
    rewrite (t_built t T). set (c1 := upd (st_cache t) a v).
    set (c2 := reset_forced W K a c1). cbn zeta.
    destruct (forced_props W K WF a c1 LNa) as (M & Na & V & D). fold c2 in M, Na, V, D.
    pose proof (forced_desc W K a c1) as Desc. fold c2 in Desc.
    assert (C1: forall m, m <> a -> c1 m = st_cache t m) by (intros; unfold c1; now apply upd_other).
    assert (NI: forall m, isinput m = false -> m <> a) by (intros m Hm ->; congruence).
    assert (Za: Zs a) by (left; auto).
    (* every descendant of the written cell is empty afterwards *)
    assert (DN: forall x, x < N -> anc a x -> c2 x = VNone).
    { induction x as [x IH] using lt_wf_ind. intros Lx A.
      pose proof (NI x (anc_noninput W WF a x Lx A)) as Hxa.
      destruct (is_none (c1 x)) eqn:E1; [apply is_none_true in E1; now apply (mono_none c1 c2 x M)|].
      apply is_none_false in E1. assert (E0: st_cache t x <> VNone) by (rewrite <- C1; auto).
      inversion A as [a' x' H|a' y x' A' H]; subst.
      - apply D. apply succs_spec. repeat split; auto. eapply (t_kept t T a x); eauto.
      - pose proof (deps_lt W WF _ _ Lx H) as Ly.
        assert (Hy: c2 y = VNone) by (apply IH; auto; lia).
        assert (Iy: isinput y = false) by (apply (anc_noninput W WF a y); auto; lia).
        assert (Zy: Zs y) by (right; exists a; auto).
        pose proof (NI y Iy) as Hya.
        assert (Kx: K x = true) by (eapply (t_kept t T y x); eauto).
        destruct (is_none (c1 y)) eqn:E2.
        + apply is_none_true in E2. rewrite C1 in E2 by auto. exfalso. apply E0.
          eapply (t_clo t T y x); eauto.
        + apply is_none_false in E2. apply (V y E2 Hy Hya Hy). apply succs_spec; auto. }
    assert (Inp: forall k, k < N -> isinput k = true -> k <> a -> c2 k = st_cache t k).
    { intros k Lk Ik Hk. destruct (Desc k) as [H|[H|H]]; [rewrite H; auto|congruence|].
      destruct H as (H2&_&_). rewrite (anc_noninput W WF _ _ Lk H2) in Ik. discriminate. }
    split; [|split; [cbn [st_cache]; apply upd_same|
                     intros k Lk Ik Hk; cbn [st_cache]; rewrite upd_other by auto; auto]].
    split; cbn [st_cache st_built].
    - reflexivity.
    - intros m Lm Im H. pose proof (NI m Im) as Hma. rewrite upd_other in H |- * by auto.
      pose proof (LvL m Lm) as LNm.
      assert (NA: ~ anc a m) by (intros A; apply H; now apply DN).
      rewrite (mono_some c1 c2 m M H), C1 by auto.
      rewrite (spec_indep W sem WF (upd c2 a v) (st_cache t) a m LNm); auto.
      + apply (t_coh t T m Lm Im). rewrite <- C1 by auto. rewrite <- (mono_some c1 c2 m M H). auto.
      + intros k Lk Ik Hk. rewrite upd_other by auto. auto.
    - intros p d Zp Ip Ld Hd Hp.
      assert (Id: isinput d = false) by (eapply dep_noninput; eauto).
      pose proof (NI p Ip) as Hpa. pose proof (NI d Id) as Hda.
      rewrite upd_other in Hp |- * by auto.
      destruct (is_none (c1 d)) eqn:E1; [apply is_none_true in E1; now apply (mono_none c1 c2 d M)|].
      apply is_none_false in E1. assert (E0: st_cache t d <> VNone) by (rewrite <- C1; auto).
      assert (Kd: K d = true) by (eapply (t_kept t T p d); eauto).
      destruct (is_none (c1 p)) eqn:E2.
      + apply is_none_true in E2. rewrite C1 in E2 by auto. exfalso. apply E0.
        eapply (t_clo t T p d); eauto.
      + apply is_none_false in E2. apply (V p E2 Hp Hpa Hp). apply succs_spec; auto.
    - intros n d Zn Hd Ld H.
      assert (Id: isinput d = false) by (eapply dep_noninput; eauto).
      pose proof (NI d Id) as Hda. rewrite upd_other in H by auto.
      apply (t_kept t T n d); auto. rewrite <- C1 by auto. rewrite <- (mono_some c1 c2 d M H). auto.
  Qed.

  (* ------------------------------------------------------------------ runs *)
  Definition trim_op (o : gop) : Prop :=
    match o with
    | SetValue a v => In a I /\ scalar_exact v = true
    | Evaluate n => lv n = true /\ K n = true
    | Build _ => False
    end.

  Definition lagrees (c : cache) (inp : nat -> pyval) : Prop :=
    forall k, lv k = true -> isinput k = true -> c k = inp k.
  Definition iexact (inp : nat -> pyval) : Prop := forall a, In a I -> scalar_exact (inp a) = true.

  Lemma tstep t o inp : TInv t -> trim_op o -> lagrees (st_cache t) inp -> iexact inp ->
    TInv (fst (step W sem t o)) /\ lagrees (st_cache (fst (step W sem t o))) (written o inp) /\
    iexact (written o inp) /\
    snd (step W sem t o) = match o with Evaluate n => spec inp n | _ => VNone end.
  Proof.
    intros T OK Ag Ex. destruct o as [n|a v|n]; cbn [step fst snd written trim_op] in *;
      [| |contradiction].
    - destruct OK as [Ln Kn]. destruct (evaluate_tinv t n T Ln Kn) as (T' & V & Inp).
      split; auto. split; [intros k Lk Ik; rewrite Inp; auto|]. split; auto.
      rewrite V. apply spec_agree; auto. intros m Im Hm. apply Ag; auto.
      eapply lv_anceq; eauto.
    - destruct OK as [Ia Ev]. destruct (II a Ia) as (Ina & Ka & La). pose proof (KL a Ka) as LNa.
      split; [|split; [|split; auto]].
      + rewrite set_value_unfold, (t_built t T), Ka. cbn [negb].
        destruct (py_eq (st_cache t a) v && same_type (st_cache t a) v); auto.
        rewrite <- (t_built t T). now apply write_tinv.
      + rewrite set_value_unfold, (t_built t T), Ka. cbn [negb].
        destruct (py_eq (st_cache t a) v && same_type (st_cache t a) v) eqn:Gd.
        * apply andb_prop in Gd. destruct Gd as [G1 G2].
          assert (E: st_cache t a = v).
          { apply scalar_same; auto. rewrite (Ag a La Ina). now apply Ex. }
          intros k Lk Ik. unfold upd. destruct (Nat.eqb_spec k a) as [->|NE]; auto.
        * rewrite <- (t_built t T). destruct (write_tinv t a v T Ia) as (_ & Wa & Wo).
          cbn zeta in Wa, Wo. intros k Lk Ik. destruct (Nat.eq_dec k a) as [->|NE].
          -- rewrite Wa. now rewrite upd_same.
          -- rewrite Wo by auto. rewrite upd_other by auto. auto.
      + intros x Hx. unfold upd. destruct (Nat.eqb x a); auto.
  Qed.

  Lemma trun : forall h t inp, TInv t -> lagrees (st_cache t) inp -> iexact inp ->
    Forall trim_op h ->
    snd (run W sem t h) = run_spec W sem inp h /\ TInv (fst (run W sem t h)).
  Proof.
    induction h as [|o h IH]; intros t inp T Ag Ex F; [cbn; auto|].
    inversion F as [|? ? Fo Fh]; subst. rewrite run_cons. cbn [fst snd run_spec].
    destruct (tstep t o inp T Fo Ag Ex) as (T' & Ag' & Ex' & V).
    destruct (IH _ _ T' Ag' Ex' Fh) as [R T'']. split; auto. rewrite R, V. reflexivity.
  Qed.
End Run.
