(* Proofs/C03Resave.v — C03: repeated saves of one object, for EVERY extra_data.
   _to_text updates the user's extra_data dictionary in place and deletes only
   'cell_map' afterwards (Model/Persist.v to_text).  Consequences proved here:
     to_text_settled    a model whose extra_data already holds its own cycles /
                        excel_hash / filename and no cell_map is a FIXED POINT of
                        the side effect, and its document is extra_data followed
                        by the cell map
     save_settles       the model after one save is such a fixed point: the side
                        effect of to_text is idempotent
     resave_stable      from the second save on, every save of the unchanged
                        object writes the same document (same key order)
     resave_keeps_filename
                        a model whose extra_data holds a 'filename' key and no
                        'cell_map' key (every model made by from_text of a saved
                        document) writes the same document at the first and the
                        second save already
     resave_loaded      … instantiated: from_text f = Ok M', f has a file name
     resave_needed      the condition of C03_resave_partial cannot be dropped
                        (closed witness; the same as Refuted/C03_resave_extra_data.v) *)
From Coq Require Import List Arith Bool ZArith Lia.
From PV Require Import Lib.Py Model.Graph Model.Persist.
From PV Require Import Proofs.C01Base Proofs.C01Inv Proofs.C01 Proofs.C03Sort Proofs.C03Graph Proofs.C03 Proofs.C03Example.
Import ListNotations.
Local Open Scope nat_scope.

Section DictMore.
  Context {A : Type}.
  Implicit Types d : dict A.
  Lemma d_set_absent d k v : d_get d k = None -> d_set d k v = d ++ [(k, v)].
  Proof.
    induction d as [|[k0 v0] d IH]; cbn [d_set d_get app]; auto.
    destruct (str_eqb k0 k); [discriminate|]. intros H. now rewrite IH.
  Qed.
  Lemma d_set_same d k v : d_get d k = Some v -> d_set d k v = d.
  Proof.
    induction d as [|[k0 v0] d IH]; cbn [d_set d_get]; [discriminate|].
    destruct (str_eqb k0 k).
    - intros H. inversion H. reflexivity.
    - intros H. now rewrite IH.
  Qed.
  Lemma d_set_app_present d d' k v :
    d_get d k <> None -> d_set (d ++ d') k v = d_set d k v ++ d'.
  Proof.
    induction d as [|[k0 v0] d IH]; cbn [d_set d_get app]; [congruence|].
    destruct (str_eqb k0 k); auto. intros H. now rewrite IH.
  Qed.
  Lemma d_del_absent d k : d_get d k = None -> d_del d k = d.
  Proof.
    induction d as [|[k0 v0] d IH]; cbn [d_del d_get]; auto.
    destruct (str_eqb k0 k); [discriminate|]. intros H. now rewrite IH.
  Qed.
  Lemma d_del_app d d' k : d_del (d ++ d') k = d_del d k ++ d_del d' k.
  Proof.
    induction d as [|[k0 v0] d IH]; cbn [d_del app]; auto.
    destruct (str_eqb k0 k); auto. now rewrite IH.
  Qed.
  Lemma d_get_app d d' k :
    d_get (d ++ d') k = match d_get d k with Some v => Some v | None => d_get d' k end.
  Proof.
    induction d as [|[k0 v0] d IH]; cbn [d_get app]; auto.
    destruct (str_eqb k0 k); auto.
  Qed.
End DictMore.

(* comparisons of the four reserved keys: closed terms *)
Ltac keq :=
  repeat match goal with
         | |- context [str_eqb ?a ?b] =>
             let r := eval vm_compute in (str_eqb a b) in
             progress change (str_eqb a b) with r
         end.

Section Resave.
  Variable G : geometry.

  Lemma del_cells_single (l : list (nat * pyval)) : d_del [(k_cells, TCells l)] k_cells = [].
  Proof. reflexivity. Qed.

  (* a fixed point of the side effect *)
  Lemma to_text_settled M e :
    pm_extra M = Some e ->
    d_get e k_cycles = Some (TV (pm_cycles M)) -> d_get e k_hash = Some (TV (pm_hash M)) ->
    d_get e k_filename = Some (TV (pm_filename M)) -> d_get e k_cells = None ->
    to_text G M = (e ++ [(k_cells, TCells (saved_cells G M))], M).
  Proof.
    destruct M as [wb code s ord cyc fn h ex].
    cbn [pm_extra pm_cycles pm_hash pm_filename]. intros -> H1 H2 H3 H4.
    unfold to_text. cbn [pm_extra pm_cycles pm_hash pm_filename pm_wb pm_code pm_state pm_order].
    rewrite (d_set_same e _ _ H1), (d_set_same e _ _ H2), (d_set_absent e _ _ H4).
    rewrite d_set_app_present by congruence. rewrite (d_set_same e _ _ H3).
    rewrite d_del_app, (d_del_absent e _ H4), del_cells_single, app_nil_r. reflexivity.
  Qed.

  Definition after_save M := snd (to_text G M).

  Lemma after_save_fields M :
    pm_wb (after_save M) = pm_wb M /\ pm_code (after_save M) = pm_code M /\
    pm_state (after_save M) = pm_state M /\ pm_order (after_save M) = pm_order M /\
    pm_cycles (after_save M) = pm_cycles M /\ pm_filename (after_save M) = pm_filename M /\
    pm_hash (after_save M) = pm_hash M.
  Proof. repeat split. Qed.

  (* what one save leaves in extra_data *)
  Lemma after_save_extra M d : pm_extra M = Some d ->
    exists e, pm_extra (after_save M) = Some e /\
      d_get e k_cycles = Some (TV (pm_cycles M)) /\ d_get e k_hash = Some (TV (pm_hash M)) /\
      d_get e k_filename = Some (TV (pm_filename M)) /\ d_get e k_cells = None.
  Proof.
    intros E. unfold after_save, to_text. cbn [snd pm_extra]. rewrite E.
    eexists. split; [reflexivity|].
    repeat split; rewrite d_get_del, !d_get_set; keq; reflexivity.
  Qed.

  Lemma save_settles M : after_save (after_save M) = after_save M.
  Proof.
    destruct (pm_extra M) as [d|] eqn:E.
    - destruct (after_save_extra M d E) as (e & E1 & H1 & H2 & H3 & H4).
      unfold after_save at 1.
      now rewrite (to_text_settled (after_save M) e E1 H1 H2 H3 H4).
    - destruct M as [wb code s ord cyc fn h ex]. cbn [pm_extra] in E. subst ex. reflexivity.
  Qed.

  Lemma iter_after_save n M : Nat.iter (S n) after_save M = after_save M.
  Proof.
    induction n as [|n IH]; [reflexivity|].
    change (Nat.iter (S (S n)) after_save M) with (after_save (Nat.iter (S n) after_save M)).
    rewrite IH. apply save_settles.
  Qed.

  (* from the second save on the document never changes *)
  Lemma resave_stable M n :
    fst (to_text G (Nat.iter (S n) (fun M => snd (to_text G M)) M))
    = fst (to_text G (snd (to_text G M))).
  Proof. change (fun M => snd (to_text G M)) with after_save. now rewrite iter_after_save. Qed.

  (* the shape of every document after the first: extra_data, then the cell map *)
  Lemma second_doc_shape M d : pm_extra M = Some d ->
    exists e, pm_extra (snd (to_text G M)) = Some e /\
      fst (to_text G (snd (to_text G M))) = e ++ [(k_cells, TCells (saved_cells G M))].
  Proof.
    intros E. destruct (after_save_extra M d E) as (e & E1 & H1 & H2 & H3 & H4).
    exists e. split; [exact E1|].
    change (snd (to_text G M)) with (after_save M).
    rewrite (to_text_settled (after_save M) e E1 H1 H2 H3 H4). reflexivity.
  Qed.

  (* extra_data with a file name and without cell map: the first two documents agree *)
  Lemma resave_keeps_filename M d :
    pm_extra M = Some d -> d_get d k_filename <> None -> d_get d k_cells = None ->
    fst (to_text G (snd (to_text G M))) = fst (to_text G M).
  Proof.
    intros E HF HC.
    destruct (second_doc_shape M d E) as (e & E1 & ->).
    revert E1. unfold to_text. cbn [fst snd pm_extra]. rewrite E. intros E1. inversion E1 as [E2]. clear E1.
    set (X := d_set (d_set d k_cycles (TV (pm_cycles M))) k_hash (TV (pm_hash M))).
    assert (XC: d_get X k_cells = None) by (unfold X; rewrite !d_get_set; keq; exact HC).
    assert (XF: d_get X k_filename <> None) by (unfold X; rewrite !d_get_set; keq; exact HF).
    rewrite (d_set_absent X _ _ XC), d_set_app_present by exact XF.
    rewrite d_del_app, del_cells_single, app_nil_r.
    rewrite d_del_absent; [reflexivity|].
    rewrite d_get_set. keq. exact XC.
  Qed.

  (* every model read from a document that has a file name *)
  Lemma resave_loaded cdeps csem rsem f M' :
    from_text G cdeps csem rsem f = Ok M' -> d_get f k_filename <> None ->
    fst (to_text G (snd (to_text G M'))) = fst (to_text G M').
  Proof.
    unfold from_text. intros H HF.
    destruct (d_get f k_cells) as [[v|l]|]; try discriminate.
    destruct (existsb _ l); try discriminate.
    destruct (d_get f k_hash) as [[h|l']|]; try discriminate.
    inversion H as [E]. clear H.
    apply (resave_keeps_filename _ (d_del (d_del (d_del f k_cycles) k_cells) k_hash)).
    - reflexivity.
    - rewrite !d_get_del. keq. exact HF.
    - rewrite !d_get_del. keq. reflexivity.
  Qed.

  (* … in particular the model read back from a save *)
  Lemma resave_roundtrip cdeps csem rsem M M' :
    roundtrip_pkl G cdeps csem rsem M = Ok M' ->
    fst (to_text G (snd (to_text G M'))) = fst (to_text G M').
  Proof.
    intros H. apply (resave_loaded cdeps csem rsem _ M' H).
    unfold to_text. cbn [fst]. rewrite d_get_set. keq. discriminate.
  Qed.

  (* ---- the document written by a LOADED model, as a list.  extra_data without
     cycles / excel_hash / cell_map and with the model's own file name: the three
     missing keys are appended in that order, the file name keeps its place *)
  Lemma doc_of_fresh_extra M X :
    pm_extra M = Some X -> d_get X k_cycles = None -> d_get X k_hash = None -> d_get X k_cells = None ->
    d_get X k_filename = Some (TV (pm_filename M)) ->
    fst (to_text G M) =
      X ++ [(k_cycles, TV (pm_cycles M)); (k_hash, TV (pm_hash M)); (k_cells, TCells (saved_cells G M))].
  Proof.
    destruct M as [wb code s ord cyc fn h ex].
    cbn [pm_extra pm_cycles pm_hash pm_filename]. intros -> X1 X2 X3 XF.
    unfold to_text. cbn [fst pm_extra pm_cycles pm_hash pm_filename].
    rewrite (d_set_absent X _ _ X1).
    rewrite (d_set_absent (X ++ _) k_hash)
      by (rewrite d_get_app, X2; cbn [d_get]; keq; reflexivity).
    rewrite (d_set_absent ((X ++ _) ++ _) k_cells)
      by (rewrite !d_get_app, X3; cbn [d_get]; keq; reflexivity).
    rewrite <- !app_assoc. rewrite d_set_app_present by congruence.
    rewrite (d_set_same X _ _ XF). reflexivity.
  Qed.

  Lemma loaded_doc_shape cdeps csem rsem f M' v :
    from_text G cdeps csem rsem f = Ok M' -> d_get f k_filename = Some (TV v) ->
    fst (to_text G M') =
      d_del (d_del (d_del f k_cycles) k_cells) k_hash ++
      [(k_cycles, TV (pm_cycles M')); (k_hash, TV (pm_hash M')); (k_cells, TCells (saved_cells G M'))].
  Proof.
    unfold from_text. intros H HF.
    destruct (d_get f k_cells) as [[v0|l]|]; try discriminate.
    destruct (existsb _ l); try discriminate.
    destruct (d_get f k_hash) as [[h|l']|]; try discriminate.
    inversion H as [E]. clear H.
    apply doc_of_fresh_extra.
    - reflexivity.
    - rewrite !d_get_del. keq. reflexivity.
    - rewrite !d_get_del. keq. reflexivity.
    - rewrite !d_get_del. keq. reflexivity.
    - rewrite !d_get_del. keq. unfold load. cbn [pm_filename]. rewrite HF. reflexivity.
  Qed.

  (* save . load . save in terms of the ORIGINAL model: the list-level form of
     Proofs/C03.v idempotent (same side conditions) *)
  Lemma idempotent_doc cdeps csem rsem M :
    pm_ok G cdeps M -> wf (pm_wb M) -> code_nonblank csem rsem ->
    Inv (pm_wb M) (pm_sem csem rsem M) (pm_state M) -> no_eq_text M ->
    exists M', roundtrip_pkl G cdeps csem rsem M = Ok M' /\
      fst (to_text G M') =
        d_del (d_del (d_del (fst (to_text G M)) k_cycles) k_cells) k_hash ++
        [(k_cycles, TV (pm_cycles M)); (k_hash, TV (pm_hash M)); (k_cells, TCells (saved_cells G M))].
  Proof.
    intros OK WF CNB I NE.
    destruct (idempotent G cdeps csem rsem M OK WF CNB I NE) as (M' & R & SC & _).
    destruct (settings_roundtrip G cdeps csem rsem M OK I) as (M2 & R2 & C1 & _ & C3 & _).
    rewrite R in R2. inversion R2. subst M2.
    exists M'. split; [exact R|].
    rewrite (loaded_doc_shape cdeps csem rsem _ M' (pm_filename M) R), C1, C3, SC; [reflexivity|].
    unfold to_text. cbn [fst]. rewrite d_get_set. keq. reflexivity.
  Qed.
End Resave.

(* the condition pm_extra M = None of C03_resave_partial is needed *)
Definition k_note : str := [110; 111; 116; 101]%Z.
Definition M_note : pmodel := mk (VInt 3) (Some [(k_note, TV (VInt 1))]).

Lemma resave_needed : exists G M,
  fst (to_text G (snd (to_text G M))) <> fst (to_text G M) /\
  map fst (fst (to_text G M)) = [k_note; k_cycles; k_hash; k_cells; k_filename] /\
  map fst (fst (to_text G (snd (to_text G M)))) = [k_note; k_cycles; k_hash; k_filename; k_cells].
Proof. exists G0, M_note. vm_compute. repeat split. discriminate. Qed.

(* the hypotheses of resave_keeps_filename / resave_roundtrip are met by a
   concrete model: the four-node model with user data saved, loaded, and saved twice *)
Example resave_hypotheses_satisfiable :
  exists M', roundtrip_pkl G0 cdeps0 csem0 rsem0 M_note = Ok M' /\
    (exists d, pm_extra M' = Some d /\ d_get d k_filename <> None /\ d_get d k_cells = None /\
               d_get d k_note = Some (TV (VInt 1))) /\
    map fst (fst (to_text G0 M')) = [k_note; k_filename; k_cycles; k_hash; k_cells].
Proof.
  eexists. split; [vm_compute; reflexivity|]. split.
  - eexists. split; [reflexivity|]. vm_compute. repeat split. discriminate.
  - vm_compute. reflexivity.
Qed.

(* the key order of a save of the LOADED model differs from the original's even
   with extra_data = None (the file name moves to the front): C03_idempotent's
   "same content for every key" cannot be strengthened to "same list" *)
Lemma idempotent_order_needed : exists G cdeps csem rsem M M',
  pm_extra M = None /\ roundtrip_pkl G cdeps csem rsem M = Ok M' /\
  map fst (fst (to_text G M)) = [k_cycles; k_hash; k_cells; k_filename] /\
  map fst (fst (to_text G M')) = [k_filename; k_cycles; k_hash; k_cells].
Proof.
  exists G0, cdeps0, csem0, rsem0, (mk (VInt 3) None). eexists.
  split; [reflexivity|]. split; [vm_compute; reflexivity|]. split; vm_compute; reflexivity.
Qed.

(* the hypotheses of loaded_doc_shape are met by the document of M_note *)
Example loaded_doc_hypotheses_satisfiable :
  exists M', from_text G0 cdeps0 csem0 rsem0 (fst (to_text G0 M_note)) = Ok M' /\
    d_get (fst (to_text G0 M_note)) k_filename = Some (TV (VStr [119%Z])) /\
    map fst (fst (to_text G0 M')) = [k_note; k_filename; k_cycles; k_hash; k_cells].
Proof. eexists. split; [vm_compute; reflexivity|]. split; vm_compute; reflexivity. Qed.
