(* Proofs/C07.v — non-interference of threads working on different compilers
   (Model/Threads.v), and definedness of every operation on a fresh namespace. *)
From Coq Require Import ZArith QArith List Bool Lia.
From PV Require Import Lib.Py Model.Iter Model.Threads.
Import ListNotations.

(* ------------------------------------------------------------------ *)
(* 1. Frame and determinism of one global step.                         *)

Definition separated (cf : config) (t : nat) : Prop :=
  forall t', t' <> t -> c_ns cf t' <> c_ns cf t /\ c_comp cf t' <> c_comp cf t.

Lemma fupd_same : forall A (f : nat -> A) i x, fupd f i x i = x.
Proof. intros. unfold fupd. rewrite Nat.eqb_refl. reflexivity. Qed.
Lemma fupd_other : forall A (f : nat -> A) i j x, j <> i -> fupd f i x j = f j.
Proof. intros. unfold fupd. apply Nat.eqb_neq in H. rewrite H. reflexivity. Qed.

(* a step of another thread does not change what t sees *)
Lemma frame_step : forall cf t t' G, separated cf t -> t' <> t -> view cf t (gstep cf G t') = view cf t G.
Proof.
  intros cf t t' G Hs Hne. destruct (Hs t' Hne) as [Hn Hk].
  unfold view, gstep.
  destruct (tstep (c_wb cf t') (g_m G t') (g_ns G (c_ns cf t')) (g_k G (c_comp cf t'))) as [[m n] k].
  cbn [g_m g_ns g_k]. rewrite !fupd_other by auto. reflexivity.
Qed.

(* a step of t is a function of what t sees *)
Lemma own_step : forall cf t G G', view cf t G = view cf t G' ->
  view cf t (gstep cf G t) = view cf t (gstep cf G' t).
Proof.
  intros cf t G G' H. unfold view in H. inversion H as [[Hm Hn Hk]].
  unfold view, gstep. rewrite Hm, Hn, Hk.
  destruct (tstep (c_wb cf t) (g_m G' t) (g_ns G' (c_ns cf t)) (g_k G' (c_comp cf t))) as [[m n] k].
  cbn [g_m g_ns g_k]. rewrite !fupd_same. reflexivity.
Qed.

(* ------------------------------------------------------------------ *)
(* 2. Non-interference: induction over the schedule.                    *)

Lemma noninterference_gen : forall cf t sched G G',
  separated cf t -> view cf t G = view cf t G' ->
  view cf t (run cf sched G) = view cf t (run cf (only t sched) G').
Proof.
  intros cf t sched; induction sched as [|u sched IH]; intros G G' Hs Hv; cbn [run fold_left only filter].
  - exact Hv.
  - destruct (Nat.eqb t u) eqn:E.
    + apply Nat.eqb_eq in E. subst u. cbn [fold_left]. apply IH; auto. apply own_step; exact Hv.
    + apply Nat.eqb_neq in E. apply IH; auto. rewrite frame_step by auto. exact Hv.
Qed.

Lemma noninterference : forall cf t sched G,
  separated cf t -> view cf t (run cf sched G) = view cf t (run cf (only t sched) G).
Proof. intros. apply noninterference_gen; auto. Qed.

(* every prefix: the whole sequence of observables of t is that of the solo run *)
Lemma noninterference_trace : forall cf t sched G n,
  separated cf t ->
  view cf t (run cf (firstn n sched) G) = view cf t (run cf (only t (firstn n sched)) G).
Proof. intros. apply noninterference; auto. Qed.

(* ------------------------------------------------------------------ *)
(* 3. Every operation is defined on a namespace that did not exist.     *)

Definition ns_ok (n : tns) : Prop :=
  match n_tr n with None => True | Some r => r_iters r <> None /\ r_tol r <> None end.

Lemma raw_of_ok : forall n st, ns_ok (with_tr n (raw_of st)).
Proof. intros; cbn; split; discriminate. Qed.

Lemma the_ns_assemble : forall n k, ns_ok n -> exists st, assemble k (the_ns n) = Some st.
Proof.
  intros n k H. unfold ns_ok, the_ns in *. destruct (n_tr n) as [r|].
  - destruct H as [Hi Ht]. unfold assemble. destruct (r_iters r); [|congruence]. destruct (r_tol r); [|congruence].
    eexists; reflexivity.
  - eexists; reflexivity.
Qed.

Lemma the_ns_ok : forall n, ns_ok n -> ns_ok (with_tr n (the_ns n)).
Proof.
  intros n H. unfold ns_ok, the_ns in *. cbn. destruct (n_tr n) as [r|]; auto. cbn. split; discriminate.
Qed.

Lemma settle_phase : forall w t fuel p s, s_phase s <> PMissing -> s_phase (settle w t fuel p s) <> PMissing.
Proof.
  intros w t fuel; induction fuel as [|f IH]; intros p s H; cbn [settle].
  - cbn. discriminate.
  - destruct p as [v|]; destruct (s_stack s) as [|[c a rest acc] stk].
    + destruct (done (s_st s)); cbn; discriminate.
    + apply IH. exact H.
    + exact H.
    + destruct rest as [|[a' j|a' r] rest].
      * apply IH. exact H.
      * cbn. discriminate.
      * cbn. discriminate.
Qed.

Lemma enter_phase : forall w t j s, s_phase s <> PMissing -> s_phase (enter w t j s) <> PMissing.
Proof.
  intros w t j s H. unfold enter.
  destruct (negb (built (getc (s_st s) j))); [cbn; discriminate|].
  destruct (needs_calc (s_st s) j).
  - destruct (formula (spec w j)) as [[b ts]|]; apply settle_phase; exact H.
  - apply settle_phase; exact H.
Qed.

Lemma tstep_defined : forall w m n k,
  ns_ok n -> m_phase m <> PMissing ->
  ns_ok (snd (fst (tstep w m n k))) /\ m_phase (fst (fst (tstep w m n k))) <> PMissing.
Proof.
  intros w m n k Hn Hm. unfold tstep.
  destruct (m_phase m) eqn:Ep; try (cbn; split; [exact Hn|rewrite Ep; discriminate]).
  - destruct (m_kind m) as [t it tolv|c v|seed].
    + cbn [assemble r_iters r_tol].
      match goal with |- context [inc_iteration ?s] => set (st1 := inc_iteration s) end.
      destruct (if built (getc st1 t) then Ok st1 else gen_graph w t st1) as [st2|e]; cbn;
        (split; [split; discriminate|discriminate]).
    + destruct (negb (built (nth c (k_cells k) cell0))); [cbn; split; [exact Hn|discriminate]|].
      destruct (val_eqb _ v); [cbn; split; [exact Hn|discriminate]|].
      destruct (the_ns_assemble n k Hn) as [st Es]. rewrite Es. cbn. split; [split; discriminate|discriminate].
    + destruct (the_ns_assemble n k Hn) as [st Es]. rewrite Es.
      destruct (gen_graph w seed st) as [st1|e]; cbn [fst snd fail m_phase].
      * split; [apply raw_of_ok|discriminate].
      * split; [apply the_ns_ok; exact Hn|discriminate].
  - destruct (the_ns_assemble n k Hn) as [st Es]. rewrite Es. cbn [fst snd m_phase].
    split; [cbn; split; discriminate|].
    apply enter_phase. cbn. discriminate.
  - congruence.
Qed.

Definition all_defined (G : glob) : Prop :=
  (forall i, ns_ok (g_ns G i)) /\ (forall t, m_phase (g_m G t) <> PMissing).

Lemma gstep_defined : forall cf G t, all_defined G -> all_defined (gstep cf G t).
Proof.
  intros cf G t [Hn Hm]. unfold gstep.
  pose proof (tstep_defined (c_wb cf t) (g_m G t) (g_ns G (c_ns cf t)) (g_k G (c_comp cf t))
                            (Hn _) (Hm _)) as [H1 H2].
  destruct (tstep (c_wb cf t) (g_m G t) (g_ns G (c_ns cf t)) (g_k G (c_comp cf t))) as [[m n] k].
  cbn [fst snd] in H1, H2. split; cbn [g_ns g_m]; intros i; unfold fupd; destruct (Nat.eqb i _); auto.
Qed.

Lemma run_defined : forall cf sched G, all_defined G -> all_defined (run cf sched G).
Proof.
  intros cf sched; induction sched as [|t sched IH]; intros G H; cbn [run fold_left]; auto.
  apply IH. apply gstep_defined. exact H.
Qed.

(* a process whose threads have never used the library *)
Definition fresh_process (kinds : nat -> kind) (comps : nat -> comp) : glob :=
  {| g_m := fun t => start (kinds t); g_ns := fun _ => absent; g_k := comps |}.

Lemma fresh : forall cf kinds comps sched t,
  m_phase (g_m (run cf sched (fresh_process kinds comps)) t) <> PMissing.
Proof.
  intros cf kinds comps sched t.
  apply (run_defined cf sched (fresh_process kinds comps)).
  split; intros; cbn; auto. discriminate.
Qed.

(* non-vacuity: with the namespace the previous initialiser created (three
   attributes) a set_value on an iterative compiler did read a missing attribute *)
Definition three_fields : rawns :=
  {| r_todo := []; r_computed := []; r_itn := 0; r_iters := None; r_tol := None |}.
Example set_value_needed_tolerance :
  let k := {| k_cells := [{| built := true; value := Some 1%Q; prev := None; wip := false |}]; k_rngs := [] |} in
  m_phase (fst (fst (tstep {| w_cells := [spec0]; w_ranges := [] |} (start (KSet 0 (Some 2%Q)))
                           {| n_tr := Some three_fields; n_ctx := None |} k))) = PMissing.
Proof. vm_compute. reflexivity. Qed.

(* ------------------------------------------------------------------ *)
(* 4. With ONE namespace for all threads the statement is false.        *)

Definition selfcell (b a : Q) (s : Q) : cellspec :=
  {| stored := Some s; formula := Some (b, [TCell a 0%nat]) |}.
Definition wbA : wbook := {| w_cells := [selfcell 1 (1 # 2) 0]; w_ranges := [] |}.
Definition shared_cf : config :=
  {| c_wb := fun _ => wbA; c_comp := fun t => t; c_ns := fun _ => 0%nat |}.
Definition local_cf : config :=
  {| c_wb := fun _ => wbA; c_comp := fun t => t; c_ns := fun t => t |}.
Definition two_kinds (t : nat) : kind :=
  match t with 0%nat => KEval 0 100 (1 # 1024) | _ => KEval 0 1 1 end.
Definition G2 : glob := fresh_process two_kinds (fun _ => init_comp wbA).
(* thread 1 starts (its tracker(1, 1) call) between the start of thread 0 and its first pass *)
Definition sched2 : list nat := [0; 1; 0; 0; 0; 0; 0; 0; 0; 0; 0; 0; 0; 0; 0; 0; 0; 0; 0; 0; 0; 0; 0; 0; 0; 0; 0; 0]%nat.

Definition outcome (cf : config) (t : nat) (sched : list nat) : phase * Z :=
  let m := g_m (run cf sched G2) t in (m_phase m, m_passes m).
