(* Proofs/C18Places.v — C18, what [padded] (the closed form of C18_places_bin, _oct, _hex)
   says: places too small -> #NUM!; otherwise exactly [places] characters, the
   digits of the (two's-complement wrapped) number preceded by zeros only. *)
From Coq Require Import ZArith List Lia.
From PV Require Import Lib.Py Proofs.Radix Proofs.C18.
From PV Require Gen.excelutil.
Import ListNotations.
Open Scope Z_scope.

Lemma padded_too_small b m n p : p < zlen (udigits b (wrap m n)) ->
  padded b m n p = excelutil.c_NUM_ERROR.
Proof.
  intros H. unfold padded. cbv zeta.
  replace (p <? zlen (udigits b (wrap m n))) with true by (symmetry; apply Z.ltb_lt; exact H).
  reflexivity.
Qed.

Lemma padded_fits b m n p : zlen (udigits b (wrap m n)) <= p ->
  exists z, padded b m n p = VStr (z ++ udigits b (wrap m n))
            /\ Forall (fun c => c = 48) z
            /\ zlen (z ++ udigits b (wrap m n)) = p.
Proof.
  intros H. unfold padded. cbv zeta.
  replace (p <? zlen (udigits b (wrap m n))) with false by (symmetry; apply Z.ltb_ge; exact H).
  exists (repeat 48 (Z.to_nat (p - zlen (udigits b (wrap m n))))). split; [reflexivity|]. split.
  - apply Forall_forall. intros c Hc. now apply repeat_spec in Hc.
  - unfold zlen in *. rewrite app_length, repeat_length. lia.
Qed.
