(* Proofs/C01Inv.v — C01, part 4: the invariant of the lazy cache machine and
   its preservation by build (_gen_graph), evaluate and set_value. *)
From Coq Require Import List Arith Bool Lia.
From PV Require Import Lib.Py Model.Graph Proofs.C01Base Proofs.C01Reset Proofs.C01Eval.
Import ListNotations.

Section Inv.
  Variable W : workbook.
  Variable sem : nat -> list pyval -> pyval.
  Hypothesis WF : wf W.
  Hypothesis NB : sem_nonblank W sem.

  Notation N := (wb_n W).
  Notation deps := (wb_deps W).
  Notation isinput := (wb_input W).
  Notation isrange := (wb_range W).
  Notation stored := (wb_stored W).
  Notation spec := (spec W sem).
  Notation eval := (eval W sem).
  Notation anc := (anc W).

  (* the value a node holds — or, for a formula cell that is not built yet,
     the value it will start from when it is built (its stored result; a range
     node starts empty) *)
  Definition vc (s : state) (n : nat) : pyval :=
    if st_built s n || isinput n then st_cache s n
    else if isrange n then VNone else stored n.

  (* stored results: valid for the workbook's own inputs where present, and a
     cell with a stored result has stored results for the formula cells it reads *)
  Definition stored_ok : Prop :=
    (forall n, n < N -> isinput n = false -> isrange n = false -> stored n <> VNone ->
               stored n = spec (wb_inp0 W) n)
    /\ (forall p d, d < N -> In p (deps d) -> isinput p = false -> isrange p = false ->
                    stored p = VNone -> isrange d = false -> stored d = VNone).

  Record Inv (s : state) : Prop := {
    (* I3: only nodes of the workbook are built; the built set is closed under precedents *)
    inv_lt : forall n, st_built s n = true -> n < N;
    inv_deps : forall n d, st_built s n = true -> In d (deps n) -> st_built s d = true;
    (* I4: the cache entry of a node that is not built is the initial one *)
    inv_unbuilt : forall n, st_built s n = false ->
                    st_cache s n = if isinput n then wb_inp0 W n else VNone;
    (* I1 coherence: a cached value (and the stored result of a cell not built
       yet) is the from-scratch value under the current inputs *)
    inv_coh : forall n, n < N -> isinput n = false -> vc s n <> VNone ->
                vc s n = spec (st_cache s) n;
    (* I2 closure: the dependants of an empty built formula/range node are empty
       (a dependant not built yet has no stored result) *)
    inv_clo : forall p d, d < N -> In p (deps d) -> st_built s p = true -> isinput p = false ->
                st_cache s p = VNone -> vc s d = VNone
  }.

  Lemma vc_built s n : st_built s n = true -> vc s n = st_cache s n.
  Proof. unfold vc. intros ->. reflexivity. Qed.
  Lemma vc_input s n : isinput n = true -> vc s n = st_cache s n.
  Proof. unfold vc. intros ->. rewrite orb_true_r. reflexivity. Qed.
  Lemma vc_unbuilt s n : st_built s n = false -> isinput n = false ->
    vc s n = if isrange n then VNone else stored n.
  Proof. unfold vc. intros -> ->. reflexivity. Qed.

  (* the task's wording of I1 and I2 *)
  Lemma Inv_I1 s : Inv s -> forall n, st_built s n = true -> isinput n = false ->
    st_cache s n <> VNone -> st_cache s n = spec (st_cache s) n.
  Proof.
    intros I n B In H. rewrite <- (vc_built s n B) at 1. apply (inv_coh s I).
    - now apply (inv_lt s I). - auto. - now rewrite vc_built.
  Qed.
  Lemma Inv_I2 s : Inv s -> forall p d, st_built s p = true -> isinput p = false ->
    st_cache s p = VNone -> st_built s d = true -> In p (deps d) -> st_cache s d = VNone.
  Proof.
    intros I p d Bp Ip Hp Bd Hd. rewrite <- (vc_built s d Bd).
    apply (inv_clo s I p d); auto. now apply (inv_lt s I).
  Qed.

  Lemma Inv_coherent s : Inv s -> Coherent W sem (st_cache s).
  Proof.
    intros I m L Im H. destruct (st_built s m) eqn:B.
    - now apply Inv_I1.
    - rewrite (inv_unbuilt s I m B), Im in H. congruence.
  Qed.

  Lemma anc_closed (b : nat -> bool) :
    (forall n d, b n = true -> In d (deps n) -> b d = true) ->
    forall k n, anc k n -> b n = true -> b k = true.
  Proof. intros BD k n A. induction A; intros B; eauto. Qed.

  (* ---------------------------------------------------------------- init *)
  Lemma Inv_init : stored_ok -> Inv (init W).
  Proof.
    intros [S1 S2]. split; unfold vc, init; cbn [st_cache st_built]; try discriminate; auto.
    intros n L I. rewrite I. cbn [orb]. destruct (isrange n) eqn:R; [congruence|].
    intros H. rewrite (S1 n L I R H). apply spec_ext; auto. intros m _ ->. reflexivity.
  Qed.

  (* -------------------------------------------------------------- closure *)
  Notation closure := (closure W).
  Lemma closure_unfold f b n : closure (S f) b n =
    if b n then b
    else fold_left (fun b d => closure f b d) (deps n)
                   (fun m => if Nat.eqb m n then true else b m).
  Proof. reflexivity. Qed.

  Definition clos_ok (f : nat) := forall n b, n < f -> n < N ->
    (forall m, b m = true -> closure f b n m = true) /\ closure f b n n = true /\
    (forall m, closure f b n m = true ->
       b m = true \/ (m <= n /\ forall d, In d (deps m) -> closure f b n d = true)).

  Lemma cfold f n : clos_ok f ->
    forall l, (forall d, In d l -> d < f /\ d < N /\ d < n) ->
    forall b1, let b2 := fold_left (fun b d => closure f b d) l b1 in
      (forall m, b1 m = true -> b2 m = true) /\ (forall d, In d l -> b2 d = true) /\
      (forall m, b2 m = true -> b1 m = true \/ (m < n /\ forall d, In d (deps m) -> b2 d = true)).
  Proof.
    intros IH. induction l as [|d l IHl]; intros Hl b1; cbn [fold_left].
    - cbn. repeat split; auto; try (intros ? []).
    - destruct (Hl d ltac:(left; auto)) as (L1 & L2 & L3).
      destruct (IH d b1 L1 L2) as (A1 & A2 & A3).
      destruct (IHl ltac:(intros; apply Hl; right; auto) (closure f b1 d)) as (B1 & B2 & B3).
      cbn zeta in *. repeat split; auto.
      + intros x [->|Hx]; auto.
      + intros m Hm. destruct (B3 m Hm) as [Hm'|Hm']; auto.
        destruct (A3 m Hm') as [Hm''|[Le Hd]]; auto.
        right. split; [lia|]. intros; apply B1; auto.
  Qed.

  Lemma closure_ok : forall f, clos_ok f.
  Proof.
    induction f as [|f IH]; intros n b Lf L; [lia|]. rewrite closure_unfold.
    destruct (b n) eqn:Bn; [repeat split; auto|].
    set (b0 := fun m => if Nat.eqb m n then true else b m).
    destruct (cfold f n IH (deps n)
                ltac:(intros d Hd; pose proof (deps_lt W WF _ _ L Hd); lia) b0) as (A1 & A2 & A3).
    cbn zeta in *. repeat split.
    - intros m Hm. apply A1. unfold b0. destruct (Nat.eqb m n); auto.
    - apply A1. unfold b0. now rewrite Nat.eqb_refl.
    - intros m Hm. destruct (A3 m Hm) as [Hm'|[Lt Hd]].
      + unfold b0 in Hm'. destruct (Nat.eqb_spec m n) as [->|NE]; auto.
      + right. split; [lia|auto].
  Qed.

  Lemma closure_props b n : n < N ->
    (forall m, b m = true -> m < N) ->
    (forall m d, b m = true -> In d (deps m) -> b d = true) ->
    let b' := closure (S N) b n in
    (forall m, b m = true -> b' m = true) /\ b' n = true /\
    (forall m, b' m = true -> m < N) /\
    (forall m d, b' m = true -> In d (deps m) -> b' d = true).
  Proof.
    intros L BL BD. destruct (closure_ok (S N) n b ltac:(lia) L) as (A1 & A2 & A3).
    cbn zeta. repeat split; auto.
    - intros m Hm. destruct (A3 m Hm) as [H|[H _]]; auto. lia.
    - intros m d Hm Hd. destruct (A3 m Hm) as [H|[_ H]]; eauto.
  Qed.

  (* ---------------------------------------------------------------- build *)
  Definition fresh (s : state) (b' : nat -> bool) (m : nat) : bool := b' m && negb (st_built s m).
  Definition build_c1 (s : state) (b' : nat -> bool) : cache := fun m =>
    if fresh s b' m && negb (isinput m)
    then (if isrange m then VNone else stored m)
    else st_cache s m.
  Definition bstep (s : state) (b' : nat -> bool) (c : cache) (m : nat) : cache :=
    if fresh s b' m && isrange m then fst (eval (S N) c m) else c.

  Lemma build_unfold s n :
    build W sem s n =
    let b' := closure (S N) (st_built s) n in
    {| st_cache := fold_left (bstep s b') (seq 0 N) (build_c1 s b'); st_built := b' |}.
  Proof. reflexivity. Qed.

  Lemma bfold s b' :
    (forall m, b' m = true -> m < N) ->
    (forall m d, b' m = true -> In d (deps m) -> b' d = true) ->
    forall l c, Coherent W sem c ->
      ext W sem (fun m => b' m = true) c (fold_left (bstep s b') l c) /\
      (forall m, In m l -> fresh s b' m && isrange m = true ->
                 fold_left (bstep s b') l c m <> VNone).
  Proof.
    intros BL BD. induction l as [|m l IHl]; intros c K; cbn [fold_left].
    - split; [apply ext_refl|intros ? []].
    - assert (St: ext W sem (fun m => b' m = true) c (bstep s b' c m) /\
                  (fresh s b' m && isrange m = true -> bstep s b' c m m <> VNone)).
      { unfold bstep. destruct (fresh s b' m && isrange m) eqn:C.
        - apply andb_prop in C. destruct C as [Fm Rm]. unfold fresh in Fm.
          apply andb_prop in Fm. destruct Fm as [Bm _].
          pose proof (BL m Bm) as Lm.
          destruct (eval_top W sem WF NB c m Lm K) as (E & _ & F). split.
          + eapply ext_weaken; [|exact E]. intros k [->|A]; auto.
            eapply anc_closed; eauto.
          + intros _. apply F. now apply (range_noninput W WF).
        - split; [apply ext_refl|discriminate]. }
      destruct St as [E1 F1].
      destruct (IHl (bstep s b' c m) ltac:(eapply ext_coherent; eauto)) as [E2 F2].
      split; [eapply ext_trans; eauto|].
      intros x [->|Hx] C; [|apply F2; auto]. eapply ext_keeps; eauto.
  Qed.

  Lemma build_c1_input s b' k : isinput k = true -> build_c1 s b' k = st_cache s k.
  Proof. unfold build_c1. intros ->. now rewrite andb_false_r. Qed.

  Lemma build_c1_spec s b' m : m < N -> spec (build_c1 s b') m = spec (st_cache s) m.
  Proof. intros L. apply spec_ext; auto. intros x _ Ix. now apply build_c1_input. Qed.

  Lemma build_c1_coherent s b' : Inv s -> Coherent W sem (build_c1 s b').
  Proof.
    intros I m Lm Im H. rewrite build_c1_spec by auto. unfold build_c1 in *.
    rewrite Im in *. rewrite andb_true_r in *. destruct (fresh s b' m) eqn:Fm.
    - destruct (isrange m) eqn:Rm; [congruence|].
      unfold fresh in Fm. apply andb_prop in Fm. destruct Fm as [_ Bm].
      apply negb_true_iff in Bm. rewrite <- (inv_coh s I m Lm Im); rewrite vc_unbuilt, Rm; auto.
    - now apply (Inv_coherent s I).
  Qed.

  Lemma build_inputs s n : Inv s -> n < N ->
    forall k, isinput k = true -> st_cache (build W sem s n) k = st_cache s k.
  Proof.
    intros I L k Ik. rewrite build_unfold. cbn zeta. cbn [st_cache].
    set (b' := closure (S N) (st_built s) n).
    destruct (closure_props (st_built s) n L (inv_lt s I) (inv_deps s I)) as (C1 & C2 & C3 & C4).
    fold b' in C1, C2, C3, C4.
    destruct (bfold s b' C3 C4 (seq 0 N) (build_c1 s b') (build_c1_coherent s b' I)) as [E _].
    rewrite (ext_inputs W sem _ _ _ E k Ik). now apply build_c1_input.
  Qed.

  Lemma build_built s n : Inv s -> n < N -> st_built (build W sem s n) n = true.
  Proof.
    intros I L. rewrite build_unfold. cbn zeta. cbn [st_built].
    apply (closure_props (st_built s) n L (inv_lt s I) (inv_deps s I)).
  Qed.

  Lemma build_inv s n : stored_ok -> Inv s -> n < N -> Inv (build W sem s n).
  Proof.
    intros [S1 S2] I L. rewrite build_unfold. cbn zeta.
    set (b' := closure (S N) (st_built s) n).
    destruct (closure_props (st_built s) n L (inv_lt s I) (inv_deps s I)) as (C1 & C2 & C3 & C4).
    fold b' in C1, C2, C3, C4.
    set (c1 := build_c1 s b').
    pose proof (build_c1_coherent s b' I) as K1. fold c1 in K1.
    destruct (bfold s b' C3 C4 (seq 0 N) c1 K1) as [E F].
    set (c2 := fold_left (bstep s b') (seq 0 N) c1) in *.
    assert (Unb: forall m, b' m = false -> st_built s m = false).
    { intros m Hm. destruct (st_built s m) eqn:B; auto. rewrite (C1 m B) in Hm. discriminate. }
    assert (NotFresh: forall m, fresh s b' m = false -> c1 m = st_cache s m).
    { intros m Hm. unfold c1, build_c1. now rewrite Hm. }
    assert (Sp: forall m, m < N -> spec c2 m = spec (st_cache s) m).
    { intros m Lm. rewrite (ext_spec W sem WF _ _ _ m E Lm). now apply build_c1_spec. }
    (* a fresh range node has been evaluated *)
    assert (FR: forall m, fresh s b' m = true -> isrange m = true -> c2 m <> VNone).
    { intros m Fm Rm. apply F; [|now rewrite Fm, Rm].
      apply in_seq. unfold fresh in Fm. apply andb_prop in Fm. destruct Fm as [Bm _].
      pose proof (C3 m Bm). lia. }
    split; cbn [st_cache st_built].
    - exact C3.
    - exact C4.
    - intros m Bm. pose proof (Unb m Bm) as Bm'.
      destruct (ext_region W sem _ _ _ m E) as [H|H]; [|congruence].
      rewrite H. rewrite NotFresh by (unfold fresh; now rewrite Bm).
      now apply (inv_unbuilt s I).
    - intros m Lm Im. unfold vc. cbn [st_cache st_built]. rewrite Im, orb_false_r.
      destruct (b' m) eqn:Bm.
      + intros H. apply (ext_coherent W sem WF _ c1 c2 K1 E m Lm Im H).
      + intros H. rewrite Sp by auto. pose proof (Unb m Bm) as Bm'.
        rewrite <- (inv_coh s I m Lm Im); rewrite vc_unbuilt; auto.
    - intros p d Ld Hd Bp Ip Hp.
      assert (Id: isinput d = false) by (eapply dep_noninput; eauto).
      assert (Hp1: c1 p = VNone) by (eapply ext_none; eauto).
      (* an empty fresh precedent is a formula cell without stored result *)
      assert (PF: st_built s p = false -> isrange p = false /\ stored p = VNone).
      { intros Bp'. assert (Fp: fresh s b' p = true) by (unfold fresh; now rewrite Bp, Bp').
        destruct (isrange p) eqn:Rp; [exfalso; now apply (FR p Fp)|]. split; auto.
        unfold c1, build_c1 in Hp1. now rewrite Fp, Ip, Rp in Hp1. }
      (* what the old state says about d *)
      assert (Old: st_built s p = true -> vc s d = VNone).
      { intros Bp'. apply (inv_clo s I p d); auto.
        rewrite <- NotFresh; auto. unfold fresh. now rewrite Bp', andb_false_r. }
      unfold vc. cbn [st_cache st_built]. rewrite Id, orb_false_r.
      destruct (b' d) eqn:Bd.
      + destruct (E d) as [H|(_&_&_&_&_&_&Fd)]; [|exfalso; now apply (Fd p Hd Ip)].
        rewrite H.
        destruct (st_built s d) eqn:Bd'.
        * rewrite NotFresh by (unfold fresh; now rewrite Bd', andb_false_r).
          rewrite <- (vc_built s d Bd'). apply Old. eapply (inv_deps s I); eauto.
        * assert (Fd: fresh s b' d = true) by (unfold fresh; now rewrite Bd, Bd').
          unfold c1, build_c1. rewrite Fd, Id. cbn [negb andb].
          destruct (isrange d) eqn:Rd; auto.
          destruct (st_built s p) eqn:Bp'.
          -- specialize (Old eq_refl). now rewrite vc_unbuilt, Rd in Old.
          -- destruct (PF eq_refl) as [Rp Sp']. eapply S2; eauto.
      + pose proof (Unb d Bd) as Bd'. destruct (isrange d) eqn:Rd; auto.
        destruct (st_built s p) eqn:Bp'.
        * specialize (Old eq_refl). now rewrite vc_unbuilt, Rd in Old.
        * destruct (PF eq_refl) as [Rp Sp']. eapply S2; eauto.
  Qed.

  (* ------------------------------------------------------------- evaluate *)
  Lemma eval_inv s n : Inv s -> st_built s n = true ->
    Inv {| st_cache := fst (eval (S N) (st_cache s) n); st_built := st_built s |}
    /\ snd (eval (S N) (st_cache s) n) = spec (st_cache s) n
    /\ (forall k, isinput k = true -> fst (eval (S N) (st_cache s) n) k = st_cache s k).
  Proof.
    intros I Bn. pose proof (inv_lt s I n Bn) as L.
    destruct (eval_top W sem WF NB (st_cache s) n L (Inv_coherent s I)) as (E0 & V & _).
    set (c' := fst (eval (S N) (st_cache s) n)) in *.
    assert (E: ext W sem (fun m => st_built s m = true) (st_cache s) c').
    { eapply ext_weaken; [|exact E0]. intros k [->|A]; auto.
      eapply anc_closed; eauto. apply (inv_deps s I). }
    split; [|split; [exact V|intros k Ik; eapply ext_inputs; eauto]].
    split; cbn [st_cache st_built].
    - apply (inv_lt s I).
    - apply (inv_deps s I).
    - intros m Bm. destruct (ext_region W sem _ _ _ m E) as [H|H]; [|congruence].
      rewrite H. now apply (inv_unbuilt s I).
    - intros m Lm Im. unfold vc. cbn [st_cache st_built]. rewrite Im, orb_false_r.
      destruct (st_built s m) eqn:Bm.
      + intros H. apply (ext_coherent W sem WF _ _ c' (Inv_coherent s I) E m Lm Im H).
      + intros H. rewrite (ext_spec W sem WF _ _ _ m E Lm).
        rewrite <- (inv_coh s I m Lm Im); rewrite vc_unbuilt; auto.
    - intros p d Ld Hd Bp Ip Hp.
      assert (Id: isinput d = false) by (eapply dep_noninput; eauto).
      assert (Hp0: st_cache s p = VNone) by (eapply ext_none; eauto).
      pose proof (inv_clo s I p d Ld Hd Bp Ip Hp0) as Old.
      unfold vc in *. cbn [st_cache st_built]. rewrite Id, orb_false_r in *.
      destruct (st_built s d) eqn:Bd; auto.
      destruct (E d) as [H|(_&_&_&_&_&_&Fd)]; [congruence|exfalso; now apply (Fd p Hd Ip)].
  Qed.

  Lemma evaluate_unfold s n : evaluate W sem s n =
    ({| st_cache := fst (eval (S N) (st_cache (build W sem s n)) n);
        st_built := st_built (build W sem s n) |},
     snd (eval (S N) (st_cache (build W sem s n)) n)).
  Proof. unfold evaluate. destruct (eval (S N) (st_cache (build W sem s n)) n); reflexivity. Qed.

  Lemma evaluate_inv s n : stored_ok -> Inv s -> n < N ->
    Inv (fst (evaluate W sem s n))
    /\ snd (evaluate W sem s n) = spec (st_cache s) n
    /\ (forall k, isinput k = true -> st_cache (fst (evaluate W sem s n)) k = st_cache s k).
  Proof.
    intros SO I L. rewrite evaluate_unfold. cbn [fst snd].
    pose proof (build_inv s n SO I L) as I1.
    destruct (eval_inv (build W sem s n) n I1 (build_built s n I L)) as (I2 & V & Inp).
    split; [exact I2|]. split.
    - rewrite V. apply spec_ext; auto. intros m _ Im. now apply build_inputs.
    - intros k Ik. cbn [st_cache]. rewrite Inp by auto. now apply build_inputs.
  Qed.

  (* ------------------------------------------------------------ set_value *)
  (* the build-order side condition (c): a descendant of the written cell that
     is not built yet has no stored result *)
  Definition late_ok (s : state) (a : nat) : Prop :=
    forall d, d < N -> anc a d -> st_built s d = false -> isrange d = true \/ stored d = VNone.

  Lemma set_value_unfold s a v : set_value W s a v =
    if negb (st_built s a) then s
    else if py_eq (st_cache s a) v && same_type (st_cache s a) v then s
    else {| st_cache := upd (reset_forced W (st_built s) a (upd (st_cache s) a v)) a v;
            st_built := st_built s |}.
  Proof. reflexivity. Qed.

  Lemma write_inv s a v : Inv s -> st_built s a = true -> isinput a = true -> late_ok s a ->
    let s' := {| st_cache := upd (reset_forced W (st_built s) a (upd (st_cache s) a v)) a v;
                 st_built := st_built s |} in
    Inv s' /\ st_cache s' a = v
    /\ (forall k, k < N -> isinput k = true -> k <> a -> st_cache s' k = st_cache s k).
  Proof.
    intros I Ba Ia Late. pose proof (inv_lt s I a Ba) as La.
    set (b := st_built s). set (c1 := upd (st_cache s) a v).
    set (c2 := reset_forced W b a c1). cbn zeta.
    destruct (forced_props W b WF a c1 La) as (M & Na & V & D). fold c2 in M, Na, V, D.
    pose proof (forced_desc W b a c1) as Desc. fold c2 in Desc.
    assert (C1: forall m, m <> a -> c1 m = st_cache s m) by (intros; unfold c1; now apply upd_other).
    assert (NI: forall m, isinput m = false -> m <> a) by (intros m Hm ->; congruence).
    assert (K1: Closed W b c1).
    { intros p Lp Ip Hp d Hd. apply succs_spec in Hd. destruct Hd as (Ld & Bd & Hd).
      assert (Id: isinput d = false) by (eapply dep_noninput; eauto).
      rewrite C1 in * by auto. rewrite <- (vc_built s d Bd).
      apply (inv_clo s I p d); auto. eapply (inv_deps s I); eauto. }
    destruct (forced_closed W b WF a c1 La K1) as [K2 Ka]. fold c2 in K2, Ka.
    pose proof (closed_desc W b WF c2 a (inv_deps s I) K2 Ka Na) as DescNone.
    (* inputs other than a keep their value *)
    assert (Inp: forall k, k < N -> isinput k = true -> k <> a -> c2 k = st_cache s k).
    { intros k Lk Ik Ka'. destruct (Desc k) as [H|[H|H]]; [rewrite H; auto|congruence|].
      destruct H as (H2&_&_). rewrite (anc_noninput W WF _ _ Lk H2) in Ik. discriminate. }
    assert (Sp: forall n, n < N -> n <> a -> ~ anc a n ->
                  spec (upd c2 a v) n = spec (st_cache s) n).
    { intros n Ln Hn NA. apply (spec_indep W sem WF _ _ a n Ln); auto.
      intros m Lm Im Hm. rewrite upd_other by auto. auto. }
    split; [|split; [cbn [st_cache]; apply upd_same|
                     intros k Lk Ik Hk; cbn [st_cache]; rewrite upd_other by auto; auto]].
    split; cbn [st_cache st_built]; fold b.
    - apply (inv_lt s I).
    - apply (inv_deps s I).
    - intros n Bn. assert (Hna: n <> a) by (intros ->; unfold b in Bn; congruence).
      rewrite upd_other by auto. pose proof (inv_unbuilt s I n Bn) as U.
      destruct (Desc n) as [H|[H|(_&_&H)]]; [rewrite H, C1; auto|congruence|].
      congruence.
    - intros n Ln In. unfold vc. cbn [st_cache st_built]. fold b. rewrite In, orb_false_r.
      pose proof (NI n In) as Hn. rewrite upd_other by auto.
      destruct (b n) eqn:Bn.
      + intros H. rewrite (mono_some c1 c2 n M H), C1 by auto.
        assert (NA: ~ anc a n) by (intros A; apply H; apply DescNone; auto).
        rewrite Sp by auto. apply (Inv_I1 s I n Bn In).
        rewrite <- C1 by auto. rewrite <- (mono_some c1 c2 n M H). auto.
      + intros H. assert (NA: ~ anc a n).
        { intros A. destruct (Late n Ln A Bn) as [R|R]; rewrite R in H; try congruence.
          destruct (isrange n); congruence. }
        rewrite Sp by auto. rewrite <- (inv_coh s I n Ln In); rewrite vc_unbuilt; auto.
    - intros p d Ld Hd Bp Ip Hp.
      assert (Id: isinput d = false) by (eapply dep_noninput; eauto).
      pose proof (NI p Ip) as Hpa. pose proof (NI d Id) as Hda.
      rewrite upd_other in Hp by auto.
      unfold vc. cbn [st_cache st_built]. fold b. rewrite Id, orb_false_r.
      rewrite upd_other by auto.
      destruct (is_none (st_cache s p)) eqn:E0.
      + apply is_none_true in E0. pose proof (inv_clo s I p d Ld Hd Bp Ip E0) as Old.
        unfold vc in Old. fold b in Old. rewrite Id, orb_false_r in Old.
        destruct (b d); auto. apply (mono_none c1 c2 d M). rewrite C1; auto.
      + apply is_none_false in E0. rewrite <- C1 in E0 by auto.
        destruct (b d) eqn:Bd.
        * apply (V p E0 Hp Hpa Hp). apply succs_spec; auto.
        * destruct (Desc p) as [H|[H|(H&_&_)]]; [congruence|congruence|].
          assert (A: anc a d) by (eapply anc_trans; eauto).
          destruct (Late d Ld A Bd) as [R|R]; rewrite R; auto.
          destruct (isrange d); auto.
  Qed.
End Inv.
