(* Proofs/C08.v — C08, trim_graph preserves the outputs as a function of the
   inputs.  Model: Model/Trim.v on the machine of Model/Graph.v.  Helper files:
   C08Walk (the two graph walks), C08Run (coherence of the machine after a
   trim), C08Trim (what the trim establishes).

   frozen_independent   a frozen cell is not below any input; its from-scratch
                        value does not depend on the inputs
   trimmed_coherent     after the trim, any interleaving of set_value on the
                        inputs and evaluate on the outputs returns the
                        from-scratch values OF THE TRIMMED WORKBOOK (inputs may
                        be "buried": formula cells the trim froze)
   preserve             inputs that are input cells: those values are the
                        from-scratch values of the ORIGINAL workbook, and what
                        the untrimmed machine returns for the same history  *)
From Coq Require Import List Arith Bool Lia ZArith.
From PV Require Import Lib.Py Model.Graph Model.Trim.
From PV Require Import Proofs.C01Base Proofs.C01Reset Proofs.C01Eval Proofs.C01Inv Proofs.C01
                       Proofs.C05 Proofs.C08Walk Proofs.C08Run Proofs.C08Trim.
Import ListNotations.
Local Open Scope nat_scope.

(* the histories of the property: writes to the inputs, evaluations of the outputs *)
Definition io_op (I O : list nat) (o : gop) : Prop :=
  match o with
  | SetValue a v => In a I /\ scalar_exact v = true
  | Evaluate n => In n O
  | Build _ => False
  end.

Section C08.
  Variable W : workbook.
  Variable sem : nat -> list pyval -> pyval.
  Hypothesis WF : wf W.
  Hypothesis NB : sem_nonblank W sem.
  Hypothesis SO : stored_ok W sem.

  Notation N := (wb_n W).
  Notation deps := (wb_deps W).
  Notation isinput := (wb_input W).
  Notation spec := (spec W sem).
  Notation anc := (anc W).

  Variable I O : list nat.
  Variable s : state.
  Hypothesis INV : Inv W sem s.
  Hypothesis OL : forall o, In o O -> o < N.

  Notation T := (trim W sem I O s).
  Notation V := (C08Trim.VV W sem I O s).
  Notation t := (C08Trim.tt W sem I O s).
  Notation s0 := (build_all W sem O s).
  Notation st3 := (C08Trim.st3 W sem I O s).
  Notation lv := (C08Trim.lv W sem I O s).
  Notation KK := (C08Trim.KK W sem I O s).
  Notation g3 := (C08Trim.g3 W sem WF NB SO I O s INV OL).

  (* ------------------------------------------------ C08_frozen_independent *)
  Theorem frozen_independent f : tr_frz T f = true ->
    (forall a, In a I -> ~ anc a f) /\
    (~ In f I -> forall inp inp', (forall m, ~ In m I -> inp m = inp' m) ->
                 spec inp f = spec inp' f).
  Proof.
    intros F. assert (NA: forall a, In a I -> ~ anc a f).
    { intros a Ia. apply (frozen_not_below W sem WF NB SO I O s INV OL f a); auto. }
    split; auto. intros Nf inp inp' E.
    assert (L: f < N).
    { apply (lv_lt W sem WF NB SO I O s INV OL). apply (frz_lv W sem WF NB SO I O s INV OL). exact F. }
    apply spec_agree; auto. intros m Im [->|A]; apply E; auto.
    intros Hm. now apply (NA m).
  Qed.

  (* an output survives the trim and is live *)
  Lemma out_live o : In o O -> lv o = true /\ KK o = true.
  Proof.
    intros Ho. split.
    - apply (lv_true W sem WF NB SO I O s INV OL). auto.
    - rewrite (KK_eq W sem WF NB SO I O s INV OL), (bb_out W sem WF NB SO I O s INV OL o Ho). cbn [andb].
      apply (g_need _ _ _ _ _ _ g3). left. apply (nd1_spec W sem WF NB SO I O s INV OL). auto.
  Qed.

  Lemma io_trim_op o : io_op I O o -> trim_op KK lv I o.
  Proof. destruct o; cbn; auto. apply out_live. Qed.

  (* ---------------------------------------------------- trimmed_coherent *)
  Theorem trimmed_coherent :
    (forall a, In a I -> wb_input V a = true /\ st_built t a = true
                         /\ scalar_exact (st_cache t a) = true) ->
    forall h, Forall (io_op I O) h ->
      snd (run V sem t h) = run_spec V sem (st_cache t) h.
  Proof.
    intros HI h F.
    assert (II: forall a, In a I -> wb_input V a = true /\ KK a = true).
    { intros a Ia. destruct (HI a Ia) as (A & B & _). auto. }
    apply (trun V sem (VV_wf W sem WF NB SO I O s INV OL) (VV_nb W sem WF NB SO I O s INV OL) KK lv I
                (KK_lt W sem WF NB SO I O s INV OL) (lv_lt W sem WF NB SO I O s INV OL)
                (lv_deps W sem WF NB SO I O s INV OL) (zk W sem WF NB SO I O s INV OL)
                (II' W sem WF NB SO I O s INV OL II) h t (st_cache t)).
    - apply (tinv0 W sem WF NB SO I O s INV OL II).
    - intros k _ _. reflexivity.
    - intros a Ia. apply HI; auto.
    - eapply Forall_impl; [|exact F]. apply io_trim_op.
  Qed.

  (* ---------------------------------------------------------------- preserve *)
  (* the inputs are input cells that feed the outputs *)
  Hypothesis IN : forall a, In a I -> isinput a = true /\ exists o, In o O /\ anc a o.

  Lemma in_proc a : In a I -> forall x, anc a x -> lv x = true -> pw_proc st3 a = true.
  Proof.
    intros Ia x A. destruct (walk3 W sem WF NB SO I O s INV OL) as (_ & D & C).
    assert (Step: forall y z, anc a z -> In y (deps z) -> lv z = true -> pw_proc st3 y = true).
    { intros y z Az Hy Lz. apply (lv_true W sem WF NB SO I O s INV OL) in Lz. destruct Lz as [Lz|Pz]; [eauto|].
      apply (C z Pz); auto. destruct (pw_frz st3 z) eqn:F; auto. exfalso.
      apply (frozen_not_below W sem WF NB SO I O s INV OL z a F Ia Az). }
    induction A as [a x H|a y x A IH H]; intros Lx.
    - apply (Step a x); auto. now constructor.
    - apply IH; auto. apply (lv_true W sem WF NB SO I O s INV OL). right.
      apply (Step y x); auto. eapply anc_trans; eauto.
  Qed.

  Lemma in_facts a : In a I -> lv a = true /\ KK a = true /\ wb_input V a = true.
  Proof.
    intros Ia. destruct (IN a Ia) as (Ii & o & Ho & A).
    assert (La: lv a = true).
    { apply (lv_true W sem WF NB SO I O s INV OL). right. apply (in_proc a Ia o A). apply out_live; auto. }
    split; auto. split.
    - apply (lv_input_kept W sem WF NB SO I O s INV OL); auto.
    - rewrite (VV_eq W sem WF NB SO I O s INV OL). cbn [cut wb_input]. now rewrite Ii.
  Qed.

  Lemma kept_input_cache k : lv k = true -> isinput k = true -> st_cache t k = st_cache s0 k.
  Proof.
    intros L Ik.
    rewrite (kept_cache W sem WF NB SO I O s INV OL k (lv_input_kept W sem WF NB SO I O s INV OL k L Ik)).
    apply (c3_inputs W sem WF NB SO I O s INV OL); auto.
  Qed.

  (* the from-scratch traces of the trimmed and of the original workbook *)
  Lemma rs_rel : forall h inpV inpW,
    (forall k, lv k = true -> isinput k = true -> inpV k = inpW k) ->
    (forall f, pw_frz st3 f = true -> isinput f = false -> inpV f = spec inpW f) ->
    Forall (io_op I O) h ->
    run_spec V sem inpV h = run_spec W sem inpW h.
  Proof.
    induction h as [|o h IH]; intros inpV inpW R1 R2 F; [reflexivity|].
    inversion F as [|? ? Fo Fh]; subst. cbn [run_spec].
    destruct o as [n|a v|n]; cbn [io_op written] in *; [| |contradiction].
    - f_equal; [|apply IH; auto].
      apply (spec_rel W sem WF NB SO I O s INV OL inpV inpW); auto.
      + intros f Ff. destruct (isinput f) eqn:If; [|auto].
        pose proof (frz_lv W sem WF NB SO I O s INV OL f Ff) as Lf.
        rewrite spec_input; auto. apply (lv_lt W sem WF NB SO I O s INV OL f Lf).
      + apply out_live; auto.
    - f_equal. destruct Fo as [Ia _]. destruct (IN a Ia) as (Ii & _).
      apply IH; auto.
      + intros k Lk Ik. unfold upd. destruct (Nat.eqb k a); auto.
      + intros f Ff If. assert (NE: f <> a) by (intros ->; congruence).
        rewrite upd_other by auto. rewrite (R2 f Ff If).
        pose proof (frz_lv W sem WF NB SO I O s INV OL f Ff) as Lf.
        apply (spec_indep W sem WF inpW (upd inpW a v) a f); auto.
        * apply (lv_lt W sem WF NB SO I O s INV OL f Lf).
        * intros m _ _ Hm. now rewrite upd_other.
        * apply (frozen_not_below W sem WF NB SO I O s INV OL f a Ff Ia).
  Qed.

  Hypothesis IX : forall a, In a I -> scalar_exact (st_cache s a) = true.

  Lemma s0_input k : isinput k = true -> st_cache s0 k = st_cache s k.
  Proof. apply (build_all_inv W sem WF NB SO I O s INV OL O s INV OL). Qed.

  Theorem preserve_spec : forall h, Forall (io_op I O) h ->
    snd (run V sem t h) = run_spec W sem (st_cache s0) h.
  Proof.
    intros h F. rewrite trimmed_coherent; auto.
    - apply rs_rel; auto.
      + intros k Lk Ik. now apply kept_input_cache.
      + intros f Ff If.
        rewrite (kept_cache W sem WF NB SO I O s INV OL f (frz_kept W sem WF NB SO I O s INV OL f Ff)).
        rewrite (frozen_value W sem WF NB SO I O s INV OL f Ff).
        apply (c3_spec W sem WF NB SO I O s INV OL).
        apply (lv_lt W sem WF NB SO I O s INV OL). now apply (frz_lv W sem WF NB SO I O s INV OL).
    - intros a Ia. destruct (in_facts a Ia) as (La & Ka & Iv). destruct (IN a Ia) as (Ii & _).
      repeat split; auto. rewrite kept_input_cache, s0_input; auto.
  Qed.

  (* ---- the untrimmed machine on the same history (C01) *)
  Hypothesis EX : inputs_exact W (st_cache s).
  Hypothesis LATE : forall a, In a I -> late_ok W s0 a.

  Lemma in_built a : In a I -> st_built s0 a = true.
  Proof.
    intros Ia. destruct (IN a Ia) as (_ & o & Ho & A).
    eapply (anc_closed W (st_built s0) (bb_deps W sem WF NB SO I O s INV OL)); eauto.
    apply (bb_out W sem WF NB SO I O s INV OL); auto.
  Qed.

  Lemma ok_hist : forall h s1, st_built s1 = st_built s0 -> Forall (io_op I O) h ->
    ok_history W sem (ok_op W) s1 h.
  Proof.
    induction h as [|o h IH]; intros s1 B F; [constructor|].
    inversion F as [|? ? Fo Fh]; subst. cbn [ok_history].
    destruct o as [n|a v|n]; cbn [io_op] in Fo; [| |contradiction].
    - split; [cbn; auto|]. apply IH; auto. cbn [step fst].
      rewrite evaluate_unfold. cbn [fst st_built].
      assert (Bn: st_built s1 n = true).
      { rewrite B. apply (bb_out W sem WF NB SO I O s INV OL); auto. }
      destruct (build_built_id W sem s1 n Bn) as [E _]. congruence.
    - destruct Fo as [Ia Ev]. destruct (IN a Ia) as (Ii & _). split.
      + cbn [ok_op]. rewrite B. repeat split; auto; [now apply in_built|].
        intros d Ld Ad Bd. apply (LATE a Ia d Ld Ad). congruence.
      + apply IH; auto. cbn [step fst]. rewrite set_value_unfold.
        destruct (negb (st_built s1 a)); auto.
        destruct (py_eq (st_cache s1 a) v && same_type (st_cache s1 a) v); auto.
  Qed.

  Theorem preserve_machine : forall h, Forall (io_op I O) h ->
    snd (run V sem t h) = snd (run W sem s0 h).
  Proof.
    intros h F. rewrite preserve_spec by auto. symmetry.
    apply (run_coherent W sem WF NB SO h s0 (st_cache s0)).
    - apply (inv0 W sem WF NB SO I O s INV OL).
    - intros m _ _. reflexivity.
    - intros m Lm Im. rewrite s0_input by auto. now apply EX.
    - now apply ok_hist.
  Qed.
End C08.
