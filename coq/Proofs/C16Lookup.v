(* Proofs/C16Lookup.v — LOOKUP (Gen/lookup.v f_lookup, regenerated) is INDEX at
   the position MATCH(v, ., 1) finds:
   array form   LOOKUP(v, T): searches the first column when T is at least as
                high as wide (else the first row) and answers from the last
                column (last row);
   vector form  LOOKUP(v, T, rr): same search, answers from the result vector
                rr (a column of >= 2 cells, or a row) — for a result vector at
                least as long as the search vector.
   Known finding C16-lookup-short-result-range: with a shorter result vector
   result[match_idx - 1] raises IndexError where INDEX gives #REF!; the
   hypothesis on the lengths excludes exactly that.  Every table size. *)
From Coq Require Import ZArith QArith List Bool Lia.
From PV Require Import Lib.Py Proofs.PyTac Model.Ops Proofs.C10 Model.LookupCore Proofs.C16.
From PV Require Gen.excelutil Gen.lookup.
Import ListNotations.
Open Scope Z_scope.

(* the vector LOOKUP searches, its length, and the vector it answers from in
   the array form *)
Definition search_vec (w : Z) (rows : list pyval) : pyval :=
  if w <=? zlen rows then VTuple (col_of 0 rows) else nth 0 rows VNone.
Definition search_len (w : Z) (rows : list pyval) : Z :=
  if w <=? zlen rows then zlen rows else w.
Definition result_vec (w : Z) (rows : list pyval) : pyval :=
  if w <=? zlen rows then VTuple (col_of (Z.to_nat (w - 1)) rows)
  else nth (Z.to_nat (zlen rows - 1)) rows VNone.

(* "return result[match_idx - 1] if isinstance(match_idx, int) else match_idx" *)
Definition pick (m result : pyval) : res pyval :=
  if has_ty m TInt || false then (y <- py_sub m (VInt 1) ;; py_getitem result y) else Ok m.

(* the part of lookup() after the search: the result_range cases *)
Definition lookup_tail (rr m result : pyval) : res pyval :=
  if negb match rr with VNone => true | _ => false end then
    c_0 <- b_not (cond_of (excelutil.f_list_like rr)) ;;
    if c_0 then Ok excelutil.c_NA_ERROR else
    h <- py_len rr ;;
    w <- lift1 py_len (py_getitem rr (VInt 0)) ;;
    c_1 <- py_lt w h ;;
    if c_1 then
      if negb (py_eq w (VInt 1)) then Ok excelutil.c_NA_ERROR else
      res0 <- lift1 py_tuple
                (it_ <- (x_ <- (l_ <- py_iter rr ;; Ok (VList l_)) ;;
                         match x_ with VList l_ => Ok l_ | _ => Raise TypeError end) ;;
                 l_ <- genexp (fun v_i => py_getitem v_i (VInt 0)) (fun _ => Ok true) it_ ;;
                 Ok (VList l_)) ;;
      pick m res0
    else
      if negb (py_eq h (VInt 1)) then Ok excelutil.c_NA_ERROR else
      res0 <- py_getitem rr (VInt 0) ;; pick m res0
  else pick m result.

(* ------------------------------------------------------------------ helpers *)
Lemma getitem_last l : l <> [] ->
  py_getitem (VTuple l) (VInt (-1)) = Ok (nth (Z.to_nat (zlen l - 1)) l VNone).
Proof.
  intros Hne. assert (Hl : 1 <= zlen l) by (destruct l; [congruence|unfold zlen; cbn [length]; lia]).
  cbn [py_getitem as_index]. unfold index_nth.
  replace (-1 <? 0) with true by reflexivity.
  replace (-1 + zlen l <? 0) with false by (symmetry; apply Z.ltb_ge; lia).
  replace (zlen l <=? -1 + zlen l) with false by (symmetry; apply Z.leb_gt; lia).
  cbn [orb]. replace (-1 + zlen l) with (zlen l - 1) by lia.
  destruct (nth_error l (Z.to_nat (zlen l - 1))) as [c|] eqn:E.
  - rewrite (nth_error_nth _ _ _ E). reflexivity.
  - apply nth_error_None in E. unfold zlen in *. lia.
Qed.

Lemma genexp_last_col w rows : rect w rows -> 1 <= w ->
  genexp (fun v_i => py_getitem v_i (VInt (-1))) (fun _ => Ok true) rows
  = Ok (col_of (Z.to_nat (w - 1)) rows).
Proof.
  intros Hr Hw. induction rows as [|row rows IH]; [reflexivity|].
  inversion Hr as [|? ? (cells & -> & Hc) Hr']; subst.
  cbn [genexp bind]. rewrite (IH Hr').
  rewrite getitem_last by (intros ->; unfold zlen in Hw; cbn in Hw; lia). reflexivity.
Qed.

Lemma rect_last w rows : rect w rows -> rows <> [] ->
  exists cells, nth (Z.to_nat (zlen rows - 1)) rows VNone = VTuple cells /\ zlen cells = w.
Proof.
  intros Hr Hne. apply (rect_nth w rows _ Hr).
  destruct rows; [congruence|]. unfold zlen. cbn [length]. lia.
Qed.

(* the search part, for every table and every result range *)
Lemma lookup_front v w rows rr : rect w rows -> rows <> [] -> 1 <= w ->
  lookup.f_lookup v (VTuple rows) rr
  = (m <- match_ v (search_vec w rows) (VInt 1) ;; lookup_tail rr m (result_vec w rows)).
Proof.
  intros Hr Hne Hw. destruct (rect_head w rows Hr Hne) as (c0 & rest & E & Hw0).
  unfold lookup.f_lookup. py_run. rewrite list_like_tuple. py_run.
  rewrite E at 1. py_run. fold (zlen c0). rewrite Hw0. fold (zlen rows).
  unfold search_vec, result_vec. destruct (w <=? zlen rows) eqn:Ewh.
  - rewrite (genexp_first_col w rows Hr Hw). py_run.
    rewrite (genexp_last_col w rows Hr Hw). py_run. reflexivity.
  - rewrite E at 1. py_run. rewrite E at 1. cbn [nth].
    change (match index_nth rows (-1) with Some v0 => Ok v0 | None => Raise IndexError end)
      with (py_getitem (VTuple rows) (VInt (-1))).
    rewrite (getitem_last rows Hne). py_run. reflexivity.
Qed.

(* picking from a vector at a position inside it *)
Lemma pick_pos i l : 1 <= i <= zlen l ->
  pick (VInt i) (VTuple l) = Ok (nth (Z.to_nat (i - 1)) l VNone).
Proof.
  intros H. unfold pick. cbn [has_ty orb]. unfold py_sub, Py.arith. cbn [as_num bind].
  apply getitem_nth. lia.
Qed.
Lemma pick_na r : pick NA r = Ok NA.
Proof. reflexivity. Qed.

(* the result-range cases *)
Lemma tail_none m result : lookup_tail VNone m result = pick m result.
Proof. reflexivity. Qed.

Lemma tail_col rr m result : rect 1 rr -> 2 <= zlen rr ->
  lookup_tail (VTuple rr) m result = pick m (VTuple (col_of 0 rr)).
Proof.
  intros Hr Hh. assert (Hne : rr <> []) by (intros ->; unfold zlen in Hh; cbn in Hh; lia).
  destruct (rect_head 1 rr Hr Hne) as (c0 & rest & E & Hw0).
  unfold lookup_tail. cbn [negb]. rewrite list_like_tuple. py_run.
  rewrite E at 1. py_run. fold (zlen c0). rewrite Hw0. fold (zlen rr).
  replace (1 <? zlen rr) with true by (symmetry; apply Z.ltb_lt; lia).
  rewrite (genexp_first_col 1 rr Hr) by lia. py_run. reflexivity.
Qed.

Lemma tail_row cells m result : 1 <= zlen cells ->
  lookup_tail (VTuple [VTuple cells]) m result = pick m (VTuple cells).
Proof.
  intros Hc. unfold lookup_tail. cbn [negb]. rewrite list_like_tuple. py_run.
  fold (zlen cells). change (zlen [VTuple cells]) with 1.
  replace (zlen cells <? 1) with false by (symmetry; apply Z.ltb_ge; lia). reflexivity.
Qed.

(* INDEX(rr, i) with the column number omitted, on a column and on a row *)
Lemma index_col_vector rr i : rect 1 rr -> 1 <= i <= zlen rr ->
  index_ (VTuple rr) (VInt i) VNone = Ok (nth (Z.to_nat (i - 1)) (col_of 0 rr) VNone).
Proof.
  intros Hr Hi. assert (Hne : rr <> []) by (intros ->; unfold zlen in Hi; cbn in Hi; lia).
  destruct (rect_head 1 rr Hr Hne) as (c0 & rest & E & Hw0).
  unfold index_. rewrite list_like_tuple. cbn [cond_of bind py_truthy negb].
  rewrite getitem_nth by lia. change (Z.to_nat 0) with 0%nat. rewrite E at 1. cbn [nth bind].
  rewrite list_like_tuple. cbn [cond_of bind py_truthy negb]. rewrite getitem_nth by lia. cbn [bind].
  unfold index_body. cbn [py_truthy].
  replace (i =? 0) with false by (symmetry; apply Z.eqb_neq; lia).
  cbn [negb andb py_lt scalar_lt as_num bind].
  replace (i <? 0) with false by (symmetry; apply Z.ltb_ge; lia).
  rewrite getitem_nth by lia. change (Z.to_nat 0) with 0%nat. rewrite E at 1. cbn [nth bind py_len].
  rewrite Hw0. replace (py_eq (VInt 1) (VInt 1)) with true by reflexivity.
  unfold py_sub, Py.arith. cbn [as_num bind].
  change (VInt 0) with (VInt (1 - 1)). rewrite (array_data_cell 1 rr i 1 Hr) by lia.
  cbn [try_except]. f_equal. unfold col_of. change (Z.to_nat (1 - 1)) with 0%nat.
  symmetry. apply (map_nth' (fun row => nth 0 (cells_of row) VNone) rr _ VNone VNone).
  unfold zlen in Hi. lia.
Qed.

Lemma index_row_vector cells i : 1 <= i <= zlen cells ->
  index_ (VTuple [VTuple cells]) (VInt i) VNone = Ok (nth (Z.to_nat (i - 1)) cells VNone).
Proof.
  intros Hi. unfold index_. rewrite list_like_tuple. cbn [cond_of bind py_truthy negb].
  py_run. rewrite list_like_tuple. cbn [cond_of bind py_truthy negb].
  change (match index_nth cells 0 with Some v0 => Ok v0 | None => Raise IndexError end)
    with (py_getitem (VTuple cells) (VInt 0)).
  rewrite getitem_nth by lia. cbn [bind].
  unfold index_body. cbn [py_truthy].
  replace (i =? 0) with false by (symmetry; apply Z.eqb_neq; lia).
  cbn [negb andb py_lt scalar_lt as_num bind].
  replace (i <? 0) with false by (symmetry; apply Z.ltb_ge; lia).
  py_run. fold (zlen cells). unfold array_data.
  destruct (zlen cells =? 1) eqn:E1.
  - apply Z.eqb_eq in E1. assert (i = 1) by lia. subst i.
    change (1 - 1) with 0. py_run.
    change (match index_nth cells 0 with Some v0 => Ok v0 | None => Raise IndexError end)
      with (py_getitem (VTuple cells) (VInt 0)).
    rewrite getitem_nth by lia. reflexivity.
  - py_run.
    change (match index_nth cells (i - 1) with Some v0 => Ok v0 | None => Raise IndexError end)
      with (py_getitem (VTuple cells) (VInt (i - 1))).
    rewrite getitem_nth by lia. reflexivity.
Qed.

Lemma search_vec_items v w rows mt m : rect w rows -> rows <> [] ->
  match_ v (search_vec w rows) mt = Ok m -> m = NA \/ is_pos (search_len w rows) m.
Proof.
  intros Hr Hne. unfold search_vec, search_len. destruct (w <=? zlen rows).
  - intros H. destruct (match_range v (VTuple (col_of 0 rows)) mt (col_of 0 rows) m eq_refl H) as [->|(i & -> & Hi)]; [auto|].
    right. exists i. split; [reflexivity|]. unfold zlen in *. rewrite col_of_length in Hi. exact Hi.
  - destruct (rect_head w rows Hr Hne) as (c0 & rest & -> & Hw0). cbn [nth].
    intros H. destruct (match_range v (VTuple c0) mt c0 m eq_refl H) as [->|(i & -> & Hi)]; [auto|].
    right. exists i. split; [reflexivity|]. lia.
Qed.

(* ------------------------------------------------------------- the theorems *)
(* array form *)
Theorem lookup_array v w rows : rect w rows -> rows <> [] -> 1 <= w ->
  lookup.f_lookup v (VTuple rows) VNone
  = (m <- match_ v (search_vec w rows) (VInt 1) ;;
     if is_int m then
       (if w <=? zlen rows then index_ (VTuple rows) m (VInt w)
        else index_ (VTuple rows) (VInt (zlen rows)) m)
     else Ok m).
Proof.
  intros Hr Hne Hw. rewrite (lookup_front v w rows VNone Hr Hne Hw).
  destruct (match_ v (search_vec w rows) (VInt 1)) as [m|e] eqn:Em; cbn [bind]; [|reflexivity].
  rewrite tail_none.
  destruct (search_vec_items v w rows _ m Hr Hne Em) as [->|(i & -> & Hi)]; [reflexivity|].
  cbn [is_int]. unfold result_vec, search_len in *.
  assert (Hh : 1 <= zlen rows) by (destruct rows; [congruence|unfold zlen; cbn [length]; lia]).
  destruct (w <=? zlen rows).
  - rewrite pick_pos by (unfold zlen; rewrite col_of_length; exact Hi).
    rewrite (index_cell_value w rows i w Hr) by lia. f_equal.
    unfold col_of.
    apply (map_nth' (fun row => nth (Z.to_nat (w - 1)) (cells_of row) VNone) rows _ VNone VNone).
    unfold zlen in Hi. lia.
  - destruct (rect_last w rows Hr Hne) as (cells & El & Hwl). rewrite El.
    rewrite pick_pos by lia.
    rewrite (index_cell_value w rows (zlen rows) i Hr) by lia. rewrite El. reflexivity.
Qed.

(* vector form, result vector a column of at least two cells *)
Theorem lookup_vector_col v w rows rr : rect w rows -> rows <> [] -> 1 <= w ->
  rect 1 rr -> 2 <= zlen rr -> search_len w rows <= zlen rr ->
  lookup.f_lookup v (VTuple rows) (VTuple rr)
  = (m <- match_ v (search_vec w rows) (VInt 1) ;;
     if is_int m then index_ (VTuple rr) m VNone else Ok m).
Proof.
  intros Hr Hne Hw Hrr Hh Hlen. rewrite (lookup_front v w rows _ Hr Hne Hw).
  destruct (match_ v (search_vec w rows) (VInt 1)) as [m|e] eqn:Em; cbn [bind]; [|reflexivity].
  rewrite (tail_col rr m _ Hrr Hh).
  destruct (search_vec_items v w rows _ m Hr Hne Em) as [->|(i & -> & Hi)]; [reflexivity|].
  cbn [is_int]. rewrite pick_pos by (unfold zlen; rewrite col_of_length; fold (zlen rr); lia).
  rewrite (index_col_vector rr i Hrr) by lia. reflexivity.
Qed.

(* vector form, result vector a row *)
Theorem lookup_vector_row v w rows cells : rect w rows -> rows <> [] -> 1 <= w ->
  1 <= zlen cells -> search_len w rows <= zlen cells ->
  lookup.f_lookup v (VTuple rows) (VTuple [VTuple cells])
  = (m <- match_ v (search_vec w rows) (VInt 1) ;;
     if is_int m then index_ (VTuple [VTuple cells]) m VNone else Ok m).
Proof.
  intros Hr Hne Hw Hc Hlen. rewrite (lookup_front v w rows _ Hr Hne Hw).
  destruct (match_ v (search_vec w rows) (VInt 1)) as [m|e] eqn:Em; cbn [bind]; [|reflexivity].
  rewrite (tail_row cells m _ Hc).
  destruct (search_vec_items v w rows _ m Hr Hne Em) as [->|(i & -> & Hi)]; [reflexivity|].
  cbn [is_int]. rewrite pick_pos by lia. rewrite (index_row_vector cells i) by lia. reflexivity.
Qed.

(* ------------------------------------------------ MATCH's range argument *)
(* match() unpacks its range: a single row is searched as it is, anything else
   through its first column — so the theorems on [match_] are theorems on MATCH *)
Lemma match_shape_row v cells mt :
  lookup.f_match v (VTuple [VTuple cells]) mt = match_ v (VTuple cells) mt.
Proof. unfold lookup.f_match. py_run. reflexivity. Qed.

Lemma match_shape_col v w rows mt : rect w rows -> 1 <= w -> zlen rows <> 1 ->
  lookup.f_match v (VTuple rows) mt = match_ v (VTuple (col_of 0 rows)) mt.
Proof.
  intros Hr Hw Hh. unfold lookup.f_match. py_run. fold (zlen rows).
  replace (zlen rows =? 1) with false by (symmetry; apply Z.eqb_neq; exact Hh).
  rewrite (genexp_first_col w rows Hr Hw). py_run. reflexivity.
Qed.
Example ex_match_shape_col :
  rect 1 [VTuple [VInt 1]; VTuple [VInt 2]]
  /\ lookup.f_match (VInt 2) (VTuple [VTuple [VInt 1]; VTuple [VInt 2]]) (VInt 0) = Ok (VInt 2).
Proof. split; [repeat constructor; eexists; split; reflexivity|vm_compute; reflexivity]. Qed.

(* ------------------------------------------------------ examples (non-vacuity) *)
Definition t32 := [VTuple [VInt 1; s_a]; VTuple [VInt 2; s_b]; VTuple [VInt 3; s_B]].
Example ex_lookup_tall : rect 2 t32 /\ lookup.f_lookup (VFloat (5 # 2)) (VTuple t32) VNone = Ok s_b.
Proof. split; [repeat constructor; eexists; split; reflexivity|vm_compute; reflexivity]. Qed.
Example ex_lookup_square :      (* a square table searches its first COLUMN *)
  lookup.f_lookup (VInt 3) (VTuple [VTuple [VInt 1; VInt 5]; VTuple [VInt 3; VInt 7]]) VNone = Ok (VInt 7).
Proof. vm_compute. reflexivity. Qed.
Example ex_lookup_wide :
  rect 3 [VTuple [VInt 1; VInt 2; VInt 3]; VTuple [s_a; s_b; s_B]]
  /\ lookup.f_lookup (VInt 2) (VTuple [VTuple [VInt 1; VInt 2; VInt 3]; VTuple [s_a; s_b; s_B]]) VNone = Ok s_b.
Proof. split; [repeat constructor; eexists; split; reflexivity|vm_compute; reflexivity]. Qed.
Example ex_lookup_vector :
  rect 1 [VTuple [VInt 1]; VTuple [VInt 2]; VTuple [VInt 3]]
  /\ rect 1 [VTuple [s_a]; VTuple [s_b]; VTuple [s_B]]
  /\ lookup.f_lookup (VInt 2) (VTuple [VTuple [VInt 1]; VTuple [VInt 2]; VTuple [VInt 3]])
       (VTuple [VTuple [s_a]; VTuple [s_b]; VTuple [s_B]]) = Ok s_b.
Proof.
  split; [repeat constructor; eexists; split; reflexivity|].
  split; [repeat constructor; eexists; split; reflexivity|vm_compute; reflexivity].
Qed.
Example ex_lookup_vector_row :
  rect 1 [VTuple [VInt 1]; VTuple [VInt 2]; VTuple [VInt 3]]
  /\ lookup.f_lookup (VFloat (5 # 2)) (VTuple [VTuple [VInt 1]; VTuple [VInt 2]; VTuple [VInt 3]])
       (VTuple [VTuple [s_a; s_b; s_B; VInt 9]]) = Ok s_b.
Proof. split; [repeat constructor; eexists; split; reflexivity|vm_compute; reflexivity]. Qed.
