(* Proofs/C01Reset.v — C01, part 2: [_reset].  Every node that [reset] turns
   from cached to empty has only empty built dependants afterwards
   ([visited_closed]); with the closure invariant before the call this gives
   the closure invariant after it, and hence: every built descendant of the
   written cell is empty.  (DESIGN-prototypes.md section 3, adapted to the
   model of Model/Graph.v: successors restricted to built nodes, VNone as the
   empty value.) *)
From Coq Require Import List Arith Bool Lia.
From PV Require Import Lib.Py Model.Graph Proofs.C01Base.
Import ListNotations.

Section Reset.
  Variable W : workbook.
  Variable b : nat -> bool.             (* the built set: fixed during _reset *)
  Hypothesis WF : wf W.

  Notation N := (wb_n W).
  Notation deps := (wb_deps W).
  Notation succs := (succs W b).
  Notation reset := (fun f => reset W f b).
  Notation anc := (anc W).

  Definition mono (c c' : cache) := forall m, c' m = c m \/ c' m = VNone.
  Definition closed_at (c : cache) p := c p = VNone -> forall d, In d (succs p) -> c d = VNone.
  (* nodes that went from cached to empty are closed afterwards *)
  Definition visited_closed (c c' : cache) :=
    forall m, c m <> VNone -> c' m = VNone -> closed_at c' m.

  Lemma mono_refl c : mono c c. Proof. intros m; auto. Qed.
  Lemma mono_trans c1 c2 c3 : mono c1 c2 -> mono c2 c3 -> mono c1 c3.
  Proof. intros H1 H2 m. destruct (H2 m) as [E|E]; auto. rewrite E. apply H1. Qed.
  Lemma mono_none c1 c2 m : mono c1 c2 -> c1 m = VNone -> c2 m = VNone.
  Proof. intros H E. destruct (H m); congruence. Qed.
  Lemma mono_some c1 c2 m : mono c1 c2 -> c2 m <> VNone -> c2 m = c1 m.
  Proof. intros H E. destruct (H m); congruence. Qed.

  Definition rstep (f : nat) (c : cache) (ch : nat) : cache :=
    if is_none (c ch) then c else reset f ch c.
  Lemma reset_unfold f n c : reset (S f) n c =
    if is_none (c n) then c else fold_left (rstep f) (succs n) (upd c n VNone).
  Proof. reflexivity. Qed.

  Definition good (f : nat) := forall n c, n + f >= N -> n < N ->
    mono c (reset f n c) /\ (reset f n c) n = VNone /\ visited_closed c (reset f n c).

  Lemma fold_props f n c : good f -> S n + f >= N ->
    forall l c1, (forall ch, In ch l -> In ch (succs n)) -> mono c c1 -> c1 n = VNone ->
     (forall m, c m <> VNone -> c1 m = VNone -> m <> n -> closed_at c1 m) ->
     mono c (fold_left (rstep f) l c1) /\ (fold_left (rstep f) l c1) n = VNone /\
     (forall m, c m <> VNone -> (fold_left (rstep f) l c1) m = VNone -> m <> n ->
                closed_at (fold_left (rstep f) l c1) m) /\
     (forall ch, In ch l -> (fold_left (rstep f) l c1) ch = VNone) /\
     mono c1 (fold_left (rstep f) l c1).
  Proof.
    intros IH F. induction l as [|ch l IHl]; intros c1 S M1 N1 V1; cbn [fold_left].
    - repeat split; auto. intros ? []. apply mono_refl.
    - assert (Sch: In ch (succs n)) by (apply S; left; auto).
      apply succs_spec in Sch. destruct Sch as (LN & Bch & Dn).
      pose proof (deps_lt W WF _ _ LN Dn) as Lt.
      assert (Hstep: mono c1 (rstep f c1 ch) /\ (rstep f c1 ch) ch = VNone /\
                     (forall m, c1 m <> VNone -> (rstep f c1 ch) m = VNone ->
                                closed_at (rstep f c1 ch) m)).
      { unfold rstep. destruct (is_none (c1 ch)) eqn:Ech.
        - apply is_none_true in Ech.
          split; [apply mono_refl|split; [auto|intros m A B; congruence]].
        - destruct (IH ch c1 ltac:(lia) LN) as (Ma & Na & Va).
          split; [auto|split; [auto|]]. intros m A B. apply Va; auto. }
      destruct Hstep as (Ma & Na & Va). set (c1' := rstep f c1 ch) in *.
      assert (M1': mono c c1') by (eapply mono_trans; eauto).
      assert (N1': c1' n = VNone) by (apply (mono_none c1 c1' n Ma N1)).
      assert (V1': forall m, c m <> VNone -> c1' m = VNone -> m <> n -> closed_at c1' m).
      { intros m A B C. destruct (is_none (c1 m)) eqn:Em.
        - apply is_none_true in Em. intros _ d Hd. apply (mono_none c1 c1' d Ma).
          apply (V1 m A Em C Em d Hd).
        - apply is_none_false in Em. apply Va; auto. }
      destruct (IHl c1' ltac:(intros; apply S; right; auto) M1' N1' V1') as (A&B&C&D&E').
      repeat split; auto.
      + intros x [->|Hx]; auto. apply (mono_none c1' _ x E' Na).
      + eapply mono_trans; eauto.
  Qed.

  Lemma reset_props f : good f.
  Proof.
    induction f as [|f IH]; intros n c F L; [exfalso; lia|]. rewrite reset_unfold.
    destruct (is_none (c n)) eqn:E.
    { apply is_none_true in E. split; [apply mono_refl|]. split; auto. intros m A B. congruence. }
    apply is_none_false in E.
    set (c0 := upd c n VNone).
    assert (M0: mono c c0). { intros m. unfold c0, upd. destruct (Nat.eqb m n); auto. }
    destruct (fold_props f n c IH ltac:(lia) (succs n) c0 ltac:(auto) M0
                         ltac:(unfold c0; apply upd_same)) as (A&B&C&D&_).
    { intros m A B C. unfold c0 in B. rewrite upd_other in B by auto. congruence. }
    split; auto. split; auto. intros m Hm1 Hm2. destruct (Nat.eq_dec m n) as [->|NE].
    - intros _ d Hd. apply D; auto.
    - apply C; auto.
  Qed.

  (* only the node itself and its built descendants are touched *)
  Definition bdesc (n m : nat) : Prop := anc n m /\ m < N /\ b m = true.

  Lemma fold_desc f n m :
    (forall n c m, reset f n c m = c m \/ m = n \/ bdesc n m) ->
    forall l c1, (forall ch, In ch l -> In ch (succs n)) ->
      fold_left (rstep f) l c1 m = c1 m \/ bdesc n m.
  Proof.
    intros IH. induction l as [|ch l IHl]; intros c1 S; cbn [fold_left]; [left; reflexivity|].
    destruct (IHl (rstep f c1 ch) ltac:(intros; apply S; right; auto)) as [E|A]; auto.
    rewrite E. assert (Sch: In ch (succs n)) by (apply S; left; auto).
    apply succs_spec in Sch. destruct Sch as (LN & Bch & Dn).
    unfold rstep. destruct (is_none (c1 ch)); auto.
    destruct (IH ch c1 m) as [E1|[->|(A&Lm&Bm)]]; auto.
    - right. split; [now constructor|auto].
    - right. split; [eapply anc_step; eauto|auto].
  Qed.

  Lemma reset_desc : forall f n c m, reset f n c m = c m \/ m = n \/ bdesc n m.
  Proof.
    induction f as [|f IH]; intros n c m; [left; reflexivity|]. rewrite reset_unfold.
    destruct (is_none (c n)); [left; reflexivity|].
    destruct (fold_desc f n m IH (succs n) (upd c n VNone) ltac:(auto)) as [E|A]; auto.
    rewrite E. destruct (Nat.eq_dec m n) as [->|NE]; auto. left. now apply upd_other.
  Qed.

  (* ---- _reset(cell, force=True): the written cell is emptied whatever it holds *)
  Lemma forced_unfold n c :
    reset_forced W b n c = fold_left (rstep N) (succs n) (upd c n VNone).
  Proof. reflexivity. Qed.

  Lemma forced_props n c : n < N ->
    mono c (reset_forced W b n c) /\ (reset_forced W b n c) n = VNone /\
    (forall m, c m <> VNone -> (reset_forced W b n c) m = VNone -> m <> n ->
               closed_at (reset_forced W b n c) m) /\
    (forall ch, In ch (succs n) -> (reset_forced W b n c) ch = VNone).
  Proof.
    intros L. rewrite forced_unfold. set (c0 := upd c n VNone).
    assert (M0: mono c c0). { intros m. unfold c0, upd. destruct (Nat.eqb m n); auto. }
    destruct (fold_props N n c (reset_props N) ltac:(lia) (succs n) c0 ltac:(auto) M0
                         ltac:(unfold c0; apply upd_same)) as (A&B&C&D&_).
    { intros m A B C. unfold c0 in B. rewrite upd_other in B by auto. congruence. }
    repeat split; auto.
  Qed.

  Lemma forced_desc n c m : reset_forced W b n c m = c m \/ m = n \/ bdesc n m.
  Proof.
    rewrite forced_unfold.
    destruct (fold_desc N n m (reset_desc N) (succs n) (upd c n VNone) ltac:(auto)) as [E|A]; auto.
    rewrite E. destruct (Nat.eq_dec m n) as [->|NE]; auto. left. now apply upd_other.
  Qed.

  (* the closure invariant (I2) on formula / range nodes, and its consequence *)
  Definition Closed (c : cache) :=
    forall p, p < N -> wb_input W p = false -> closed_at c p.

  Lemma reset_closed f n c : n + f >= N -> n < N -> Closed c -> Closed (reset f n c).
  Proof.
    intros F L K. destruct (reset_props f n c F L) as (M&Nn&V). intros p Lp Ip Hp d Hd.
    destruct (is_none (c p)) eqn:E.
    - apply is_none_true in E. apply (mono_none c _ d M). apply (K p Lp Ip E d Hd).
    - apply is_none_false in E. apply (V p E Hp Hp d Hd).
  Qed.

  Lemma forced_closed n c : n < N -> Closed c ->
    Closed (reset_forced W b n c) /\ closed_at (reset_forced W b n c) n.
  Proof.
    intros L K. destruct (forced_props n c L) as (M&Nn&V&D). split.
    - intros p Lp Ip Hp d Hd. destruct (is_none (c p)) eqn:E.
      + apply is_none_true in E. apply (mono_none c _ d M). apply (K p Lp Ip E d Hd).
      + apply is_none_false in E. destruct (Nat.eq_dec p n) as [->|NE].
        * apply D; auto.
        * apply (V p E Hp NE Hp d Hd).
    - intros _ d Hd. apply D; auto.
  Qed.

  Lemma closed_desc c x :
    (forall n d, b n = true -> In d (deps n) -> b d = true) ->
    Closed c -> closed_at c x -> c x = VNone ->
    forall n, n < N -> b n = true -> anc x n -> c n = VNone.
  Proof.
    intros BD K Kx Hx n. induction n as [n IH] using lt_wf_ind. intros Ln Bn A.
    inversion A as [a n' H|a y n' A' H]; subst.
    - apply (Kx Hx). apply succs_spec; auto.
    - pose proof (deps_lt W WF _ _ Ln H) as Lb.
      assert (Hy: c y = VNone) by (apply IH; [lia|lia|eapply BD; eauto|auto]).
      assert (Ly: y < wb_n W) by lia.
      apply (K y Ly (anc_noninput W WF x y Ly A') Hy). apply succs_spec; auto.
  Qed.
End Reset.
