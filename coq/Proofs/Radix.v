(* Proofs/Radix.v — digit strings: Lib.Py.digits / py_int_base are inverse. *)
From Coq Require Import ZArith List Bool Lia.
From PV Require Import Lib.Py.
Import ListNotations.
Open Scope Z_scope.

Definition dchar (d : Z) : Z := if d <? 10 then 48 + d else 97 + d - 10.

Definition horner (b : Z) (a : Z) (s : list Z) : Z :=
  fold_left (fun acc c => acc * b + match digit_val c with Some d => d | None => 0 end) s a.

Definition valid_digit (b c : Z) : Prop :=
  exists d, digit_val c = Some d /\ 0 <= d < b /\ c <> 95.

Lemma dchar_valid b d : 0 <= d < b -> b <= 36 -> digit_val (dchar d) = Some d.
Proof.
  intros H Hb. unfold dchar, digit_val.
  destruct (d <? 10) eqn:E.
  - apply Z.ltb_lt in E.
    replace ((48 <=? 48 + d) && (48 + d <=? 57)) with true; [f_equal; lia|].
    symmetry. apply andb_true_iff. split; apply Z.leb_le; lia.
  - apply Z.ltb_ge in E.
    replace ((48 <=? 97 + d - 10) && (97 + d - 10 <=? 57)) with false.
    2:{ symmetry. apply andb_false_iff. right. apply Z.leb_gt. lia. }
    replace ((97 <=? 97 + d - 10) && (97 + d - 10 <=? 122)) with true; [f_equal; lia|].
    symmetry. apply andb_true_iff. split; apply Z.leb_le; lia.
Qed.

Lemma digit_val_upper c d : digit_val c = Some d -> digit_val (ascii_upper c) = Some d.
Proof.
  unfold ascii_upper, digit_val.
  destruct ((97 <=? c) && (c <=? 122)) eqn:E1.
  - apply andb_true_iff in E1. destruct E1 as [A B]. apply Z.leb_le in A, B.
    replace ((48 <=? c) && (c <=? 57)) with false.
    2:{ symmetry. apply andb_false_iff. right. apply Z.leb_gt. lia. }
    replace ((48 <=? c - 32) && (c - 32 <=? 57)) with false.
    2:{ symmetry. apply andb_false_iff. right. apply Z.leb_gt. lia. }
    replace ((97 <=? c - 32) && (c - 32 <=? 122)) with false.
    2:{ symmetry. apply andb_false_iff. left. apply Z.leb_gt. lia. }
    replace ((65 <=? c - 32) && (c - 32 <=? 90)) with true.
    2:{ symmetry. apply andb_true_iff. split; apply Z.leb_le; lia. }
    intros H. injection H as <-. f_equal. lia.
  - rewrite E1. auto.
Qed.

Lemma horner_app b a x y : horner b a (x ++ y) = horner b (horner b a x) y.
Proof. unfold horner. apply fold_left_app. Qed.

Lemma digits_fuel_S f b n acc :
  digits_fuel (S f) b n acc =
  if n <? b then dchar (n mod b) :: acc
  else digits_fuel f b (n / b) (dchar (n mod b) :: acc).
Proof. reflexivity. Qed.

(* the digit string produced by digits_fuel *)
Lemma digits_fuel_spec b (Hb : 2 <= b <= 36) :
  forall f n acc, 0 <= n < 2 ^ Z.of_nat f -> (1 <= f)%nat ->
  exists D, digits_fuel f b n acc = D ++ acc
            /\ D <> [] /\ horner b 0 D = n
            /\ Forall (fun c => exists d, c = dchar d /\ 0 <= d < b) D
            /\ (forall k, 1 <= k -> n < b ^ k -> Z.of_nat (length D) <= k)
            /\ (0 < n -> b ^ (Z.of_nat (length D) - 1) <= n)
            /\ n < b ^ Z.of_nat (length D).
Proof.
  induction f as [|f IH]; intros n acc Hn Hf; [lia|].
  rewrite digits_fuel_S.
  assert (Hmod : 0 <= n mod b < b) by (apply Z.mod_pos_bound; lia).
  destruct (n <? b) eqn:E.
  - apply Z.ltb_lt in E. exists [dchar (n mod b)].
    rewrite Z.mod_small by lia.
    repeat split; try discriminate.
    + unfold horner. cbn. rewrite (dchar_valid b) by lia. lia.
    + constructor; [|constructor]. exists n. split; [reflexivity|lia].
    + intros k Hk _. cbn. lia.
    + intros Hpos. cbn. lia.
    + cbn [length]. change (Z.of_nat 1) with 1. rewrite Z.pow_1_r. lia.
  - apply Z.ltb_ge in E.
    assert (Hq : 0 <= n / b < 2 ^ Z.of_nat f).
    { split; [apply Z.div_pos; lia|].
      rewrite Nat2Z.inj_succ, Z.pow_succ_r in Hn by lia.
      apply Z.div_lt_upper_bound; [lia|].
      assert (2 * 2 ^ Z.of_nat f <= b * 2 ^ Z.of_nat f) by (apply Z.mul_le_mono_nonneg_r; lia).
      lia. }
    assert (Hf' : (1 <= f)%nat).
    { destruct f; [|lia]. cbn in Hq. assert (1 <= n / b) by (apply Z.div_le_lower_bound; lia). lia. }
    destruct (IH (n / b) (dchar (n mod b) :: acc) Hq Hf') as (D & HD & Hne & Hv & Hall & Hlen & Hlow & Hup).
    exists (D ++ [dchar (n mod b)]). repeat split.
    + rewrite HD, <- app_assoc. reflexivity.
    + destruct D; discriminate.
    + rewrite horner_app, Hv. unfold horner. cbn. rewrite (dchar_valid b) by lia.
      rewrite (Z.div_mod n b) at 3 by lia. lia.
    + apply Forall_app. split; [exact Hall|]. constructor; [|constructor].
      exists (n mod b). split; [reflexivity|lia].
    + intros k Hk Hnk. rewrite app_length. cbn [length].
      assert (2 <= k).
      { destruct (Z.eq_dec k 1); [subst; rewrite Z.pow_1_r in Hnk; lia|lia]. }
      specialize (Hlen (k - 1)).
      assert (n / b < b ^ (k - 1)).
      { apply Z.div_lt_upper_bound; [lia|]. rewrite <- Z.pow_succ_r by lia.
        replace (Z.succ (k - 1)) with k by lia. exact Hnk. }
      lia.
    + intros _. rewrite app_length, Nat2Z.inj_add. cbn [length].
      assert (Hq0 : 0 < n / b) by (apply Z.div_str_pos; lia).
      specialize (Hlow Hq0).
      assert (1 <= Z.of_nat (length D)) by (destruct D; [congruence|cbn [length]; lia]).
      replace (Z.of_nat (length D) + Z.of_nat 1 - 1) with (Z.succ (Z.of_nat (length D) - 1)) by lia.
      rewrite Z.pow_succ_r by lia.
      assert (b * (n / b) <= n) by (apply Z.mul_div_le; lia).
      assert (b * b ^ (Z.of_nat (length D) - 1) <= b * (n / b)) by (apply Z.mul_le_mono_nonneg_l; lia).
      lia.
    + rewrite app_length, Nat2Z.inj_add. cbn [length]. change (Z.of_nat 1) with 1.
      rewrite Z.pow_add_r, Z.pow_1_r by lia.
      assert (n < b * (n / b + 1)).
      { rewrite (Z.div_mod n b) at 1 by lia. lia. }
      assert (b * (n / b + 1) <= b * b ^ Z.of_nat (length D)) by (apply Z.mul_le_mono_nonneg_l; lia).
      lia.
Qed.

Lemma digits_spec b (Hb : 2 <= b <= 36) n : 0 <= n ->
  exists D, digits b n = D /\ D <> [] /\ horner b 0 D = n
            /\ Forall (fun c => exists d, c = dchar d /\ 0 <= d < b) D
            /\ (forall k, 1 <= k -> n < b ^ k -> Z.of_nat (length D) <= k)
            /\ (0 < n -> b ^ (Z.of_nat (length D) - 1) <= n)
            /\ n < b ^ Z.of_nat (length D).
Proof.
  intros Hn. unfold digits.
  destruct (digits_fuel_spec b Hb (S (Z.to_nat (Z.log2 n))) n []) as (D & HD & H).
  - rewrite Nat2Z.inj_succ, Z2Nat.id by apply Z.log2_nonneg.
    split; [lia|]. destruct (Z.eq_dec n 0); [subst; cbn; lia|].
    apply Z.log2_spec. lia.
  - lia.
  - exists D. rewrite app_nil_r in HD. split; [exact HD|exact H].
Qed.

(* parsing a string of valid upper-cased digits *)
Lemma parse_digits_valid b (Hb : 2 <= b <= 36) :
  forall D a pd,
  Forall (fun c => exists d, c = dchar d /\ 0 <= d < b) D ->
  (D <> [] \/ pd = true) ->
  parse_digits b (map ascii_upper D) a pd = Some (horner b a D).
Proof.
  induction D as [|c D IH]; intros a pd Hall Hne.
  - destruct Hne as [H|H]; [congruence|subst]. reflexivity.
  - inversion Hall as [|? ? (d & -> & Hd) Hall']; subst.
    cbn [map parse_digits].
    assert (Hu : ascii_upper (dchar d) =? 95 = false).
    { apply Z.eqb_neq. unfold ascii_upper, dchar.
      destruct (d <? 10) eqn:E; [apply Z.ltb_lt in E|apply Z.ltb_ge in E].
      - replace ((97 <=? 48 + d) && (48 + d <=? 122)) with false; [lia|].
        symmetry. apply andb_false_iff. left. apply Z.leb_gt. lia.
      - replace ((97 <=? 97 + d - 10) && (97 + d - 10 <=? 122)) with true; [lia|].
        symmetry. apply andb_true_iff. split; apply Z.leb_le; lia. }
    rewrite Hu.
    rewrite (digit_val_upper _ d) by (apply (dchar_valid b); lia).
    replace (d <? b) with true by (symmetry; apply Z.ltb_lt; lia).
    rewrite IH; [|exact Hall'|right; reflexivity].
    unfold horner. cbn [fold_left]. rewrite (dchar_valid b) by lia. reflexivity.
Qed.
