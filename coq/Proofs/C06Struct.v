(* Proofs/C06Struct.v — structure of one evaluation of Model/Iter.v, for every
   workbook (cyclic or not, with range nodes):
     1. what an evaluation leaves alone (lengths, built flags, wip flags; the
        computed set only grows);
     2. the fuel #cells + 1 is sufficient: no evaluation answers OutOfFuel
        (every nested computation marks one more cell wip);
     3. the cone of a target, and totality on a workbook of linear cell
        formulas whose cone is built. *)
From Coq Require Import ZArith QArith Qabs List Bool Lia Lqa.
From PV Require Import Lib.Py Model.Iter Proofs.C06 Proofs.C06Lin.
Import ListNotations.

(* ------------------------------------------------------------------ *)
(* 0. Small facts about the primitives.                                 *)

Lemma getc_start_same : forall c st, (c < length (cells st))%nat ->
  getc (start_calcs c st) c =
  {| built := built (getc st c); value := value (getc st c); prev := value (getc st c); wip := true |}.
Proof. intros. unfold start_calcs. apply getc_setc_same; auto. Qed.
Lemma getc_start_other : forall c c' st, c <> c' -> getc (start_calcs c st) c' = getc st c'.
Proof. intros. unfold start_calcs. apply getc_setc_other; auto. Qed.
Lemma getc_setr : forall st r x c, getc (setr st r x) c = getc st c.
Proof. reflexivity. Qed.

Lemma needs_calc_true : forall st c, needs_calc st c = true ->
  wip (getc st c) = false /\ memb c (computed (tr st)) = false.
Proof.
  intros st c N. unfold needs_calc in N. apply andb_true_iff in N. destruct N as [N1 N2].
  apply negb_true_iff in N1. apply negb_true_iff in N2. auto.
Qed.
Lemma needs_calc_false : forall st c, needs_calc st c = false ->
  wip (getc st c) = true \/ memb c (computed (tr st)) = true.
Proof.
  intros st c N. unfold needs_calc in N. apply andb_false_iff in N. destruct N as [N|N];
    apply negb_false_iff in N; auto.
Qed.

(* ------------------------------------------------------------------ *)
(* 1. ext: what every evaluation preserves.                             *)

Definition mono_computed (st st' : state) : Prop :=
  forall c, memb c (computed (tr st)) = true -> memb c (computed (tr st')) = true.
Definition ext (st st' : state) : Prop := frame st st' /\ same_wip st st' /\ mono_computed st st'.

Lemma ext_refl : forall st, ext st st.
Proof. intros st. split; [apply frame_refl|]. split; intros c; auto. Qed.
Lemma ext_trans : forall a b c, ext a b -> ext b c -> ext a c.
Proof.
  intros a b c (F1 & W1 & M1) (F2 & W2 & M2). split; [eapply frame_trans; eauto|]. split.
  - intros x. rewrite W2. apply W1.
  - intros x H. apply M2, M1, H.
Qed.

Section Ext.
Variable w : wbook.

Section Rec.
Variable rec_c : nat -> state -> res (val * state).
Hypothesis Hrec : forall c st v st', rec_c c st = Ok (v, st') -> ext st st'.

Lemma eval_members_ext : forall ms st vs st',
  eval_members rec_c ms st = Ok (vs, st') -> ext st st'.
Proof.
  induction ms as [|m ms IH]; intros st vs st' E; cbn in E.
  - inversion E; subst; apply ext_refl.
  - destruct (rec_c m st) as [[v s1]|e] eqn:E1; [|discriminate].
    destruct (eval_members rec_c ms s1) as [[vs2 s2]|e] eqn:E2; [|discriminate].
    inversion E; subst. eapply ext_trans; [eapply Hrec; eauto|eapply IH; eauto].
Qed.

Lemma eval_range_ext : forall r st vs st',
  eval_range w rec_c r st = Ok (vs, st') -> ext st st'.
Proof.
  intros r st vs st' E. unfold eval_range in E.
  destruct (negb (rbuilt (getr st r))); [discriminate|].
  destruct (rvalue (getr st r)).
  - inversion E; subst; apply ext_refl.
  - destruct (eval_members rec_c (members w r) st) as [[vs1 s1]|e] eqn:E1; [|discriminate].
    inversion E; subst. apply eval_members_ext in E1. destruct E1 as (F1 & W1 & M1).
    split; [exact F1|]. split; [exact W1|exact M1].
Qed.

Lemma eval_terms_ext : forall ts acc st q st',
  eval_terms w rec_c ts acc st = Ok (q, st') -> ext st st'.
Proof.
  induction ts as [|[a j|a r] ts IH]; intros acc st q st' E; cbn in E.
  - inversion E; subst; apply ext_refl.
  - destruct (rec_c j st) as [[v s1]|e] eqn:E1; [|discriminate].
    eapply ext_trans; [eapply Hrec; eauto|eapply IH; eauto].
  - destruct (eval_range w rec_c r st) as [[vs s1]|e] eqn:E1; [|discriminate].
    eapply ext_trans; [eapply eval_range_ext; eauto|eapply IH; eauto].
Qed.

(* start_calcs c ... setter c around anything that is an ext *)
Lemma bracket_ext : forall c st s2 v,
  built (getc st c) = true -> needs_calc st c = true -> ext (start_calcs c st) s2 ->
  ext st (setter c v s2).
Proof.
  intros c st s2 v B N ((L & Bq) & W & M).
  pose proof (built_in_range _ _ B) as Lc. destruct (needs_calc_true _ _ N) as [Wc _].
  assert (L1 : length (cells (start_calcs c st)) = length (cells st)) by (cbn; apply upd_length).
  assert (L2 : (c < length (cells s2))%nat) by lia.
  split; [split|split].
  - cbn. rewrite upd_length. lia.
  - intros c'. destruct (Nat.eq_dec c c') as [<-|Hne].
    + rewrite getc_setter_same by exact L2. cbn [built]. rewrite Bq, getc_start_same by exact Lc. reflexivity.
    + rewrite getc_setter_other by exact Hne. rewrite Bq, getc_start_other by exact Hne. reflexivity.
  - intros c'. destruct (Nat.eq_dec c c') as [<-|Hne].
    + rewrite getc_setter_same by exact L2. cbn [wip]. auto.
    + rewrite getc_setter_other by exact Hne. rewrite W, getc_start_other by exact Hne. reflexivity.
  - intros c' Hc. cbn [setter tr computed]. destruct (Nat.eq_dec c c') as [<-|Hne].
    + apply memb_add_same.
    + rewrite memb_add_other by auto. apply M. exact Hc.
Qed.

Lemma eval_body_ext : forall c st v st',
  eval_body w rec_c c st = Ok (v, st') -> ext st st'.
Proof.
  intros c st v st' E. unfold eval_body in E.
  destruct (built (getc st c)) eqn:B; cbn [negb] in E; [|discriminate].
  destruct (needs_calc st c) eqn:N.
  - destruct (formula (spec w c)) as [[b ts]|].
    + destruct (eval_terms w rec_c ts (Qred b) (start_calcs c st)) as [[q s2]|e] eqn:E1; [|discriminate].
      inversion E; subst. apply bracket_ext; auto. eapply eval_terms_ext; eauto.
    + inversion E; subst; apply ext_refl.
  - inversion E; subst; apply ext_refl.
Qed.
End Rec.

Lemma eval_cell_ext : forall fuel c st v st',
  eval_cell w fuel c st = Ok (v, st') -> ext st st'.
Proof.
  induction fuel as [|f IH]; intros c st v st' E; cbn [eval_cell] in E; [discriminate|].
  eapply eval_body_ext; eauto.
Qed.
End Ext.

(* ------------------------------------------------------------------ *)
(* 2. Fuel: the number of cells that are not on the stack.              *)

Definition nwip (l : list cell) : nat := length (filter (fun x => negb (wip x)) l).
Definition free (st : state) : nat := nwip (cells st).

Lemma nwip_le : forall l, (nwip l <= length l)%nat.
Proof.
  unfold nwip. induction l as [|h t IH]; cbn; [lia|]. destruct (negb (wip h)); cbn; lia.
Qed.

Lemma nwip_same : forall l l', length l = length l' ->
  (forall i, wip (nth i l cell0) = wip (nth i l' cell0)) -> nwip l = nwip l'.
Proof.
  unfold nwip. induction l as [|h t IH]; intros [|h' t'] L H; cbn in L; try lia; auto.
  cbn [filter]. pose proof (H O) as H0. cbn in H0. rewrite H0.
  assert (IH' : length (filter (fun x => negb (wip x)) t) = length (filter (fun x => negb (wip x)) t')).
  { apply IH; [lia|]. intros i. apply (H (S i)). }
  destruct (negb (wip h')); cbn [length]; lia.
Qed.

Lemma nwip_upd : forall l c x, (c < length l)%nat -> wip (nth c l cell0) = false -> wip x = true ->
  nwip l = S (nwip (upd l c x)).
Proof.
  unfold nwip. induction l as [|h t IH]; intros [|c] x L Wc Wx; cbn in L; try lia.
  - cbn in Wc. cbn [upd filter]. rewrite Wc, Wx. cbn. reflexivity.
  - cbn in Wc. cbn [upd filter]. destruct (negb (wip h)); cbn [length]; rewrite (IH c x); auto; lia.
Qed.

Lemma free_ext : forall st st', ext st st' -> free st' = free st.
Proof.
  intros st st' ((L & _) & W & _). unfold free. apply nwip_same; [exact L|].
  intros i. apply (W i).
Qed.

Lemma free_start : forall c st, built (getc st c) = true -> needs_calc st c = true ->
  free st = S (free (start_calcs c st)).
Proof.
  intros c st B N. unfold free, start_calcs. cbn [cells setc].
  apply nwip_upd; [apply built_in_range; exact B | apply (needs_calc_true _ _ N) | reflexivity].
Qed.

Section Fuel.
Variable w : wbook.

Section Rec.
Variable rec_c : nat -> state -> res (val * state).
Variable F : nat.
Hypothesis Hext : forall c st v st', rec_c c st = Ok (v, st') -> ext st st'.
Hypothesis Hfuel : forall c st, (free st < F)%nat -> rec_c c st <> Raise OutOfFuel.

Lemma eval_members_fuel : forall ms st, (free st < F)%nat ->
  eval_members rec_c ms st <> Raise OutOfFuel.
Proof.
  induction ms as [|m ms IH]; intros st H; cbn; [discriminate|].
  destruct (rec_c m st) as [[v s1]|e] eqn:E1.
  - assert (H1 : (free s1 < F)%nat) by (rewrite (free_ext _ _ (Hext _ _ _ _ E1)); exact H).
    specialize (IH s1 H1). destruct (eval_members rec_c ms s1) as [[vs s2]|e]; [discriminate|].
    intro K; inversion K; subst; apply IH; reflexivity.
  - intro K; inversion K; subst. apply (Hfuel m st H). exact E1.
Qed.

Lemma eval_range_fuel : forall r st, (free st < F)%nat ->
  eval_range w rec_c r st <> Raise OutOfFuel.
Proof.
  intros r st H. unfold eval_range.
  destruct (negb (rbuilt (getr st r))); [discriminate|].
  destruct (rvalue (getr st r)); [discriminate|].
  pose proof (eval_members_fuel (members w r) st H) as K.
  destruct (eval_members rec_c (members w r) st) as [[vs s1]|e]; [discriminate|].
  intro K1; inversion K1; subst; apply K; reflexivity.
Qed.

Lemma eval_terms_fuel : forall ts acc st, (free st < F)%nat ->
  eval_terms w rec_c ts acc st <> Raise OutOfFuel.
Proof.
  induction ts as [|[a j|a r] ts IH]; intros acc st H; cbn [eval_terms]; [discriminate| |].
  - destruct (rec_c j st) as [[v s1]|e] eqn:E1.
    + apply IH. rewrite (free_ext _ _ (Hext _ _ _ _ E1)); exact H.
    + intro K; inversion K; subst. apply (Hfuel j st H). exact E1.
  - pose proof (eval_range_fuel r st H) as K.
    destruct (eval_range w rec_c r st) as [[vs s1]|e] eqn:E1.
    + apply IH. rewrite (free_ext _ _ (eval_range_ext w rec_c Hext _ _ _ _ E1)); exact H.
    + intro K1; inversion K1; subst; apply K; reflexivity.
Qed.

Lemma eval_body_fuel : forall c st, (free st < S F)%nat ->
  eval_body w rec_c c st <> Raise OutOfFuel.
Proof.
  intros c st H. unfold eval_body.
  destruct (built (getc st c)) eqn:B; cbn [negb]; [|discriminate].
  destruct (needs_calc st c) eqn:N; [|discriminate].
  destruct (formula (spec w c)) as [[b ts]|]; [|discriminate].
  pose proof (free_start c st B N) as Hs.
  assert (H1 : (free (start_calcs c st) < F)%nat) by lia.
  pose proof (eval_terms_fuel ts (Qred b) _ H1) as K.
  destruct (eval_terms w rec_c ts (Qred b) (start_calcs c st)) as [[q s2]|e]; [discriminate|].
  intro K1; inversion K1; subst; apply K; reflexivity.
Qed.
End Rec.

Lemma eval_cell_fuel : forall fuel c st, (free st < fuel)%nat ->
  eval_cell w fuel c st <> Raise OutOfFuel.
Proof.
  induction fuel as [|f IH]; intros c st H; [lia|]. cbn [eval_cell].
  apply eval_body_fuel with (F := f); auto. apply eval_cell_ext.
Qed.

(* the model's fuel: #cells + 1 *)
Lemma eval_cell_enough : forall c st, (length (cells st) <= length (w_cells w))%nat ->
  eval_cell w (eval_fuel w) c st <> Raise OutOfFuel.
Proof.
  intros c st L. apply eval_cell_fuel. unfold eval_fuel, free. pose proof (nwip_le (cells st)). lia.
Qed.
End Fuel.

(* built target: a pass never runs out of fuel *)
Lemma pass_total : forall w t st,
  built (getc st t) = true -> (length (cells st) <= length (w_cells w))%nat ->
  evaluate_pass w t st <> Raise OutOfFuel.
Proof.
  intros w t st B L. unfold evaluate_pass. rewrite B. apply eval_cell_enough; exact L.
Qed.

Lemma pass_frame : forall w t st v st',
  built (getc st t) = true -> evaluate_pass w t st = Ok (v, st') -> ext st st'.
Proof.
  intros w t st v st' B E. unfold evaluate_pass in E. rewrite B in E. eapply eval_cell_ext; eauto.
Qed.

Lemma pass_loop_nofuel : forall w fuel t st,
  built (getc st t) = true -> (length (cells st) <= length (w_cells w))%nat ->
  (iters (tr st) <= itn (tr st) + 1 + Z.of_nat fuel)%Z ->
  pass_loop w fuel t st <> Raise OutOfFuel.
Proof.
  intros w fuel; induction fuel as [|f IH]; intros t st B L Hb; cbn [pass_loop];
    pose proof (pass_total w t (inc_iteration st) B L) as K;
    destruct (evaluate_pass w t (inc_iteration st)) as [[u s1]|e1] eqn:E;
    try (intro K1; inversion K1; subst; apply K; reflexivity);
    pose proof (evaluate_pass_cfg _ _ _ _ _ E) as (Ei & _ & En); cbn in Ei, En;
    destruct (pass_frame w t (inc_iteration st) u s1 B E) as ((L1 & B1) & _ & _).
  - unfold done. replace (iters (tr s1) <=? itn (tr s1))%Z with true; [discriminate|].
    symmetry; apply Z.leb_le; lia.
  - destruct (done s1); [discriminate|]. apply IH.
    + rewrite B1. exact B.
    + rewrite L1. exact L.
    + lia.
Qed.

Lemma iterative_nofuel : forall w t it tolv st,
  built (getc st t) = true -> (length (cells st) <= length (w_cells w))%nat ->
  evaluate_iterative w t it tolv st <> Raise OutOfFuel.
Proof.
  intros w t it tolv st B L. unfold evaluate_iterative. apply pass_loop_nofuel; auto.
  cbn [tr sett itn iters]. lia.
Qed.

(* ------------------------------------------------------------------ *)
(* 3. The cone of a target; totality for linear cell formulas.          *)

Definition closed (w : wbook) (S : nat -> Prop) : Prop :=
  forall c b ts a j, S c -> formula (spec w c) = Some (b, ts) -> In (TCell a j) ts -> S j.

Inductive reach (w : wbook) (t : nat) : nat -> Prop :=
| reach_refl : reach w t t
| reach_step : forall c b ts a j, reach w t c -> formula (spec w c) = Some (b, ts) ->
    In (TCell a j) ts -> reach w t j.

Lemma reach_closed : forall w t, closed w (reach w t).
Proof. intros w t c b ts a j H F I. eapply reach_step; eauto. Qed.

Definition cone_built (w : wbook) (t : nat) (st : state) : Prop :=
  forall c, reach w t c -> built (getc st c) = true.

Section Total.
Variable w : wbook.
Variable S : nat -> Prop.
Hypothesis Hns : no_sum w.
Hypothesis Hcl : closed w S.

Definition all_built (st : state) : Prop := forall c, S c -> built (getc st c) = true.

Lemma all_built_ext : forall st st', ext st st' -> all_built st -> all_built st'.
Proof. intros st st' ((_ & B) & _) H c Hc. rewrite B. apply H; exact Hc. Qed.

Section Rec.
Variable rec_c : nat -> state -> res (val * state).
Variable F : nat.
Hypothesis Hext : forall c st v st', rec_c c st = Ok (v, st') -> ext st st'.
Hypothesis Hok : forall c st, S c -> all_built st -> (free st < F)%nat ->
  exists v st', rec_c c st = Ok (v, st').

Lemma eval_terms_ok : forall ts acc st,
  no_sum_terms ts -> (forall a j, In (TCell a j) ts -> S j) -> all_built st -> (free st < F)%nat ->
  exists q st', eval_terms w rec_c ts acc st = Ok (q, st').
Proof.
  induction ts as [|[a j|a r] ts IH]; intros acc st Hn HS HB H; cbn [eval_terms].
  - eauto.
  - destruct (Hok j st (HS a j (or_introl eq_refl)) HB H) as (v & s1 & E1). rewrite E1.
    pose proof (Hext _ _ _ _ E1) as X.
    apply IH.
    + intros t Ht; apply Hn; right; exact Ht.
    + intros a' j' Hin; apply (HS a' j'); right; exact Hin.
    + eapply all_built_ext; eauto.
    + rewrite (free_ext _ _ X); exact H.
  - exfalso. apply (Hn (TSum a r)). left; reflexivity.
Qed.

Lemma eval_body_ok : forall c st, S c -> all_built st -> (free st < Datatypes.S F)%nat ->
  exists v st', eval_body w rec_c c st = Ok (v, st').
Proof.
  intros c st Hc HB H. unfold eval_body. rewrite (HB c Hc). cbn [negb].
  destruct (needs_calc st c) eqn:N; [|eauto].
  destruct (formula (spec w c)) as [[b ts]|] eqn:Fm; [|eauto].
  pose proof (free_start c st (HB c Hc) N) as Hs.
  assert (HB1 : all_built (start_calcs c st)).
  { intros c' Hc'. destruct (Nat.eq_dec c c') as [<-|Hne].
    - rewrite getc_start_same by (apply built_in_range; apply HB; exact Hc). cbn [built]. apply HB; exact Hc.
    - rewrite getc_start_other by exact Hne. apply HB; exact Hc'. }
  destruct (eval_terms_ok ts (Qred b) (start_calcs c st)) as (q & s2 & E1).
  - eapply Hns; eauto.
  - intros a j Hin. eapply Hcl; eauto.
  - exact HB1.
  - lia.
  - rewrite E1. eauto.
Qed.
End Rec.

Lemma eval_cell_ok : forall fuel c st, S c -> all_built st -> (free st < fuel)%nat ->
  exists v st', eval_cell w fuel c st = Ok (v, st').
Proof.
  induction fuel as [|f IH]; intros c st Hc HB H; [lia|]. cbn [eval_cell].
  apply eval_body_ok with (F := f); auto. apply eval_cell_ext.
Qed.
End Total.

Lemma pass_ok : forall w t st, no_sum w -> cone_built w t st ->
  (length (cells st) <= length (w_cells w))%nat ->
  exists v st', evaluate_pass w t st = Ok (v, st').
Proof.
  intros w t st Hns HB L. unfold evaluate_pass. rewrite (HB t (reach_refl w t)).
  apply eval_cell_ok with (S := reach w t); auto.
  - apply reach_closed.
  - apply reach_refl.
  - unfold eval_fuel, free. pose proof (nwip_le (cells st)). lia.
Qed.

Lemma pass_loop_ok : forall w fuel t st, no_sum w -> cone_built w t st ->
  (length (cells st) <= length (w_cells w))%nat ->
  (iters (tr st) <= itn (tr st) + 1 + Z.of_nat fuel)%Z ->
  exists v st', pass_loop w fuel t st = Ok (v, st').
Proof.
  intros w fuel; induction fuel as [|f IH]; intros t st Hns HB L Hb; cbn [pass_loop];
    destruct (pass_ok w t (inc_iteration st) Hns HB L) as (u & s1 & E); rewrite E;
    pose proof (evaluate_pass_cfg _ _ _ _ _ E) as (Ei & _ & En); cbn in Ei, En;
    pose proof (pass_frame w t (inc_iteration st) u s1 (HB t (reach_refl w t)) E) as X.
  - unfold done. replace (iters (tr s1) <=? itn (tr s1))%Z with true; [cbn; eauto|].
    symmetry; apply Z.leb_le; lia.
  - destruct (done s1); [eauto|]. apply IH; auto.
    + intros c Hc. destruct X as ((_ & B1) & _). rewrite B1. apply HB; exact Hc.
    + destruct X as ((L1 & _) & _). rewrite L1. exact L.
    + lia.
Qed.

Lemma iterative_ok : forall w t it tolv st, no_sum w -> cone_built w t st ->
  (length (cells st) <= length (w_cells w))%nat ->
  exists v st', evaluate_iterative w t it tolv st = Ok (v, st').
Proof.
  intros w t it tolv st Hns HB L. unfold evaluate_iterative. apply pass_loop_ok; auto.
  cbn [tr sett itn iters]. lia.
Qed.
