(* Proofs/C16Order.v — the order on ExcelCmp keys of ALL scalars (numbers 0,
   text 1, logicals 2, error codes 3: [kwf] of Proofs/C16.v), as MATCH uses it:
   <= is reflexive and transitive, < is the negation of the converse <=, the
   type rank is monotone; adjacent-sorted lists of keys are pairwise sorted. *)
From Coq Require Import ZArith QArith List Bool Lia.
From PV Require Import Lib.Py Model.Ops Proofs.C10 Proofs.C10Order Model.LookupCore Proofs.C16.
Import ListNotations.
Open Scope Z_scope.

(* the class of a well-formed key as C10Order's [key_ok] names it (an error
   code is text there) *)
Definition canon (t : Z) : Z := if t =? 3 then 1 else t.

Lemma kwf_canon t v : kwf (t, v) -> key_ok (canon t, v).
Proof.
  unfold kwf, canon. cbn [fst snd key_ok].
  destruct v; try contradiction; intros H; try (subst t; reflexivity).
  destruct H as [-> | ->]; reflexivity.
Qed.

Lemma kle_refl k : kwf k -> kle k k.
Proof.
  destruct k as [t v]. intros W. apply kle_spec. right. split; [reflexivity|].
  unfold vle. rewrite (py_eq_key_refl (canon t) v (kwf_canon t v W)). reflexivity.
Qed.

Lemma kle_trans_wf a b c : kwf a -> kwf b -> kwf c -> kle a b -> kle b c -> kle a c.
Proof.
  destruct a as [ta va], b as [tb vb], c as [tc vc]. intros Wa Wb Wc H1 H2.
  apply kle_spec in H1. apply kle_spec in H2. apply kle_spec.
  destruct H1 as [H1|[E1 H1]]; destruct H2 as [H2|[E2 H2]]; try (left; lia).
  subst tb tc. right. split; [reflexivity|].
  exact (vle_trans (canon ta) va vb vc (kwf_canon _ _ Wa) (kwf_canon _ _ Wb) (kwf_canon _ _ Wc) H1 H2).
Qed.

Lemma kle_type a b : kle a b -> fst a <= fst b.
Proof.
  destruct a as [ta va], b as [tb vb]. intros H. apply kle_spec in H. cbn [fst]. lia.
Qed.

(* x < k and k <= x are complementary, both defined *)
Lemma klt_kle_neg x k : kwf x -> kwf k ->
  exists b, key_lt true x k = Ok b /\ key_lt false k x = Ok (negb b).
Proof.
  intros Wx Wk.
  destruct (cmp_ops_consistent k x (kwf_class k x Wk Wx))
    as (lt & eq & gt & _ & _ & Hgt & _ & _ & Hle & _).
  cbn [cmp_apply] in Hgt, Hle.
  destruct (key_lt true x k) as [b|e]; cbn [bind] in Hgt; [|discriminate].
  destruct (key_lt false k x) as [b'|e]; cbn [bind] in Hle; [|discriminate].
  injection Hgt as ->. injection Hle as ->. eauto.
Qed.

Lemma klt_not_kle x k : kwf x -> kwf k -> klt x k -> ~ kle k x.
Proof.
  intros Wx Wk H Hle. destruct (klt_kle_neg x k Wx Wk) as (b & Hb & Hb').
  unfold klt, kle in *. rewrite Hb in H. injection H as ->. rewrite Hb' in Hle. discriminate.
Qed.

Lemma nlt_kle x k : kwf x -> kwf k -> key_lt true x k = Ok false -> kle k x.
Proof. intros Wx Wk H. apply key_nlt_le; assumption. Qed.

Lemma kle_or_klt x k : kwf x -> kwf k -> kle k x \/ klt x k.
Proof.
  intros Wx Wk. destruct (klt_kle_neg x k Wx Wk) as ([|] & Hb & Hb'); [right|left]; assumption.
Qed.

(* equal keys are <= both ways *)
Lemma key_eq_kle a b : key_eq a b = true -> kle a b.
Proof.
  destruct a as [ta va], b as [tb vb]. intros H. apply key_eq_spec in H. destruct H as [-> H].
  apply kle_spec. right. split; [reflexivity|]. unfold vle. rewrite H. reflexivity.
Qed.
Lemma key_eq_kle_rev a b : kwf a -> kwf b -> key_eq a b = true -> kle b a.
Proof.
  destruct a as [ta va], b as [tb vb]. intros Wa Wb H. apply key_eq_spec in H. destruct H as [-> H].
  apply kle_spec. right. split; [reflexivity|]. unfold vle.
  rewrite (py_eq_sym_scalar va vb (kwf_class (tb, va) (tb, vb) Wa Wb eq_refl)), H. reflexivity.
Qed.

(* neither k < x nor k = x: then x < k *)
Lemma not_lt_not_eq_gt k x : kwf k -> kwf x ->
  key_lt true k x = Ok false -> key_eq k x = false -> klt x k.
Proof.
  intros Wk Wx Hlt Heq.
  destruct (cmp_ops_consistent k x (kwf_class k x Wk Wx))
    as (lt & eq & gt & Hl & He & Hg & H3 & _).
  cbn [cmp_apply] in Hl, He, Hg. rewrite Hlt in Hl. cbn [bind] in Hl. injection Hl as <-.
  rewrite Heq in He. injection He as <-.
  unfold klt. destruct (key_lt true x k) as [g|e]; cbn [bind] in Hg; [|discriminate].
  injection Hg as ->.
  destruct H3 as [(A & _)|[(_ & A & _)|(_ & _ & A)]]; try discriminate. subst gt. reflexivity.
Qed.

Lemma klt_kle x k : kwf x -> kwf k -> klt x k -> kle x k.
Proof.
  intros Wx Wk H. destruct (kle_or_klt k x Wk Wx) as [H'|H']; [exact H'|].
  exfalso. destruct (klt_kle_neg x k Wx Wk) as (b & Hb & Hb'). unfold klt in H. rewrite Hb in H.
  injection H as ->. cbn [negb] in Hb'.
  (* k < x as well: then x <= k fails, but also k <= x fails from x < k *)
  destruct (klt_kle_neg k x Wk Wx) as (b2 & Hb2 & Hb2'). unfold klt in H'. rewrite Hb2 in H'.
  injection H' as ->. cbn [negb] in Hb2'.
  (* trichotomy: x < k and k < x cannot both hold *)
  destruct (cmp_ops_consistent k x (kwf_class k x Wk Wx))
    as (lt & eq & gt & Hl & _ & Hg & H3 & _).
  cbn [cmp_apply] in Hl, Hg. rewrite Hb2 in Hl. rewrite Hb in Hg. cbn [bind] in Hl, Hg.
  injection Hl as <-. injection Hg as <-.
  destruct H3 as [(_ & _ & A)|[(A & _)|(A & _)]]; discriminate.
Qed.

(* ------------------------------------------------------------ sorted lists *)
(* adjacent pairs in order (what "sorted" means cell by cell) *)
Definition adjacent (R : key -> key -> Prop) (ks : list key) : Prop :=
  forall i ki kj, nth_error ks i = Some ki -> nth_error ks (S i) = Some kj -> R ki kj.
Definition ascending (ks : list key) : Prop := adjacent kle ks.
Definition descending (ks : list key) : Prop := adjacent (fun a b => kle b a) ks.

Lemma nth_error_wf (ks : list key) i k : Forall kwf ks -> nth_error ks i = Some k -> kwf k.
Proof.
  intros H Hn. rewrite Forall_forall in H. apply H. eapply nth_error_In; eauto.
Qed.

Lemma ascending_pairwise ks : Forall kwf ks -> ascending ks ->
  forall i j ki kj, (i <= j)%nat -> nth_error ks i = Some ki -> nth_error ks j = Some kj -> kle ki kj.
Proof.
  intros W A i j. induction j as [|j IH]; intros ki kj Hij Hi Hj.
  - assert (i = 0)%nat by lia. subst i. rewrite Hi in Hj. injection Hj as <-.
    apply kle_refl. eapply nth_error_wf; eauto.
  - destruct (Nat.eq_dec i (S j)) as [->|Hne].
    + rewrite Hi in Hj. injection Hj as <-. apply kle_refl. eapply nth_error_wf; eauto.
    + destruct (nth_error ks j) as [km|] eqn:Em.
      * apply (kle_trans_wf ki km kj); try (eapply nth_error_wf; eauto; fail).
        -- apply IH; [lia|exact Hi|reflexivity].
        -- exact (A j km kj Em Hj).
      * apply nth_error_None in Em. assert (nth_error ks (S j) <> None) by congruence.
        apply nth_error_Some in H. lia.
Qed.

Lemma descending_pairwise ks : Forall kwf ks -> descending ks ->
  forall i j ki kj, (i <= j)%nat -> nth_error ks i = Some ki -> nth_error ks j = Some kj -> kle kj ki.
Proof.
  intros W A i j. induction j as [|j IH]; intros ki kj Hij Hi Hj.
  - assert (i = 0)%nat by lia. subst i. rewrite Hi in Hj. injection Hj as <-.
    apply kle_refl. eapply nth_error_wf; eauto.
  - destruct (Nat.eq_dec i (S j)) as [->|Hne].
    + rewrite Hi in Hj. injection Hj as <-. apply kle_refl. eapply nth_error_wf; eauto.
    + destruct (nth_error ks j) as [km|] eqn:Em.
      * apply (kle_trans_wf kj km ki); try (eapply nth_error_wf; eauto; fail).
        -- exact (A j km kj Em Hj).
        -- apply IH; [lia|exact Hi|reflexivity].
      * apply nth_error_None in Em. assert (nth_error ks (S j) <> None) by congruence.
        apply nth_error_Some in H. lia.
Qed.

(* keys computed by abs_key are well formed *)
Lemma mapM_abs_wf l ks : mapM abs_key l = Ok ks -> Forall kwf ks.
Proof.
  revert ks. induction l as [|c l IH]; intros ks; cbn [mapM].
  - intros H. injection H as <-. constructor.
  - destruct (abs_key c) as [k|e] eqn:Ek; cbn [bind]; [|discriminate].
    destruct (mapM abs_key l) as [ks'|e]; cbn [bind]; [|discriminate].
    intros H. injection H as <-. constructor; [eapply abs_key_wf; eauto|apply IH; reflexivity].
Qed.

(* examples (non-vacuity): keys of a number, a text, a logical, an error code *)
Example ex_kwf : kwf (0, VInt 1) /\ kwf (0, VFloat (5 # 2)) /\ kwf (1, VStr [97]) /\ kwf (2, VBool true)
  /\ kwf (3, excelutil.c_DIV0).
Proof.
  unfold kwf. cbn [fst snd excelutil.c_DIV0].
  split; [reflexivity|]. split; [reflexivity|]. split; [left; reflexivity|].
  split; [reflexivity|right; reflexivity].
Qed.
Example ex_kle_chain : kle (0, VInt 1) (0, VFloat (5 # 2)) /\ kle (0, VFloat (5 # 2)) (1, VStr [97])
  /\ kle (1, VStr [97]) (3, excelutil.c_DIV0).
Proof. repeat split; vm_compute; reflexivity. Qed.
