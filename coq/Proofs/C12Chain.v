(* Proofs/C12Chain.v — C12, failing cells, part 0: the chain-carrying machine of
   Model/ValidateFail.v IS the machine of Model/Fail.v (the subject of C09 and of
   its differential run): forgetting the chain, [eval_c] / [build_c] /
   [evaluate_c] are [eval_f] / [build_f] / [evaluate_f] — same state, same
   value, same error class. *)
From Coq Require Import List Arith Bool Lia.
From PV Require Import Lib.Py Model.Graph Model.Fail Model.Validate Model.ValidateFail.
Import ListNotations.

Section Erase.
  Variable W : workbook.
  Variable fsem : nat -> list pyval -> option pyval.
  Variable fpre : nat -> option nat.
  Variable rorder : (nat -> bool) -> nat -> list nat.

  Notation eval_f := (eval_f W fsem fpre).
  Notation eval_c := (eval_c W fsem fpre).

  Definition erase_acc (a : list pyval + errclass * chain) : list pyval + errclass :=
    match a with inl vs => inl vs | inr (e, _) => inr e end.

  Lemma fold_erase f :
    (forall c n, eval_f f c n = (fst (eval_c f c n), erase (snd (eval_c f c n)))) ->
    forall l c a,
      fold_left (fstep (eval_f f)) l (c, erase_acc a)
      = (fst (fold_left (cstep (eval_c f)) l (c, a)),
         erase_acc (snd (fold_left (cstep (eval_c f)) l (c, a)))).
  Proof.
    intros IH. induction l as [|d l IHl]; intros c a; cbn [fold_left]; auto.
    destruct a as [vs|[e ch]]; cbn [erase_acc fstep cstep].
    - rewrite IH. destruct (eval_c f c d) as [c2 r]. cbn [fst snd].
      destruct r as [v|e ch]; cbn [erase].
      + apply (IHl c2 (inl (vs ++ [v]))).
      + apply (IHl c2 (inr (e, ch))).
    - apply (IHl c (inr (e, ch))).
  Qed.

  Theorem eval_c_erase : forall f c n,
    eval_f f c n = (fst (eval_c f c n), erase (snd (eval_c f c n))).
  Proof.
    induction f as [|f IH]; intros c n; [reflexivity|].
    cbn [Fail.eval_f ValidateFail.eval_c].
    destruct (wb_input W n); [reflexivity|].
    destruct (is_none (c n)); [|reflexivity].
    pose proof (fold_erase f IH (reads W fpre n) c (inl [])) as F. cbn [erase_acc] in F.
    rewrite F. destruct (fold_left (cstep (eval_c f)) (reads W fpre n) (c, inl [])) as [c' r].
    cbn [fst snd]. destruct r as [vals|[e ch]]; cbn [erase_acc].
    - unfold compute_c. destruct (compute fsem fpre n vals); reflexivity.
    - reflexivity.
  Qed.

  Definition erase_opt (r : option (errclass * chain)) : option errclass :=
    match r with Some (e, _) => Some e | None => None end.

  Lemma bfold_erase b0 b' : forall l c r,
    fold_left (bstep_f W fsem fpre b0 b') l (c, erase_opt r)
    = (fst (fold_left (bstep_c W fsem fpre b0 b') l (c, r)),
       erase_opt (snd (fold_left (bstep_c W fsem fpre b0 b') l (c, r)))).
  Proof.
    induction l as [|m l IHl]; intros c r; cbn [fold_left]; auto.
    destruct r as [[e ch]|]; cbn [erase_opt bstep_f bstep_c].
    - apply (IHl c (Some (e, ch))).
    - destruct (b' m && negb (b0 m) && wb_range W m).
      + rewrite eval_c_erase. destruct (eval_c (S (wb_n W)) c m) as [c2 x]. cbn [fst snd].
        destruct x as [v|e ch]; cbn [erase].
        * apply (IHl c2 None).
        * apply (IHl c2 (Some (e, ch))).
      + apply (IHl c None).
  Qed.

  Theorem build_c_erase s n :
    build_f W fsem fpre rorder s n
    = (fst (build_c W fsem fpre rorder s n), erase_opt (snd (build_c W fsem fpre rorder s n))).
  Proof.
    unfold build_f, build_c. cbv zeta.
    set (b' := closure W (S (wb_n W)) (st_built s) n).
    pose proof (bfold_erase (st_built s) b' (rorder (st_built s) n ++ seq 0 (wb_n W))
                            (new_cells W s b') None) as F.
    cbn [erase_opt] in F. rewrite F.
    destruct (fold_left (bstep_c W fsem fpre (st_built s) b') (rorder (st_built s) n ++ seq 0 (wb_n W))
                        (new_cells W s b', None)) as [c2 r].
    reflexivity.
  Qed.

  Theorem evaluate_c_erase s n :
    evaluate_f W fsem fpre rorder s n
    = (fst (evaluate_c W fsem fpre rorder s n), erase (snd (evaluate_c W fsem fpre rorder s n))).
  Proof.
    unfold evaluate_f, evaluate_c. rewrite build_c_erase.
    destruct (build_c W fsem fpre rorder s n) as [s1 r]. cbn [fst snd].
    destruct r as [[e ch]|]; cbn [erase_opt]; [reflexivity|].
    rewrite eval_c_erase. destruct (eval_c (S (wb_n W)) (st_cache s1) n) as [c v]. reflexivity.
  Qed.
End Erase.
