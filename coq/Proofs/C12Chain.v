(* Proofs/C12Chain.v — C12, failing cells, part 0: the chain-carrying machine of
   Model/ValidateFail.v IS the machine of Model/Fail.v (the subject of C09 and of
   its differential run): forgetting the chain, [eval_c] / [build_c] /
   [evaluate_c] are [eval_f] / [build_f] / [evaluate_f] — same state, same
   value, same error class. *)
From Coq Require Import List Arith Bool Lia ZArith.
From PV Require Import Lib.Py Model.Graph Model.Fail Model.Validate Model.ValidateFail.
Import ListNotations.

Section Erase.
  Variable W : workbook.
  Variable fsem : nat -> list pyval -> option pyval.
  Variable fpre : nat -> option nat.
  Variable rorder : (nat -> bool) -> nat -> list nat.

  Notation eval_f := (eval_f W fsem fpre).
  Notation eval_c := (eval_c W fsem fpre).

  Definition erase_acc (a : list pyval + errclass * chain) : list pyval + errclass :=
    match a with inl vs => inl vs | inr (e, _) => inr e end.

  Lemma fold_erase f :
    (forall c n, eval_f f c n = (fst (eval_c f c n), erase (snd (eval_c f c n)))) ->
    forall l c a,
      fold_left (fstep (eval_f f)) l (c, erase_acc a)
      = (fst (fold_left (cstep (eval_c f)) l (c, a)),
         erase_acc (snd (fold_left (cstep (eval_c f)) l (c, a)))).
  Proof.
    intros IH. induction l as [|d l IHl]; intros c a; cbn [fold_left]; auto.
    destruct a as [vs|[e ch]]; cbn [erase_acc fstep cstep].
    - rewrite IH. destruct (eval_c f c d) as [c2 r]. cbn [fst snd].
      destruct r as [v|e ch]; cbn [erase].
      + apply (IHl c2 (inl (vs ++ [v]))).
      + apply (IHl c2 (inr (e, ch))).
    - apply (IHl c (inr (e, ch))).
  Qed.

  Theorem eval_c_erase : forall f c n,
    eval_f f c n = (fst (eval_c f c n), erase (snd (eval_c f c n))).
  Proof.
    induction f as [|f IH]; intros c n; [reflexivity|].
    cbn [Fail.eval_f ValidateFail.eval_c].
    destruct (wb_input W n); [reflexivity|].
    destruct (is_none (c n)); [|reflexivity].
    pose proof (fold_erase f IH (reads W fpre n) c (inl [])) as F. cbn [erase_acc] in F.
    rewrite F. destruct (fold_left (cstep (eval_c f)) (reads W fpre n) (c, inl [])) as [c' r].
    cbn [fst snd]. destruct r as [vals|[e ch]]; cbn [erase_acc].
    - unfold compute_c. destruct (compute fsem fpre n vals); reflexivity.
    - reflexivity.
  Qed.

  Definition erase_opt (r : option (errclass * chain)) : option errclass :=
    match r with Some (e, _) => Some e | None => None end.

  Lemma bfold_erase b0 b' : forall l c r,
    fold_left (bstep_f W fsem fpre b0 b') l (c, erase_opt r)
    = (fst (fold_left (bstep_c W fsem fpre b0 b') l (c, r)),
       erase_opt (snd (fold_left (bstep_c W fsem fpre b0 b') l (c, r)))).
  Proof.
    induction l as [|m l IHl]; intros c r; cbn [fold_left]; auto.
    destruct r as [[e ch]|]; cbn [erase_opt bstep_f bstep_c].
    - apply (IHl c (Some (e, ch))).
    - destruct (b' m && negb (b0 m) && wb_range W m).
      + rewrite eval_c_erase. destruct (eval_c (S (wb_n W)) c m) as [c2 x]. cbn [fst snd].
        destruct x as [v|e ch]; cbn [erase].
        * apply (IHl c2 None).
        * apply (IHl c2 (Some (e, ch))).
      + apply (IHl c None).
  Qed.

  Theorem build_c_erase s n :
    build_f W fsem fpre rorder s n
    = (fst (build_c W fsem fpre rorder s n), erase_opt (snd (build_c W fsem fpre rorder s n))).
  Proof.
    unfold build_f, build_c. cbv zeta.
    set (b' := closure W (S (wb_n W)) (st_built s) n).
    pose proof (bfold_erase (st_built s) b' (rorder (st_built s) n ++ seq 0 (wb_n W))
                            (new_cells W s b') None) as F.
    cbn [erase_opt] in F. rewrite F.
    destruct (fold_left (bstep_c W fsem fpre (st_built s) b') (rorder (st_built s) n ++ seq 0 (wb_n W))
                        (new_cells W s b', None)) as [c2 r].
    reflexivity.
  Qed.

  Theorem evaluate_c_erase s n :
    evaluate_f W fsem fpre rorder s n
    = (fst (evaluate_c W fsem fpre rorder s n), erase (snd (evaluate_c W fsem fpre rorder s n))).
  Proof.
    unfold evaluate_f, evaluate_c. rewrite build_c_erase.
    destruct (build_c W fsem fpre rorder s n) as [s1 r]. cbn [fst snd].
    destruct r as [[e ch]|]; cbn [erase_opt]; [reflexivity|].
    rewrite eval_c_erase. destruct (eval_c (S (wb_n W)) (st_cache s1) n) as [c v]. reflexivity.
  Qed.
End Erase.

(* ------------------------------------------------ the two dictionaries of [failed]
   every entry appended by the except branch sits in exactly one of the two
   dictionaries — 'not-implemented' iff [not_implemented] of its chain — under
   the text of [key_of] its chain; nothing else is in them *)
Section BucketsFacts.
  Variable fpre : nat -> option nat.
  Variable fnimp : nat -> bool.
  Variable ktext : exckey -> list Z.

  Definition in_bucket (b : bucket) (k : list Z) (e : entry) : Prop :=
    exists k' es, In (k', es) b /\ zs_eqb k' k = true /\ In e es.

  Lemma zs_eqb_refl a : zs_eqb a a = true.
  Proof. induction a as [|x a IH]; cbn; auto. now rewrite Z.eqb_refl. Qed.
  Lemma zs_eqb_eq a : forall b, zs_eqb a b = true -> a = b.
  Proof.
    induction a as [|x a IH]; intros [|y b] H; cbn in H; try discriminate; auto.
    apply andb_prop in H. destruct H as [H1 H2]. apply Z.eqb_eq in H1. subst. f_equal. auto.
  Qed.

  Lemma bucket_add_in b k e : forall k0 x,
    in_bucket (bucket_add b k e) k0 x <-> in_bucket b k0 x \/ (zs_eqb k k0 = true /\ x = e).
  Proof.
    induction b as [|[k1 es1] b IH]; intros k0 x; cbn [bucket_add].
    - split.
      + intros (k' & es & [H|[]] & E & I). injection H as E1 E2; subst k' es. destruct I as [<-|[]]. auto.
      + intros [(k' & es & [] & _)|[E ->]]. exists k; exists [e]. cbn. auto.
    - destruct (zs_eqb k1 k) eqn:K.
      + apply zs_eqb_eq in K. subst k1. split.
        * intros (k' & es & [H|H] & E & I).
          -- injection H as E1 E2; subst k' es. apply in_app_or in I. destruct I as [I|[<-|[]]]; auto.
             left. exists k; exists es1. cbn. auto.
          -- left. exists k'; exists es. cbn. auto.
        * intros [(k' & es & [H|H] & E & I)|[E ->]].
          -- injection H as E1 E2; subst k' es. exists k; exists (es1 ++ [e]). cbn. repeat split; auto. apply in_or_app. auto.
          -- exists k'; exists es. cbn. auto.
          -- exists k; exists (es1 ++ [e]). cbn. repeat split; auto. apply in_or_app. right. left. auto.
      + split.
        * intros (k' & es & [H|H] & E & I).
          -- injection H as E1 E2; subst k' es. left. exists k1; exists es1. cbn. auto.
          -- destruct (proj1 (IH k0 x)) as [(k2 & es2 & H2 & E2 & I2)|R]; [exists k'; exists es; auto| |auto].
             left. exists k2; exists es2. cbn. auto.
        * intros [(k' & es & [H|H] & E & I)|R].
          -- exists k'; exists es. cbn. auto.
          -- destruct (proj2 (IH k0 x)) as (k2 & es2 & H2 & E2 & I2); [left; exists k'; exists es; auto|].
             exists k2; exists es2. cbn. auto.
          -- destruct (proj2 (IH k0 x)) as (k2 & es2 & H2 & E2 & I2); [right; auto|].
             exists k2; exists es2. cbn. auto.
  Qed.

  Theorem failed_buckets_spec l : forall k x,
    (in_bucket (fst (failed_buckets fpre fnimp ktext l)) k x <->
       In x l /\ not_implemented fpre fnimp (snd x) = true /\ ktext (key_of fpre (snd x)) = k) /\
    (in_bucket (snd (failed_buckets fpre fnimp ktext l)) k x <->
       In x l /\ not_implemented fpre fnimp (snd x) = false /\ ktext (key_of fpre (snd x)) = k).
  Proof.
    unfold failed_buckets.
    assert (Gen: forall l acc k x,
      (in_bucket (fst (fold_left (failed_add fpre fnimp ktext) l acc)) k x <->
         in_bucket (fst acc) k x \/
         (In x l /\ not_implemented fpre fnimp (snd x) = true /\ ktext (key_of fpre (snd x)) = k)) /\
      (in_bucket (snd (fold_left (failed_add fpre fnimp ktext) l acc)) k x <->
         in_bucket (snd acc) k x \/
         (In x l /\ not_implemented fpre fnimp (snd x) = false /\ ktext (key_of fpre (snd x)) = k))).
    { clear l. induction l as [|e l IH]; intros acc k x; cbn [fold_left].
      - split; split; auto; intros [H|([] & _)]; auto.
      - destruct (IH (failed_add fpre fnimp ktext acc e) k x) as [A B]. rewrite A, B.
        unfold failed_add. destruct (not_implemented fpre fnimp (snd e)) eqn:NI; cbn [fst snd];
          rewrite ?bucket_add_in; split; split.
        all: cbn [In]; intros H;
          repeat match goal with
                 | H : _ \/ _ |- _ => destruct H
                 | H : _ /\ _ |- _ => destruct H
                 end; subst; auto;
          try congruence;
          try (right; split; [left; reflexivity|split; [assumption|now apply zs_eqb_eq]]);
          try (left; right; split; [apply zs_eqb_refl|reflexivity]);
          try (right; split; [right; assumption|split; [assumption|reflexivity]]);
          try tauto. }
    intros k x. destruct (Gen l ([], []) k x) as [A B]. rewrite A, B. cbn [fst snd].
    split; split; auto; intros [(k' & es & [] & _)|H]; auto.
  Qed.
End BucketsFacts.
