(* Proofs/C02Number.v — number literals of C02: the text of an Excel number
   (digits, decimal point, exponent) read by Python's literal grammar
   ([py_number]: py_decint / Lib/Py.v parse_float) is the number Excel reads
   ([xl_number]). *)
From Coq Require Import String.
From Coq Require Import ZArith QArith List Bool Lia.
From PV Require Import Lib.Py Model.Syntax Model.Emit Model.FormulaEval Proofs.C02.
Import ListNotations.
Open Scope Z_scope.

(* ------------------------------------------------------------ span *)
Lemma span_spec (p : Z -> bool) s : forall a b, span p s = (a, b) ->
  s = a ++ b /\ forallb p a = true /\ match b with c :: _ => p c = false | [] => True end.
Proof.
  induction s as [|c s IH]; intros a b H; cbn [span] in H.
  - injection H as <- <-. repeat split.
  - destruct (p c) eqn:Pc.
    + destruct (span p s) as [a' b'] eqn:S. injection H as <- <-.
      destruct (IH a' b' eq_refl) as (E & F & G). subst s. cbn [app forallb]. rewrite Pc, F.
      repeat split. exact G.
    + injection H as <- <-. cbn [app forallb]. repeat split. exact Pc.
Qed.

Lemma span_digits ds rest : forallb is_digit ds = true ->
  match rest with c :: _ => is_digit c = false | [] => True end ->
  span is_digit (ds ++ rest) = (ds, rest).
Proof.
  intros D R. induction ds as [|d ds IH]; cbn [app].
  - destruct rest as [|c r]; [reflexivity|]. cbn [span]. rewrite R. reflexivity.
  - cbn [forallb] in D. apply andb_prop in D. destruct D as [D1 D2]. cbn [span].
    rewrite D1, (IH D2). reflexivity.
Qed.

(* ------------------------------------------------------------ digits *)
Lemma is_digit_cases d : is_digit d = true ->
  d = 48 \/ d = 49 \/ d = 50 \/ d = 51 \/ d = 52 \/ d = 53 \/ d = 54 \/ d = 55 \/ d = 56 \/ d = 57.
Proof. unfold is_digit. intros H. apply andb_prop in H. destruct H as [A B].
  apply Z.leb_le in A. apply Z.leb_le in B. lia. Qed.

Lemma is_digit_range d : is_digit d = true <-> 48 <= d <= 57.
Proof. unfold is_digit. rewrite andb_true_iff, !Z.leb_le. tauto. Qed.

Lemma dec_value_app a b acc : dec_value (a ++ b) acc = dec_value b (dec_value a acc).
Proof. revert acc. induction a as [|c a IH]; intros acc; cbn [app dec_value]; auto. Qed.

(* Lib/Py.v split_digits on a run of digits followed by something that is
   neither a digit nor an underscore *)
Definition stops (rest : list Z) : Prop :=
  match rest with c :: _ => is_digit c = false /\ c <> 95 | [] => True end.

Lemma split_digits_run ds rest : forallb is_digit ds = true -> stops rest ->
  forall acc n pd, split_digits (ds ++ rest) acc n pd = Some (dec_value ds acc, n + zlen ds, rest).
Proof.
  intros D R. induction ds as [|d ds IH]; intros acc n pd.
  - cbn [app dec_value]. unfold zlen. cbn [length Z.of_nat]. rewrite Z.add_0_r.
    destruct rest as [|c r]; [reflexivity|]. destruct R as [R1 R2]. cbn [split_digits].
    unfold is_digit in R1. rewrite R1. destruct (Z.eqb_spec c 95); [contradiction|reflexivity].
  - cbn [forallb] in D. apply andb_prop in D. destruct D as [D1 D2].
    cbn [app split_digits dec_value]. unfold is_digit in D1. rewrite D1. rewrite (IH D2).
    unfold zlen. cbn [length]. rewrite Nat2Z.inj_succ.
    replace (acc * 10 + (d - 48)) with (10 * acc + (d - 48)) by lia.
    replace (n + 1 + Z.of_nat (length ds)) with (n + Z.succ (Z.of_nat (length ds))) by lia.
    reflexivity.
Qed.

Lemma dec_value_nonneg s : forallb is_digit s = true -> forall acc, 0 <= acc -> 0 <= dec_value s acc.
Proof.
  induction s as [|c s IH]; intros D acc A; cbn [dec_value]; auto.
  cbn [forallb] in D. apply andb_prop in D. destruct D as [D1 D2]. apply is_digit_range in D1.
  apply IH; auto. lia.
Qed.

(* ------------------------------------------------------------ white space, ASCII *)
Lemma lstrip_id s : match s with c :: _ => is_space c = false | [] => True end -> lstrip s = s.
Proof. destruct s as [|c s]; [reflexivity|]. intros H. cbn [lstrip]. rewrite H. reflexivity. Qed.

Lemma strip_id s : forallb (fun c => negb (is_space c)) s = true -> strip s = s.
Proof.
  intros H. unfold strip.
  assert (L: lstrip s = s).
  { apply lstrip_id. destruct s as [|c s]; auto. cbn [forallb] in H. apply andb_prop in H.
    destruct H as [H _]. apply negb_true_iff in H. exact H. }
  rewrite L.
  assert (R: lstrip (rev s) = rev s).
  { apply lstrip_id. destruct (rev s) as [|c r] eqn:E; auto.
    assert (I: In c s) by (apply in_rev; rewrite E; left; reflexivity).
    rewrite forallb_forall in H. apply H in I. apply negb_true_iff in I. exact I. }
  rewrite R. apply rev_involutive.
Qed.

Lemma num_char_props c : num_char c = true -> is_space c = false /\ (127 <? c) = false.
Proof.
  unfold num_char. intros H.
  assert (R: 48 <= c <= 57 \/ c = 46 \/ c = 101 \/ c = 69 \/ c = 43 \/ c = 45 \/ c = 95).
  { repeat (apply orb_prop in H; destruct H as [H|H]);
      try (apply Z.eqb_eq in H; lia). apply is_digit_range in H. lia. }
  split.
  - unfold is_space. apply orb_false_intro; [apply orb_false_intro|].
    + apply Z.eqb_neq. lia.
    + apply andb_false_intro2. apply Z.leb_gt. lia.
    + apply andb_false_intro2. apply Z.leb_gt. lia.
  - apply Z.ltb_ge. lia.
Qed.

Lemma num_chars_ascii s : forallb num_char s = true -> non_ascii s = false.
Proof.
  unfold non_ascii. induction s as [|c s IH]; intros H; [reflexivity|].
  cbn [forallb] in H. apply andb_prop in H. destruct H as [H1 H2]. cbn [existsb].
  destruct (num_char_props c H1) as [_ A]. rewrite A, (IH H2). reflexivity.
Qed.

Lemma num_chars_nospace s : forallb num_char s = true ->
  forallb (fun c => negb (is_space c)) s = true.
Proof.
  induction s as [|c s IH]; intros H; [reflexivity|].
  cbn [forallb] in H. apply andb_prop in H. destruct H as [H1 H2]. cbn [forallb].
  destruct (num_char_props c H1) as [A _]. rewrite A, (IH H2). reflexivity.
Qed.

(* ------------------------------------------------------------ parse_float *)
(* the part of parse_float after the sign: its text with neg = false, cut into
   named pieces (parse_float_start below: equal by computation) *)
Definition pf_sign (r4 : str) : bool * str :=
  match r4 with
  | 45 :: r' => (true, r') | 43 :: r' => (false, r')
  | _ => (false, r4) end.
Definition pf_fin (mant : Q) (e : Z) : res Q :=
  if 300 <? Z.abs e then Raise Unmodelled else Ok (Qred (mant * pow10 e)).
Definition pf_exp (mant : Q) (r3 : str) : res Q :=
  match r3 with
  | [] => pf_fin mant 0
  | e :: r4 =>
      if (e =? 101) || (e =? 69) then
        let '(eneg, r5) := pf_sign r4 in
        match split_digits r5 0 0 false with
        | Some (ev, ne, []) =>
            if ne =? 0 then Raise ValueError else pf_fin mant (if eneg then - ev else ev)
        | _ => Raise ValueError
        end
      else Raise ValueError
  end.
Definition pf_frac (r1 : str) : option (Z * Z * str) :=
  match r1 with
  | 46 :: r2 =>
      match split_digits r2 0 0 false with
      | Some (fp, nf, r3) => Some (fp, nf, r3)
      | None => None
      end
  | _ => Some (0, 0, r1)
  end.
Definition pf_body (t : str) : res Q :=
  match split_digits t 0 0 false with
  | None => Raise ValueError
  | Some (ip, ni, r1) =>
      match pf_frac r1 with
      | None => Raise ValueError
      | Some (fp, nf, r3) =>
          if (ni =? 0) && (nf =? 0) then Raise ValueError else
          pf_exp (inject_Z ip + inject_Z fp * pow10 (- nf))%Q r3
      end
  end.

Lemma parse_float_start c s : (is_digit c || (c =? 46)) = true -> forallb num_char (c :: s) = true ->
  parse_float (c :: s) = pf_body (c :: s).
Proof.
  intros C N. unfold parse_float. rewrite (num_chars_ascii _ N), (strip_id _ (num_chars_nospace _ N)).
  apply orb_prop in C. destruct C as [C|C].
  - destruct (is_digit_cases c C) as [->|[->|[->|[->|[->|[->|[->|[->|[->| ->]]]]]]]]]; reflexivity.
  - apply Z.eqb_eq in C. subst c. reflexivity.
Qed.

(* ------------------------------------------------------------ the shape of an Excel number *)
Definition sgtext (sg : option bool) : str :=
  match sg with Some true => [45] | Some false => [43] | None => [] end.
Definition sgneg (sg : option bool) : bool := match sg with Some true => true | _ => false end.
Definition fr_digits (fr : option str) : str := match fr with Some fp => fp | None => [] end.
Definition frtext (fr : option str) : str := match fr with Some fp => 46 :: fp | None => [] end.
Definition extext (ex : option (Z * option bool * str)) : str :=
  match ex with Some (e, sg, ed) => e :: sgtext sg ++ ed | None => [] end.
Definition ntext (ip : str) (fr : option str) (ex : option (Z * option bool * str)) : str :=
  ip ++ frtext fr ++ extext ex.
Definition nval (ip : str) (fr : option str) (ex : option (Z * option bool * str)) : Q :=
  match ex with
  | None => xl_mant ip (fr_digits fr)
  | Some (_, sg, ed) => xl_scale (sgneg sg) (dec_value ed 0) (xl_mant ip (fr_digits fr))
  end.
Definition exwf (ex : option (Z * option bool * str)) : Prop :=
  match ex with
  | None => True
  | Some (e, sg, ed) =>
      (e = 69 \/ e = 101) /\ forallb is_digit ed = true /\ ed <> [] /\ dec_value ed 0 <= 300
  end.
Definition nwf (ip : str) (fr : option str) (ex : option (Z * option bool * str)) : Prop :=
  forallb is_digit ip = true /\ forallb is_digit (fr_digits fr) = true /\ ip ++ fr_digits fr <> []
  /\ exwf ex.

Lemma xl_sign_shape r neg r4 : xl_sign r = (neg, r4) ->
  exists sg, r = sgtext sg ++ r4 /\ neg = sgneg sg /\
             (sg = None -> match r4 with c :: _ => c <> 45 /\ c <> 43 | [] => True end).
Proof.
  unfold xl_sign. destruct r as [|c r'].
  - intros H. injection H as <- <-. exists None. repeat split.
  - destruct (Z.eqb_spec c 45) as [->|N1].
    + intros H. injection H as <- <-. exists (Some true). repeat split. discriminate.
    + destruct (Z.eqb_spec c 43) as [->|N2]; intros H; injection H as <- <-.
      * exists (Some false). repeat split. discriminate.
      * exists None. repeat split; assumption.
Qed.

Lemma xl_number_shape s q : xl_number s = Some q ->
  exists ip fr ex, s = ntext ip fr ex /\ nwf ip fr ex /\ q = nval ip fr ex.
Proof.
  unfold xl_number. destruct (span is_digit s) as [ip r1] eqn:S1.
  destruct (span_spec _ _ _ _ S1) as (E1 & D1 & _). subst s.
  assert (F: exists fr r2, r1 = frtext fr ++ r2 /\ forallb is_digit (fr_digits fr) = true /\
             (match r1 with c :: r => if c =? 46 then span is_digit r else ([], r1) | [] => ([], r1) end)
             = (fr_digits fr, r2)).
  { destruct r1 as [|c r].
    - exists None, []. repeat split.
    - destruct (Z.eqb_spec c 46) as [->|N].
      + destruct (span is_digit r) as [fp r2] eqn:S2.
        destruct (span_spec _ _ _ _ S2) as (E2 & D2 & _). subst r.
        exists (Some fp), r2. repeat split. exact D2.
      + exists None, (c :: r). repeat split. }
  destruct F as (fr & r2 & -> & D2 & ->).
  destruct (ip ++ fr_digits fr) as [|x xs] eqn:NE; [discriminate|].
  assert (NE': ip ++ fr_digits fr <> []) by (rewrite NE; discriminate). clear NE.
  destruct r2 as [|e r3].
  - intros H. injection H as <-. exists ip, fr, None. unfold ntext, nwf, nval, extext, exwf.
    repeat split; auto.
  - destruct ((e =? 69) || (e =? 101)) eqn:Ee; [|discriminate].
    destruct (xl_sign r3) as [neg r4] eqn:Sg. destruct (xl_sign_shape _ _ _ Sg) as (sg & -> & -> & _).
    destruct (span is_digit r4) as [ed r5] eqn:S3.
    destruct (span_spec _ _ _ _ S3) as (E3 & D3 & _). subst r4.
    destruct ed as [|d ed]; [discriminate|]. destruct r5; [|discriminate].
    destruct (Z.ltb_spec 300 (dec_value (d :: ed) 0)) as [G|G]; [discriminate|].
    intros H. injection H as <-. rewrite app_nil_r.
    exists ip, fr, (Some (e, sg, d :: ed)). unfold ntext, nwf, nval, extext, exwf.
    repeat split; auto; try discriminate.
    apply orb_prop in Ee. destruct Ee as [Ee|Ee]; apply Z.eqb_eq in Ee; auto.
Qed.

(* ------------------------------------------------------------ parse_float on the shape *)
Lemma split_digits_all ds : forallb is_digit ds = true ->
  forall acc n pd, split_digits ds acc n pd = Some (dec_value ds acc, n + zlen ds, []).
Proof.
  intros D acc n pd. rewrite <- (app_nil_r ds) at 1. apply split_digits_run; [exact D|exact I].
Qed.

Lemma zlen_nonneg {A} (l : list A) : 0 <= zlen l.
Proof. unfold zlen. lia. Qed.
Lemma zlen_zero {A} (l : list A) : zlen l = 0 -> l = [].
Proof. unfold zlen. destruct l; [reflexivity|]. cbn [length]. lia. Qed.

Lemma pf_sign_text sg ed : forallb is_digit ed = true -> ed <> [] ->
  pf_sign (sgtext sg ++ ed) = (sgneg sg, ed).
Proof.
  intros D NE. destruct sg as [[|]|]; try reflexivity.
  destruct ed as [|d ed]; [congruence|]. cbn [forallb] in D. apply andb_prop in D.
  destruct D as [D _]. cbn [sgtext app sgneg].
  destruct (is_digit_cases d D) as [->|[->|[->|[->|[->|[->|[->|[->|[->| ->]]]]]]]]]; reflexivity.
Qed.

Lemma pf_exp_none mant : pf_exp mant [] = Ok (Qred (mant * pow10 0)).
Proof. reflexivity. Qed.

Lemma pf_exp_some mant e sg ed : (e = 69 \/ e = 101) -> forallb is_digit ed = true -> ed <> [] ->
  dec_value ed 0 <= 300 ->
  pf_exp mant (e :: sgtext sg ++ ed)
  = Ok (Qred (mant * pow10 (if sgneg sg then - dec_value ed 0 else dec_value ed 0))).
Proof.
  intros Ee D NE G. unfold pf_exp.
  assert (T: ((e =? 101) || (e =? 69)) = true) by (destruct Ee as [-> | ->]; reflexivity).
  rewrite T, (pf_sign_text sg ed D NE), (split_digits_all ed D).
  assert (P: 0 <= dec_value ed 0) by (apply dec_value_nonneg; [exact D|lia]).
  assert (L: (0 + zlen ed =? 0) = false).
  { apply Z.eqb_neq. intros Q. rewrite Z.add_0_l in Q. apply zlen_zero in Q. contradiction. }
  rewrite L. unfold pf_fin.
  assert (A: (300 <? Z.abs (if sgneg sg then - dec_value ed 0 else dec_value ed 0)) = false).
  { apply Z.ltb_ge. destruct (sgneg sg); lia. }
  rewrite A. reflexivity.
Qed.

Lemma stops_extext ex : exwf ex -> stops (extext ex).
Proof.
  destruct ex as [[[e sg] ed]|]; [|intros _; exact I].
  intros ([-> | ->] & _); cbn; split; (reflexivity || discriminate).
Qed.

Lemma pf_frac_text fr ex : forallb is_digit (fr_digits fr) = true -> exwf ex ->
  pf_frac (frtext fr ++ extext ex) = Some (dec_value (fr_digits fr) 0, zlen (fr_digits fr), extext ex).
Proof.
  intros D W. destruct fr as [fp|]; cbn [frtext fr_digits app].
  - cbn [pf_frac]. rewrite (split_digits_run fp (extext ex) D (stops_extext ex W)).
    rewrite Z.add_0_l. reflexivity.
  - destruct ex as [[[e sg] ed]|]; [|reflexivity].
    destruct W as ([-> | ->] & _); reflexivity.
Qed.

Lemma pow10_neg n : 0 <= n -> (pow10 (- n) == / inject_Z (10 ^ n))%Q.
Proof.
  intros N. unfold pow10. destruct (Z.eq_dec n 0) as [->|NZ]; [reflexivity|].
  replace (0 <=? - n) with false by (symmetry; apply Z.leb_gt; lia).
  rewrite Z.opp_involutive. reflexivity.
Qed.
Lemma pow10_pos n : 0 <= n -> pow10 n = inject_Z (10 ^ n).
Proof. intros N. unfold pow10. replace (0 <=? n) with true by (symmetry; apply Z.leb_le; lia). reflexivity. Qed.

Lemma stops_frex fr ex : exwf ex -> stops (frtext fr ++ extext ex).
Proof.
  intros W. destruct fr as [fp|]; cbn [frtext app].
  - cbn. split; [reflexivity|discriminate].
  - apply stops_extext, W.
Qed.

Lemma parse_float_shape ip fr ex : nwf ip fr ex ->
  forall c t, ntext ip fr ex = c :: t -> (is_digit c || (c =? 46)) = true ->
  forallb num_char (ntext ip fr ex) = true ->
  exists q', parse_float (ntext ip fr ex) = Ok (Qred q') /\ (q' == nval ip fr ex)%Q.
Proof.
  intros (D1 & D2 & NE & W) c t Ec C N.
  assert (PF: parse_float (ntext ip fr ex) = pf_body (ntext ip fr ex)).
  { rewrite Ec in *. apply parse_float_start; assumption. }
  rewrite PF. unfold pf_body, ntext.
  rewrite (split_digits_run ip _ D1 (stops_frex fr ex W)), (pf_frac_text fr ex D2 W).
  assert (L: ((0 + zlen ip =? 0) && (zlen (fr_digits fr) =? 0)) = false).
  { destruct (Z.eqb_spec (0 + zlen ip) 0) as [A|A]; [|reflexivity].
    destruct (Z.eqb_spec (zlen (fr_digits fr)) 0) as [B|B]; [|reflexivity].
    rewrite Z.add_0_l in A. apply zlen_zero in A. apply zlen_zero in B. rewrite A, B in NE.
    contradiction. }
  rewrite L.
  assert (M: (inject_Z (dec_value ip 0) + inject_Z (dec_value (fr_digits fr) 0) * pow10 (- zlen (fr_digits fr))
              == xl_mant ip (fr_digits fr))%Q).
  { unfold xl_mant, Qdiv. rewrite (pow10_neg _ (zlen_nonneg _)). reflexivity. }
  destruct ex as [[[e sg] ed]|].
  - destruct W as (Ee & D3 & NE3 & G). cbn [extext].
    rewrite (pf_exp_some _ e sg ed Ee D3 NE3 G). eexists. split; [reflexivity|].
    assert (P: 0 <= dec_value ed 0) by (apply dec_value_nonneg; [exact D3|lia]).
    cbn [nval]. unfold xl_scale. rewrite M. destruct (sgneg sg).
    + rewrite (pow10_neg _ P). reflexivity.
    + rewrite (pow10_pos _ P). reflexivity.
  - cbn [extext]. rewrite pf_exp_none. eexists. split; [reflexivity|].
    cbn [nval]. rewrite M. change (pow10 0) with (inject_Z 1). rewrite Qmult_1_r. reflexivity.
Qed.

(* ------------------------------------------------------------ py_number on the shape *)
Lemma digits_num_chars ds : forallb is_digit ds = true -> forallb num_char ds = true.
Proof.
  induction ds as [|d ds IH]; intros D; [reflexivity|]. cbn [forallb] in *.
  apply andb_prop in D. destruct D as [D1 D2]. rewrite (IH D2). unfold num_char. rewrite D1. reflexivity.
Qed.

Lemma ntext_num_chars ip fr ex : nwf ip fr ex -> forallb num_char (ntext ip fr ex) = true.
Proof.
  intros (D1 & D2 & _ & W). unfold ntext. rewrite !forallb_app. rewrite (digits_num_chars _ D1).
  assert (F: forallb num_char (frtext fr) = true).
  { destruct fr as [fp|]; [|reflexivity]. cbn [frtext forallb fr_digits] in *.
    rewrite (digits_num_chars _ D2). reflexivity. }
  rewrite F. destruct ex as [[[e sg] ed]|]; [|reflexivity].
  destruct W as (Ee & D3 & _ & _). cbn [extext forallb]. rewrite forallb_app, (digits_num_chars _ D3).
  destruct Ee as [-> | ->]; destruct sg as [[|]|]; reflexivity.
Qed.

Lemma ntext_head ip fr ex : nwf ip fr ex ->
  exists c t, ntext ip fr ex = c :: t /\ (is_digit c || (c =? 46)) = true.
Proof.
  intros (D1 & D2 & NE & _). unfold ntext. destruct ip as [|d ip].
  - destruct fr as [fp|]; cbn [fr_digits app] in NE; [|congruence].
    cbn [app frtext]. eexists _, _. split; reflexivity.
  - cbn [forallb] in D1. apply andb_prop in D1. destruct D1 as [D1 _].
    cbn [app]. eexists _, _. split; [reflexivity|]. rewrite D1. reflexivity.
Qed.

Lemma ntext_all_digits ip fr ex : nwf ip fr ex -> forallb is_digit (ntext ip fr ex) = true ->
  fr = None /\ ex = None.
Proof.
  intros (_ & _ & _ & W). unfold ntext. rewrite !forallb_app. intros H.
  apply andb_prop in H. destruct H as [_ H]. apply andb_prop in H. destruct H as [H1 H2]. split.
  - destruct fr; [discriminate H1|reflexivity].
  - destruct ex as [[[e sg] ed]|]; [|reflexivity]. destruct W as ([-> | ->] & _); discriminate H2.
Qed.

Lemma ntext_float_mark ip fr ex : nwf ip fr ex -> fr <> None \/ ex <> None ->
  existsb float_mark (ntext ip fr ex) = true.
Proof.
  intros (_ & _ & _ & W) H. unfold ntext. rewrite !existsb_app.
  destruct fr as [fp|].
  - cbn [frtext existsb]. change (float_mark 46) with true. cbn [orb]. apply orb_true_r.
  - destruct ex as [[[e sg] ed]|]; [|destruct H; congruence].
    destruct W as ([-> | ->] & _); cbn [extext existsb]; rewrite !orb_true_r; reflexivity.
Qed.

Lemma zeros_ok_spec s : zeros_ok s = true -> forallb is_digit s = true ->
  hd 0 s <> 48 \/ forallb (fun d => d =? 48) s = true.
Proof.
  unfold zeros_ok. intros Z D. rewrite D in Z. cbn [negb orb] in Z.
  apply orb_prop in Z. destruct Z as [Z|Z]; [left|right; exact Z].
  apply negb_true_iff in Z. apply Z.eqb_neq in Z. exact Z.
Qed.

(* the number theorem: every text of Excel's number grammar (integer,
   decimals, exponent; no superfluous leading zero on an integer) is a Python
   literal, of the kind pycel works with (int for a digit string, float
   otherwise), and it denotes the rational Excel reads *)
Theorem number_correct s q : xl_number s = Some q -> zeros_ok s = true ->
  py_number s = xl_numval s /\
  exists v n, py_number s = Some v /\ as_num v = Some n /\ (num_q n == q)%Q.
Proof.
  intros X Zo. unfold xl_numval. rewrite X.
  destruct (xl_number_shape s q X) as (ip & fr & ex & -> & W & ->).
  destruct (ntext_head ip fr ex W) as (c & t & Ec & C).
  destruct (forallb is_digit (ntext ip fr ex)) eqn:AD.
  - destruct (ntext_all_digits ip fr ex W AD) as [-> ->].
    assert (P: py_number (ntext ip None None) = Some (VInt (dec_value (ntext ip None None) 0))).
    { unfold py_number. rewrite Ec, <- Ec, AD.
      rewrite (number_partial (ntext ip None None)); [reflexivity| |exact AD|].
      - rewrite Ec. discriminate.
      - apply zeros_ok_spec; assumption. }
    split; [exact P|]. eexists _, _. split; [exact P|]. split; [reflexivity|].
    unfold ntext, frtext, extext, nval, fr_digits, xl_mant. rewrite !app_nil_r. cbn [num_q dec_value].
    unfold Qdiv. change (inject_Z 0) with 0%Q. rewrite Qmult_0_l, Qplus_0_r. reflexivity.
  - assert (S: fr <> None \/ ex <> None).
    { destruct fr; [left; discriminate|]. destruct ex; [right; discriminate|].
      exfalso. destruct W as (D1 & _). unfold ntext, frtext, extext in AD. rewrite !app_nil_r in AD.
      congruence. }
    pose proof (ntext_num_chars ip fr ex W) as N.
    destruct (parse_float_shape ip fr ex W c t Ec C N) as (q' & PF & Q).
    assert (P: py_number (ntext ip fr ex) = Some (VFloat (Qred (nval ip fr ex)))).
    { unfold py_number. rewrite Ec, <- Ec, AD, C, N, (ntext_float_mark ip fr ex W S). cbn [andb].
      rewrite PF. rewrite (Qred_complete _ _ Q). reflexivity. }
    split; [exact P|]. eexists _, _. split; [exact P|]. split; [reflexivity|].
    cbn [num_q]. apply Qred_correct.
Qed.

(* ------------------------------------------------------------ examples (non-vacuity) *)
Example ex_num_decimal :       (* 12.5 *)
  xl_number [49; 50; 46; 53] = Some (xl_mant [49; 50] [53]) /\ zeros_ok [49; 50; 46; 53] = true
  /\ py_number [49; 50; 46; 53] = Some (VFloat (25 # 2)).
Proof. vm_compute. repeat split. Qed.
Example ex_num_exponent :      (* 2.5E-1 = 1/4 *)
  py_number [50; 46; 53; 69; 45; 49] = Some (VFloat (1 # 4))
  /\ xl_numval [50; 46; 53; 69; 45; 49] = Some (VFloat (1 # 4)) /\ zeros_ok [50; 46; 53; 69; 45; 49] = true.
Proof. vm_compute. repeat split. Qed.
Example ex_num_forms :         (* .25   2.   1E+3   007.5 *)
  map py_number [[46; 50; 53]; [50; 46]; [49; 69; 43; 51]; [48; 48; 55; 46; 53]]
  = [Some (VFloat (1 # 4)); Some (VFloat 2); Some (VFloat 1000); Some (VFloat (15 # 2))]
  /\ map xl_numval [[46; 50; 53]; [50; 46]; [49; 69; 43; 51]; [48; 48; 55; 46; 53]]
  = [Some (VFloat (1 # 4)); Some (VFloat 2); Some (VFloat 1000); Some (VFloat (15 # 2))].
Proof. vm_compute. repeat split. Qed.
Example ex_num_leading_zero :  (* 007: an Excel number, not a Python literal *)
  xl_numval [48; 48; 55] = Some (VInt 7) /\ py_number [48; 48; 55] = None /\ zeros_ok [48; 48; 55] = false.
Proof. vm_compute. repeat split. Qed.
