(* Proofs/C12Example.v — C12: the hypotheses of the theorems are satisfiable
   (tests, not theorems) on the 5-node workbook of Proofs/C01Example.v
     0: A1 = 1 (input)   1: A2 = 2 (input)   2: A1:A2 (range node)
     3: B1 = f3(A1:A2), stored 6   4: C1 = f4(B1, A1), stored 11
   with tolerance 0.001 and with tolerance=None. *)
From Coq Require Import List Arith Bool Lia ZArith QArith.
From PV Require Import Lib.Py Model.Graph Model.Validate.
From PV Require Import Proofs.C01Base Proofs.C01Inv Proofs.C01 Proofs.C01Example.
From PV Require Import Proofs.C12Base Proofs.C12.
Import ListNotations.
Local Open Scope nat_scope.

Definition ex_text (n : nat) : list Z := [61%Z; Z.of_nat n].     (* "=" followed by one character *)
Definition ex_tol : option Q := Some (1 # 1000)%Q.

Example ex12_tol : tol_pos ex_tol.
Proof. reflexivity. Qed.

Example ex12_scalar : forall n, n < wb_n exWs -> is_fcell exWs n = true ->
  is_scalar (spec exWs ex_sem (wb_inp0 exWs) n) = true.
Proof.
  intros n L FC. destruct n as [|[|[|[|[|n]]]]]; try discriminate; try reflexivity; cbn in L; lia.
Qed.

Example ex12_notext : forall n vals, n < wb_n exWs -> is_fcell exWs n = true ->
  py_eq (ex_sem n vals) (VStr (ex_text n)) = false.
Proof.
  intros n vals L FC. destruct n as [|[|[|[|[|n]]]]]; try discriminate; try reflexivity; cbn in L; lia.
Qed.

Example ex12_outs : forall o, In o [4] -> o < wb_n exWs.
Proof. intros o [<-|[]]. cbn. lia. Qed.

(* ---- the consistent file: empty report, from the theorem and by computation *)
Example ex12_sound : vs_report (validate exWs ex_sem ex_text ex_tol [4]) = [].
Proof.
  apply sound; auto using ex12_tol, ex12_scalar, ex12_notext, ex12_outs.
  - apply ex_wf. - apply ex_nonblank. - apply exs_consistent.
Qed.
Example ex12_sound_computed :
  let vs := validate exWs ex_sem ex_text ex_tol [4] in
  vs_report vs = [] /\ vs_todo vs = [] /\ map (fun n => mem n (vs_verified vs)) [0; 1; 2; 3; 4]
                                         = [true; true; true; true; true].
Proof. vm_compute. auto. Qed.

(* ---- the stored result of B1 altered from 6 to 7: B1 is reported with (7, 6),
   C1 (which depends on B1) with (11, 12); nothing else *)
Example ex12_complete :
  let r := vs_report (validate (perturb exWs 3 (VInt 7)) ex_sem ex_text ex_tol [4]) in
  rep_get r 3 = Some (VInt 7, VInt 6) /\ forall n, rep_get r n <> None -> n = 3 \/ anc exWs 3 n.
Proof.
  pose proof (complete exWs ex_sem ex_text ex_tol 3 (VInt 7) (ex_wf _) (ex_nonblank _) exs_consistent
                ltac:(cbn; lia) eq_refl ex12_tol ex12_scalar ex12_notext ltac:(discriminate) eq_refl
                eq_refl [4] ex12_outs) as H.
  apply H. exists 4. split; [left; auto|right]. constructor. cbn. auto.
Qed.
Example ex12_complete_computed :
  vs_report (validate (perturb exWs 3 (VInt 7)) ex_sem ex_text ex_tol [4])
  = [(4, (VInt 11, VInt 12)); (3, (VInt 7, VInt 6))].
Proof. vm_compute. reflexivity. Qed.

(* within the tolerance: 6 -> 6.0005 is not reported; tolerance=None: 6 -> 7 is *)
Example ex12_within :
  rep_get (vs_report (validate (perturb exWs 3 (VFloat (12001 # 2000))) ex_sem ex_text ex_tol [4])) 3
  = None.
Proof. vm_compute. reflexivity. Qed.
Example ex12_none :
  map fst (vs_report (validate (perturb exWs 3 (VInt 7)) ex_sem ex_text None [3; 4])) = [4; 3].
Proof. vm_compute. reflexivity. Qed.
