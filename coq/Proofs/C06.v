(* Proofs/C06.v — lemmas about Model/Iter.v (iterative evaluation). *)
From Coq Require Import ZArith QArith Qabs List Bool Lia Lqa.
From PV Require Import Lib.Py Model.Iter.
Import ListNotations.
Open Scope Z_scope.

(* ------------------------------------------------------------------ *)
(* 1. The pass loop is bounded: between 1 and [iterations] passes.     *)

Definition tracker_cfg (st st' : state) : Prop :=
  iters (tr st') = iters (tr st) /\ tol (tr st') = tol (tr st) /\ itn (tr st') = itn (tr st).

Lemma pass_loop_count : forall w fuel t st v st',
  pass_loop w fuel t st = Ok (v, st') ->
  (forall s u s', evaluate_pass w t s = Ok (u, s') -> tracker_cfg s s') ->
  itn (tr st) < itn (tr st') <= Z.max (itn (tr st) + 1) (itn (tr st) + 1 + Z.of_nat fuel).
Proof.
  intros w fuel; induction fuel as [|f IH]; intros t st v st' H Hcfg; cbn [pass_loop] in H.
  - destruct (evaluate_pass w t (inc_iteration st)) as [[u s1]|e] eqn:E; [|discriminate].
    destruct (done s1); [|discriminate]. inversion H; subst.
    apply Hcfg in E. destruct E as (_ & _ & E). rewrite E. cbn. lia.
  - destruct (evaluate_pass w t (inc_iteration st)) as [[u s1]|e] eqn:E; [|discriminate].
    apply Hcfg in E. destruct E as (_ & _ & E). cbn in E.
    destruct (done s1).
    + inversion H; subst. rewrite E. lia.
    + apply IH in H; [|exact Hcfg]. rewrite E in H. lia.
Qed.

(* ------------------------------------------------------------------ *)
(* 2. Lists with update.                                               *)

Lemma upd_length : forall A (l : list A) i x, length (upd l i x) = length l.
Proof. induction l as [|h t IH]; intros [|i] x; cbn; auto. Qed.

Lemma nth_upd_eq : forall A (l : list A) i x d, (i < length l)%nat -> nth i (upd l i x) d = x.
Proof.
  induction l as [|h t IH]; intros [|i] x d H; cbn in *; try lia; auto.
  apply IH; lia.
Qed.

Lemma nth_upd_neq : forall A (l : list A) i j x d, i <> j -> nth j (upd l i x) d = nth j l d.
Proof.
  induction l as [|h t IH]; intros [|i] [|j] x d H; cbn; auto; try congruence.
Qed.

Lemma built_in_range : forall st c, built (getc st c) = true -> (c < length (cells st))%nat.
Proof.
  intros st c H. unfold getc in H.
  destruct (Nat.lt_ge_cases c (length (cells st))) as [L|L]; auto.
  rewrite nth_overflow in H by exact L. discriminate.
Qed.

(* ------------------------------------------------------------------ *)
(* 3. Every evaluation is a sequence of four primitive state changes;   *)
(*    a predicate closed under them is an invariant of everything.      *)

Definition fresh_cell : cell := {| built := true; value := None; prev := None; wip := false |}.

Record stable (P : state -> Prop) : Prop := {
  st_setter : forall c v st, (c < length (cells st))%nat -> P st -> P (setter c v st);
  st_start : forall c st, P st -> needs_calc st c = true -> P (start_calcs c st);
  st_setr : forall r x st, P st -> P (setr st r x);
  st_new : forall c st, P st -> built (getc st c) = false -> P (setc st c fresh_cell) }.

Definition keeps (P : state -> Prop) (st st' : state) : Prop :=
  P st' /\ length (cells st') = length (cells st).

Lemma keeps_refl : forall (P : state -> Prop) st, P st -> keeps P st st.
Proof. intros; split; auto. Qed.
Lemma keeps_trans : forall (P : state -> Prop) a b c, keeps P a b -> keeps P b c -> keeps P a c.
Proof. intros P a b c [_ L1] [H L2]; split; auto; congruence. Qed.

Section Stable.
Variable w : wbook.
Variable P : state -> Prop.
Hypothesis HP : stable P.

Lemma setter_keeps : forall c v st, (c < length (cells st))%nat -> P st -> keeps P st (setter c v st).
Proof. intros; split; [apply (st_setter P HP); auto | cbn; apply upd_length]. Qed.

Section Rec.
Variable rec_c : nat -> state -> res (val * state).
Hypothesis Hrec : forall c st v st', P st -> rec_c c st = Ok (v, st') -> keeps P st st'.

Lemma eval_members_keeps : forall ms st vs st',
  P st -> eval_members rec_c ms st = Ok (vs, st') -> keeps P st st'.
Proof.
  induction ms as [|m ms IH]; intros st vs st' H E; cbn in E.
  - inversion E; subst; apply keeps_refl; auto.
  - destruct (rec_c m st) as [[v s1]|e] eqn:E1; [|discriminate].
    destruct (eval_members rec_c ms s1) as [[vs2 s2]|e] eqn:E2; [|discriminate].
    inversion E; subst.
    pose proof (Hrec _ _ _ _ H E1) as K1. eapply keeps_trans; [exact K1|].
    eapply IH; [apply K1|exact E2].
Qed.

Lemma eval_range_keeps : forall r st vs st',
  P st -> eval_range w rec_c r st = Ok (vs, st') -> keeps P st st'.
Proof.
  intros r st vs st' H E. unfold eval_range in E.
  destruct (negb (rbuilt (getr st r))); [discriminate|].
  destruct (rvalue (getr st r)).
  - inversion E; subst; apply keeps_refl; auto.
  - destruct (eval_members rec_c (members w r) st) as [[vs1 s1]|e] eqn:E1; [|discriminate].
    inversion E; subst. pose proof (eval_members_keeps _ _ _ _ H E1) as [K L].
    split; [apply (st_setr P HP); auto | exact L].
Qed.

Lemma eval_terms_keeps : forall ts acc st q st',
  P st -> eval_terms w rec_c ts acc st = Ok (q, st') -> keeps P st st'.
Proof.
  induction ts as [|[a j|a r] ts IH]; intros acc st q st' H E; cbn in E.
  - inversion E; subst; apply keeps_refl; auto.
  - destruct (rec_c j st) as [[v s1]|e] eqn:E1; [|discriminate].
    pose proof (Hrec _ _ _ _ H E1) as K1. eapply keeps_trans; [exact K1|].
    eapply IH; [apply K1|exact E].
  - destruct (eval_range w rec_c r st) as [[vs s1]|e] eqn:E1; [|discriminate].
    pose proof (eval_range_keeps _ _ _ _ H E1) as K1. eapply keeps_trans; [exact K1|].
    eapply IH; [apply K1|exact E].
Qed.

Lemma eval_body_keeps : forall c st v st',
  P st -> eval_body w rec_c c st = Ok (v, st') -> keeps P st st'.
Proof.
  intros c st v st' H E. unfold eval_body in E.
  destruct (built (getc st c)) eqn:B; cbn [negb] in E; [|discriminate].
  destruct (needs_calc st c) eqn:N.
  - destruct (formula (spec w c)) as [[b ts]|].
    + destruct (eval_terms w rec_c ts (Qred b) (start_calcs c st)) as [[q s2]|e] eqn:E1; [|discriminate].
      inversion E; subst.
      assert (K0 : keeps P st (start_calcs c st)).
      { split; [apply (st_start P HP); auto | cbn; apply upd_length]. }
      pose proof (eval_terms_keeps _ _ _ _ _ (proj1 K0) E1) as K1.
      pose proof (keeps_trans _ _ _ _ K0 K1) as K2.
      eapply keeps_trans; [exact K2|]. apply setter_keeps; [|apply K2].
      destruct K2 as [_ L]. rewrite L. apply built_in_range; auto.
    + inversion E; subst; apply keeps_refl; auto.
  - inversion E; subst; apply keeps_refl; auto.
Qed.
End Rec.

Lemma eval_cell_keeps : forall fuel c st v st',
  P st -> eval_cell w fuel c st = Ok (v, st') -> keeps P st st'.
Proof.
  induction fuel as [|f IH]; intros c st v st' H E; cbn [eval_cell] in E; [discriminate|].
  eapply eval_body_keeps; eauto.
Qed.

Lemma build_cell_keeps : forall c st,
  P st -> built (getc st c) = false -> (c < length (cells st))%nat -> keeps P st (build_cell w c st).
Proof.
  intros c st H B L. unfold build_cell.
  eapply keeps_trans with (b := setc st c fresh_cell).
  - split; [apply (st_new P HP); auto | cbn; apply upd_length].
  - apply setter_keeps; [cbn; rewrite upd_length; auto | apply (st_new P HP); auto].
Qed.

Definition gkeeps (g g' : gstate) : Prop := keeps P (fst (fst g)) (fst (fst g')).

Lemma make_cell_keeps : forall c g, P (fst (fst g)) -> gkeeps g (make_cell w c g).
Proof.
  intros c [[st gt] rt] H. unfold make_cell, gkeeps. cbn [fst] in *.
  destruct (built (getc st c)) eqn:B; cbn [orb].
  - cbn; apply keeps_refl; auto.
  - destruct (c <? length (cells st))%nat eqn:L; cbn [negb fst].
    + apply build_cell_keeps; auto. apply Nat.ltb_lt; auto.
    + apply keeps_refl; auto.
Qed.

Lemma fold_make_cell_keeps : forall ms g, P (fst (fst g)) ->
  gkeeps g (fold_left (fun g m => make_cell w m g) ms g).
Proof.
  induction ms as [|m ms IH]; intros g H; cbn [fold_left].
  - apply keeps_refl; auto.
  - pose proof (make_cell_keeps m g H) as K. eapply keeps_trans; [exact K|]. apply IH. apply K.
Qed.

Lemma make_node_keeps : forall n g, P (fst (fst g)) -> gkeeps g (make_node w n g).
Proof.
  intros [c|r] [[st gt] rt] H; cbn [make_node].
  - apply make_cell_keeps; auto.
  - destruct (rbuilt (getr st r)); [apply keeps_refl; auto|].
    unfold gkeeps.
    eapply keeps_trans; [|apply fold_make_cell_keeps; cbn [fst]; apply (st_setr P HP); exact H].
    cbn [fst]. split; [apply (st_setr P HP); exact H | reflexivity].
Qed.

Lemma fold_make_node_keeps : forall ns g, P (fst (fst g)) ->
  gkeeps g (fold_left (fun g n => make_node w n g) ns g).
Proof.
  induction ns as [|n ns IH]; intros g H; cbn [fold_left].
  - apply keeps_refl; auto.
  - pose proof (make_node_keeps n g H) as K. eapply keeps_trans; [exact K|]. apply IH. apply K.
Qed.

Lemma process_keeps : forall fuel g st' rt',
  P (fst (fst g)) -> process w fuel g = Ok (st', rt') -> keeps P (fst (fst g)) st'.
Proof.
  induction fuel as [|f IH]; intros [[st gt] rt] st' rt' H E; cbn [process] in E; [discriminate|].
  destruct gt as [|dep gt'].
  - inversion E; subst; apply keeps_refl; auto.
  - pose proof (fold_make_node_keeps (needed w dep) (st, gt', rt) H) as K.
    eapply keeps_trans; [exact K|]. eapply IH; [apply K|exact E].
Qed.

Lemma eval_ranges_keeps : forall rs st st',
  P st -> eval_ranges w rs st = Ok st' -> keeps P st st'.
Proof.
  induction rs as [|r rs IH]; intros st st' H E; cbn [eval_ranges] in E.
  - inversion E; subst; apply keeps_refl; auto.
  - destruct (eval_range w (eval_cell w (eval_fuel w)) r st) as [[vs s1]|e] eqn:E1; [|discriminate].
    pose proof (eval_range_keeps _ (eval_cell_keeps (eval_fuel w)) _ _ _ _ H E1) as K.
    eapply keeps_trans; [exact K|]. eapply IH; [apply K|exact E].
Qed.

Lemma gen_graph_keeps : forall seed st st',
  P st -> gen_graph w seed st = Ok st' -> keeps P st st'.
Proof.
  intros seed st st' H E. unfold gen_graph in E.
  pose proof (make_cell_keeps seed (st, [], []) H) as K0.
  destruct (process w (gen_fuel w) (make_cell w seed (st, [], []))) as [[s1 rt]|e] eqn:E1; [|discriminate].
  pose proof (process_keeps _ _ _ _ (proj1 K0) E1) as K1.
  eapply keeps_trans; [exact K0|]. eapply keeps_trans; [exact K1|].
  eapply eval_ranges_keeps; [apply K1|exact E].
Qed.

Lemma evaluate_pass_keeps : forall t st v st',
  P st -> evaluate_pass w t st = Ok (v, st') -> keeps P st st'.
Proof.
  intros t st v st' H E. unfold evaluate_pass in E.
  destruct (built (getc st t)).
  - eapply eval_cell_keeps; eauto.
  - destruct (gen_graph w t st) as [s1|e] eqn:E1; [|discriminate].
    pose proof (gen_graph_keeps _ _ _ H E1) as K. eapply keeps_trans; [exact K|].
    eapply eval_cell_keeps; [apply K|exact E].
Qed.
End Stable.

(* ------------------------------------------------------------------ *)
(* 4. Tracker configuration is untouched by a pass: C06_bounded.        *)

Lemma cfg_stable : forall I T N,
  stable (fun s => iters (tr s) = I /\ tol (tr s) = T /\ itn (tr s) = N).
Proof. intros; split; intros; cbn; auto. Qed.

Lemma evaluate_pass_cfg : forall w t s u s', evaluate_pass w t s = Ok (u, s') -> tracker_cfg s s'.
Proof.
  intros w t s u s' E.
  pose proof (evaluate_pass_keeps w _ (cfg_stable (iters (tr s)) (tol (tr s)) (itn (tr s)))
                t s u s' (conj eq_refl (conj eq_refl eq_refl)) E) as [K _].
  exact K.
Qed.

Lemma bounded : forall w t it tolv st v st',
  evaluate_iterative w t it tolv st = Ok (v, st') ->
  1 <= itn (tr st') <= Z.max 1 it.
Proof.
  intros w t it tolv st v st' E. unfold evaluate_iterative in E.
  apply pass_loop_count in E; [|intros; eapply evaluate_pass_cfg; eauto].
  cbn [tr sett itn] in E. lia.
Qed.

(* the loop's own fuel never runs out: an error can only come from inside a pass *)
Lemma pass_loop_total : forall w fuel t st e,
  pass_loop w fuel t st = Raise e ->
  iters (tr st) <= itn (tr st) + 1 + Z.of_nat fuel ->
  exists s, evaluate_pass w t s = Raise e.
Proof.
  intros w fuel; induction fuel as [|f IH]; intros t st e H Hb; cbn [pass_loop] in H;
    destruct (evaluate_pass w t (inc_iteration st)) as [[u s1]|e1] eqn:E;
    try (inversion H; subst; eexists; exact E).
  - pose proof (evaluate_pass_cfg _ _ _ _ _ E) as (Ei & _ & En). cbn in Ei, En.
    unfold done in H. replace (iters (tr s1) <=? itn (tr s1)) with true in H; [discriminate|].
    symmetry; apply Z.leb_le; lia.
  - pose proof (evaluate_pass_cfg _ _ _ _ _ E) as (Ei & _ & En). cbn in Ei, En.
    destruct (done s1); [discriminate|]. apply IH in H; auto. lia.
Qed.

Lemma loop_total : forall w t it tolv st e,
  evaluate_iterative w t it tolv st = Raise e -> exists s, evaluate_pass w t s = Raise e.
Proof.
  intros w t it tolv st e H. unfold evaluate_iterative in H.
  eapply pass_loop_total; [exact H|]. cbn [tr sett itn iters]. lia.
Qed.

(* ------------------------------------------------------------------ *)
(* 5. The tolerance invariant: C06_tolerance.                           *)

Lemma memb_In : forall c l, memb c l = true <-> In c l.
Proof.
  intros c l. unfold memb. rewrite existsb_exists. split.
  - intros (x & Hx & E). apply Nat.eqb_eq in E. subst; auto.
  - intros H. exists c. split; auto. apply Nat.eqb_refl.
Qed.
Lemma memb_add_same : forall c l, memb c (add c l) = true.
Proof.
  intros c l. unfold add. destruct (memb c l) eqn:E; auto.
  cbn. rewrite Nat.eqb_refl. reflexivity.
Qed.
Lemma memb_add_other : forall c c' l, c' <> c -> memb c' (add c l) = memb c' l.
Proof.
  intros c c' l H. unfold add. destruct (memb c l); auto.
  cbn. apply Nat.eqb_neq in H. rewrite H. reflexivity.
Qed.

Lemma getc_setter_same : forall c v st, (c < length (cells st))%nat ->
  getc (setter c v st) c = {| built := built (getc st c); value := v; prev := prev (getc st c); wip := false |}.
Proof. intros. unfold getc at 1. cbn. apply nth_upd_eq; auto. Qed.
Lemma getc_setter_other : forall c c' v st, c <> c' -> getc (setter c v st) c' = getc st c'.
Proof. intros. unfold getc. cbn. apply nth_upd_neq; auto. Qed.
Lemma getc_setc_other : forall c c' x st, c <> c' -> getc (setc st c x) c' = getc st c'.
Proof. intros. unfold getc. cbn. apply nth_upd_neq; auto. Qed.
Lemma getc_setc_same : forall c x st, (c < length (cells st))%nat -> getc (setc st c x) c = x.
Proof. intros. unfold getc. cbn. apply nth_upd_eq; auto. Qed.

Definition tol_inv (s : state) : Prop :=
  forall c, memb c (computed (tr s)) = true -> memb c (todo (tr s)) = false ->
            close (tol (tr s)) (value (getc s c)) (prev (getc s c)) = true.

Lemma tol_inv_stable : forall I T,
  stable (fun s => (iters (tr s) = I /\ tol (tr s) = T) /\ tol_inv s).
Proof.
  intros I T; split.
  - intros c v st L [Hc H]. split; [exact Hc|]. intros c' Hcomp Htodo.
    destruct (Nat.eq_dec c c') as [->|Hne].
    + rewrite getc_setter_same by exact L. cbn [value prev]. cbn [setter tr todo tol] in Htodo |- *.
      destruct (close (tol (tr st)) v (prev (getc st c'))) eqn:Ec; auto.
      rewrite memb_add_same in Htodo. discriminate.
    + rewrite getc_setter_other by exact Hne. cbn [setter tr todo computed tol] in *.
      rewrite memb_add_other in Hcomp by auto.
      apply H; auto.
      destruct (close (tol (tr st)) v (prev (getc st c))); auto.
      rewrite memb_add_other in Htodo by auto. exact Htodo.
  - intros c st [Hc H] N. split; [exact Hc|]. intros c' Hcomp Htodo.
    unfold needs_calc in N. apply andb_true_iff in N. destruct N as [_ N].
    apply negb_true_iff in N.
    destruct (Nat.eq_dec c c') as [->|Hne].
    + cbn in Hcomp. congruence.
    + unfold start_calcs. rewrite getc_setc_other by exact Hne. apply H; auto.
  - intros r x st [Hc H]. split; [exact Hc|]. exact H.
  - intros c st [Hc H] B. split; [exact Hc|]. intros c' Hcomp Htodo.
    destruct (Nat.eq_dec c c') as [->|Hne].
    + destruct (Nat.lt_ge_cases c' (length (cells st))) as [L|L].
      * rewrite getc_setc_same by exact L. reflexivity.
      * unfold getc. rewrite nth_overflow; [reflexivity|]. cbn. rewrite upd_length. exact L.
    + rewrite getc_setc_other by exact Hne. apply H; auto.
Qed.

Lemma pass_loop_inv : forall w (P Q : state -> Prop),
  stable P -> (forall s, P s -> Q s) -> (forall s, Q s -> P (inc_iteration s)) ->
  forall fuel t st v st', Q st -> pass_loop w fuel t st = Ok (v, st') -> P st' /\ done st' = true.
Proof.
  intros w P Q HP HPQ Hinc fuel; induction fuel as [|f IH]; intros t st v st' H0 E; cbn [pass_loop] in E;
    destruct (evaluate_pass w t (inc_iteration st)) as [[u s1]|e1] eqn:E1; try discriminate;
    pose proof (evaluate_pass_keeps w P HP _ _ _ _ (Hinc _ H0) E1) as [K _];
    destruct (done s1) eqn:D; try discriminate.
  - inversion E; subst; auto.
  - inversion E; subst; auto.
  - eapply IH; [apply HPQ; exact K | exact E].
Qed.

Definition small_change (tolv : Q) (x : cell) : Prop :=
  match value x, prev x with
  | Some a, Some b => (Qabs (b - a) < rel1 * tolv)%Q
  | None, None => True
  | _, _ => False
  end.

Lemma close_small : forall tolv x, close tolv (value x) (prev x) = true -> small_change tolv x.
Proof.
  intros tolv x H. unfold small_change, close in *.
  destruct (value x) as [a|], (prev x) as [b|]; auto; try discriminate.
  apply negb_true_iff in H. apply Qnot_le_lt. intro L. apply Qle_bool_iff in L. congruence.
Qed.

Lemma tolerance : forall w t it tolv st v st',
  evaluate_iterative w t it tolv st = Ok (v, st') ->
  itn (tr st') < it ->
  todo (tr st') = [] /\
  forall c, In c (computed (tr st')) -> small_change tolv (getc st' c).
Proof.
  intros w t it tolv st v st' E Hlt. unfold evaluate_iterative in E.
  apply (pass_loop_inv w _ (fun s => iters (tr s) = it /\ tol (tr s) = tolv) (tol_inv_stable it tolv)) in E.
  - destruct E as [[[Hi Ht] Hinv] D]. unfold done in D. rewrite Hi in D.
    replace (it <=? itn (tr st')) with false in D by (symmetry; apply Z.leb_gt; lia).
    cbn [orb] in D. destruct (todo (tr st')) eqn:Etodo; [|discriminate].
    split; auto. intros c Hc. apply close_small. rewrite <- Ht. apply Hinv.
    + apply memb_In; auto.
    + rewrite Etodo. reflexivity.
  - intros s [H _]; exact H.
  - intros s [Hi Ht]. split; [split; cbn; auto|]. intros c Hc. cbn in Hc. discriminate.
  - cbn; auto.
Qed.
