(* Proofs/C06.v — lemmas about Model/Iter.v (iterative evaluation). *)
From Coq Require Import ZArith QArith Qabs List Bool Lia Lqa.
From PV Require Import Lib.Py Model.Iter.
Import ListNotations.
Open Scope Z_scope.

(* ------------------------------------------------------------------ *)
(* 1. The pass loop is bounded: between 1 and [iterations] passes.     *)

Definition tracker_cfg (st st' : state) : Prop :=
  iters (tr st') = iters (tr st) /\ tol (tr st') = tol (tr st) /\ itn (tr st') = itn (tr st).

Lemma pass_loop_count : forall w fuel t st v st',
  pass_loop w fuel t st = Ok (v, st') ->
  (forall s u s', evaluate_pass w t s = Ok (u, s') -> tracker_cfg s s') ->
  itn (tr st) < itn (tr st') <= Z.max (itn (tr st) + 1) (itn (tr st) + 1 + Z.of_nat fuel).
Proof.
  intros w fuel; induction fuel as [|f IH]; intros t st v st' H Hcfg; cbn [pass_loop] in H.
  - destruct (evaluate_pass w t (inc_iteration st)) as [[u s1]|e] eqn:E; [|discriminate].
    destruct (done s1); [|discriminate]. inversion H; subst.
    apply Hcfg in E. destruct E as (_ & _ & E). rewrite E. cbn. lia.
  - destruct (evaluate_pass w t (inc_iteration st)) as [[u s1]|e] eqn:E; [|discriminate].
    apply Hcfg in E. destruct E as (_ & _ & E). cbn in E.
    destruct (done s1).
    + inversion H; subst. rewrite E. lia.
    + apply IH in H; [|exact Hcfg]. rewrite E in H. lia.
Qed.
