(* Proofs/C07Ser.v — serializability, any number of threads, results in user
   terms, and the necessity of the thread-local namespaces (Model/Threads.v).

   Global states hold functions (thread -> machine, index -> namespace / compiler),
   so "the same global state" is pointwise equality [geq] (no functional
   extensionality is assumed). *)
From Coq Require Import ZArith QArith List Bool Lia Arith.
From PV Require Import Lib.Py Model.Iter Model.Threads Proofs.C07.
Import ListNotations.

(* ------------------------------------------------------------------ *)
(* 0. Definitions.                                                      *)

Definition geq (G G' : glob) : Prop :=
  (forall t, g_m G t = g_m G' t) /\ (forall i, g_ns G i = g_ns G' i) /\ (forall i, g_k G i = g_k G' i).

(* the threads of [ths] have pairwise different namespaces and compilers *)
Definition disjoint_on (cf : config) (ths : list nat) : Prop :=
  forall a b, In a ths -> In b ths -> a <> b -> c_ns cf a <> c_ns cf b /\ c_comp cf a <> c_comp cf b.

(* the serial schedule: the threads of [order] one after the other, each with its own steps *)
Definition serial (order sched : list nat) : list nat := flat_map (fun t => only t sched) order.

(* the operation of a thread is over (returned, raised, or read a missing attribute) *)
Definition final (p : phase) : bool :=
  match p with PDone | PFail _ | PMissing => true | PInit | PCall _ => false end.

(* what the caller of the operation gets *)
Definition result (G : glob) (t : nat) : phase * val * Z :=
  (m_phase (g_m G t), m_res (g_m G t), m_passes (g_m G t)).

Definition solo (cf : config) (t : nat) (n : nat) (G : glob) : glob := run cf (repeat t n) G.

(* ------------------------------------------------------------------ *)
(* 1. Non-interference from the disjointness of the threads that run.   *)

Lemma frame_step' : forall cf t t' G,
  c_ns cf t' <> c_ns cf t -> c_comp cf t' <> c_comp cf t -> view cf t (gstep cf G t') = view cf t G.
Proof.
  intros cf t t' G Hn Hk. unfold view, gstep.
  destruct (tstep (c_wb cf t') (g_m G t') (g_ns G (c_ns cf t')) (g_k G (c_comp cf t'))) as [[m n] k].
  cbn [g_m g_ns g_k].
  assert (t <> t') by (intro; subst; auto).
  rewrite !fupd_other by auto. reflexivity.
Qed.

Lemma ni_on_gen : forall cf t sched G G',
  (forall u, In u sched -> u <> t -> c_ns cf u <> c_ns cf t /\ c_comp cf u <> c_comp cf t) ->
  view cf t G = view cf t G' ->
  view cf t (run cf sched G) = view cf t (run cf (only t sched) G').
Proof.
  intros cf t sched; induction sched as [|u sched IH]; intros G G' Hs Hv; cbn [run fold_left only filter].
  - exact Hv.
  - assert (Hs' : forall v, In v sched -> v <> t -> c_ns cf v <> c_ns cf t /\ c_comp cf v <> c_comp cf t)
      by (intros v Hv' Hne; apply Hs; [right; exact Hv'|exact Hne]).
    destruct (Nat.eqb t u) eqn:E.
    + apply Nat.eqb_eq in E. subst u. cbn [fold_left]. apply IH; auto. apply own_step; exact Hv.
    + apply Nat.eqb_neq in E. apply IH; auto.
      destruct (Hs u (or_introl eq_refl)) as [Hn Hk]; [congruence|].
      rewrite frame_step' by auto. exact Hv.
Qed.

(* any number of threads: a list of threads with pairwise different namespaces and
   compilers, a schedule made of these threads *)
Lemma n_threads : forall cf ths sched G t,
  disjoint_on cf ths -> (forall u, In u sched -> In u ths) -> In t ths ->
  view cf t (run cf sched G) = view cf t (run cf (only t sched) G).
Proof.
  intros cf ths sched G t Hd Hin Ht. apply ni_on_gen; [|reflexivity].
  intros u Hu Hne. apply Hd; auto.
Qed.

(* ------------------------------------------------------------------ *)
(* 2. Components nobody in the schedule owns are not touched.           *)

Lemma untouched_ns : forall cf sched G i,
  (forall u, In u sched -> c_ns cf u <> i) -> g_ns (run cf sched G) i = g_ns G i.
Proof.
  intros cf sched; induction sched as [|u sched IH]; intros G i H; cbn [run fold_left]; [reflexivity|].
  fold (run cf sched (gstep cf G u)). rewrite IH by (intros v Hv; apply H; right; exact Hv).
  unfold gstep.
  destruct (tstep (c_wb cf u) (g_m G u) (g_ns G (c_ns cf u)) (g_k G (c_comp cf u))) as [[m n] k].
  cbn [g_ns]. apply fupd_other. intro E. apply (H u (or_introl eq_refl)). auto.
Qed.

Lemma untouched_k : forall cf sched G i,
  (forall u, In u sched -> c_comp cf u <> i) -> g_k (run cf sched G) i = g_k G i.
Proof.
  intros cf sched; induction sched as [|u sched IH]; intros G i H; cbn [run fold_left]; [reflexivity|].
  fold (run cf sched (gstep cf G u)). rewrite IH by (intros v Hv; apply H; right; exact Hv).
  unfold gstep.
  destruct (tstep (c_wb cf u) (g_m G u) (g_ns G (c_ns cf u)) (g_k G (c_comp cf u))) as [[m n] k].
  cbn [g_k]. apply fupd_other. intro E. apply (H u (or_introl eq_refl)). auto.
Qed.

Lemma untouched_m : forall cf sched G t, ~ In t sched -> g_m (run cf sched G) t = g_m G t.
Proof.
  intros cf sched; induction sched as [|u sched IH]; intros G t H; cbn [run fold_left]; [reflexivity|].
  fold (run cf sched (gstep cf G u)). rewrite IH by (intro; apply H; right; assumption).
  unfold gstep.
  destruct (tstep (c_wb cf u) (g_m G u) (g_ns G (c_ns cf u)) (g_k G (c_comp cf u))) as [[m n] k].
  cbn [g_m]. apply fupd_other. intro E. apply H. left. auto.
Qed.

(* does some thread of the list own index i ? *)
Lemma owner_dec : forall (f : nat -> nat) (l : list nat) i,
  {u | In u l /\ f u = i} + {forall u, In u l -> f u <> i}.
Proof.
  intros f l i. induction l as [|a l IH].
  - right. intros u [].
  - destruct (Nat.eq_dec (f a) i) as [E|E].
    + left. exists a. split; [left; reflexivity|exact E].
    + destruct IH as [[u [Hu Hf]]|Hn].
      * left. exists u. split; [right; exact Hu|exact Hf].
      * right. intros u [Hu|Hu]; [subst; exact E|apply Hn; exact Hu].
Qed.

Lemma only_In : forall t sched, In t sched <-> only t sched <> [].
Proof.
  intros t sched. unfold only. split.
  - intros H E. assert (In t (filter (Nat.eqb t) sched)) as H1
      by (apply filter_In; split; [exact H|apply Nat.eqb_refl]).
    rewrite E in H1. exact H1.
  - intros H. destruct (filter (Nat.eqb t) sched) as [|x l] eqn:E; [congruence|].
    assert (In x (filter (Nat.eqb t) sched)) as H1 by (rewrite E; left; reflexivity).
    apply filter_In in H1. destruct H1 as [H1 H2]. apply Nat.eqb_eq in H2. subst x. exact H1.
Qed.

(* ------------------------------------------------------------------ *)
(* 3. The global state depends on the per-thread projections only.      *)

Lemma same_projections : forall cf s1 s2 G,
  disjoint_on cf s1 -> (forall t, only t s1 = only t s2) ->
  geq (run cf s1 G) (run cf s2 G).
Proof.
  intros cf s1 s2 G Hd Hp.
  assert (Hin : forall t, In t s1 <-> In t s2)
    by (intros t; rewrite !only_In, Hp; reflexivity).
  assert (Hd2 : disjoint_on cf s2)
    by (intros a b Ha Hb; apply Hd; apply Hin; assumption).
  assert (Hv : forall t, In t s1 -> view cf t (run cf s1 G) = view cf t (run cf s2 G)).
  { intros t Ht.
    rewrite (n_threads cf s1 s1 G t Hd (fun u H => H) Ht).
    rewrite (n_threads cf s2 s2 G t Hd2 (fun u H => H) (proj1 (Hin t) Ht)).
    rewrite Hp. reflexivity. }
  split; [|split].
  - intros t. destruct (in_dec Nat.eq_dec t s1) as [Ht|Ht].
    + specialize (Hv t Ht). unfold view in Hv. congruence.
    + rewrite !untouched_m; auto. intro H. apply Ht. apply Hin. exact H.
  - intros i. destruct (owner_dec (c_ns cf) s1 i) as [[u [Hu Hf]]|Hn].
    + specialize (Hv u Hu). unfold view in Hv. rewrite Hf in Hv. congruence.
    + rewrite !untouched_ns; auto. intros u Hu. apply Hn. apply Hin. exact Hu.
  - intros i. destruct (owner_dec (c_comp cf) s1 i) as [[u [Hu Hf]]|Hn].
    + specialize (Hv u Hu). unfold view in Hv. rewrite Hf in Hv. congruence.
    + rewrite !untouched_k; auto. intros u Hu. apply Hn. apply Hin. exact Hu.
Qed.

(* ------------------------------------------------------------------ *)
(* 4. Serializability.                                                  *)

Lemma only_only_same : forall t sched, only t (only t sched) = only t sched.
Proof.
  intros t sched. unfold only. induction sched as [|u l IH]; cbn [filter]; [reflexivity|].
  destruct (Nat.eqb t u) eqn:E; cbn [filter]; [rewrite E, IH; reflexivity|exact IH].
Qed.

Lemma only_only_other : forall t u sched, t <> u -> only t (only u sched) = [].
Proof.
  intros t u sched Hne. unfold only. induction sched as [|v l IH]; cbn [filter]; [reflexivity|].
  destruct (Nat.eqb u v) eqn:E; cbn [filter]; [|exact IH].
  apply Nat.eqb_eq in E. subst v. apply Nat.eqb_neq in Hne. rewrite Hne. exact IH.
Qed.

Lemma only_app : forall t l1 l2, only t (l1 ++ l2) = only t l1 ++ only t l2.
Proof. intros. unfold only. apply filter_app. Qed.

Lemma only_serial_notin : forall t order sched, ~ In t order -> only t (serial order sched) = [].
Proof.
  intros t order sched. induction order as [|u order IH]; intros H; cbn [serial flat_map]; [reflexivity|].
  rewrite only_app. fold (serial order sched).
  rewrite IH by (intro; apply H; right; assumption).
  rewrite only_only_other by (intro; apply H; left; auto). reflexivity.
Qed.

Lemma only_serial : forall t order sched,
  NoDup order -> (In t sched -> In t order) -> only t (serial order sched) = only t sched.
Proof.
  intros t order sched Hnd. induction Hnd as [|u order Hu Hnd IH]; intros Hin; cbn [serial flat_map].
  - destruct (only t sched) as [|x l] eqn:E; [reflexivity|].
    exfalso. apply Hin. apply only_In. rewrite E. discriminate.
  - rewrite only_app. fold (serial order sched).
    destruct (Nat.eq_dec t u) as [E|E].
    + subst u. rewrite only_only_same, only_serial_notin by exact Hu. apply app_nil_r.
    + rewrite only_only_other by exact E. cbn [app]. apply IH.
      intros H. destruct (Hin H) as [H1|H1]; [congruence|exact H1].
Qed.

Lemma serializable : forall cf order sched G,
  disjoint_on cf sched -> NoDup order -> (forall t, In t sched -> In t order) ->
  geq (run cf sched G) (run cf (serial order sched) G).
Proof.
  intros cf order sched G Hd Hnd Hin. apply same_projections; [exact Hd|].
  intros t. symmetry. apply only_serial; auto.
Qed.

(* two steps of different threads commute *)
Lemma steps_commute : forall cf a b G,
  a <> b -> c_ns cf a <> c_ns cf b -> c_comp cf a <> c_comp cf b ->
  geq (gstep cf (gstep cf G a) b) (gstep cf (gstep cf G b) a).
Proof.
  intros cf a b G Hne Hn Hk.
  apply (same_projections cf [a; b] [b; a] G).
  - intros x y [Hx|[Hx|[]]] [Hy|[Hy|[]]] Hxy; subst; try congruence; split; auto.
  - intros t. unfold only. cbn [filter].
    destruct (Nat.eqb t a) eqn:Ea; destruct (Nat.eqb t b) eqn:Eb; try reflexivity.
    apply Nat.eqb_eq in Ea, Eb. congruence.
Qed.

(* ------------------------------------------------------------------ *)
(* 5. The result in user terms.                                         *)

Lemma only_repeat : forall t sched, only t sched = repeat t (length (only t sched)).
Proof.
  intros t sched. unfold only. induction sched as [|u l IH]; cbn [filter]; [reflexivity|].
  destruct (Nat.eqb t u) eqn:E; [|exact IH].
  apply Nat.eqb_eq in E. subst u. cbn [length repeat]. rewrite <- IH. reflexivity.
Qed.

(* a finished machine does not move *)
Lemma final_stuck : forall w m n k, final (m_phase m) = true -> tstep w m n k = (m, n, k).
Proof. intros w m n k H. unfold tstep. destruct (m_phase m); try discriminate; reflexivity. Qed.

Lemma final_gstep_m : forall cf G t, final (m_phase (g_m G t)) = true -> g_m (gstep cf G t) t = g_m G t.
Proof.
  intros cf G t H. unfold gstep. rewrite final_stuck by exact H. cbn [g_m]. apply fupd_same.
Qed.

Lemma solo_more : forall cf t n G, final (m_phase (g_m G t)) = true -> g_m (solo cf t n G) t = g_m G t.
Proof.
  intros cf t n. induction n as [|n IH]; intros G H; unfold solo; cbn [repeat run fold_left]; [reflexivity|].
  fold (run cf (repeat t n) (gstep cf G t)). fold (solo cf t n (gstep cf G t)).
  rewrite IH by (rewrite final_gstep_m by exact H; exact H).
  apply final_gstep_m. exact H.
Qed.

Lemma solo_add : forall cf t a b G, solo cf t (a + b) G = solo cf t b (solo cf t a G).
Proof. intros. unfold solo, run. rewrite repeat_app, fold_left_app. reflexivity. Qed.

(* thread t has finished: its machine (result, pass count, number of _evaluate
   entries, what fit_to_range saw) is that of a solo run of any n >= its own steps *)
Lemma result_alone : forall cf t sched G n,
  (forall u, In u sched -> u <> t -> c_ns cf u <> c_ns cf t /\ c_comp cf u <> c_comp cf t) ->
  final (m_phase (g_m (run cf sched G) t)) = true ->
  (length (only t sched) <= n)%nat ->
  g_m (run cf sched G) t = g_m (solo cf t n G) t /\ result (run cf sched G) t = result (solo cf t n G) t.
Proof.
  intros cf t sched G n Hs Hf Hle.
  assert (Hv : view cf t (run cf sched G) = view cf t (solo cf t (length (only t sched)) G)).
  { unfold solo. rewrite <- only_repeat. apply ni_on_gen; [exact Hs|reflexivity]. }
  assert (Hm : g_m (run cf sched G) t = g_m (solo cf t (length (only t sched)) G) t)
    by (unfold view in Hv; congruence).
  assert (E : g_m (run cf sched G) t = g_m (solo cf t n G) t).
  { replace n with (length (only t sched) + (n - length (only t sched)))%nat by lia.
    rewrite solo_add, solo_more; [exact Hm|]. rewrite <- Hm. exact Hf. }
  split; [exact E|]. unfold result. rewrite E. reflexivity.
Qed.

(* completion is decided by the number of own steps alone *)
Lemma completion_alone : forall cf t sched G,
  (forall u, In u sched -> u <> t -> c_ns cf u <> c_ns cf t /\ c_comp cf u <> c_comp cf t) ->
  final (m_phase (g_m (run cf sched G) t)) = final (m_phase (g_m (solo cf t (length (only t sched)) G) t)).
Proof.
  intros cf t sched G Hs.
  assert (Hv : view cf t (run cf sched G) = view cf t (solo cf t (length (only t sched)) G)).
  { unfold solo. rewrite <- only_repeat. apply ni_on_gen; [exact Hs|reflexivity]. }
  unfold view in Hv. assert (g_m (run cf sched G) t = g_m (solo cf t (length (only t sched)) G) t) as ->
    by congruence. reflexivity.
Qed.

(* two schedules in which t made the same number of steps show t the same *)
Lemma same_count_same_view : forall cf t s1 s2 G,
  (forall u, In u (s1 ++ s2) -> u <> t -> c_ns cf u <> c_ns cf t /\ c_comp cf u <> c_comp cf t) ->
  length (only t s1) = length (only t s2) ->
  view cf t (run cf s1 G) = view cf t (run cf s2 G).
Proof.
  intros cf t s1 s2 G Hs Hl.
  rewrite (ni_on_gen cf t s1 G G) by (try reflexivity; intros u Hu; apply Hs; apply in_or_app; auto).
  rewrite (ni_on_gen cf t s2 G G) by (try reflexivity; intros u Hu; apply Hs; apply in_or_app; auto).
  rewrite (only_repeat t s1), (only_repeat t s2), Hl. reflexivity.
Qed.

(* ------------------------------------------------------------------ *)
(* 6. Examples: three threads, a schedule that interleaves them.        *)

Definition wbB : wbook := {| w_cells := [selfcell 3 (1 # 4) 0]; w_ranges := [] |}.
Definition cf3 : config :=
  {| c_wb := fun t => match t with 2%nat => wbB | _ => wbA end; c_comp := fun t => t; c_ns := fun t => t |}.
Definition kinds3 (t : nat) : kind :=
  match t with 0%nat => KEval 0 100 (1 # 1024) | 1%nat => KEval 0 1 1 | _ => KEval 0 3 (1 # 1024) end.
Definition G3 : glob :=
  fresh_process kinds3 (fun t => init_comp (match t with 2%nat => wbB | _ => wbA end)).
Definition ths3 : list nat := [0; 1; 2]%nat.
Definition sched3 : list nat :=
  [0; 1; 2; 0; 2; 1; 0; 2; 0; 1; 2; 0; 0; 2; 0; 2; 0; 1; 2; 0; 0; 0; 0; 0; 0; 0; 0; 0; 0; 0; 0; 0; 0; 0; 0; 0; 0; 0]%nat.

Example cf3_disjoint : disjoint_on cf3 ths3.
Proof. intros a b _ _ H. cbn. auto. Qed.
Example sched3_threads : forall u, In u sched3 -> In u ths3.
Proof.
  intros u H. unfold ths3. cbn in H.
  repeat (destruct H as [H|H]; [subst u; cbn; tauto|]). destruct H.
Qed.
Example sched3_disjoint : disjoint_on cf3 sched3.
Proof. intros a b _ _ H. cbn. auto. Qed.
Example order3_nodup : NoDup [2; 0; 1]%nat /\ (forall t, In t sched3 -> In t [2; 0; 1]%nat).
Proof.
  split.
  - repeat constructor; cbn; intuition discriminate.
  - intros t H. apply sched3_threads in H. unfold ths3 in H. cbn in *. tauto.
Qed.
(* the three threads finish under sched3 with results that are not the default:
   x = 1 + x/2 with 100 passes allowed / tolerance 2^-10 : 12 passes; the same with 1
   pass allowed; x = 3 + x/4 with 3 passes allowed *)
Example sched3_results :
  result (run cf3 sched3 G3) 0%nat = (PDone, Some (2047 # 1024), 12%Z) /\
  result (run cf3 sched3 G3) 1%nat = (PDone, Some 0%Q, 1%Z) /\
  result (run cf3 sched3 G3) 2%nat = (PDone, Some (15 # 4), 3%Z).
Proof. vm_compute. repeat split. Qed.
Example sched3_final : forall t, In t ths3 -> final (m_phase (g_m (run cf3 sched3 G3) t)) = true.
Proof. intros t H. unfold ths3 in H. cbn in H. destruct H as [H|[H|[H|[]]]]; subst t; vm_compute; reflexivity. Qed.
Example sched3_serial : serial [2; 0; 1]%nat sched3 =
  (repeat 2 7 ++ repeat 0 27 ++ repeat 1 4)%nat.
Proof. vm_compute. reflexivity. Qed.

(* ------------------------------------------------------------------ *)
(* 7. The thread-local namespaces are needed.                           *)

(* two threads on different compilers that SHARE the namespace (a plain
   module-level object instead of threading.local): there are workloads and a
   schedule on which what one thread gets back differs from its solo run *)
Lemma shared_namespace_interferes :
  exists cf kinds comps sched t,
    (forall a b, a <> b -> c_comp cf a <> c_comp cf b) /\
    c_ns cf 0%nat = c_ns cf 1%nat /\
    result (run cf sched (fresh_process kinds comps)) t
      <> result (run cf (only t sched) (fresh_process kinds comps)) t /\
    view cf t (run cf sched (fresh_process kinds comps))
      <> view cf t (run cf (only t sched) (fresh_process kinds comps)).
Proof.
  exists shared_cf, two_kinds, (fun _ => init_comp wbA), sched2, 0%nat.
  split; [intros a b H; exact H|]. split; [reflexivity|].
  assert (R : result (run shared_cf sched2 (fresh_process two_kinds (fun _ => init_comp wbA))) 0%nat
              <> result (run shared_cf (only 0%nat sched2) (fresh_process two_kinds (fun _ => init_comp wbA))) 0%nat)
    by (vm_compute; discriminate).
  split; [exact R|].
  intro H. apply R. unfold view in H. unfold result.
  assert (E : g_m (run shared_cf sched2 (fresh_process two_kinds (fun _ => init_comp wbA))) 0%nat
            = g_m (run shared_cf (only 0%nat sched2) (fresh_process two_kinds (fun _ => init_comp wbA))) 0%nat)
    by congruence.
  rewrite E. reflexivity.
Qed.

(* the same workloads and schedule with thread-local namespaces: no difference *)
Example local_namespace_same :
  result (run local_cf sched2 G2) 0%nat = result (run local_cf (only 0%nat sched2) G2) 0%nat.
Proof. vm_compute. reflexivity. Qed.

(* the theorems applied to the three-thread example *)
Example sched3_sep2 : forall u, In u sched3 -> u <> 2%nat ->
  c_ns cf3 u <> c_ns cf3 2%nat /\ c_comp cf3 u <> c_comp cf3 2%nat.
Proof. intros u _ H. cbn. auto. Qed.
Example result_alone_3 :
  result (run cf3 sched3 G3) 2%nat = result (solo cf3 2%nat 9 G3) 2%nat /\
  result (solo cf3 2%nat 9 G3) 2%nat = (PDone, Some (15 # 4), 3%Z).
Proof.
  split.
  - apply (result_alone cf3 2%nat sched3 G3 9 sched3_sep2).
    + apply sched3_final. unfold ths3. cbn. tauto.
    + vm_compute. repeat constructor.
  - vm_compute. reflexivity.
Qed.
Example serializable_3 : geq (run cf3 sched3 G3) (run cf3 (repeat 2 7 ++ repeat 0 27 ++ repeat 1 4)%nat G3).
Proof.
  rewrite <- sched3_serial. apply serializable.
  - exact sched3_disjoint.
  - apply order3_nodup.
  - apply order3_nodup.
Qed.
