(* Props/C10.v — property theorems only.  Model: Model/Ops.v (hand transcription
   of excelutil.fixup, tied by the correspondence run) over Gen/excelutil.v
   (coerce_to_number, type_cmp_value, is_number: regenerated every run). *)
From Coq Require Import ZArith QArith List.
From PV Require Import Lib.Py Model.Ops Proofs.C10.
From PV Require Gen.excelutil.
Import ListNotations.
Open Scope Z_scope.

(* an error operand is returned unchanged, the left one first — all 13 operators *)
Theorem C10_error_left_first : forall l o r,
  in_error_codes l = Ok true -> fixup l o r = Ok l.
Proof. exact error_left. Qed.
Print Assumptions C10_error_left_first.

Theorem C10_error_right : forall l o r,
  in_error_codes l = Ok false -> in_error_codes r = Ok true -> fixup l o r = Ok r.
Proof. exact error_right. Qed.
Print Assumptions C10_error_right.

(* comparisons: for all non-error scalars (blank included) exactly one of
   <, =, > holds and <>, <=, >= are the complements *)
Theorem C10_trichotomy : forall l r ks, scalar l -> scalar r ->
  in_error_codes l = Ok false -> in_error_codes r = Ok false ->
  cmp_keys l r = Ok ks ->
  exists lt eq gt,
    fixup l Lt r = Ok (VBool lt) /\ fixup l Eq r = Ok (VBool eq) /\ fixup l Gt r = Ok (VBool gt)
    /\ one_of3 lt eq gt
    /\ fixup l NotEq r = Ok (VBool (negb eq))
    /\ fixup l LtE r = Ok (VBool (negb gt))
    /\ fixup l GtE r = Ok (VBool (negb lt)).
Proof. exact trichotomy. Qed.
Print Assumptions C10_trichotomy.

(* … and the comparison is defined for all such operands, except when a
   character's case mapping is outside the model *)
Theorem C10_cmp_total : forall l r, scalar l -> scalar r ->
  in_error_codes l = Ok false -> in_error_codes r = Ok false ->
  (exists ks, cmp_keys l r = Ok ks) \/ cmp_keys l r = Raise Unmodelled.
Proof. exact cmp_keys_total. Qed.
Print Assumptions C10_cmp_total.

(* numbers < text < logicals *)
Theorem C10_number_below_text : forall n s w,
  in_error_codes (VStr s) = Ok false -> is_blank (VStr s) = false ->
  str_lower (VStr s) = Ok w -> fixup (VInt n) Lt (VStr s) = Ok (VBool true).
Proof. exact num_lt_text. Qed.
Print Assumptions C10_number_below_text.
Theorem C10_text_below_logical : forall s w b,
  in_error_codes (VStr s) = Ok false -> is_blank (VStr s) = false ->
  str_lower (VStr s) = Ok w -> fixup (VStr s) Lt (VBool b) = Ok (VBool true).
Proof. exact text_lt_bool. Qed.
Print Assumptions C10_text_below_logical.
Theorem C10_number_below_logical : forall n b, fixup (VInt n) Lt (VBool b) = Ok (VBool true).
Proof. exact num_lt_bool. Qed.
Print Assumptions C10_number_below_logical.

(* text compares case-insensitively *)
Theorem C10_text_case_insensitive : forall a b,
  in_error_codes (VStr a) = Ok false -> in_error_codes (VStr b) = Ok false ->
  is_blank (VStr a) = false -> is_blank (VStr b) = false ->
  non_ascii a = false -> non_ascii b = false ->
  fixup (VStr a) Eq (VStr b) = Ok (VBool (str_eqb (map ascii_lower a) (map ascii_lower b))).
Proof. exact text_eq_ignores_case. Qed.
Print Assumptions C10_text_case_insensitive.

(* blank is the neutral value of the other side *)
Theorem C10_blank_neutral :
  fixup VNone Eq (VInt 0) = Ok (VBool true) /\ fixup VNone Eq (VStr []) = Ok (VBool true)
  /\ fixup VNone Eq (VBool false) = Ok (VBool true) /\ fixup VNone Eq VNone = Ok (VBool true).
Proof. exact (conj blank_eq_zero (conj blank_eq_empty_text (conj blank_eq_false blank_eq_blank))). Qed.
Print Assumptions C10_blank_neutral.

(* arithmetic: integers exactly, x/0 = #DIV/0!, logicals and blank as numbers *)
Theorem C10_int_arith : forall a b,
  fixup (VInt a) Add (VInt b) = Ok (VInt (a + b))
  /\ fixup (VInt a) Sub (VInt b) = Ok (VInt (a - b))
  /\ fixup (VInt a) Mult (VInt b) = Ok (VInt (a * b))
  /\ fixup excelutil.c_EMPTY USub (VInt a) = Ok (VInt (- a)).
Proof. exact (fun a b => conj (int_add a b) (conj (int_sub a b) (conj (int_mul a b) (int_neg a)))). Qed.
Print Assumptions C10_int_arith.
Theorem C10_div : forall a b, b <> 0 ->
  fixup (VInt a) Div (VInt b) = Ok (mkfloat (inject_Z a / inject_Z b)).
Proof. exact int_div. Qed.
Print Assumptions C10_div.
Theorem C10_div_by_zero : forall a, fixup (VInt a) Div (VInt 0) = Ok excelutil.c_DIV0.
Proof. exact int_div0. Qed.
Print Assumptions C10_div_by_zero.
Theorem C10_logical_as_number : forall b o r, arith o ->
  fixup (VBool b) o r = fixup (VInt (b2z b)) o r.
Proof. exact bool_as_number. Qed.
Print Assumptions C10_logical_as_number.
Theorem C10_logical_as_number_right : forall b o l, arith o -> in_error_codes l = Ok false ->
  fixup l o (VBool b) = fixup l o (VInt (b2z b)).
Proof. exact bool_as_number_r. Qed.
Print Assumptions C10_logical_as_number_right.
Theorem C10_blank_as_number : forall o r, arith o -> fixup VNone o r = fixup (VInt 0) o r.
Proof. exact blank_as_number. Qed.
Print Assumptions C10_blank_as_number.

(* & concatenates the Excel renderings *)
Theorem C10_concat_text : forall a b,
  in_error_codes (VStr a) = Ok false -> in_error_codes (VStr b) = Ok false ->
  is_blank (VStr a) = false -> is_blank (VStr b) = false ->
  fixup (VStr a) BitAnd (VStr b) = Ok (VStr (a ++ b)).
Proof. exact concat_text. Qed.
Print Assumptions C10_concat_text.
Theorem C10_concat_int : forall n b,
  in_error_codes (VStr b) = Ok false -> is_blank (VStr b) = false ->
  fixup (VInt n) BitAnd (VStr b) = Ok (VStr (str_of_Z n ++ b)).
Proof. exact concat_int_text. Qed.
Print Assumptions C10_concat_int.
Theorem C10_concat_logical_blank : forall b,
  fixup (VBool b) BitAnd VNone
  = Ok (VStr (if b then [84; 82; 85; 69] else [70; 65; 76; 83; 69])).
Proof. exact concat_bool_blank. Qed.
Print Assumptions C10_concat_logical_blank.
