(* Props/C10.v — property theorems only.  Model: Model/Ops.v (hand transcription
   of excelutil.fixup, tied by the correspondence run) over Gen/excelutil.v
   (coerce_to_number, type_cmp_value, is_number: regenerated every run). *)
From Coq Require Import ZArith QArith List.
From PV Require Import Lib.Py Model.Ops Proofs.C10.
From PV Require Gen.excelutil.
Import ListNotations.
Open Scope Z_scope.

(* an error operand is returned unchanged, the left one first — all 13 operators *)
Theorem C10_error_left_first : forall l o r,
  in_error_codes l = Ok true -> fixup l o r = Ok l.
Proof. exact error_left. Qed.
Print Assumptions C10_error_left_first.

Theorem C10_error_right : forall l o r,
  in_error_codes l = Ok false -> in_error_codes r = Ok true -> fixup l o r = Ok r.
Proof. exact error_right. Qed.
Print Assumptions C10_error_right.

(* comparisons: for all non-error scalars (blank included) exactly one of
   <, =, > holds and <>, <=, >= are the complements *)
Theorem C10_trichotomy : forall l r ks, scalar l -> scalar r ->
  in_error_codes l = Ok false -> in_error_codes r = Ok false ->
  cmp_keys l r = Ok ks ->
  exists lt eq gt,
    fixup l Lt r = Ok (VBool lt) /\ fixup l Eq r = Ok (VBool eq) /\ fixup l Gt r = Ok (VBool gt)
    /\ one_of3 lt eq gt
    /\ fixup l NotEq r = Ok (VBool (negb eq))
    /\ fixup l LtE r = Ok (VBool (negb gt))
    /\ fixup l GtE r = Ok (VBool (negb lt)).
Proof. exact trichotomy. Qed.
Print Assumptions C10_trichotomy.

(* … and the comparison is defined for all such operands, except when a
   character's case mapping is outside the model *)
Theorem C10_cmp_total : forall l r, scalar l -> scalar r ->
  in_error_codes l = Ok false -> in_error_codes r = Ok false ->
  (exists ks, cmp_keys l r = Ok ks) \/ cmp_keys l r = Raise Unmodelled.
Proof. exact cmp_keys_total. Qed.
Print Assumptions C10_cmp_total.

(* numbers < text < logicals *)
Theorem C10_number_below_text : forall n s w,
  in_error_codes (VStr s) = Ok false -> is_blank (VStr s) = false ->
  str_lower (VStr s) = Ok w -> fixup (VInt n) Lt (VStr s) = Ok (VBool true).
Proof. exact num_lt_text. Qed.
Print Assumptions C10_number_below_text.
Theorem C10_text_below_logical : forall s w b,
  in_error_codes (VStr s) = Ok false -> is_blank (VStr s) = false ->
  str_lower (VStr s) = Ok w -> fixup (VStr s) Lt (VBool b) = Ok (VBool true).
Proof. exact text_lt_bool. Qed.
Print Assumptions C10_text_below_logical.
Theorem C10_number_below_logical : forall n b, fixup (VInt n) Lt (VBool b) = Ok (VBool true).
Proof. exact num_lt_bool. Qed.
Print Assumptions C10_number_below_logical.

(* text compares case-insensitively *)
Theorem C10_text_case_insensitive : forall a b,
  in_error_codes (VStr a) = Ok false -> in_error_codes (VStr b) = Ok false ->
  is_blank (VStr a) = false -> is_blank (VStr b) = false ->
  non_ascii a = false -> non_ascii b = false ->
  fixup (VStr a) Eq (VStr b) = Ok (VBool (str_eqb (map ascii_lower a) (map ascii_lower b))).
Proof. exact text_eq_ignores_case. Qed.
Print Assumptions C10_text_case_insensitive.

(* blank is the neutral value of the other side *)
Theorem C10_blank_neutral :
  fixup VNone Eq (VInt 0) = Ok (VBool true) /\ fixup VNone Eq (VStr []) = Ok (VBool true)
  /\ fixup VNone Eq (VBool false) = Ok (VBool true) /\ fixup VNone Eq VNone = Ok (VBool true).
Proof. exact (conj blank_eq_zero (conj blank_eq_empty_text (conj blank_eq_false blank_eq_blank))). Qed.
Print Assumptions C10_blank_neutral.

(* arithmetic: integers exactly, x/0 = #DIV/0!, logicals and blank as numbers *)
Theorem C10_int_arith : forall a b,
  fixup (VInt a) Add (VInt b) = Ok (VInt (a + b))
  /\ fixup (VInt a) Sub (VInt b) = Ok (VInt (a - b))
  /\ fixup (VInt a) Mult (VInt b) = Ok (VInt (a * b))
  /\ fixup excelutil.c_EMPTY USub (VInt a) = Ok (VInt (- a)).
Proof. exact (fun a b => conj (int_add a b) (conj (int_sub a b) (conj (int_mul a b) (int_neg a)))). Qed.
Print Assumptions C10_int_arith.
Theorem C10_div : forall a b, b <> 0 ->
  fixup (VInt a) Div (VInt b) = Ok (mkfloat (inject_Z a / inject_Z b)).
Proof. exact int_div. Qed.
Print Assumptions C10_div.
Theorem C10_div_by_zero : forall a, fixup (VInt a) Div (VInt 0) = Ok excelutil.c_DIV0.
Proof. exact int_div0. Qed.
Print Assumptions C10_div_by_zero.
Theorem C10_logical_as_number : forall b o r, arith o ->
  fixup (VBool b) o r = fixup (VInt (b2z b)) o r.
Proof. exact bool_as_number. Qed.
Print Assumptions C10_logical_as_number.
Theorem C10_logical_as_number_right : forall b o l, arith o -> in_error_codes l = Ok false ->
  fixup l o (VBool b) = fixup l o (VInt (b2z b)).
Proof. exact bool_as_number_r. Qed.
Print Assumptions C10_logical_as_number_right.
Theorem C10_blank_as_number : forall o r, arith o -> fixup VNone o r = fixup (VInt 0) o r.
Proof. exact blank_as_number. Qed.
Print Assumptions C10_blank_as_number.

(* & concatenates the Excel renderings *)
Theorem C10_concat_text : forall a b,
  in_error_codes (VStr a) = Ok false -> in_error_codes (VStr b) = Ok false ->
  is_blank (VStr a) = false -> is_blank (VStr b) = false ->
  fixup (VStr a) BitAnd (VStr b) = Ok (VStr (a ++ b)).
Proof. exact concat_text. Qed.
Print Assumptions C10_concat_text.
Theorem C10_concat_int : forall n b,
  in_error_codes (VStr b) = Ok false -> is_blank (VStr b) = false ->
  fixup (VInt n) BitAnd (VStr b) = Ok (VStr (str_of_Z n ++ b)).
Proof. exact concat_int_text. Qed.
Print Assumptions C10_concat_int.
Theorem C10_concat_logical_blank : forall b,
  fixup (VBool b) BitAnd VNone
  = Ok (VStr (if b then [84; 82; 85; 69] else [70; 65; 76; 83; 69])).
Proof. exact concat_bool_blank. Qed.
Print Assumptions C10_concat_logical_blank.

(* ===================================================================== *)
(* Deepening: totality / type closure, text in arithmetic, the order,    *)
(* the renderings of "&".  Definitions used below (Proofs/C10Total.v,    *)
(* Proofs/C10Order.v):                                                   *)
(*   op_modelled o v  decidable: v is inside the model of operator o     *)
(*       comparisons: text whose case mapping is modelled (cmp_modelled) *)
(*       &:           integral float, or float_repr defined              *)
(*       arithmetic:  text is ASCII and a TRUE/FALSE/#EMPTY! spelling or *)
(*                    float() of it is not Unmodelled (inf/nan, |exp|>300)*)
(*   result_ok o v    comparisons: a logical; &: text; + - * / unary     *)
(*                    minus: VInt, VFloat, #VALUE! or #DIV/0!            *)
(*   arith_result v   VInt, VFloat, #VALUE!, #DIV/0! or #NUM! (for ^)    *)
(*   text_num s       coerce_to_number(s, True) written out: TRUE/FALSE, *)
(*                    int(), float() (py_int_base / parse_float)         *)
(*   plain v          scalar, not an error value, not blank              *)
(*   res_eqv          equal results up to the kind of number (4 ~ 4.0)   *)
(* ===================================================================== *)
From PV Require Import Proofs.NumLemmas Proofs.C10Order Proofs.C10Total.

(* (a) TOTALITY: every operator except ^ returns a value of the right kind on
   all modelled non-error scalars, never raises ... *)
Theorem C10_total : forall l o r, scalar l -> scalar r ->
  in_error_codes l = Ok false -> in_error_codes r = Ok false -> o <> Pow ->
  op_modelled o l = true -> op_modelled o r = true ->
  exists v, fixup l o r = Ok v /\ result_ok o v.
Proof. exact total. Qed.
Print Assumptions C10_total.

(* ... with error operands included: a number, text, logical or error value *)
Theorem C10_closed : forall l o r, scalar l -> scalar r -> o <> Pow ->
  op_modelled o l = true -> op_modelled o r = true ->
  exists v, fixup l o r = Ok v /\ xl_value v.
Proof. exact closed. Qed.
Print Assumptions C10_closed.

(* the hypothesis is exact, for all 13 operators: outside it the model answers
   Unmodelled and nothing else (for ^ see the further restriction below) *)
Theorem C10_unmodelled_exact : forall l o r, scalar l -> scalar r ->
  in_error_codes l = Ok false -> in_error_codes r = Ok false ->
  op_modelled o l = false \/ op_modelled o r = false ->
  fixup l o r = Raise Unmodelled.
Proof. exact unmodelled_exact. Qed.
Print Assumptions C10_unmodelled_exact.

(* ^ : total exactly on pow_modelled operands (l1, r1 = the coerced operands);
   PARTIAL with respect to the property: a non-integral exponent with a
   non-negative base is outside the exact-arithmetic model (irrational result),
   there only the oracle judges the implementation *)
Theorem C10_total_pow_partial : forall l r, scalar l -> scalar r ->
  in_error_codes l = Ok false -> in_error_codes r = Ok false ->
  arith_modelled l = true -> arith_modelled r = true ->
  exists l1 r1,
    excelutil.f_coerce_to_number py_fuel l (VBool true) = Ok l1 /\ coerced l1
    /\ excelutil.f_coerce_to_number py_fuel r (VBool true) = Ok r1 /\ coerced r1
    /\ (pow_modelled l1 r1 = true -> exists v, fixup l Pow r = Ok v /\ arith_result v)
    /\ (pow_modelled l1 r1 = false -> fixup l Pow r = Raise Unmodelled).
Proof. exact pow_total. Qed.
Print Assumptions C10_total_pow_partial.

(* pow_modelled in plain terms: the float exponent is integral or the base negative *)
Theorem C10_pow_domain : forall l1 q, number l1 ->
  pow_modelled l1 (VFloat q) = integral q || q_ltb (qv l1) 0.
Proof. exact pow_domain. Qed.
Print Assumptions C10_pow_domain.

(* (b) TEXT IN ARITHMETIC.  What the generated coerce_to_number does with text *)
Theorem C10_text_coercion : forall s, non_ascii s = false ->
  excelutil.f_coerce_to_number py_fuel (VStr s) (VBool true) = text_num s.
Proof. exact coerce_text. Qed.
Print Assumptions C10_text_coercion.

(* numeric text behaves as the number it spells, on either side *)
Theorem C10_text_as_number : forall s n o r, arith o -> non_ascii s = false ->
  in_error_codes (VStr s) = Ok false -> text_num s = Ok n -> number n ->
  scalar r -> arith_modelled r = true ->
  res_eqv (fixup (VStr s) o r) (fixup n o r) /\ res_eqv (fixup r o (VStr s)) (fixup r o n).
Proof. exact text_as_number. Qed.
Print Assumptions C10_text_as_number.

(* other text gives #VALUE! (+ - * / ^), on either side *)
Theorem C10_text_not_number : forall s o r, binary_arith o -> non_ascii s = false ->
  in_error_codes (VStr s) = Ok false -> text_num s = Ok (VStr s) ->
  scalar r -> in_error_codes r = Ok false -> arith_modelled r = true ->
  fixup (VStr s) o r = Ok excelutil.c_VALUE_ERROR /\ fixup r o (VStr s) = Ok excelutil.c_VALUE_ERROR.
Proof. exact text_not_number. Qed.
Print Assumptions C10_text_not_number.

(* the result of + - * / depends only on the exact values the operands stand for *)
Theorem C10_arith_value : forall o a b, number a -> number b -> arith o ->
  match q_op o (qv a) (qv b) with
  | Some q => exists v, num_apply o a b = Ok v /\ number v /\ (qv v == q)%Q
  | None => num_apply o a b = Raise ZeroDivisionError
  end.
Proof. exact num_apply_value. Qed.
Print Assumptions C10_arith_value.

(* (c) ONE ORDER on the non-blank, non-error scalars (Refuted/C10_trans_blank.v:
   through blank neither <= nor = is transitive, by the property's own rule) *)
Theorem C10_le_transitive : forall a b c, plain a -> plain b -> plain c ->
  fixup a LtE b = Ok (VBool true) -> fixup b LtE c = Ok (VBool true) ->
  fixup a LtE c = Ok (VBool true).
Proof. exact le_trans. Qed.
Print Assumptions C10_le_transitive.

Theorem C10_lt_transitive : forall a b c, plain a -> plain b -> plain c ->
  fixup a Lt b = Ok (VBool true) -> fixup b Lt c = Ok (VBool true) ->
  fixup a Lt c = Ok (VBool true).
Proof. exact lt_trans. Qed.
Print Assumptions C10_lt_transitive.

Theorem C10_le_antisymmetric : forall a b, plain a -> plain b ->
  fixup a LtE b = Ok (VBool true) -> fixup b LtE a = Ok (VBool true) ->
  fixup a Eq b = Ok (VBool true).
Proof. exact le_antisym. Qed.
Print Assumptions C10_le_antisymmetric.

Theorem C10_le_total : forall a b, plain a -> plain b ->
  cmp_modelled a = true -> cmp_modelled b = true ->
  fixup a LtE b = Ok (VBool true) \/ fixup b LtE a = Ok (VBool true).
Proof. exact le_total_modelled. Qed.
Print Assumptions C10_le_total.

Theorem C10_eq_equivalence :
  (forall a, plain a -> cmp_modelled a = true -> fixup a Eq a = Ok (VBool true))
  /\ (forall a b, plain a -> plain b -> fixup b Eq a = fixup a Eq b)
  /\ (forall a b c, plain a -> plain b -> plain c ->
        fixup a Eq b = Ok (VBool true) -> fixup b Eq c = Ok (VBool true) ->
        fixup a Eq c = Ok (VBool true)).
Proof. exact (conj eq_refl_modelled (conj eq_sym_plain eq_trans_plain)). Qed.
Print Assumptions C10_eq_equivalence.

(* (d) & concatenates the Excel renderings, for every pair of non-error scalars *)
Theorem C10_concat_renderings : forall l r, scalar l -> scalar r ->
  in_error_codes l = Ok false -> in_error_codes r = Ok false ->
  fixup l BitAnd r = (a <- xl_render l ;; b <- xl_render r ;; Ok (VStr (a ++ b))).
Proof. exact concat_spec. Qed.
Print Assumptions C10_concat_renderings.

(* integral floats render without ".0" — every integral float, any magnitude *)
Theorem C10_concat_integral_float : forall q z r b, (q == inject_Z z)%Q -> scalar r ->
  in_error_codes r = Ok false -> xl_render r = Ok b ->
  fixup (VFloat q) BitAnd r = Ok (VStr (str_of_Z z ++ b))
  /\ fixup r BitAnd (VFloat q) = Ok (VStr (b ++ str_of_Z z)).
Proof. exact concat_integral_float. Qed.
Print Assumptions C10_concat_integral_float.
