(* Props/C19.v — property theorems only.  Model: Gen/excellib.v, regenerated
   from /repo/src/pycel/excellib.py on every run; numbers are exact rationals
   ([qv v] is the value of a Python int/float/bool). *)
From Coq Require Import ZArith QArith Qround Qabs List.
From PV Require Import Lib.Py Proofs.NumLemmas Proofs.C19 Proofs.C19Bracket.
From PV Require Gen.excelutil Gen.excellib.
Import ListNotations.
Open Scope Z_scope.

(* ROUND(x, d) = z * 10^-d with z the integer nearest to x * 10^d, ties away
   from zero — for every rational x and every integer d (positive, zero, negative) *)
Theorem C19_round : forall x d, numeric x ->
  excellib.f_round_ x (VInt d)
  = Ok (mkfloat (inject_Z (q_round_half_up (qv x / digits_unit d)) * digits_unit d))
  /\ nearest_away (qv x / digits_unit d) (q_round_half_up (qv x / digits_unit d)).
Proof. exact (fun x d H => conj (round_closed x d H) (half_up_nearest _)). Qed.
Print Assumptions C19_round.

(* ROUNDDOWN / TRUNC move toward zero, ROUNDUP away from zero, to such a multiple *)
Theorem C19_rounddown : forall x d, numeric x ->
  excellib.f_rounddown x (VInt d)
  = Ok (mkfloat (inject_Z (q_trunc (qv x / digits_unit d)) * digits_unit d))
  /\ toward_zero (qv x / digits_unit d) (q_trunc (qv x / digits_unit d)).
Proof. exact (fun x d H => conj (rounddown_closed x d H) (trunc_toward_zero _)). Qed.
Print Assumptions C19_rounddown.
Theorem C19_trunc : forall x d, numeric x ->
  excellib.f_trunc x (VInt d) = excellib.f_rounddown x (VInt d).
Proof. exact (fun x d H => eq_trans (trunc_closed x d H) (eq_sym (rounddown_closed x d H))). Qed.
Print Assumptions C19_trunc.
Theorem C19_roundup : forall x d, numeric x ->
  excellib.f_roundup x (VInt d)
  = Ok (mkfloat (inject_Z (q_round_up (qv x / digits_unit d)) * digits_unit d))
  /\ away_from_zero (qv x / digits_unit d) (q_round_up (qv x / digits_unit d)).
Proof. exact (fun x d H => conj (roundup_closed x d H) (round_up_away _)). Qed.
Print Assumptions C19_roundup.
(* all three fix exact multiples; the unit 10^-d is positive *)
Theorem C19_fix_multiples : forall k,
  q_round_half_up (inject_Z k) = k /\ q_trunc (inject_Z k) = k /\ q_round_up (inject_Z k) = k.
Proof. exact round_modes_fix. Qed.
Print Assumptions C19_fix_multiples.
Theorem C19_unit_positive : forall n, (0 < pow10 n)%Q.
Proof. exact pow10_pos. Qed.
Print Assumptions C19_unit_positive.

(* "ROUNDDOWN <= |x| <= ROUNDUP in magnitude": with the closed forms of
   C19_rounddown / C19_roundup, for every rational x and every integer d *)
Theorem C19_magnitude_bracket : forall x d,
  (Qabs (inject_Z (q_trunc (qv x / digits_unit d)) * digits_unit d) <= Qabs (qv x))%Q /\
  (Qabs (qv x) <= Qabs (inject_Z (q_round_up (qv x / digits_unit d)) * digits_unit d))%Q.
Proof. exact (fun x d => magnitude_bracket_digits (qv x) d). Qed.
Print Assumptions C19_magnitude_bracket.

(* INT is floor *)
Theorem C19_int : forall x, numeric x -> excellib.f_int_ x = Ok (VInt (Qfloor (qv x))).
Proof. exact int_floor. Qed.
Print Assumptions C19_int.

(* MOD(n, d): n = d * INT(n/d) + MOD, sign of d, |MOD| < |d|; d = 0 -> #DIV/0! *)
Theorem C19_mod : forall n d, numeric n -> numeric d -> ~ (qv d == 0)%Q ->
  exists r, excellib.f_mod n d = Ok r /\ numeric r
    /\ (qv n == qv d * inject_Z (Qfloor (qv n / qv d)) + qv r)%Q
    /\ ((0 < qv d)%Q -> (0 <= qv r)%Q /\ (qv r < qv d)%Q)
    /\ ((qv d < 0)%Q -> (qv d < qv r)%Q /\ (qv r <= 0)%Q).
Proof. exact mod_spec. Qed.
Print Assumptions C19_mod.
Theorem C19_mod_zero : forall n d, numeric n -> numeric d -> (qv d == 0)%Q ->
  excellib.f_mod n d = Ok excelutil.c_DIV0.
Proof. exact mod_zero. Qed.
Print Assumptions C19_mod_zero.

(* CEILING / FLOOR with positive significance: the adjacent multiples of s bracketing x *)
Theorem C19_ceiling_floor : forall x s, numeric x -> numeric s -> (0 < qv s)%Q ->
  exists c f kc kf,
    excellib.f_ceiling x s = Ok c /\ excellib.f_floor x s = Ok f
    /\ (qv c == qv s * inject_Z kc)%Q /\ (qv f == qv s * inject_Z kf)%Q
    /\ (qv f <= qv x)%Q /\ (qv x <= qv c)%Q
    /\ (qv c < qv x + qv s)%Q /\ (qv x < qv f + qv s)%Q.
Proof. exact ceiling_floor_bracket. Qed.
Print Assumptions C19_ceiling_floor.
Theorem C19_ceiling_num_error : forall x s, numeric x -> numeric s -> (qv s < 0)%Q -> (0 < qv x)%Q ->
  excellib.f_ceiling x s = Ok excelutil.c_NUM_ERROR.
Proof. exact ceiling_num_error. Qed.
Print Assumptions C19_ceiling_num_error.
Theorem C19_floor_num_error : forall x s, numeric x -> numeric s -> (qv s < 0)%Q -> (0 < qv x)%Q ->
  excellib.f_floor x s = Ok excelutil.c_NUM_ERROR.
Proof. exact floor_num_error. Qed.
Print Assumptions C19_floor_num_error.
Theorem C19_ceiling_precise : forall x s, numeric x -> numeric s -> ~ (qv s == 0)%Q ->
  exists r, excellib.f_ceiling_precise x s = Ok r /\ numeric r
    /\ (qv r == Qabs (qv s) * inject_Z (Qceiling (qv x / Qabs (qv s))))%Q.
Proof. exact ceiling_precise_closed. Qed.
Print Assumptions C19_ceiling_precise.
Theorem C19_floor_precise : forall x s, numeric x -> numeric s -> ~ (qv s == 0)%Q ->
  exists r, excellib.f_floor_precise x s = Ok r /\ numeric r
    /\ (qv r == Qabs (qv s) * inject_Z (Qfloor (qv x / Qabs (qv s))))%Q.
Proof. exact floor_precise_closed. Qed.
Print Assumptions C19_floor_precise.

(* EVEN / ODD: next even / odd integer away from zero *)
Theorem C19_even : forall x, numeric x ->
  exists r k, excellib.f_even x = Ok r
    /\ (Qabs (qv r) == inject_Z (2 * k))%Q /\ (Qabs (qv x) <= Qabs (qv r))%Q
    /\ (Qabs (qv r) < Qabs (qv x) + 2)%Q
    /\ ((qv x < 0)%Q -> (qv r <= 0)%Q) /\ ((0 <= qv x)%Q -> (0 <= qv r)%Q).
Proof. exact even_bracket. Qed.
Print Assumptions C19_even.
Theorem C19_odd_closed_form : forall x, numeric x ->
  exists r, excellib.f_odd x = Ok r /\ numeric r
    /\ (qv r == (if q_ltb (qv x) 0 then -1 else 1)
                * Qabs (inject_Z (2 * Qceiling ((Qabs (qv x) - 1) / 2) + 1)))%Q.
Proof. exact odd_closed. Qed.
Print Assumptions C19_odd_closed_form.
(* ... and ODD as a bracket, like EVEN: |r| is an odd integer, |x| <= |r| < |x| + 2,
   with the sign of x (ODD(0) = 1)  — Proofs/C19Bracket.v *)
Theorem C19_odd : forall x, numeric x ->
  exists r k, excellib.f_odd x = Ok r
    /\ (Qabs (qv r) == inject_Z (2 * k + 1))%Q /\ (Qabs (qv x) <= Qabs (qv r))%Q
    /\ (Qabs (qv r) < Qabs (qv x) + 2)%Q
    /\ ((qv x < 0)%Q -> (qv r < 0)%Q) /\ ((0 <= qv x)%Q -> (0 < qv r)%Q).
Proof. exact odd_bracket. Qed.
Print Assumptions C19_odd.
