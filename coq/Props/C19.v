(* Props/C19.v — theorems to come *)
