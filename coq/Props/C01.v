(* Props/C01.v — theorems arrive from the c01 branch *)
