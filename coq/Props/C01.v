(* Props/C01.v — property theorems only.  Model: Model/Graph.v (hand
   transcription of set_value/_reset, _evaluate/_evaluate_range and
   _gen_graph/_make_cells of excelcompiler.py; tied by the differential run).
   Every theorem holds for EVERY well-formed workbook W (a DAG in topological
   presentation) and EVERY formula semantics [sem] that never computes a blank
   ([sem_nonblank]: side condition (d), see Refuted/C01_blank_result.v).

   Vocabulary (Proofs/C01Base.v, C01Inv.v, C01.v):
     wf W             deps of n < wb_n are smaller than n; inputs have no deps;
                      range nodes are not inputs
     spec W sem inp n the from-scratch value of node n under the inputs inp
     vc W s n         the cache entry of n — for a formula cell not built yet,
                      the stored result it will start from (a range: VNone)
     stored_ok        stored results, where present, are the from-scratch values
                      of the workbook's own inputs, and a cell with a stored
                      result has stored results for the formula cells it reads
     late_ok W s a    side condition (c): a descendant of a that is not built
                      yet has no stored result (Refuted/C01_stored_late_build.v)
     ok_op            Evaluate n / Build n: n < wb_n;  SetValue a v: a is a built
                      input cell, v is an Excel scalar (blank, logical, number,
                      text: scalar_exact), late_ok
     run_spec inp h   the trace of from-scratch values: Evaluate n gives
                      spec (inputs written so far) n *)
From Coq Require Import List.
From PV Require Import Lib.Py Model.Graph.
From PV Require Import Proofs.C01Base Proofs.C01Inv Proofs.C01.
From PV Require Import Proofs.C01Weak Proofs.C01Alias.
Import ListNotations.

(* the invariant holds initially and is preserved by every admissible operation *)
Theorem C01_invariant : forall W sem, wf W -> sem_nonblank W sem -> stored_ok W sem ->
  Inv W sem (init W) /\
  forall s o, Inv W sem s -> ok_op W s o -> Inv W sem (fst (step W sem s o)).
Proof. exact invariant. Qed.
Print Assumptions C01_invariant.

(* what the invariant says, I1 coherence: a built formula/range node that holds
   a value holds the from-scratch value under the current input entries *)
Theorem C01_invariant_coherence : forall W sem s, Inv W sem s ->
  forall n, st_built s n = true -> wb_input W n = false -> st_cache s n <> VNone ->
    st_cache s n = spec W sem (st_cache s) n.
Proof. exact Inv_I1. Qed.
Print Assumptions C01_invariant_coherence.

(* I2 closure: the built dependants of an empty built formula/range node are
   empty (what makes the early return of _reset sound) *)
Theorem C01_invariant_closure : forall W sem s, Inv W sem s ->
  forall p d, st_built s p = true -> wb_input W p = false -> st_cache s p = VNone ->
    st_built s d = true -> In p (wb_deps W d) -> st_cache s d = VNone.
Proof. exact Inv_I2. Qed.
Print Assumptions C01_invariant_closure.

(* PARTIAL (C01_coherent): after ANY admissible interleaving of set_value,
   evaluate and build, every evaluate returns exactly the from-scratch value
   under the inputs written so far — every written scalar, including blank and
   0/FALSE, 1/TRUE, 1/1.0 overwrites.  Missing for the full statement: the two
   side conditions (c) [late_ok, inside ok_op] and (d) [sem_nonblank], which
   the implementation really needs (Refuted/C01_*.v). *)
Theorem C01_coherent_partial : forall W sem, wf W -> sem_nonblank W sem -> stored_ok W sem ->
  inputs_exact W (wb_inp0 W) ->
  forall h, ok_history W sem (ok_op W) (init W) h ->
    snd (run W sem (init W) h) = run_spec W sem (wb_inp0 W) h.
Proof. exact coherent. Qed.
Print Assumptions C01_coherent_partial.

(* the same, pointwise and in terms of the machine's own input entries *)
Theorem C01_coherent_pointwise_partial : forall W sem, wf W -> sem_nonblank W sem ->
  stored_ok W sem -> inputs_exact W (wb_inp0 W) ->
  forall h n, ok_history W sem (ok_op W) (init W) h -> n < wb_n W ->
    let s := fst (run W sem (init W) h) in
    Inv W sem s /\ snd (step W sem s (Evaluate n)) = spec W sem (st_cache s) n.
Proof. exact coherent_pointwise. Qed.
Print Assumptions C01_coherent_pointwise_partial.

(* configuration 1 — no stored results (in-memory workbook, deserialized
   model): no condition on the order in which cells are built *)
Theorem C01_coherent_nodata_partial : forall W sem, wf W -> sem_nonblank W sem ->
  (forall n, wb_stored W n = VNone) -> inputs_exact W (wb_inp0 W) ->
  forall h, ok_history W sem (ok_op_free W) (init W) h ->
    snd (run W sem (init W) h) = run_spec W sem (wb_inp0 W) h.
Proof. exact coherent_nodata. Qed.
Print Assumptions C01_coherent_nodata_partial.

(* configuration 2 — .xlsx with stored results that are the from-scratch values
   of the workbook's own inputs: every descendant of a written cell must be
   built before the write *)
Theorem C01_coherent_stored_partial : forall W sem, wf W -> sem_nonblank W sem ->
  stored_consistent W sem -> inputs_exact W (wb_inp0 W) ->
  forall h, ok_history W sem (ok_op_built W) (init W) h ->
    snd (run W sem (init W) h) = run_spec W sem (wb_inp0 W) h.
Proof. exact coherent_stored. Qed.
Print Assumptions C01_coherent_stored_partial.

(* set_value's guard skips a write only when nothing changes: scalars that
   compare equal and have the same type are the same value *)
Theorem C01_guard_sound : forall a b, scalar_exact a = true -> scalar_exact b = true ->
  py_eq a b = true -> same_type a b = true -> a = b.
Proof. exact scalar_same. Qed.
Print Assumptions C01_guard_sound.

(* ---------------------------------------------------------------------------
   Whole-column references (S!B:B) and the WEAK non-blank condition.

   Vocabulary (Proofs/C01Weak.v, C01Alias.v):
     args_ok W n vals       vals has one value per precedent of n, and the value
                            of a formula/range precedent is not blank — the only
                            argument lists machine and specification hand to n
     sem_nonblank_weak      sem n vals <> VNone on those lists (side condition
                            (d'), implied by sem_nonblank)
     alias_node W sem r p   r is a non-input node whose only precedent is the
                            formula/range node p and sem r [v] = v: the reference
                            cell S!B:B (=_REF_("S!B1:B4")) of the bounded range
                            node p = S!B1:B4 (Model/GraphExpr.v FAlias)
     nonblank_except_alias  every formula/range node is an alias_node or never
                            computes a blank                                   *)
(* a workbook with a reference node is outside the reach of the theorems above … *)
Theorem C01_alias_not_strong : forall W sem r p, alias_node W sem r p -> ~ sem_nonblank W sem.
Proof. exact alias_not_strong. Qed.
Print Assumptions C01_alias_not_strong.

(* … but inside the reach of the ones below *)
Theorem C01_alias_weak : forall W sem, nonblank_except_alias W sem -> sem_nonblank_weak W sem.
Proof. exact alias_weak. Qed.
Print Assumptions C01_alias_weak.

Theorem C01_nonblank_weaken : forall W sem, sem_nonblank W sem -> sem_nonblank_weak W sem.
Proof. exact nonblank_weaken. Qed.
Print Assumptions C01_nonblank_weaken.

Theorem C01_invariant_weak : forall W sem, wf W -> sem_nonblank_weak W sem -> stored_ok W sem ->
  Inv W sem (init W) /\
  forall s o, Inv W sem s -> ok_op W s o -> Inv W sem (fst (step W sem s o)).
Proof. exact invariant_weak. Qed.
Print Assumptions C01_invariant_weak.

(* PARTIAL (C01_coherent): C01_coherent_partial with side condition (d) weakened
   to (d'); still missing for the full statement: (c) [late_ok] and (d')
   (Refuted/C01_stored_late_build.v, C01_blank_result.v — the blank result of
   =A1:A2 arises on an admissible argument list) *)
Theorem C01_coherent_weak_partial : forall W sem, wf W -> sem_nonblank_weak W sem ->
  stored_ok W sem -> inputs_exact W (wb_inp0 W) ->
  forall h, ok_history W sem (ok_op W) (init W) h ->
    snd (run W sem (init W) h) = run_spec W sem (wb_inp0 W) h.
Proof. exact coherent_weak. Qed.
Print Assumptions C01_coherent_weak_partial.

Theorem C01_coherent_pointwise_weak_partial : forall W sem, wf W -> sem_nonblank_weak W sem ->
  stored_ok W sem -> inputs_exact W (wb_inp0 W) ->
  forall h n, ok_history W sem (ok_op W) (init W) h -> n < wb_n W ->
    let s := fst (run W sem (init W) h) in
    Inv W sem s /\ snd (step W sem s (Evaluate n)) = spec W sem (st_cache s) n.
Proof. exact coherent_pointwise_weak. Qed.
Print Assumptions C01_coherent_pointwise_weak_partial.

Theorem C01_coherent_nodata_weak_partial : forall W sem, wf W -> sem_nonblank_weak W sem ->
  (forall n, wb_stored W n = VNone) -> inputs_exact W (wb_inp0 W) ->
  forall h, ok_history W sem (ok_op_free W) (init W) h ->
    snd (run W sem (init W) h) = run_spec W sem (wb_inp0 W) h.
Proof. exact coherent_nodata_weak. Qed.
Print Assumptions C01_coherent_nodata_weak_partial.

Theorem C01_coherent_stored_weak_partial : forall W sem, wf W -> sem_nonblank_weak W sem ->
  stored_consistent W sem -> inputs_exact W (wb_inp0 W) ->
  forall h, ok_history W sem (ok_op_built W) (init W) h ->
    snd (run W sem (init W) h) = run_spec W sem (wb_inp0 W) h.
Proof. exact coherent_stored_weak. Qed.
Print Assumptions C01_coherent_stored_weak_partial.

(* a node of range kind that enters the model gets its value when the graph is
   built (range_todos of _process_gen_graph) *)
Theorem C01_build_range_valued : forall W sem, wf W -> sem_nonblank_weak W sem ->
  forall s n m, Inv W sem s -> n < wb_n W -> wb_range W m = true ->
    st_built s m = false -> st_built (build W sem s n) m = true ->
    st_cache (build W sem s n) m <> VNone.
Proof. exact build_range_valued. Qed.
Print Assumptions C01_build_range_valued.

(* the from-scratch value of S!B:B is the from-scratch value of S!B1:B4 *)
Theorem C01_alias_spec : forall W sem, wf W -> forall r p inp, alias_node W sem r p ->
  spec W sem inp r = spec W sem inp p.
Proof. exact alias_spec. Qed.
Print Assumptions C01_alias_spec.

(* in every state of the invariant a built reference node that holds a value
   holds the cached value of the bounded range node (built, not empty), and it
   is the from-scratch value under the current inputs *)
Theorem C01_alias_cache : forall W sem, wf W -> forall s r p, Inv W sem s -> alias_node W sem r p ->
  st_built s r = true -> st_cache s r <> VNone ->
  st_built s p = true /\ st_cache s p = st_cache s r /\
  st_cache s r = spec W sem (st_cache s) p.
Proof. exact alias_cache. Qed.
Print Assumptions C01_alias_cache.

(* … and an empty bounded range node means an empty reference node (what a
   write to a member leaves behind; repair 347fec5) *)
Theorem C01_alias_reset : forall W sem s r p, Inv W sem s -> alias_node W sem r p ->
  st_built s r = true -> st_cache s p = VNone -> st_cache s r = VNone.
Proof. exact alias_reset. Qed.
Print Assumptions C01_alias_reset.

(* the reference node holds the bounded range's value right after the build
   that brings it into the model (repair f35c77a) *)
Theorem C01_alias_built_valued : forall W sem, wf W -> sem_nonblank_weak W sem ->
  forall s n r p, stored_ok W sem -> Inv W sem s -> n < wb_n W ->
    alias_node W sem r p -> wb_range W r = true ->
    st_built s r = false -> st_built (build W sem s n) r = true ->
    let s' := build W sem s n in
    st_cache s' r <> VNone /\ st_cache s' r = st_cache s' p /\
    st_cache s' r = spec W sem (st_cache s) p.
Proof. exact alias_built_valued. Qed.
Print Assumptions C01_alias_built_valued.
