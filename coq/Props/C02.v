(* Props/C02.v — property theorems only.  Models: Model/Syntax.v (parser),
   Model/Emit.v (emitter), on the tables of Gen/excelformula.v, regenerated
   from /repo/src/pycel/excelformula.py on every run. *)
From Coq Require Import ZArith List.
From PV Require Import Lib.Py Model.Syntax Model.Emit Proofs.C02Parse Proofs.C02.
From PV Require Gen.excelformula.
Import ListNotations.
Open Scope Z_scope.

(* the shunting-yard parser (pre-pass, main loop with argument counting, AST
   construction) computes the tree of Excel's grammar: for every well-formed
   concrete tree — any depth, any redundant parentheses, prefix -, postfix %,
   the binary operators at their levels (comparison < & < + - < * / < ^ < % <
   prefix - < reference operators), left-associative, function calls with any
   number of (possibly omitted) arguments — parsing its token string gives its
   meaning.  (Array constants are outside WF: correspondence only.) *)
Theorem C02_parse : forall c, WF c -> parse (flat c) = Some (abs c).
Proof. exact parse_correct. Qed.
Print Assumptions C02_parse.

(* the RPN itself is the postfix form of the tree *)
Theorem C02_rpn : forall c, WF c -> sy (flat c) = Some (post c).
Proof. exact sy_correct. Qed.
Print Assumptions C02_rpn.

(* the operator table the proofs compute with is the generated Token.precedences *)
Theorem C02_precedence_table :
  (forall o, sprec (SBin o) = bprec o /\ sleft (SBin o) = true)
  /\ sprec SPre = 7 /\ sleft SPre = false /\ sprec SPost = 6 /\ sleft SPost = true.
Proof.
  exact (conj (fun o => conj (sprec_bin o) (sleft_bin o))
              (conj sprec_pre (conj sleft_pre (conj sprec_post sleft_post)))).
Qed.
Print Assumptions C02_precedence_table.

(* the emitted code is precedence-correct in PYTHON's grammar and denotes the
   Python tree that means e — for the arithmetic fragment (no reference
   operators, arrays, ROW/COLUMN/OFFSET/INDIRECT/SUBTOTAL) and PROVIDED no
   prefix minus is the left operand of ^.
   Missing for the full statement: exactly that proviso (the implementation
   emits a prefix minus bare: refuted in Refuted/C02_emit_neg_pow.v), and the
   uniqueness of Python's parse (PyWF t -> ast.parse (pyflat t) = pyabs t),
   which is checked against CPython in the harness, in both directions. *)
Theorem C02_emit_partial : forall e, arith e -> no_neg_pow_left e ->
  forall par, PyWF (emit par e) /\ pyabs (emit par e) = translate e.
Proof. exact emit_partial. Qed.
Print Assumptions C02_emit_partial.

(* OperatorNode.op_map (generated): ^ -> **, = -> ==, <> -> != *)
Theorem C02_op_map :
  map pyop_of [OEq; ONe; OLt; OLe; OGt; OGe; OCat; OAdd; OSub; OMul; ODiv; OPow; OIsect; OColon; OUnion]
  = [Some PEq; Some PNe; Some PLt; Some PLe; Some PGt; Some PGe; Some PBitAnd; Some PAdd; Some PSub;
     Some PMul; Some PDiv; Some PPow; None; None; None].
Proof. exact op_map_ok. Qed.
Print Assumptions C02_op_map.

(* a text literal without backslash, line feed, carriage return denotes its
   characters (any length, any number of quotes, braces, ...).
   Missing: backslash / newline (refuted in Refuted/C02_literals.v). *)
Theorem C02_text_partial : forall s,
  Forall (fun c => c <> 92 /\ c <> 10 /\ c <> 13) s ->
  py_string_literal (emit_text (excel_quote s)) = Some s.
Proof. exact text_partial. Qed.
Print Assumptions C02_text_partial.

(* an integer literal without superfluous leading zeros is a Python literal of
   the same value.  Missing: leading zeros (refuted), decimals / exponents
   (correspondence only). *)
Theorem C02_number_partial : forall s, s <> [] -> forallb is_digit s = true ->
  (hd 0 s <> 48 \/ forallb (fun d => d =? 48) s = true) ->
  py_decint s = Some (dec_value s 0).
Proof. exact number_partial. Qed.
Print Assumptions C02_number_partial.
