(* Props/C02.v — property theorems only.  Models: Model/Syntax.v (parser),
   Model/Emit.v (emitter), on the tables of Gen/excelformula.v, regenerated
   from /repo/src/pycel/excelformula.py on every run. *)
From Coq Require Import ZArith QArith List.
From PV Require Import Lib.Py Model.Syntax Model.Emit Model.FormulaEval.
From PV Require Import Proofs.C02Parse Proofs.C02 Proofs.C02Number Proofs.C02Eval.
From PV Require Gen.excelformula.
Import ListNotations.
Open Scope Z_scope.

(* the shunting-yard parser (pre-pass, main loop with argument counting, AST
   construction) computes the tree of Excel's grammar: for every well-formed
   concrete tree — any depth, any redundant parentheses, prefix -, postfix %,
   the binary operators at their levels (comparison < & < + - < * / < ^ < % <
   prefix - < reference operators), left-associative, function calls with any
   number of (possibly omitted) arguments — parsing its token string gives its
   meaning.  (Array constants are outside WF: correspondence only.) *)
Theorem C02_parse : forall c, WF c -> parse (flat c) = Some (abs c).
Proof. exact parse_correct. Qed.
Print Assumptions C02_parse.

(* the RPN itself is the postfix form of the tree *)
Theorem C02_rpn : forall c, WF c -> sy (flat c) = Some (post c).
Proof. exact sy_correct. Qed.
Print Assumptions C02_rpn.

(* the operator table the proofs compute with is the generated Token.precedences *)
Theorem C02_precedence_table :
  (forall o, sprec (SBin o) = bprec o /\ sleft (SBin o) = true)
  /\ sprec SPre = 7 /\ sleft SPre = false /\ sprec SPost = 6 /\ sleft SPost = true.
Proof.
  exact (conj (fun o => conj (sprec_bin o) (sleft_bin o))
              (conj sprec_pre (conj sleft_pre (conj sprec_post sleft_post)))).
Qed.
Print Assumptions C02_precedence_table.

(* the emitted code is precedence-correct in PYTHON's grammar (the power operator right-
   associative and tighter than a unary minus on its left, unary minus tighter
   than * /, & below + -, comparisons lowest and non-chaining) and denotes the
   Python tree that means e, in every context — for the arithmetic fragment
   [arith] (literals, plain references, prefix -, postfix %, the 12 operators,
   ordinary calls; not: reference operators, arrays, ROW/COLUMN/OFFSET/
   INDIRECT/SUBTOTAL, which are correspondence-only).  Since the fix db0afb2 a
   prefix minus below ^ is parenthesised, so no proviso remains.  That a PyWF
   tree is what CPython's parser returns for its text is checked against
   ast.parse by the harness (both directions), not proved. *)
Theorem C02_emit : forall e, arith e ->
  forall c, PyWF (emit c e) /\ pyabs (emit c e) = translate e.
Proof. exact emit_correct. Qed.
Print Assumptions C02_emit.

(* OperatorNode.op_map (generated): ^ -> **, = -> ==, <> -> != *)
Theorem C02_op_map :
  map pyop_of [OEq; ONe; OLt; OLe; OGt; OGe; OCat; OAdd; OSub; OMul; ODiv; OPow; OIsect; OColon; OUnion]
  = [Some PEq; Some PNe; Some PLt; Some PLe; Some PGt; Some PGe; Some PBitAnd; Some PAdd; Some PSub;
     Some PMul; Some PDiv; Some PPow; None; None; None].
Proof. exact op_map_ok. Qed.
Print Assumptions C02_op_map.

(* every text literal denotes exactly its characters: any length, any
   characters (quotes, backslashes, line feeds, carriage returns, braces, ...):
   Python's decoding of the emitted literal returns them (fix db52b98) *)
Theorem C02_text : forall s, py_string_literal (emit_text (excel_quote s)) = Some s.
Proof. exact text_correct. Qed.
Print Assumptions C02_text.

(* an integer literal without superfluous leading zeros is a Python literal of
   the same value.  Missing: leading zeros (refuted), decimals / exponents
   (correspondence only). *)
Theorem C02_number_partial : forall s, s <> [] -> forallb is_digit s = true ->
  (hd 0 s <> 48 \/ forallb (fun d => d =? 48) s = true) ->
  py_decint s = Some (dec_value s 0).
Proof. exact number_partial. Qed.
Print Assumptions C02_number_partial.

(* a number of Excel's grammar — digits [. digits] [E [+-] digits], at least one
   mantissa digit, exponent up to 300 — other than an integer with a superfluous
   leading zero (the known finding) is a Python literal: an int when written
   with digits only, a float otherwise (Python's float grammar = Lib/Py.v
   parse_float, the exact rational), and it denotes the rational Excel reads.
   12.5, .25, 2., 1E+3, 2.5E-1, 007.5 are instances (Proofs/C02Number.v). *)
Theorem C02_number : forall s q, xl_number s = Some q -> zeros_ok s = true ->
  py_number s = xl_numval s /\
  exists v n, py_number s = Some v /\ as_num v = Some n /\ (num_q n == q)%Q.
Proof. exact number_correct. Qed.
Print Assumptions C02_number.

(* EVALUATION.  For every environment E — the name space of the compiled
   lambda: arbitrary meanings of _C_ / _R_ (all cell values) and of every
   library function, arbitrary plain names — the Python tree of the emitted
   code, evaluated as the code object built by _compile_python_ast evaluates it
   (Model/FormulaEval.v pyeval: BinOp / Compare / UnaryOp are calls
   excel_operator_operand_fixup(l, op name, r), unary minus with left operand
   EMPTY; calls look the name up, then evaluate the arguments left to right;
   literals by Python's rules), is the Excel meaning of the tree (xleval:
   literals denote themselves, a reference is the cell reader applied to the
   normalised address, -x, x%, x op y through the same fixup under Excel's
   operator, a call applies the environment's function to the argument values,
   an omitted argument is None).  Fragment: [arith] (that of C02_emit) and
   [lit_ok]: numbers as in C02_number, complete text tokens, TRUE / FALSE, error
   constants without quotes or backslashes, no function whose Python name is
   _REF_.  Exceptions (the same one, raised by the same sub-expression) included. *)
Theorem C02_eval : forall (E : env) e, arith e -> lit_ok e ->
  forall c, pyeval E (pyabs (emit c e)) = xleval E e.
Proof. exact eval_correct. Qed.
Print Assumptions C02_eval.

(* text -> value: with C02_parse, the token string of every well-formed
   concrete tree (redundant parentheses, precedence, associativity, omitted
   arguments) whose tree is in the fragment evaluates — parsed, emitted,
   compiled, run, None / EMPTY turned into 0 — to its Excel meaning *)
Theorem C02_eval_text : forall (E : env) c, WF c -> arith (abs c) -> lit_ok (abs c) ->
  exists e, parse (flat c) = Some e /\ py_value E e = xl_value E (abs c).
Proof. exact eval_text. Qed.
Print Assumptions C02_eval_text.

(* the executable test the harness uses to tell which generated trees are in
   the fragment of C02_eval is sound *)
Theorem C02_eval_fragment : forall e, evalb e = true -> arith e /\ lit_ok e.
Proof. exact evalb_sound. Qed.
Print Assumptions C02_eval_fragment.

(* C02_parse / C02_rpn with array constants: [WFA] = [WF] plus {a,b;c,d} (one or
   more rows of one or more constants — number, text, logical, error tokens) as
   an operand anywhere in the tree; the pre-pass turns it into
   ARRAY( ARRAYROW(a,b), ARRAYROW(c,d) ) and the tree is
   EFunc ARRAY [EFunc ARRAYROW [a; b]; EFunc ARRAYROW [c; d]].  (A signed number
   inside an array constant is two tokens and is not covered.) *)
Theorem C02_parse_array : forall c, WFA c -> parse (flat c) = Some (abs c).
Proof. exact parse_correct_array. Qed.
Print Assumptions C02_parse_array.

Theorem C02_rpn_array : forall c, WFA c -> sy (flat c) = Some (post c).
Proof. exact sy_correct_array. Qed.
Print Assumptions C02_rpn_array.
