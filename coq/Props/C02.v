(* Props/C02.v — property theorems only.  Models: Model/Syntax.v (parser),
   Model/Emit.v (emitter), on the tables of Gen/excelformula.v, regenerated
   from /repo/src/pycel/excelformula.py on every run. *)
From Coq Require Import ZArith List.
From PV Require Import Lib.Py Model.Syntax Model.Emit Proofs.C02Parse Proofs.C02.
From PV Require Gen.excelformula.
Import ListNotations.
Open Scope Z_scope.

(* the shunting-yard parser (pre-pass, main loop with argument counting, AST
   construction) computes the tree of Excel's grammar: for every well-formed
   concrete tree — any depth, any redundant parentheses, prefix -, postfix %,
   the binary operators at their levels (comparison < & < + - < * / < ^ < % <
   prefix - < reference operators), left-associative, function calls with any
   number of (possibly omitted) arguments — parsing its token string gives its
   meaning.  (Array constants are outside WF: correspondence only.) *)
Theorem C02_parse : forall c, WF c -> parse (flat c) = Some (abs c).
Proof. exact parse_correct. Qed.
Print Assumptions C02_parse.

(* the RPN itself is the postfix form of the tree *)
Theorem C02_rpn : forall c, WF c -> sy (flat c) = Some (post c).
Proof. exact sy_correct. Qed.
Print Assumptions C02_rpn.

(* the operator table the proofs compute with is the generated Token.precedences *)
Theorem C02_precedence_table :
  (forall o, sprec (SBin o) = bprec o /\ sleft (SBin o) = true)
  /\ sprec SPre = 7 /\ sleft SPre = false /\ sprec SPost = 6 /\ sleft SPost = true.
Proof.
  exact (conj (fun o => conj (sprec_bin o) (sleft_bin o))
              (conj sprec_pre (conj sleft_pre (conj sprec_post sleft_post)))).
Qed.
Print Assumptions C02_precedence_table.

(* the emitted code is precedence-correct in PYTHON's grammar (the power operator right-
   associative and tighter than a unary minus on its left, unary minus tighter
   than * /, & below + -, comparisons lowest and non-chaining) and denotes the
   Python tree that means e, in every context — for the arithmetic fragment
   [arith] (literals, plain references, prefix -, postfix %, the 12 operators,
   ordinary calls; not: reference operators, arrays, ROW/COLUMN/OFFSET/
   INDIRECT/SUBTOTAL, which are correspondence-only).  Since the fix db0afb2 a
   prefix minus below ^ is parenthesised, so no proviso remains.  That a PyWF
   tree is what CPython's parser returns for its text is checked against
   ast.parse by the harness (both directions), not proved. *)
Theorem C02_emit : forall e, arith e ->
  forall c, PyWF (emit c e) /\ pyabs (emit c e) = translate e.
Proof. exact emit_correct. Qed.
Print Assumptions C02_emit.

(* OperatorNode.op_map (generated): ^ -> **, = -> ==, <> -> != *)
Theorem C02_op_map :
  map pyop_of [OEq; ONe; OLt; OLe; OGt; OGe; OCat; OAdd; OSub; OMul; ODiv; OPow; OIsect; OColon; OUnion]
  = [Some PEq; Some PNe; Some PLt; Some PLe; Some PGt; Some PGe; Some PBitAnd; Some PAdd; Some PSub;
     Some PMul; Some PDiv; Some PPow; None; None; None].
Proof. exact op_map_ok. Qed.
Print Assumptions C02_op_map.

(* every text literal denotes exactly its characters: any length, any
   characters (quotes, backslashes, line feeds, carriage returns, braces, ...):
   Python's decoding of the emitted literal returns them (fix db52b98) *)
Theorem C02_text : forall s, py_string_literal (emit_text (excel_quote s)) = Some s.
Proof. exact text_correct. Qed.
Print Assumptions C02_text.

(* an integer literal without superfluous leading zeros is a Python literal of
   the same value.  Missing: leading zeros (refuted), decimals / exponents
   (correspondence only). *)
Theorem C02_number_partial : forall s, s <> [] -> forallb is_digit s = true ->
  (hd 0 s <> 48 \/ forallb (fun d => d =? 48) s = true) ->
  py_decint s = Some (dec_value s 0).
Proof. exact number_partial. Qed.
Print Assumptions C02_number_partial.
