(* Props/C02.v — property theorems only.  Models: Model/Syntax.v (parser),
   Model/Emit.v (emitter), on the tables of Gen/excelformula.v, regenerated
   from /repo/src/pycel/excelformula.py on every run. *)
From Coq Require Import ZArith List.
From PV Require Import Lib.Py Model.Syntax Model.Emit Proofs.C02Parse Proofs.C02.
From PV Require Gen.excelformula.
Import ListNotations.
Open Scope Z_scope.

(* the shunting-yard parser (pre-pass, main loop with argument counting, AST
   construction) computes the tree of Excel's grammar: for every well-formed
   concrete tree — any depth, any redundant parentheses, prefix -, postfix %,
   the binary operators at their levels, left-associative, function calls with
   any number of (possibly omitted) arguments — parsing its token string gives
   its meaning.  (Array constants are outside WF: correspondence only.) *)
Theorem C02_parse : forall c, WF c -> parse (flat c) = Some (abs c).
Proof. exact parse_correct. Qed.
Print Assumptions C02_parse.
