(* Props/C06.v — property theorems only.  Model: Model/Iter.v (hand-written
   transcription of ExcelCompiler._evaluate_iterative / _evaluate / _evaluate_range /
   _gen_graph / set_value, _CycleCell and _IterativeEvalTracker; tied to the source
   by the differential run of harness/props/c06.py). *)
From Coq Require Import ZArith QArith Qabs List.
From PV Require Import Lib.Py Model.Iter Proofs.C06 Proofs.C06Lin Proofs.C06Struct Proofs.C06Cone Proofs.C06Conv Proofs.C06Ready.
Import ListNotations.

(* any workbook, cyclic or not, any state: between 1 and [iterations] passes *)
Theorem C06_bounded : forall w t it tolv st v st',
  evaluate_iterative w t it tolv st = Ok (v, st') ->
  (1 <= itn (tr st') <= Z.max 1 it)%Z.
Proof. exact bounded. Qed.
Print Assumptions C06_bounded.

(* the pass loop itself never fails: an error can only come from inside a pass *)
Theorem C06_loop_total : forall w t it tolv st e,
  evaluate_iterative w t it tolv st = Raise e -> exists s, evaluate_pass w t s = Raise e.
Proof. exact loop_total. Qed.
Print Assumptions C06_loop_total.

(* stopped before [iterations] passes: nothing is scheduled and every cell
   computed in the last pass moved by less than (1 + 1e-5) * tolerance
   (numbers) or not at all (blanks) *)
Theorem C06_tolerance : forall w t it tolv st v st',
  evaluate_iterative w t it tolv st = Ok (v, st') ->
  (itn (tr st') < it)%Z ->
  todo (tr st') = [] /\
  forall c, In c (computed (tr st')) ->
    match value (getc st' c), prev (getc st' c) with
    | Some a, Some b => (Qabs (b - a) < rel1 * tolv)%Q
    | None, None => True
    | _, _ => False
    end.
Proof. exact tolerance. Qed.
Print Assumptions C06_tolerance.

(* x = Ax + b: a value computed from readings each within E of the fixed point
   (any mixture of this-pass and previous-pass values) is within (sum_j |a_ij|) E *)
Theorem C06_contraction_step : forall ts (xs y : nat -> Q) b E,
  (forall a j, In (TCell a j) ts -> Qabs (y j - xs j) <= E)%Q ->
  (Qabs ((b + tdot ts y) - (b + tdot ts xs)) <= tnorm ts * E)%Q.
Proof. exact contraction_step. Qed.
Print Assumptions C06_contraction_step.

(* one pass of the model on a built workbook of linear formulas with
   ||A||inf <= q <= 1, whatever the evaluation order: everything stays within E,
   every formula cell computed in the pass ends within qE *)
Theorem C06_contraction_pass : forall w xs q E,
  no_sum w -> fixed_point w xs -> row_bound w q -> (q <= 1)%Q -> (0 <= E)%Q ->
  forall t st v st',
  built (getc st t) = true ->
  (forall c, built (getc st c) = true ->
             (dist xs c (value (getc st c)) <= E /\ dist xs c (prev (getc st c)) <= E)%Q) ->
  evaluate_pass w t (inc_iteration st) = Ok (v, st') ->
  (forall c, built (getc st' c) = true -> (dist xs c (value (getc st' c)) <= E)%Q) /\
  (forall c, In c (computed (tr st')) -> built (getc st' c) = true -> is_formula w c = true ->
             (dist xs c (value (getc st' c)) <= q * E)%Q).
Proof. exact contraction_pass. Qed.
Print Assumptions C06_contraction_pass.

(* the a-posteriori bound: a pass that maps E-balls into qE-balls (q < 1) and moved
   no component by more than d leaves every component within q/(1-q) d *)
Theorem C06_contraction_bound : forall (cs : list nat) (xs old new : nat -> Q) q d,
  (0 <= q)%Q -> (q < 1)%Q -> (0 <= d)%Q ->
  (forall c, In c cs -> Qabs (new c - old c) <= d)%Q ->
  (forall E, (0 <= E)%Q -> (forall c, In c cs -> Qabs (old c - xs c) <= E)%Q ->
             forall c, In c cs -> (Qabs (new c - xs c) <= q * E)%Q) ->
  forall c, In c cs -> (Qabs (new c - xs c) <= q / (1 - q) * d)%Q.
Proof. exact contraction_bound. Qed.
Print Assumptions C06_contraction_bound.

(* PARTIAL.  Acyclic workbook of linear formulas WITHOUT range nodes, target built,
   nothing on the stack: iterative evaluate returns the from-scratch value sv, for
   every (iterations, tolerance), and leaves the state quiet again (so the same
   holds after any history of evaluates and constant writes, C06_acyclic_write).
   Missing from the property's full statement, and refuted in
   Refuted/C06_acyclic.v: first use (the target is not yet built) and formulas
   that read ranges.  Also conditional on the evaluation returning Ok (the fuel
   bound #cells + 1 is not proved sufficient here). *)
Theorem C06_acyclic_partial : forall w sv rank,
  no_sum w -> fixed_point w sv -> acyclic w rank ->
  forall t it tolv st v st',
  quiet w sv t st -> evaluate_iterative w t it tolv st = Ok (v, st') ->
  (num v == sv t)%Q /\ (is_formula w t = true -> v <> None) /\ quiet w sv t st'.
Proof. exact acyclic_value. Qed.
Print Assumptions C06_acyclic_partial.

Theorem C06_acyclic_write : forall w sv sv' t c v st st',
  quiet w sv t st -> is_formula w c = false -> set_value c v st = Ok st' ->
  (sv' c == num v)%Q ->
  (forall c', c' <> c -> is_formula w c' = false -> (sv' c' == sv c')%Q) ->
  quiet w sv' t st'.
Proof. exact set_value_quiet. Qed.
Print Assumptions C06_acyclic_write.

(* ---- fuel sufficiency and totality (Proofs/C06Struct.v) ---- *)

(* any workbook (cyclic, with ranges), any state whose cell list is not longer
   than the workbook's, built target: a pass never answers OutOfFuel — every
   nested computation puts one more cell on the stack (wip), and the model's
   fuel is #cells + 1 *)
Theorem C06_pass_total : forall w t st,
  built (getc st t) = true -> (length (cells st) <= length (w_cells w))%nat ->
  evaluate_pass w t st <> Raise OutOfFuel.
Proof. exact pass_total. Qed.
Print Assumptions C06_pass_total.

(* ... and neither does the whole iterative evaluate *)
Theorem C06_fuel_sufficient : forall w t it tolv st,
  built (getc st t) = true -> (length (cells st) <= length (w_cells w))%nat ->
  evaluate_iterative w t it tolv st <> Raise OutOfFuel.
Proof. exact iterative_nofuel. Qed.
Print Assumptions C06_fuel_sufficient.

(* linear cell formulas (cyclic or not), every cell reachable from the target
   built: the iterative evaluate returns a value (no OutOfFuel, no Unmodelled) *)
Theorem C06_total : forall w t it tolv st,
  no_sum w -> cone_built w t st -> (length (cells st) <= length (w_cells w))%nat ->
  exists v st', evaluate_iterative w t it tolv st = Ok (v, st').
Proof. exact iterative_ok. Qed.
Print Assumptions C06_total.

(* ---- the pass over the cone of the target (Proofs/C06Cone.v) ---- *)

(* cone_ready: target built, no cell on the stack, the built constants reachable
   from the target carry the fixed point's values; cone_within E: the built
   formula cells reachable from the target are within E (current values only).
   One pass then computes EXACTLY the reachable formula cells, each once (prev =
   the value before the pass, value a number), within qE; nothing else changes;
   the answer is the target's value; and the state is ready again, within qE. *)
Theorem C06_cone_pass : forall w xs q E,
  no_sum w -> fixed_point w xs -> row_bound_f w q -> (q <= 1)%Q -> (0 <= E)%Q ->
  forall t s v s',
  cone_ready w xs t s -> cone_within w xs t E s ->
  evaluate_pass w t (inc_iteration s) = Ok (v, s') ->
  (forall c, In c (computed (tr s')) <-> reach w t c /\ is_formula w c = true) /\
  (forall c, In c (computed (tr s')) ->
             built (getc s' c) = true /\ value (getc s' c) <> None /\
             prev (getc s' c) = value (getc s c) /\
             (dist xs c (value (getc s' c)) <= q * E)%Q) /\
  (forall c, ~ In c (computed (tr s')) -> getc s' c = getc s c) /\
  v = value (getc s' t) /\
  cone_ready w xs t s' /\ cone_within w xs t (q * E) s'.
Proof. exact cone_pass. Qed.
Print Assumptions C06_cone_pass.

(* row_bound_f: the row norm over the VARIABLES only (references to constant cells
   belong to b of x = Ax + b); weaker than row_bound, which counts them too *)
Theorem C06_row_bound_f : forall w q, row_bound w q -> row_bound_f w q.
Proof. exact row_bound_weaken. Qed.
Print Assumptions C06_row_bound_f.

(* ---- end to end (Proofs/C06Conv.v) ---- *)

(* geometric decay: after n = itn passes every formula cell of the cone is within
   q^n E0 of the fixed point, E0 bounding the cone's distance at the start *)
Theorem C06_decay : forall w xs q E0,
  no_sum w -> fixed_point w xs -> row_bound_f w q -> (0 <= q)%Q -> (q <= 1)%Q -> (0 <= E0)%Q ->
  forall t it tolv st v st',
  cone_ready w xs t st -> cone_within w xs t E0 st ->
  evaluate_iterative w t it tolv st = Ok (v, st') ->
  (forall c, reach w t c -> is_formula w c = true ->
             (dist xs c (value (getc st' c)) <= q ^ (itn (tr st')) * E0)%Q) /\
  v = value (getc st' t) /\
  cone_ready w xs t st'.
Proof. exact decay. Qed.
Print Assumptions C06_decay.

(* all [iterations] passes used *)
Theorem C06_exhausted : forall w xs q E0,
  no_sum w -> fixed_point w xs -> row_bound_f w q -> (0 <= q)%Q -> (q <= 1)%Q -> (0 <= E0)%Q ->
  forall t it tolv st v st',
  cone_ready w xs t st -> cone_within w xs t E0 st ->
  evaluate_iterative w t it tolv st = Ok (v, st') ->
  (1 <= it)%Z -> ~ (itn (tr st') < it)%Z ->
  (forall c, reach w t c -> is_formula w c = true ->
             (dist xs c (value (getc st' c)) <= q ^ it * E0)%Q) /\
  (is_formula w t = true -> (dist xs t v <= q ^ it * E0)%Q).
Proof. exact exhausted. Qed.
Print Assumptions C06_exhausted.

(* early stop of a contracting system (||A||inf <= q < 1): every formula cell of
   the target's cone, and the answer, is within q/(1-q) (1+1e-5) tolerance of the
   fixed point.  No assumption on how far the state was at the start, on
   previous-pass values, or on cells outside the cone. *)
Theorem C06_converged : forall w xs q,
  no_sum w -> fixed_point w xs -> row_bound_f w q -> (0 <= q)%Q -> (q < 1)%Q ->
  forall t it tolv st v st',
  cone_ready w xs t st ->
  evaluate_iterative w t it tolv st = Ok (v, st') ->
  (itn (tr st') < it)%Z ->
  (forall c, reach w t c -> is_formula w c = true ->
             (dist xs c (value (getc st' c)) <= q / (1 - q) * (rel1 * tolv))%Q) /\
  (is_formula w t = true -> (dist xs t v <= q / (1 - q) * (rel1 * tolv))%Q) /\
  cone_ready w xs t st'.
Proof. exact converged. Qed.
Print Assumptions C06_converged.

(* C06_acyclic_partial without its condition "the evaluation returns Ok": with
   the cone built the evaluation does return, the from-scratch value, and the
   hypotheses hold again afterwards (so also after any history of evaluates and,
   by C06_acyclic_write, constant writes).  Still excluded (refuted in
   Refuted/C06_acyclic.v): first use and formulas that read ranges. *)
Theorem C06_acyclic_total : forall w sv rank,
  no_sum w -> fixed_point w sv -> acyclic w rank ->
  forall t it tolv st,
  quiet w sv t st -> cone_built w t st -> (length (cells st) <= length (w_cells w))%nat ->
  exists v st', evaluate_iterative w t it tolv st = Ok (v, st') /\
    (num v == sv t)%Q /\ (is_formula w t = true -> v <> None) /\
    quiet w sv t st' /\ cone_built w t st' /\ length (cells st') = length (cells st).
Proof. exact acyclic_total. Qed.
Print Assumptions C06_acyclic_total.

(* ---- cone_ready is what histories produce (Proofs/C06Ready.v) ---- *)

(* calm: no cell on the stack; consts_ok w xs: every constant cell carries xs — a
   built one by its value, an unbuilt one by what the file stored.  They hold in
   the initial state, are kept by EVERY returning evaluate (any workbook: cyclic,
   with ranges; built target or first use, graph construction included) and by
   writes to constants (for the valuation with the new constant); together with
   a built target they are cone_ready.  So C06_decay / C06_exhausted /
   C06_converged apply to every evaluate of an already built target in every
   history of evaluates and constant writes from the initial state. *)
Theorem C06_ready_init : forall w xs,
  (forall c, is_formula w c = false -> (num (stored (spec w c)) == xs c)%Q) ->
  calm (init_state w) /\ consts_ok w xs (init_state w).
Proof. exact ready_init. Qed.
Print Assumptions C06_ready_init.

Theorem C06_ready_evaluate : forall w xs t it tolv st v st',
  calm st -> consts_ok w xs st -> evaluate_iterative w t it tolv st = Ok (v, st') ->
  calm st' /\ consts_ok w xs st' /\ built (getc st' t) = true.
Proof. exact ready_evaluate. Qed.
Print Assumptions C06_ready_evaluate.

Theorem C06_ready_write : forall w xs xs' c v st st',
  calm st -> consts_ok w xs st -> is_formula w c = false -> set_value c v st = Ok st' ->
  (xs' c == num v)%Q ->
  (forall c', c' <> c -> is_formula w c' = false -> (xs' c' == xs c')%Q) ->
  calm st' /\ consts_ok w xs' st'.
Proof. exact ready_write. Qed.
Print Assumptions C06_ready_write.

Theorem C06_ready_cone : forall w xs t st,
  calm st -> consts_ok w xs st -> built (getc st t) = true -> cone_ready w xs t st.
Proof. exact ready_cone. Qed.
Print Assumptions C06_ready_cone.
