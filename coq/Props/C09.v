(* Props/C09.v — to be filled *)
