(* Props/C09.v — property theorems only.  Model: Model/Fail.v on top of
   Model/Graph.v (hand transcription of eval_func's except clauses and of the
   failure paths of _evaluate / _evaluate_range / _process_gen_graph; tied by
   the differential run with fault injection).  Every theorem holds for EVERY
   well-formed workbook W WITHOUT stored results, EVERY partial formula
   semantics, EVERY evaluation order of new range nodes, EVERY history.

   Vocabulary (Model/Fail.v, Proofs/C09Eval.v, C09Inv.v, C09.v, C09Repair.v):
     fsem n vals        Some v: the formula of n computes v from the values of its
                        precedents | None: it raises (-> FormulaEvalError)
     fpre n = Some k    the formula of n raises NameError after reading its first k
                        precedents (-> UnknownFunction)
     rorder             order in which a build evaluates the new range nodes
     evaluate_f s n     (state, FVal v | FRaise UnknownFunction/FormulaEvalError)
     fspec inp n        outcome of a from-scratch evaluation of n under inputs inp
     sem, completes     ANY total semantics that agrees with fsem where fsem returns;
                        spec W sem is the from-scratch value of C01
     FInv s             the C01 invariant Inv W sem s  +  every cached formula value
                        is the value of a from-scratch evaluation that succeeds
     fext R c c'        c' = c except at cells of R that were empty and now hold
                        the value of their successful from-scratch evaluation
     fok_op             Evaluate n / Build n: n < wb_n; SetValue a v: a a built input
     fails_at inp k     the formula of k itself raises on its precedents' values
     as_input W f v     W with cell f turned into an input holding v
     rok_op             as fok_op, and writes avoid the precedents of the repaired cell *)
From Coq Require Import List.
From PV Require Import Lib.Py Model.Graph Model.Fail.
From PV Require Import Proofs.C01Base Proofs.C01Eval Proofs.C01Inv.
From PV Require Import Proofs.C09Eval Proofs.C09Inv Proofs.C09 Proofs.C09Repair.
From PV Require Import Proofs.C01Weak Proofs.C09Weak.
Import ListNotations.

(* the invariant holds initially and survives every operation — an evaluate or
   a build that RAISES included *)
Theorem C09_inv_preserved : forall W fsem fpre rorder sem,
  wf W -> sem_nonblank W sem -> completes fsem fpre sem -> (forall n, wb_stored W n = VNone) ->
  FInv W fsem fpre sem (init W) /\
  forall s o, FInv W fsem fpre sem s -> fok_op W s o ->
              FInv W fsem fpre sem (fst (step_f W fsem fpre rorder s o)).
Proof. exact inv_preserved. Qed.
Print Assumptions C09_inv_preserved.

(* what FInv says: the C01 invariant, and no stale value — a cell whose
   from-scratch evaluation fails is empty *)
Theorem C09_inv_meaning : forall W fsem fpre sem s, FInv W fsem fpre sem s ->
  Inv W sem s /\
  forall n, n < wb_n W -> wb_input W n = false ->
    is_raise (fspec W fsem fpre (st_cache s) n) = true -> st_cache s n = VNone.
Proof. exact inv_meaning. Qed.
Print Assumptions C09_inv_meaning.

(* evaluate returns exactly when the from-scratch evaluation succeeds, and then
   its value; whether it returns or raises, the cache changes only at the cell
   and its ancestors, only from empty to a from-scratch value *)
Theorem C09_evaluate_outcome : forall W fsem fpre rorder sem,
  wf W -> sem_nonblank W sem -> completes fsem fpre sem -> (forall n, wb_stored W n = VNone) ->
  forall s n, FInv W fsem fpre sem s -> n < wb_n W ->
    let r := evaluate_f W fsem fpre rorder s n in
    FInv W fsem fpre sem (fst r)
    /\ fval (snd r) = fval (fspec W fsem fpre (st_cache s) n)
    /\ fext W fsem fpre (anceq W n) (st_cache s) (st_cache (fst r))
    /\ (forall m, st_built s m = true -> st_built (fst r) m = true).
Proof. exact evaluate_f_inv. Qed.
Print Assumptions C09_evaluate_outcome.

(* a failed evaluate: invariant kept, the failing cell is a formula cell left
   empty, everything stored on the way is a from-scratch value *)
Theorem C09_failed_evaluate : forall W fsem fpre rorder sem,
  wf W -> sem_nonblank W sem -> completes fsem fpre sem -> (forall n, wb_stored W n = VNone) ->
  forall s n, FInv W fsem fpre sem s -> n < wb_n W ->
    is_raise (snd (evaluate_f W fsem fpre rorder s n)) = true ->
    let s' := fst (evaluate_f W fsem fpre rorder s n) in
    FInv W fsem fpre sem s' /\ fext W fsem fpre (anceq W n) (st_cache s) (st_cache s') /\
    wb_input W n = false /\ st_cache s' n = VNone /\
    is_raise (fspec W fsem fpre (st_cache s) n) = true.
Proof. exact failed_evaluate. Qed.
Print Assumptions C09_failed_evaluate.

(* after any history — any number of failed evaluations in it — a cell with no
   failing cell at or below it evaluates to its from-scratch value *)
Theorem C09_unrelated : forall W fsem fpre rorder sem,
  wf W -> sem_nonblank W sem -> completes fsem fpre sem -> (forall n, wb_stored W n = VNone) ->
  forall h n, fok_history W fsem fpre rorder (init W) h -> n < wb_n W ->
    let s := fst (run_f W fsem fpre rorder (init W) h) in
    (forall k, k = n \/ anc W k n -> ~ fails_at W fsem fpre sem (st_cache s) k) ->
    snd (evaluate_f W fsem fpre rorder s n) = FVal (spec W sem (st_cache s) n).
Proof. exact unrelated. Qed.
Print Assumptions C09_unrelated.

(* after a failed evaluate of n and ANY further history whose writes avoid the
   input cells below n, evaluating n or any dependant raises again and leaves it
   empty (never a cached value) *)
Theorem C09_retry : forall W fsem fpre rorder sem,
  wf W -> sem_nonblank W sem -> completes fsem fpre sem -> (forall n, wb_stored W n = VNone) ->
  forall s n h, FInv W fsem fpre sem s -> n < wb_n W ->
    is_raise (snd (evaluate_f W fsem fpre rorder s n)) = true ->
    let s1 := fst (evaluate_f W fsem fpre rorder s n) in
    fok_history W fsem fpre rorder s1 h -> writes_avoid (fun a => anc W a n) h ->
    forall d, d < wb_n W -> d = n \/ anc W n d ->
      is_raise (snd (evaluate_f W fsem fpre rorder (fst (run_f W fsem fpre rorder s1 h)) d)) = true /\
      st_cache (fst (evaluate_f W fsem fpre rorder (fst (run_f W fsem fpre rorder s1 h)) d)) d = VNone.
Proof. exact retry. Qed.
Print Assumptions C09_retry.

(* the same for any two states that agree on the input cells below n: failures
   are functions of the inputs *)
Theorem C09_retry_deterministic : forall W fsem fpre rorder sem,
  wf W -> sem_nonblank W sem -> completes fsem fpre sem -> (forall n, wb_stored W n = VNone) ->
  forall s n, FInv W fsem fpre sem s -> n < wb_n W ->
    is_raise (snd (evaluate_f W fsem fpre rorder s n)) = true ->
    forall s2, FInv W fsem fpre sem s2 ->
      (forall k, wb_input W k = true -> anc W k n -> st_cache s2 k = st_cache s k) ->
      forall d, d < wb_n W -> d = n \/ anc W n d ->
        is_raise (snd (evaluate_f W fsem fpre rorder s2 d)) = true /\
        st_cache (fst (evaluate_f W fsem fpre rorder s2 d)) d = VNone.
Proof. exact retry_state. Qed.
Print Assumptions C09_retry_deterministic.

(* PARTIAL (C09_repair): the failing cell f0 is overwritten with a constant v0;
   after ANY further history whose writes avoid the precedents of f0 (rok_op),
   every cell returns / raises exactly as a from-scratch evaluation of the
   workbook in which f0 is an input holding v0.  Missing for the full
   statement: writes to precedents of f0 — the formula stays attached to the
   cell, such a write resets it and the failure returns
   (Refuted/C09_repair_undone.v, known finding C09-repair-undone-by-upstream-write). *)
Theorem C09_repair_partial : forall W fsem fpre rorder sem f0 v0,
  wf W -> sem_nonblank W sem -> completes fsem fpre sem -> (forall n, wb_stored W n = VNone) ->
  f0 < wb_n W -> wb_input W f0 = false -> v0 <> VNone ->
  forall s h d, FInv W fsem fpre sem s -> st_built s f0 = true ->
    is_raise (fspec W fsem fpre (st_cache s) f0) = true ->
    let s1 := set_value W s f0 v0 in
    rok_history W fsem fpre rorder f0 s1 h -> d < wb_n W ->
    let s2 := fst (run_f W fsem fpre rorder s1 h) in
    st_cache s2 f0 = v0 /\
    fval (snd (evaluate_f W fsem fpre rorder s2 d))
    = fval (fspec (as_input W f0 v0) fsem fpre (st_cache s2) d).
Proof. exact repair. Qed.
Print Assumptions C09_repair_partial.

(* … and a cell with no failing cell left at or below it returns its
   from-scratch value in the repaired workbook *)
Theorem C09_repair_value_partial : forall W fsem fpre rorder sem f0 v0,
  wf W -> sem_nonblank W sem -> completes fsem fpre sem -> (forall n, wb_stored W n = VNone) ->
  f0 < wb_n W -> wb_input W f0 = false -> v0 <> VNone ->
  forall s h d, FInv W fsem fpre sem s -> st_built s f0 = true ->
    is_raise (fspec W fsem fpre (st_cache s) f0) = true ->
    let s1 := set_value W s f0 v0 in
    rok_history W fsem fpre rorder f0 s1 h -> d < wb_n W ->
    let s2 := fst (run_f W fsem fpre rorder s1 h) in
    (forall k, k = d \/ anc (as_input W f0 v0) k d ->
               ~ fails_at (as_input W f0 v0) fsem fpre sem (st_cache s2) k) ->
    snd (evaluate_f W fsem fpre rorder s2 d) = FVal (spec (as_input W f0 v0) sem (st_cache s2) d).
Proof. exact repair_value. Qed.
Print Assumptions C09_repair_value_partial.

(* ---- the same theorems under the WEAK non-blank condition of Props/C01.v on
   the completion sem (sem_nonblank_weak: non-blank on argument lists whose
   formula/range arguments are non-blank), i.e. for workbooks with whole-column
   references (C01_alias_weak; such a workbook does not meet sem_nonblank:
   C01_alias_not_strong).  Proofs/C09WeakTransfer.v, C09Weak.v: the machine
   with failures, fspec, FInv, fext and fails_at coincide for (fsem, sem) and the
   guarded pair (guard_f W fsem, guard W sem), which meets the strong
   hypotheses; the statements are those above with the weak condition
   (C09_inv_meaning has no non-blank hypothesis). *)
Theorem C09_inv_preserved_weak : forall W fsem fpre rorder sem,
  wf W -> sem_nonblank_weak W sem -> completes fsem fpre sem -> (forall n, wb_stored W n = VNone) ->
  FInv W fsem fpre sem (init W) /\
  forall s o, FInv W fsem fpre sem s -> fok_op W s o ->
              FInv W fsem fpre sem (fst (step_f W fsem fpre rorder s o)).
Proof. exact inv_preserved_weak. Qed.
Print Assumptions C09_inv_preserved_weak.

Theorem C09_evaluate_outcome_weak : forall W fsem fpre rorder sem,
  wf W -> sem_nonblank_weak W sem -> completes fsem fpre sem -> (forall n, wb_stored W n = VNone) ->
  forall s n, FInv W fsem fpre sem s -> n < wb_n W ->
    let r := evaluate_f W fsem fpre rorder s n in
    FInv W fsem fpre sem (fst r)
    /\ fval (snd r) = fval (fspec W fsem fpre (st_cache s) n)
    /\ fext W fsem fpre (anceq W n) (st_cache s) (st_cache (fst r))
    /\ (forall m, st_built s m = true -> st_built (fst r) m = true).
Proof. exact evaluate_f_inv_weak. Qed.
Print Assumptions C09_evaluate_outcome_weak.

Theorem C09_failed_evaluate_weak : forall W fsem fpre rorder sem,
  wf W -> sem_nonblank_weak W sem -> completes fsem fpre sem -> (forall n, wb_stored W n = VNone) ->
  forall s n, FInv W fsem fpre sem s -> n < wb_n W ->
    is_raise (snd (evaluate_f W fsem fpre rorder s n)) = true ->
    let s' := fst (evaluate_f W fsem fpre rorder s n) in
    FInv W fsem fpre sem s' /\ fext W fsem fpre (anceq W n) (st_cache s) (st_cache s') /\
    wb_input W n = false /\ st_cache s' n = VNone /\
    is_raise (fspec W fsem fpre (st_cache s) n) = true.
Proof. exact failed_evaluate_weak. Qed.
Print Assumptions C09_failed_evaluate_weak.

Theorem C09_unrelated_weak : forall W fsem fpre rorder sem,
  wf W -> sem_nonblank_weak W sem -> completes fsem fpre sem -> (forall n, wb_stored W n = VNone) ->
  forall h n, fok_history W fsem fpre rorder (init W) h -> n < wb_n W ->
    let s := fst (run_f W fsem fpre rorder (init W) h) in
    (forall k, k = n \/ anc W k n -> ~ fails_at W fsem fpre sem (st_cache s) k) ->
    snd (evaluate_f W fsem fpre rorder s n) = FVal (spec W sem (st_cache s) n).
Proof. exact unrelated_weak. Qed.
Print Assumptions C09_unrelated_weak.

Theorem C09_retry_weak : forall W fsem fpre rorder sem,
  wf W -> sem_nonblank_weak W sem -> completes fsem fpre sem -> (forall n, wb_stored W n = VNone) ->
  forall s n h, FInv W fsem fpre sem s -> n < wb_n W ->
    is_raise (snd (evaluate_f W fsem fpre rorder s n)) = true ->
    let s1 := fst (evaluate_f W fsem fpre rorder s n) in
    fok_history W fsem fpre rorder s1 h -> writes_avoid (fun a => anc W a n) h ->
    forall d, d < wb_n W -> d = n \/ anc W n d ->
      is_raise (snd (evaluate_f W fsem fpre rorder (fst (run_f W fsem fpre rorder s1 h)) d)) = true /\
      st_cache (fst (evaluate_f W fsem fpre rorder (fst (run_f W fsem fpre rorder s1 h)) d)) d = VNone.
Proof. exact retry_weak. Qed.
Print Assumptions C09_retry_weak.

Theorem C09_retry_deterministic_weak : forall W fsem fpre rorder sem,
  wf W -> sem_nonblank_weak W sem -> completes fsem fpre sem -> (forall n, wb_stored W n = VNone) ->
  forall s n, FInv W fsem fpre sem s -> n < wb_n W ->
    is_raise (snd (evaluate_f W fsem fpre rorder s n)) = true ->
    forall s2, FInv W fsem fpre sem s2 ->
      (forall k, wb_input W k = true -> anc W k n -> st_cache s2 k = st_cache s k) ->
      forall d, d < wb_n W -> d = n \/ anc W n d ->
        is_raise (snd (evaluate_f W fsem fpre rorder s2 d)) = true /\
        st_cache (fst (evaluate_f W fsem fpre rorder s2 d)) d = VNone.
Proof. exact retry_state_weak. Qed.
Print Assumptions C09_retry_deterministic_weak.

Theorem C09_repair_weak_partial : forall W fsem fpre rorder sem f0 v0,
  wf W -> sem_nonblank_weak W sem -> completes fsem fpre sem -> (forall n, wb_stored W n = VNone) ->
  f0 < wb_n W -> wb_input W f0 = false -> v0 <> VNone ->
  forall s h d, FInv W fsem fpre sem s -> st_built s f0 = true ->
    is_raise (fspec W fsem fpre (st_cache s) f0) = true ->
    let s1 := set_value W s f0 v0 in
    rok_history W fsem fpre rorder f0 s1 h -> d < wb_n W ->
    let s2 := fst (run_f W fsem fpre rorder s1 h) in
    st_cache s2 f0 = v0 /\
    fval (snd (evaluate_f W fsem fpre rorder s2 d))
    = fval (fspec (as_input W f0 v0) fsem fpre (st_cache s2) d).
Proof. exact repair_weak_p. Qed.
Print Assumptions C09_repair_weak_partial.

Theorem C09_repair_value_weak_partial : forall W fsem fpre rorder sem f0 v0,
  wf W -> sem_nonblank_weak W sem -> completes fsem fpre sem -> (forall n, wb_stored W n = VNone) ->
  f0 < wb_n W -> wb_input W f0 = false -> v0 <> VNone ->
  forall s h d, FInv W fsem fpre sem s -> st_built s f0 = true ->
    is_raise (fspec W fsem fpre (st_cache s) f0) = true ->
    let s1 := set_value W s f0 v0 in
    rok_history W fsem fpre rorder f0 s1 h -> d < wb_n W ->
    let s2 := fst (run_f W fsem fpre rorder s1 h) in
    (forall k, k = d \/ anc (as_input W f0 v0) k d ->
               ~ fails_at (as_input W f0 v0) fsem fpre sem (st_cache s2) k) ->
    snd (evaluate_f W fsem fpre rorder s2 d) = FVal (spec (as_input W f0 v0) sem (st_cache s2) d).
Proof. exact repair_value_weak_p. Qed.
Print Assumptions C09_repair_value_weak_partial.
