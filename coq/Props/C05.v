(* Props/C05.v — property theorems only: one value per cell, whatever the
   order or the access path.  Corollaries of the C01 machine (Model/Graph.v),
   for EVERY well-formed workbook W and EVERY formula semantics [sem] that never
   computes a blank (sem_nonblank, C01's side condition (d)), with stored
   results as in C01 (stored_ok; in particular a no-data workbook).
     be_op W o     o is Evaluate n or Build n with n a node of W (no writes)
     tuple_at v i j   element j of row i of a tuple of tuples
   Unbounded ranges clipped to the used area, address lists/tuples/generators
   and sheet-less addresses are not modelled: oracle only. *)
From Coq Require Import List.
From PV Require Import Lib.Py Model.Graph Model.GraphExpr.
From PV Require Import Proofs.C01Base Proofs.C01Inv Proofs.C01 Proofs.C05.
From PV Require Import Proofs.C01Weak Proofs.C05Weak Proofs.C05WeakMore.
Import ListNotations.

(* after ANY two histories of Build/Evaluate operations, in any order,
   evaluating node n returns the same value: the from-scratch value under the
   workbook's own inputs *)
Theorem C05_order : forall W sem, wf W -> sem_nonblank W sem -> stored_ok W sem ->
  forall h1 h2 n, Forall (be_op W) h1 -> Forall (be_op W) h2 -> n < wb_n W ->
    snd (evaluate W sem (fst (run W sem (init W) h1)) n)
    = snd (evaluate W sem (fst (run W sem (init W) h2)) n)
    /\ snd (evaluate W sem (fst (run W sem (init W) h1)) n) = spec W sem (wb_inp0 W) n.
Proof. exact order. Qed.
Print Assumptions C05_order.

(* the no-data configuration (in-memory workbook, deserialized model) *)
Theorem C05_order_nodata : forall W sem, wf W -> sem_nonblank W sem ->
  (forall n, wb_stored W n = VNone) ->
  forall h1 h2 n, Forall (be_op W) h1 -> Forall (be_op W) h2 -> n < wb_n W ->
    snd (evaluate W sem (fst (run W sem (init W) h1)) n)
    = snd (evaluate W sem (fst (run W sem (init W) h2)) n).
Proof. exact order_nodata. Qed.
Print Assumptions C05_order_nodata.

(* evaluating a node twice in a row: same value, and the second evaluation
   changes neither the cache nor the cell map *)
Theorem C05_repeat : forall W sem, wf W -> sem_nonblank W sem -> stored_ok W sem ->
  forall s n, Inv W sem s -> n < wb_n W ->
    let s1 := fst (evaluate W sem s n) in
    let v1 := snd (evaluate W sem s n) in
    let s2 := fst (evaluate W sem s1 n) in
    let v2 := snd (evaluate W sem s1 n) in
    v2 = v1 /\ st_built s2 = st_built s1 /\ forall m, st_cache s2 m = st_cache s1 m.
Proof. exact repeat_eval. Qed.
Print Assumptions C05_repeat.

(* access path: element (i, j) of the value of a range node with [cols]
   columns is what evaluate returns for the member cell at that position,
   asked before or after the range *)
Theorem C05_path : forall W sem, wf W -> sem_nonblank W sem -> stored_ok W sem ->
  forall s r cols i j, Inv W sem s -> r < wb_n W -> wb_input W r = false ->
    (forall vals, sem r vals = sem_formula (FRange cols) vals) ->
    0 < cols -> j < cols -> i * cols + j < length (wb_deps W r) ->
    let cell := nth (i * cols + j) (wb_deps W r) 0 in
    tuple_at (snd (evaluate W sem s r)) i j = snd (evaluate W sem s cell)
    /\ tuple_at (snd (evaluate W sem s r)) i j
       = snd (evaluate W sem (fst (evaluate W sem s r)) cell).
Proof. exact path. Qed.
Print Assumptions C05_path.

(* C05_order under the weak non-blank condition of C01 (Proofs/C01Weak.v: a
   non-blank result only on argument lists that can arise) — the form that
   applies to workbooks with the reference cell of an unbounded range (S!B:B),
   which does not meet sem_nonblank (C01_alias_not_strong, C01_alias_weak) *)
Theorem C05_order_weak : forall W sem, wf W -> sem_nonblank_weak W sem -> stored_ok W sem ->
  forall h1 h2 n, Forall (be_op W) h1 -> Forall (be_op W) h2 -> n < wb_n W ->
    snd (evaluate W sem (fst (run W sem (init W) h1)) n)
    = snd (evaluate W sem (fst (run W sem (init W) h2)) n)
    /\ snd (evaluate W sem (fst (run W sem (init W) h1)) n) = spec W sem (wb_inp0 W) n.
Proof. exact order_weak. Qed.
Print Assumptions C05_order_weak.

(* the other three theorems under the weak condition (Proofs/C05WeakMore.v, by
   transfer from the theorems above) *)
Theorem C05_order_nodata_weak : forall W sem, wf W -> sem_nonblank_weak W sem ->
  (forall n, wb_stored W n = VNone) ->
  forall h1 h2 n, Forall (be_op W) h1 -> Forall (be_op W) h2 -> n < wb_n W ->
    snd (evaluate W sem (fst (run W sem (init W) h1)) n)
    = snd (evaluate W sem (fst (run W sem (init W) h2)) n).
Proof. exact order_nodata_weak. Qed.
Print Assumptions C05_order_nodata_weak.

Theorem C05_repeat_weak : forall W sem, wf W -> sem_nonblank_weak W sem -> stored_ok W sem ->
  forall s n, Inv W sem s -> n < wb_n W ->
    let s1 := fst (evaluate W sem s n) in
    let v1 := snd (evaluate W sem s n) in
    let s2 := fst (evaluate W sem s1 n) in
    let v2 := snd (evaluate W sem s1 n) in
    v2 = v1 /\ st_built s2 = st_built s1 /\ forall m, st_cache s2 m = st_cache s1 m.
Proof. exact repeat_weak. Qed.
Print Assumptions C05_repeat_weak.

Theorem C05_path_weak : forall W sem, wf W -> sem_nonblank_weak W sem -> stored_ok W sem ->
  forall s r cols i j, Inv W sem s -> r < wb_n W -> wb_input W r = false ->
    (forall vals, sem r vals = sem_formula (FRange cols) vals) ->
    0 < cols -> j < cols -> i * cols + j < length (wb_deps W r) ->
    let cell := nth (i * cols + j) (wb_deps W r) 0 in
    tuple_at (snd (evaluate W sem s r)) i j = snd (evaluate W sem s cell)
    /\ tuple_at (snd (evaluate W sem s r)) i j
       = snd (evaluate W sem (fst (evaluate W sem s r)) cell).
Proof. exact path_weak. Qed.
Print Assumptions C05_path_weak.
