(* Props/C05.v — property theorems only: one value per cell, whatever the
   order or the access path.  Corollaries of the C01 machine (Model/Graph.v),
   for EVERY well-formed workbook W and EVERY formula semantics [sem] that never
   computes a blank (sem_nonblank, C01's side condition (d)), with stored
   results as in C01 (stored_ok; in particular a no-data workbook).
     be_op W o     o is Evaluate n or Build n with n a node of W (no writes)
     tuple_at v i j   element j of row i of a tuple of tuples
   Address lists/tuples/generators: Model/C05List.v evaluate_list (C05_list_path,
   C05_same_members, C05_permutation); the reference node of an unbounded
   range: C05_unbounded_path.  How S!B:B is clipped to the used area (which
   bounded range the reference node stands for) and the resolution of a
   sheet-less address against the active sheet are not modelled: oracle only. *)
From Coq Require Import List.
From PV Require Import Lib.Py Model.Graph Model.GraphExpr.
From PV Require Import Proofs.C01Base Proofs.C01Inv Proofs.C01 Proofs.C05.
From PV Require Import Proofs.C01Weak Proofs.C05Weak Proofs.C05WeakMore.
From Coq Require Import Permutation.
From PV Require Import Model.C05List Proofs.C01Alias Proofs.C05List.
Import ListNotations.

(* after ANY two histories of Build/Evaluate operations, in any order,
   evaluating node n returns the same value: the from-scratch value under the
   workbook's own inputs *)
Theorem C05_order : forall W sem, wf W -> sem_nonblank W sem -> stored_ok W sem ->
  forall h1 h2 n, Forall (be_op W) h1 -> Forall (be_op W) h2 -> n < wb_n W ->
    snd (evaluate W sem (fst (run W sem (init W) h1)) n)
    = snd (evaluate W sem (fst (run W sem (init W) h2)) n)
    /\ snd (evaluate W sem (fst (run W sem (init W) h1)) n) = spec W sem (wb_inp0 W) n.
Proof. exact order. Qed.
Print Assumptions C05_order.

(* the no-data configuration (in-memory workbook, deserialized model) *)
Theorem C05_order_nodata : forall W sem, wf W -> sem_nonblank W sem ->
  (forall n, wb_stored W n = VNone) ->
  forall h1 h2 n, Forall (be_op W) h1 -> Forall (be_op W) h2 -> n < wb_n W ->
    snd (evaluate W sem (fst (run W sem (init W) h1)) n)
    = snd (evaluate W sem (fst (run W sem (init W) h2)) n).
Proof. exact order_nodata. Qed.
Print Assumptions C05_order_nodata.

(* evaluating a node twice in a row: same value, and the second evaluation
   changes neither the cache nor the cell map *)
Theorem C05_repeat : forall W sem, wf W -> sem_nonblank W sem -> stored_ok W sem ->
  forall s n, Inv W sem s -> n < wb_n W ->
    let s1 := fst (evaluate W sem s n) in
    let v1 := snd (evaluate W sem s n) in
    let s2 := fst (evaluate W sem s1 n) in
    let v2 := snd (evaluate W sem s1 n) in
    v2 = v1 /\ st_built s2 = st_built s1 /\ forall m, st_cache s2 m = st_cache s1 m.
Proof. exact repeat_eval. Qed.
Print Assumptions C05_repeat.

(* access path: element (i, j) of the value of a range node with [cols]
   columns is what evaluate returns for the member cell at that position,
   asked before or after the range *)
Theorem C05_path : forall W sem, wf W -> sem_nonblank W sem -> stored_ok W sem ->
  forall s r cols i j, Inv W sem s -> r < wb_n W -> wb_input W r = false ->
    (forall vals, sem r vals = sem_formula (FRange cols) vals) ->
    0 < cols -> j < cols -> i * cols + j < length (wb_deps W r) ->
    let cell := nth (i * cols + j) (wb_deps W r) 0 in
    tuple_at (snd (evaluate W sem s r)) i j = snd (evaluate W sem s cell)
    /\ tuple_at (snd (evaluate W sem s r)) i j
       = snd (evaluate W sem (fst (evaluate W sem s r)) cell).
Proof. exact path. Qed.
Print Assumptions C05_path.

(* C05_order under the weak non-blank condition of C01 (Proofs/C01Weak.v: a
   non-blank result only on argument lists that can arise) — the form that
   applies to workbooks with the reference cell of an unbounded range (S!B:B),
   which does not meet sem_nonblank (C01_alias_not_strong, C01_alias_weak) *)
Theorem C05_order_weak : forall W sem, wf W -> sem_nonblank_weak W sem -> stored_ok W sem ->
  forall h1 h2 n, Forall (be_op W) h1 -> Forall (be_op W) h2 -> n < wb_n W ->
    snd (evaluate W sem (fst (run W sem (init W) h1)) n)
    = snd (evaluate W sem (fst (run W sem (init W) h2)) n)
    /\ snd (evaluate W sem (fst (run W sem (init W) h1)) n) = spec W sem (wb_inp0 W) n.
Proof. exact order_weak. Qed.
Print Assumptions C05_order_weak.

(* the other three theorems under the weak condition (Proofs/C05WeakMore.v, by
   transfer from the theorems above) *)
Theorem C05_order_nodata_weak : forall W sem, wf W -> sem_nonblank_weak W sem ->
  (forall n, wb_stored W n = VNone) ->
  forall h1 h2 n, Forall (be_op W) h1 -> Forall (be_op W) h2 -> n < wb_n W ->
    snd (evaluate W sem (fst (run W sem (init W) h1)) n)
    = snd (evaluate W sem (fst (run W sem (init W) h2)) n).
Proof. exact order_nodata_weak. Qed.
Print Assumptions C05_order_nodata_weak.

Theorem C05_repeat_weak : forall W sem, wf W -> sem_nonblank_weak W sem -> stored_ok W sem ->
  forall s n, Inv W sem s -> n < wb_n W ->
    let s1 := fst (evaluate W sem s n) in
    let v1 := snd (evaluate W sem s n) in
    let s2 := fst (evaluate W sem s1 n) in
    let v2 := snd (evaluate W sem s1 n) in
    v2 = v1 /\ st_built s2 = st_built s1 /\ forall m, st_cache s2 m = st_cache s1 m.
Proof. exact repeat_weak. Qed.
Print Assumptions C05_repeat_weak.

Theorem C05_path_weak : forall W sem, wf W -> sem_nonblank_weak W sem -> stored_ok W sem ->
  forall s r cols i j, Inv W sem s -> r < wb_n W -> wb_input W r = false ->
    (forall vals, sem r vals = sem_formula (FRange cols) vals) ->
    0 < cols -> j < cols -> i * cols + j < length (wb_deps W r) ->
    let cell := nth (i * cols + j) (wb_deps W r) 0 in
    tuple_at (snd (evaluate W sem s r)) i j = snd (evaluate W sem s cell)
    /\ tuple_at (snd (evaluate W sem s r)) i j
       = snd (evaluate W sem (fst (evaluate W sem s r)) cell).
Proof. exact path_weak. Qed.
Print Assumptions C05_path_weak.

(* ---- address lists, permutations, whole-state idempotence, unbounded
   references (Proofs/C05List.v).  All under the WEAK non-blank condition, which
   the strong one implies (C01Weak.nonblank_weaken), so they hold for both kinds
   of workbook.
     evaluate_list W sem s l   Model/C05List.v: evaluate on a list/tuple/generator
                               of addresses = left-to-right fold of evaluate
     ltN W l                   every member of l is a node of W
     settled W s               every built formula/range node of s holds a value
                               (C05_settled: true of init W, kept by address lists;
                               NOT a hypothesis of the theorems below, which start
                               from any state of the invariant) *)

(* evaluate(list) returns at EVERY position what evaluate of that address alone
   returns from the same state, whatever the other members and their order *)
Theorem C05_list_path : forall W sem, wf W -> sem_nonblank_weak W sem -> stored_ok W sem ->
  forall s l, Inv W sem s -> ltN W l ->
    snd (evaluate_list W sem s l) = map (fun a => snd (evaluate W sem s a)) l
    /\ forall i, i < length l ->
         nth i (snd (evaluate_list W sem s l)) VNone = snd (evaluate W sem s (nth i l 0)).
Proof. exact list_path_weak. Qed.
Print Assumptions C05_list_path.

(* two address lists with the same members (any order, any repetitions): the
   FINAL MACHINE STATES are equal (cell map and every cache entry), every later
   evaluate agrees, and equal addresses got equal values at whatever positions *)
Theorem C05_same_members : forall W sem, wf W -> sem_nonblank_weak W sem -> stored_ok W sem ->
  forall s l1 l2, Inv W sem s -> ltN W l1 -> ltN W l2 ->
    (forall n, In n l1 <-> In n l2) ->
    (forall m, st_built (fst (evaluate_list W sem s l1)) m
               = st_built (fst (evaluate_list W sem s l2)) m
               /\ st_cache (fst (evaluate_list W sem s l1)) m
                  = st_cache (fst (evaluate_list W sem s l2)) m)
    /\ (forall c, c < wb_n W -> snd (evaluate W sem (fst (evaluate_list W sem s l1)) c)
                                = snd (evaluate W sem (fst (evaluate_list W sem s l2)) c))
    /\ (forall i1 i2, i1 < length l1 -> i2 < length l2 -> nth i1 l1 0 = nth i2 l2 0 ->
          nth i1 (snd (evaluate_list W sem s l1)) VNone
          = nth i2 (snd (evaluate_list W sem s l2)) VNone).
Proof. exact same_members_weak. Qed.
Print Assumptions C05_same_members.

(* two permutations of one address list: the (address, value) pairs returned are
   a permutation of each other, reading any cell afterwards gives the same
   value, and the final machine states are equal *)
Theorem C05_permutation : forall W sem, wf W -> sem_nonblank_weak W sem -> stored_ok W sem ->
  forall s l1 l2, Inv W sem s -> ltN W l1 -> Permutation l1 l2 ->
    Permutation (combine l1 (snd (evaluate_list W sem s l1)))
                (combine l2 (snd (evaluate_list W sem s l2)))
    /\ (forall c, c < wb_n W -> snd (evaluate W sem (fst (evaluate_list W sem s l1)) c)
                                = snd (evaluate W sem (fst (evaluate_list W sem s l2)) c))
    /\ (forall m, st_built (fst (evaluate_list W sem s l1)) m
                  = st_built (fst (evaluate_list W sem s l2)) m
                  /\ st_cache (fst (evaluate_list W sem s l1)) m
                     = st_cache (fst (evaluate_list W sem s l2)) m).
Proof. exact permutation_weak. Qed.
Print Assumptions C05_permutation.

(* after ANY Build/Evaluate history in which n was evaluated at some point,
   evaluate of n or of any ancestor m of n returns the cached value and leaves
   the whole machine state (cell map, every cache entry) as it is *)
Theorem C05_idempotent_state : forall W sem, wf W -> sem_nonblank_weak W sem -> stored_ok W sem ->
  forall s h n m, Inv W sem s -> Forall (be_op W) h -> In (Evaluate n) h ->
    (m = n \/ anc W m n) ->
    st_built (fst (evaluate W sem (fst (run W sem s h)) m)) = st_built (fst (run W sem s h))
    /\ (forall k, st_cache (fst (evaluate W sem (fst (run W sem s h)) m)) k
                  = st_cache (fst (run W sem s h)) k)
    /\ snd (evaluate W sem (fst (run W sem s h)) m) = st_cache (fst (run W sem s h)) m.
Proof. exact idempotent_state_weak. Qed.
Print Assumptions C05_idempotent_state.

(* r = the reference node of an unbounded range (S!B:B), p = the bounded range
   node it stands for (S!B1:B4, cols columns): evaluate(r) is evaluate(p), and
   its element (i, j) is what evaluate returns for the member cell at that
   position, asked before or after the reference *)
Theorem C05_unbounded_path : forall W sem, wf W -> sem_nonblank_weak W sem -> stored_ok W sem ->
  forall s r p cols i j, Inv W sem s -> alias_node W sem r p -> p < wb_n W ->
    (forall vals, sem p vals = sem_formula (FRange cols) vals) ->
    0 < cols -> j < cols -> i * cols + j < length (wb_deps W p) ->
    snd (evaluate W sem s r) = snd (evaluate W sem s p)
    /\ tuple_at (snd (evaluate W sem s r)) i j
       = snd (evaluate W sem s (nth (i * cols + j) (wb_deps W p) 0))
    /\ tuple_at (snd (evaluate W sem s r)) i j
       = snd (evaluate W sem (fst (evaluate W sem s r)) (nth (i * cols + j) (wb_deps W p) 0)).
Proof. exact unbounded_path_weak. Qed.
Print Assumptions C05_unbounded_path.

(* the list form IS the history "Evaluate a1; ...; Evaluate ak" of C05_order (no
   hypotheses): the order theorems above apply to address lists as they are *)
Theorem C05_list_is_history : forall W sem l s,
  evaluate_list W sem s l = run W sem s (map Evaluate l).
Proof. exact evaluate_list_run. Qed.
Print Assumptions C05_list_is_history.

(* after ANY two Build/Evaluate histories (not only permutations of each other)
   the two final caches agree on every input cell and on every cell that holds
   a value in both: that value is the from-scratch value *)
Theorem C05_states_agree : forall W sem, wf W -> sem_nonblank_weak W sem -> stored_ok W sem ->
  forall s h1 h2 m, Inv W sem s -> Forall (be_op W) h1 -> Forall (be_op W) h2 -> m < wb_n W ->
    (wb_input W m = true \/ (st_cache (fst (run W sem s h1)) m <> VNone
                             /\ st_cache (fst (run W sem s h2)) m <> VNone)) ->
    st_cache (fst (run W sem s h1)) m = st_cache (fst (run W sem s h2)) m
    /\ st_cache (fst (run W sem s h1)) m = spec W sem (st_cache s) m.
Proof. exact states_agree_weak. Qed.
Print Assumptions C05_states_agree.

(* as long as cells enter the model through evaluate only (no Build), every
   cell of the cell map holds a value: true at the start and after every address
   list; the invariant itself is kept too *)
Theorem C05_settled : forall W sem, wf W -> sem_nonblank_weak W sem -> stored_ok W sem ->
  settled W (init W) /\ Inv W sem (init W)
  /\ forall s l, Inv W sem s -> settled W s -> ltN W l ->
       settled W (fst (evaluate_list W sem s l)) /\ Inv W sem (fst (evaluate_list W sem s l)).
Proof. exact settled_weak. Qed.
Print Assumptions C05_settled.

(* evaluating the same address list a second time returns the same values and
   leaves the machine state (cell map, every cache entry) unchanged *)
Theorem C05_list_repeat : forall W sem, wf W -> sem_nonblank_weak W sem -> stored_ok W sem ->
  forall s l, Inv W sem s -> ltN W l ->
    snd (evaluate_list W sem (fst (evaluate_list W sem s l)) l) = snd (evaluate_list W sem s l)
    /\ forall m, st_built (fst (evaluate_list W sem (fst (evaluate_list W sem s l)) l)) m
                 = st_built (fst (evaluate_list W sem s l)) m
              /\ st_cache (fst (evaluate_list W sem (fst (evaluate_list W sem s l)) l)) m
                 = st_cache (fst (evaluate_list W sem s l)) m.
Proof. exact list_repeat_weak. Qed.
Print Assumptions C05_list_repeat.

(* ANY two histories made of the same Build/Evaluate operations — in particular
   two permutations of one history, with or without repetitions; Build = the
   cell is compiled into the model without being evaluated — end in EQUAL
   machine states: the same cell map and the same cache entry for every node
   (so the order of first evaluation AND of compilation is invisible afterwards) *)
Theorem C05_history_order : forall W sem, wf W -> sem_nonblank_weak W sem -> stored_ok W sem ->
  forall s h1 h2, Inv W sem s -> Forall (be_op W) h1 -> Forall (be_op W) h2 ->
    (forall o, In o h1 <-> In o h2) ->
    forall m, st_built (fst (run W sem s h1)) m = st_built (fst (run W sem s h2)) m
              /\ st_cache (fst (run W sem s h1)) m = st_cache (fst (run W sem s h2)) m.
Proof. exact history_order_weak. Qed.
Print Assumptions C05_history_order.

(* the value an operation returns does not depend on its position in the
   history: it is what the operation returns when it is the first one (evaluate:
   the from-scratch value; Build returns nothing).  For two permutations of one
   history the (operation, value) pairs are a permutation of each other. *)
Theorem C05_history_values : forall W sem, wf W -> sem_nonblank_weak W sem -> stored_ok W sem ->
  forall s h, Inv W sem s -> Forall (be_op W) h ->
    snd (run W sem s h) = map (fun o => snd (step W sem s o)) h.
Proof. exact history_values_weak. Qed.
Print Assumptions C05_history_values.

Theorem C05_history_values_perm : forall W sem, wf W -> sem_nonblank_weak W sem -> stored_ok W sem ->
  forall s h1 h2, Inv W sem s -> Forall (be_op W) h1 -> Permutation h1 h2 ->
    Permutation (combine h1 (snd (run W sem s h1))) (combine h2 (snd (run W sem s h2))).
Proof. exact history_values_perm_weak. Qed.
Print Assumptions C05_history_values_perm.

(* the same cell reached through ANY two range nodes that contain it (at
   positions (i1, j1) and (i2, j2)), the second asked after any Build/Evaluate
   history: the same element *)
Theorem C05_path_any_range : forall W sem, wf W -> sem_nonblank_weak W sem -> stored_ok W sem ->
  forall s h r1 cols1 i1 j1 r2 cols2 i2 j2,
    Inv W sem s -> Forall (be_op W) h ->
    r1 < wb_n W -> wb_input W r1 = false ->
    (forall vals, sem r1 vals = sem_formula (FRange cols1) vals) ->
    0 < cols1 -> j1 < cols1 -> i1 * cols1 + j1 < length (wb_deps W r1) ->
    r2 < wb_n W -> wb_input W r2 = false ->
    (forall vals, sem r2 vals = sem_formula (FRange cols2) vals) ->
    0 < cols2 -> j2 < cols2 -> i2 * cols2 + j2 < length (wb_deps W r2) ->
    nth (i1 * cols1 + j1) (wb_deps W r1) 0 = nth (i2 * cols2 + j2) (wb_deps W r2) 0 ->
    tuple_at (snd (evaluate W sem s r1)) i1 j1
    = tuple_at (snd (evaluate W sem (fst (run W sem s h)) r2)) i2 j2.
Proof. exact path_any_range_weak. Qed.
Print Assumptions C05_path_any_range.

(* a cell reached through the reference node r of an unbounded range (S!B:B,
   standing for the range node p) and through ANY range node r2 that contains
   it, one of them asked after any Build/Evaluate history: the same element *)
Theorem C05_unbounded_any_range : forall W sem, wf W -> sem_nonblank_weak W sem -> stored_ok W sem ->
  forall s h r p cols1 i1 j1 r2 cols2 i2 j2,
    Inv W sem s -> Forall (be_op W) h -> alias_node W sem r p -> p < wb_n W ->
    (forall vals, sem p vals = sem_formula (FRange cols1) vals) ->
    0 < cols1 -> j1 < cols1 -> i1 * cols1 + j1 < length (wb_deps W p) ->
    r2 < wb_n W -> wb_input W r2 = false ->
    (forall vals, sem r2 vals = sem_formula (FRange cols2) vals) ->
    0 < cols2 -> j2 < cols2 -> i2 * cols2 + j2 < length (wb_deps W r2) ->
    nth (i1 * cols1 + j1) (wb_deps W p) 0 = nth (i2 * cols2 + j2) (wb_deps W r2) 0 ->
    tuple_at (snd (evaluate W sem s r)) i1 j1
    = tuple_at (snd (evaluate W sem (fst (run W sem s h)) r2)) i2 j2
    /\ tuple_at (snd (evaluate W sem (fst (run W sem s h)) r)) i1 j1
       = tuple_at (snd (evaluate W sem s r2)) i2 j2.
Proof. exact unbounded_any_range_weak. Qed.
Print Assumptions C05_unbounded_any_range.
