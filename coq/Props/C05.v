(* Props/C05.v — corollaries of the C01 machine; filled in once Proofs/C01.v lands *)
