(* Props/C18.v — property theorems only.  Models: Gen/engineering.v is
   regenerated from /repo/src/pycel/lib/engineering.py on every run. *)
From Coq Require Import ZArith List.
From PV Require Import Lib.Py Proofs.Radix Proofs.C18 Proofs.C18Places.
From PV Require Gen.excelutil Gen.engineering.
Import ListNotations.
Open Scope Z_scope.

(* DEC2x then x2DEC is the identity on the whole two's-complement range *)
Theorem C18_roundtrip_bin : forall n, -512 <= n < 512 ->
  bind (engineering.f_dec2bin (VInt n) VNone) engineering.f_bin2dec = Ok (VInt n).
Proof. exact roundtrip_2. Qed.
Print Assumptions C18_roundtrip_bin.

Theorem C18_roundtrip_oct : forall n, -536870912 <= n < 536870912 ->
  bind (engineering.f_dec2oct (VInt n) VNone) engineering.f_oct2dec = Ok (VInt n).
Proof. exact roundtrip_8. Qed.
Print Assumptions C18_roundtrip_oct.

Theorem C18_roundtrip_hex : forall n, -549755813888 <= n < 549755813888 ->
  bind (engineering.f_dec2hex (VInt n) VNone) engineering.f_hex2dec = Ok (VInt n).
Proof. exact roundtrip_16. Qed.
Print Assumptions C18_roundtrip_hex.

(* negative numbers render as exactly ten digits: those of n + 2^(k+1) *)
Theorem C18_twos_complement_bin : forall n, -512 <= n < 0 ->
  exists U, engineering.f_dec2bin (VInt n) VNone = Ok (VStr U)
            /\ U = udigits 2 (n + 1024) /\ zlen U = 10.
Proof. exact twos_complement_2. Qed.
Print Assumptions C18_twos_complement_bin.

Theorem C18_twos_complement_oct : forall n, -536870912 <= n < 0 ->
  exists U, engineering.f_dec2oct (VInt n) VNone = Ok (VStr U)
            /\ U = udigits 8 (n + 1073741824) /\ zlen U = 10.
Proof. exact twos_complement_8. Qed.
Print Assumptions C18_twos_complement_oct.

Theorem C18_twos_complement_hex : forall n, -549755813888 <= n < 0 ->
  exists U, engineering.f_dec2hex (VInt n) VNone = Ok (VStr U)
            /\ U = udigits 16 (n + 1099511627776) /\ zlen U = 10.
Proof. exact twos_complement_16. Qed.
Print Assumptions C18_twos_complement_hex.

(* base-to-base = composition through decimal (non-blank input) *)
Theorem C18_compose : forall v p a b, v <> VNone ->
  engineering.f__base2base v p a b
  = bind (engineering.f__base2dec v a) (fun d => engineering.f__dec2base d p b).
Proof. exact compose. Qed.
Print Assumptions C18_compose.

(* places pads with zeros to exactly [places] or yields #NUM! *)
Theorem C18_places_bin : forall n p, -512 <= n < 512 ->
  engineering.f__dec2base (VInt n) (VInt p) (VInt 2) = Ok (padded 2 512 n p).
Proof. exact places_2. Qed.
Print Assumptions C18_places_bin.
Theorem C18_places_oct : forall n p, -536870912 <= n < 536870912 ->
  engineering.f__dec2base (VInt n) (VInt p) (VInt 8) = Ok (padded 8 536870912 n p).
Proof. exact places_8. Qed.
Print Assumptions C18_places_oct.
Theorem C18_places_hex : forall n p, -549755813888 <= n < 549755813888 ->
  engineering.f__dec2base (VInt n) (VInt p) (VInt 16) = Ok (padded 16 549755813888 n p).
Proof. exact places_16. Qed.
Print Assumptions C18_places_hex.

(* outside the range or the alphabet: #NUM!, never a value or an exception *)
Theorem C18_reject_range_bin : forall n p, ~ (-512 <= n < 512) ->
  engineering.f__dec2base (VInt n) p (VInt 2) = Ok excelutil.c_NUM_ERROR.
Proof. exact reject_range_2. Qed.
Print Assumptions C18_reject_range_bin.
Theorem C18_reject_range_oct : forall n p, ~ (-536870912 <= n < 536870912) ->
  engineering.f__dec2base (VInt n) p (VInt 8) = Ok excelutil.c_NUM_ERROR.
Proof. exact reject_range_8. Qed.
Print Assumptions C18_reject_range_oct.
Theorem C18_reject_range_hex : forall n p, ~ (-549755813888 <= n < 549755813888) ->
  engineering.f__dec2base (VInt n) p (VInt 16) = Ok excelutil.c_NUM_ERROR.
Proof. exact reject_range_16. Qed.
Print Assumptions C18_reject_range_hex.

Theorem C18_reject_alphabet_bin : forall s, not_code s ->
  (exists c, In c s /\ str_contains [c] [48; 49] = false) ->
  engineering.f__base2dec (VStr s) (VInt 2) = Ok excelutil.c_NUM_ERROR.
Proof. exact reject_alphabet_2. Qed.
Print Assumptions C18_reject_alphabet_bin.
Theorem C18_reject_alphabet_oct : forall s, not_code s ->
  (exists c, In c s /\ str_contains [c] [48; 49; 50; 51; 52; 53; 54; 55] = false) ->
  engineering.f__base2dec (VStr s) (VInt 8) = Ok excelutil.c_NUM_ERROR.
Proof. exact reject_alphabet_8. Qed.
Print Assumptions C18_reject_alphabet_oct.
Theorem C18_reject_alphabet_hex : forall s, not_code s ->
  (exists c, In c s /\ str_contains [c] [48; 49; 50; 51; 52; 53; 54; 55; 56; 57; 65; 66; 67; 68; 69; 70;
               97; 98; 99; 100; 101; 102] = false) ->
  engineering.f__base2dec (VStr s) (VInt 16) = Ok excelutil.c_NUM_ERROR.
Proof. exact reject_alphabet_16. Qed.
Print Assumptions C18_reject_alphabet_hex.

Theorem C18_reject_long : forall s b, (b = 2 \/ b = 8 \/ b = 16) -> not_code s -> 10 < zlen s ->
  engineering.f__base2dec (VStr s) (VInt b) = Ok excelutil.c_NUM_ERROR.
Proof. exact reject_long. Qed.
Print Assumptions C18_reject_long.

(* what the closed form [padded] of C18_places_bin / _oct / _hex says, for every
   base b, half-range m, number n and places p: places smaller than the digit
   count -> #NUM!; otherwise exactly p characters, the digits of the number
   (negative: its 10-digit two's complement) preceded by zeros only *)
Theorem C18_places_too_small : forall b m n p, p < zlen (udigits b (wrap m n)) ->
  padded b m n p = excelutil.c_NUM_ERROR.
Proof. exact padded_too_small. Qed.
Print Assumptions C18_places_too_small.
Theorem C18_places_pads_zeros : forall b m n p, zlen (udigits b (wrap m n)) <= p ->
  exists z, padded b m n p = VStr (z ++ udigits b (wrap m n))
            /\ Forall (fun c => c = 48) z
            /\ zlen (z ++ udigits b (wrap m n)) = p.
Proof. exact padded_fits. Qed.
Print Assumptions C18_places_pads_zeros.
