(* Props/C07.v — property theorems only.  Model: Model/Threads.v (hand-written:
   per-thread namespaces of the two module-level singletons, per-compiler cell
   state, a small-step machine per thread whose steps are the entries of
   ExcelCompiler._evaluate; tied to the source by the real-thread schedule
   enumeration and the static inventory of harness/props/c07.py). *)
From Coq Require Import ZArith QArith List.
From PV Require Import Lib.Py Model.Iter Model.Threads Proofs.C07 Proofs.C07Ser Proofs.C07Warm.
Import ListNotations.

(* threads with their own namespace working on different compilers: for EVERY
   schedule, what thread t sees (its machine: result, pass count, phase; its
   tracker namespace and array-context stack; its compiler's cells) is what it
   sees when it runs alone.  The step function is arbitrary in the proof: the
   statement covers every pair of workloads and every (iterations, tolerance). *)
Theorem C07_noninterference : forall cf t sched G,
  (forall t', t' <> t -> c_ns cf t' <> c_ns cf t /\ c_comp cf t' <> c_comp cf t) ->
  view cf t (run cf sched G) = view cf t (run cf (only t sched) G).
Proof. exact noninterference. Qed.
Print Assumptions C07_noninterference.

(* the same after every prefix of the schedule: the whole sequence of observables *)
Theorem C07_noninterference_trace : forall cf t sched G n,
  (forall t', t' <> t -> c_ns cf t' <> c_ns cf t /\ c_comp cf t' <> c_comp cf t) ->
  view cf t (run cf (firstn n sched) G) = view cf t (run cf (only t (firstn n sched)) G).
Proof. exact noninterference_trace. Qed.
Print Assumptions C07_noninterference_trace.

(* a process none of whose threads has used the library: whatever the operations
   (evaluate, set_value on an iterative compiler, cell construction as done by
   load / trim_graph / _gen_graph), the compilers' contents, the thread-to-namespace
   map and the schedule, no step ever reads a namespace attribute that does not exist *)
Theorem C07_fresh : forall cf kinds comps sched t,
  m_phase (g_m (run cf sched (fresh_process kinds comps)) t) <> PMissing.
Proof. exact fresh. Qed.
Print Assumptions C07_fresh.

(* ---- serializability, any number of threads, the result in user terms
   (proofs: Proofs/C07Ser.v).  Global states hold functions, "the same global
   state" is pointwise equality [geq]. ---- *)

(* any number of threads: a list of threads with pairwise different namespaces
   and compilers, any schedule made of them: every one of them sees its solo run.
   (Threads that do not run need not be disjoint from anything.) *)
Theorem C07_n_threads : forall cf ths sched G t,
  (forall a b, In a ths -> In b ths -> a <> b -> c_ns cf a <> c_ns cf b /\ c_comp cf a <> c_comp cf b) ->
  (forall u, In u sched -> In u ths) -> In t ths ->
  view cf t (run cf sched G) = view cf t (run cf (only t sched) G).
Proof. exact n_threads. Qed.
Print Assumptions C07_n_threads.

(* the WHOLE global state (all machines, all namespaces, all compilers) after any
   schedule is the state after the serial schedule: the threads one after the
   other in any fixed order, each with its own steps *)
Theorem C07_serializable : forall cf order sched G,
  (forall a b, In a sched -> In b sched -> a <> b -> c_ns cf a <> c_ns cf b /\ c_comp cf a <> c_comp cf b) ->
  NoDup order -> (forall t, In t sched -> In t order) ->
  (forall t, g_m (run cf sched G) t = g_m (run cf (flat_map (fun t => only t sched) order) G) t) /\
  (forall i, g_ns (run cf sched G) i = g_ns (run cf (flat_map (fun t => only t sched) order) G) i) /\
  (forall i, g_k (run cf sched G) i = g_k (run cf (flat_map (fun t => only t sched) order) G) i).
Proof. exact serializable. Qed.
Print Assumptions C07_serializable.

(* two schedules with the same per-thread projections end in the same global state *)
Theorem C07_same_projections : forall cf s1 s2 G,
  (forall a b, In a s1 -> In b s1 -> a <> b -> c_ns cf a <> c_ns cf b /\ c_comp cf a <> c_comp cf b) ->
  (forall t, only t s1 = only t s2) ->
  (forall t, g_m (run cf s1 G) t = g_m (run cf s2 G) t) /\
  (forall i, g_ns (run cf s1 G) i = g_ns (run cf s2 G) i) /\
  (forall i, g_k (run cf s1 G) i = g_k (run cf s2 G) i).
Proof. exact same_projections. Qed.
Print Assumptions C07_same_projections.

(* steps of two threads with different namespaces and compilers commute *)
Theorem C07_steps_commute : forall cf a b G,
  a <> b -> c_ns cf a <> c_ns cf b -> c_comp cf a <> c_comp cf b ->
  (forall t, g_m (gstep cf (gstep cf G a) b) t = g_m (gstep cf (gstep cf G b) a) t) /\
  (forall i, g_ns (gstep cf (gstep cf G a) b) i = g_ns (gstep cf (gstep cf G b) a) i) /\
  (forall i, g_k (gstep cf (gstep cf G a) b) i = g_k (gstep cf (gstep cf G b) a) i).
Proof. exact steps_commute. Qed.
Print Assumptions C07_steps_commute.

(* in user terms: in every schedule in which thread t has run to completion
   (returned, raised, or - excluded by C07_fresh - read a missing attribute) its
   machine, hence the value it returns, its pass count and its outcome, is that of
   running t alone for any number n of steps that is at least its own steps *)
Theorem C07_result_alone : forall cf t sched G n,
  (forall u, In u sched -> u <> t -> c_ns cf u <> c_ns cf t /\ c_comp cf u <> c_comp cf t) ->
  final (m_phase (g_m (run cf sched G) t)) = true ->
  (length (only t sched) <= n)%nat ->
  g_m (run cf sched G) t = g_m (run cf (repeat t n) G) t /\
  (m_phase (g_m (run cf sched G) t), m_res (g_m (run cf sched G) t), m_passes (g_m (run cf sched G) t))
  = (m_phase (g_m (run cf (repeat t n) G) t), m_res (g_m (run cf (repeat t n) G) t),
     m_passes (g_m (run cf (repeat t n) G) t)).
Proof. exact result_alone. Qed.
Print Assumptions C07_result_alone.

(* completion does not depend on the schedule: t has finished exactly if t alone
   has finished after the same number of its own steps *)
Theorem C07_completion_alone : forall cf t sched G,
  (forall u, In u sched -> u <> t -> c_ns cf u <> c_ns cf t /\ c_comp cf u <> c_comp cf t) ->
  final (m_phase (g_m (run cf sched G) t))
  = final (m_phase (g_m (run cf (repeat t (length (only t sched))) G) t)).
Proof. exact completion_alone. Qed.
Print Assumptions C07_completion_alone.

(* ... and two schedules in which t made the same number of steps show t the same *)
Theorem C07_same_count_same_view : forall cf t s1 s2 G,
  (forall u, In u (s1 ++ s2) -> u <> t -> c_ns cf u <> c_ns cf t /\ c_comp cf u <> c_comp cf t) ->
  length (only t s1) = length (only t s2) ->
  view cf t (run cf s1 G) = view cf t (run cf s2 G).
Proof. exact same_count_same_view. Qed.
Print Assumptions C07_same_count_same_view.

(* sensitivity: the disjointness of the namespaces is needed.  Two threads on
   different compilers that SHARE the namespace (a module-level object without
   threading.local, what _IterativeEvalTracker.ns and the array-context stack
   were): there are workloads and a schedule on which what a thread gets back
   (outcome, value, pass count) and what it sees differ from its solo run *)
Theorem C07_shared_namespace_interferes :
  exists cf kinds comps sched t,
    (forall a b, a <> b -> c_comp cf a <> c_comp cf b) /\
    c_ns cf 0%nat = c_ns cf 1%nat /\
    (m_phase (g_m (run cf sched (fresh_process kinds comps)) t),
     m_res (g_m (run cf sched (fresh_process kinds comps)) t),
     m_passes (g_m (run cf sched (fresh_process kinds comps)) t))
    <> (m_phase (g_m (run cf (only t sched) (fresh_process kinds comps)) t),
        m_res (g_m (run cf (only t sched) (fresh_process kinds comps)) t),
        m_passes (g_m (run cf (only t sched) (fresh_process kinds comps)) t)) /\
    view cf t (run cf sched (fresh_process kinds comps))
      <> view cf t (run cf (only t sched) (fresh_process kinds comps)).
Proof. exact shared_namespace_interferes. Qed.
Print Assumptions C07_shared_namespace_interferes.

(* the same for the array-context stack: with one stack for both threads, a thread
   that is inside a formula sees a stack that is deeper than in its solo run (the
   top entry is the other thread's) *)
Theorem C07_shared_context_stack_interferes :
  exists cf kinds comps sched t,
    (forall a b, a <> b -> c_comp cf a <> c_comp cf b) /\
    c_ns cf 0%nat = c_ns cf 1%nat /\
    ctx_addresses (the_ctx (g_ns (run cf sched (fresh_process kinds comps)) (c_ns cf t)))
    <> ctx_addresses (the_ctx (g_ns (run cf (only t sched) (fresh_process kinds comps)) (c_ns cf t))).
Proof. exact shared_context_stack_interferes. Qed.
Print Assumptions C07_shared_context_stack_interferes.

(* fresh vs warmed-up threads (proofs: Proofs/C07Warm.v): an evaluate(address,
   iterations, tolerance) that starts on a namespace holding WHATEVER earlier
   operations of the thread left in the tracker (todo, computed, iteration number,
   iterations, tolerance - present or not) and on a namespace that does not exist
   yet, with the same array-context stack (balanced: [False], or not yet created),
   gives the same machine (outcome, value, pass count, entries) and the same
   compiler contents after every schedule *)
Theorem C07_warm_equals_fresh : forall cf t sched G G' tg it tolv,
  (forall u, In u sched -> u <> t -> c_ns cf u <> c_ns cf t /\ c_comp cf u <> c_comp cf t) ->
  g_m G t = start (KEval tg it tolv) -> g_m G' t = start (KEval tg it tolv) ->
  g_k G (c_comp cf t) = g_k G' (c_comp cf t) ->
  the_ctx (g_ns G (c_ns cf t)) = the_ctx (g_ns G' (c_ns cf t)) ->
  g_m (run cf sched G) t = g_m (run cf sched G') t /\
  g_k (run cf sched G) (c_comp cf t) = g_k (run cf sched G') (c_comp cf t).
Proof. exact warm_equals_fresh. Qed.
Print Assumptions C07_warm_equals_fresh.

(* every step reads the thread's namespace only through what the `ns` properties
   return: a namespace that does not exist yet and the one they create are
   indistinguishable for every operation (evaluate, set_value, cell construction) *)
Theorem C07_namespace_lazy : forall w m n n' k,
  the_ns n = the_ns n' /\ the_ctx n = the_ctx n' ->
  fst (fst (tstep w m n k)) = fst (fst (tstep w m n' k)) /\
  snd (tstep w m n k) = snd (tstep w m n' k) /\
  (the_ns (snd (fst (tstep w m n k))) = the_ns (snd (fst (tstep w m n' k))) /\
   the_ctx (snd (fst (tstep w m n k))) = the_ctx (snd (fst (tstep w m n' k)))).
Proof. exact tstep_lazy. Qed.
Print Assumptions C07_namespace_lazy.

(* the other half of the hypothesis is needed as well (the property speaks of
   DIFFERENT compiled workbooks): two threads with their own namespaces evaluating
   the SAME compiler - there are workloads and a schedule on which what a thread
   gets back (outcome, value, pass count) differs from its solo run *)
Theorem C07_shared_compiler_interferes :
  exists cf kinds comps sched t,
    (forall a b, a <> b -> c_ns cf a <> c_ns cf b) /\
    c_comp cf 0%nat = c_comp cf 1%nat /\
    (m_phase (g_m (run cf sched (fresh_process kinds comps)) t),
     m_res (g_m (run cf sched (fresh_process kinds comps)) t),
     m_passes (g_m (run cf sched (fresh_process kinds comps)) t))
    <> (m_phase (g_m (run cf (only t sched) (fresh_process kinds comps)) t),
        m_res (g_m (run cf (only t sched) (fresh_process kinds comps)) t),
        m_passes (g_m (run cf (only t sched) (fresh_process kinds comps)) t)).
Proof. exact shared_compiler_interferes. Qed.
Print Assumptions C07_shared_compiler_interferes.

(* fresh vs warmed-up threads, set_value on an iterative compiler: whatever the
   thread's tracker namespace holds (absent, or any todo / computed / iteration
   number / iterations / tolerance left by earlier operations - the two attributes
   the setter reads exist, which C07_fresh guarantees for every reachable
   namespace), the outcome and the compiler's contents are the same, after every
   schedule *)
Theorem C07_set_value_warm_equals_fresh : forall cf t sched G G' c v,
  (forall u, In u sched -> u <> t -> c_ns cf u <> c_ns cf t /\ c_comp cf u <> c_comp cf t) ->
  g_m G t = start (KSet c v) -> g_m G' t = start (KSet c v) ->
  g_k G (c_comp cf t) = g_k G' (c_comp cf t) ->
  ns_ok (g_ns G (c_ns cf t)) -> ns_ok (g_ns G' (c_ns cf t)) ->
  g_m (run cf sched G) t = g_m (run cf sched G') t /\
  g_k (run cf sched G) (c_comp cf t) = g_k (run cf sched G') (c_comp cf t).
Proof. exact set_value_warm_equals_fresh. Qed.
Print Assumptions C07_set_value_warm_equals_fresh.
