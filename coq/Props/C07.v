(* Props/C07.v — property theorems only.  Model: Model/Threads.v (hand-written:
   per-thread namespaces of the two module-level singletons, per-compiler cell
   state, a small-step machine per thread whose steps are the entries of
   ExcelCompiler._evaluate; tied to the source by the real-thread schedule
   enumeration and the static inventory of harness/props/c07.py). *)
From Coq Require Import ZArith QArith List.
From PV Require Import Lib.Py Model.Iter Model.Threads Proofs.C07.
Import ListNotations.

(* threads with their own namespace working on different compilers: for EVERY
   schedule, what thread t sees (its machine: result, pass count, phase; its
   tracker namespace and array-context stack; its compiler's cells) is what it
   sees when it runs alone.  The step function is arbitrary in the proof: the
   statement covers every pair of workloads and every (iterations, tolerance). *)
Theorem C07_noninterference : forall cf t sched G,
  (forall t', t' <> t -> c_ns cf t' <> c_ns cf t /\ c_comp cf t' <> c_comp cf t) ->
  view cf t (run cf sched G) = view cf t (run cf (only t sched) G).
Proof. exact noninterference. Qed.
Print Assumptions C07_noninterference.

(* the same after every prefix of the schedule: the whole sequence of observables *)
Theorem C07_noninterference_trace : forall cf t sched G n,
  (forall t', t' <> t -> c_ns cf t' <> c_ns cf t /\ c_comp cf t' <> c_comp cf t) ->
  view cf t (run cf (firstn n sched) G) = view cf t (run cf (only t (firstn n sched)) G).
Proof. exact noninterference_trace. Qed.
Print Assumptions C07_noninterference_trace.

(* a process none of whose threads has used the library: whatever the operations
   (evaluate, set_value on an iterative compiler, cell construction as done by
   load / trim_graph / _gen_graph), the compilers' contents, the thread-to-namespace
   map and the schedule, no step ever reads a namespace attribute that does not exist *)
Theorem C07_fresh : forall cf kinds comps sched t,
  m_phase (g_m (run cf sched (fresh_process kinds comps)) t) <> PMissing.
Proof. exact fresh. Qed.
Print Assumptions C07_fresh.
