(* Props/C13.v — property theorems only.
   Models: Gen/arrayfit.v (fit_to_range, regenerated from excelutil.py on every
   run); Model/Arrays.v (array_fixup over Model/Ops.v's scalar fixup, numpy's
   broadcast hand-modelled; cse_wrapper over an arbitrary wrapped function),
   tied to the implementation by the correspondence run. *)
From Coq Require Import ZArith QArith List.
From PV Require Import Lib.Py Model.Ops Model.Arrays Proofs.C13.
From PV Require Import Model.CseCells Proofs.C13Cells Proofs.C13Ranges.
From PV Require Gen.excelutil Gen.arrayfit.
Import ListNotations.
Open Scope Z_scope.

(* ---- target shape: for a non-empty rectangular result and ANY target h x w >= 1 x 1
   the translated fit_to_range returns exactly h rows of w *)
Theorem C13_fit_shape : forall rows C h w,
  rows <> [] -> (1 <= C)%nat -> rectangular C rows -> 1 <= h -> 1 <= w ->
  exists out, arrayfit.f__ArrayFormulaContext_fit_to_range (VTuple [VInt h; VInt w]) (matrix rows)
              = Ok (matrix out)
              /\ length out = Z.to_nat h /\ rectangular (Z.to_nat w) out.
Proof. exact fit_shape. Qed.
Print Assumptions C13_fit_shape.

(* ---- … and element (i, j) is the result's own element, with a single row /
   single column repeated, #N/A where the result does not reach (fit_elem) *)
Theorem C13_fit_elem : forall rows C h w,
  rows <> [] -> (1 <= C)%nat -> rectangular C rows -> 1 <= h -> 1 <= w ->
  exists out, arrayfit.f__ArrayFormulaContext_fit_to_range (VTuple [VInt h; VInt w]) (matrix rows)
              = Ok (matrix out)
              /\ forall i j, (i < Z.to_nat h)%nat -> (j < Z.to_nat w)%nat ->
                             elem2 out i j = Some (fit_elem rows i j).
Proof. exact fit_elem_at. Qed.
Print Assumptions C13_fit_elem.

(* fit_elem spelled out: res[i or 0][j or 0] when that exists, #N/A outside *)
Theorem C13_fit_elem_cases : forall rows R C i j,
  length rows = R -> rectangular C rows -> rows <> [] ->
  (forall x, elem2 rows (if Nat.eqb R 1 then O else i) (if Nat.eqb C 1 then O else j) = Some x ->
             fit_elem rows i j = x)
  /\ ((R <> 1%nat /\ (R <= i)%nat) \/ (C <> 1%nat /\ (C <= j)%nat) ->
      fit_elem rows i j = excelutil.c_NA_ERROR).
Proof. exact fit_elem_cases. Qed.
Print Assumptions C13_fit_elem_cases.

(* a scalar result is repeated over the whole target *)
Theorem C13_fit_scalar : forall v h w, scalar_like v = true -> 1 <= h -> 1 <= w ->
  exists out, arrayfit.f__ArrayFormulaContext_fit_to_range (VTuple [VInt h; VInt w]) v = Ok (matrix out)
              /\ length out = Z.to_nat h /\ rectangular (Z.to_nat w) out
              /\ forall i j, (i < Z.to_nat h)%nat -> (j < Z.to_nat w)%nat -> elem2 out i j = Some v.
Proof. exact fit_scalar. Qed.
Print Assumptions C13_fit_scalar.

(* outside an array formula nothing is changed *)
Theorem C13_fit_no_context : forall v,
  arrayfit.f__ArrayFormulaContext_fit_to_range VNone v = Ok v.
Proof. exact fit_translated_no_context. Qed.
Print Assumptions C13_fit_no_context.

(* ---- operators: for broadcast-compatible operands (scalar, single row, single
   column or equal extent per axis) the result has the broadcast shape and at
   every position is the scalar operator on the operands' elements there *)
Theorem C13_op_pointwise : forall l o r a b R C res,
  to_nd l = Ok a -> to_nd r = Ok b -> bshape a b = Some (R, C) ->
  array_fixup l o r = Ok res ->
  exists out, res = matrix out /\ length out = R /\ rectangular C out /\
    forall i j, (i < R)%nat -> (j < C)%nat ->
      exists u v x, belem a i j = Some u /\ belem b i j = Some v
                    /\ fixup u o v = Ok x /\ elem2 out i j = Some x.
Proof. exact op_pointwise. Qed.
Print Assumptions C13_op_pointwise.

(* … and it is defined whenever the scalar operator is defined at every position *)
Theorem C13_op_defined : forall l o r a b R C,
  to_nd l = Ok a -> to_nd r = Ok b -> bshape a b = Some (R, C) ->
  (forall i j u v, (i < R)%nat -> (j < C)%nat -> belem a i j = Some u -> belem b i j = Some v ->
                   exists x, fixup u o v = Ok x) ->
  exists res, array_fixup l o r = Ok res.
Proof. exact op_defined. Qed.
Print Assumptions C13_op_defined.

(* shapes that cannot be broadcast raise (outside the property's statement) *)
Theorem C13_op_incompatible : forall l o r a b,
  to_nd l = Ok a -> to_nd r = Ok b -> bshape a b = None -> array_fixup l o r = Raise ValueError.
Proof. exact op_incompatible. Qed.
Print Assumptions C13_op_incompatible.

(* the whole fix-up function reaches array_fixup when an operand is an array and
   no scalar operand is an error *)
Theorem C13_op_dispatch : forall l o r,
  operand l -> operand r ->
  (scalar_like l = true -> in_error_codes l = Ok false) ->
  (scalar_like r = true -> in_error_codes r = Ok false) ->
  (exists x, l = VTuple x) \/ (exists x, r = VTuple x) ->
  op_fixup l o r = array_fixup l o r.
Proof. exact op_dispatch. Qed.
Print Assumptions C13_op_dispatch.

(* a scalar error on the left is returned for the whole array and is the scalar
   operator's value against every element *)
Theorem C13_op_scalar_error_left : forall l o r,
  scalar_like l = true -> operand r -> in_error_codes l = Ok true ->
  op_fixup l o r = Ok l /\ forall v, fixup l o v = Ok l.
Proof. exact op_scalar_error_left. Qed.
Print Assumptions C13_op_scalar_error_left.

(* PARTIAL: a scalar error on the right of an array is returned for the whole
   array; it is the pointwise value only against elements that are not errors
   themselves.  The full statement is refuted: Refuted/C13_scalar_error.v *)
Theorem C13_op_scalar_error_right_partial : forall x o r,
  scalar_like r = true -> in_error_codes r = Ok true ->
  op_fixup (VTuple x) o r = Ok r /\
  forall u, in_error_codes u = Ok false -> fixup u o r = Ok r.
Proof. exact op_scalar_error_right_partial. Qed.
Print Assumptions C13_op_scalar_error_right_partial.

(* ---- lifted functions: for ANY wrapped function f and any parameter-index
   set, when the arguments in array positions are R x C matrices the result is
   R x C and element (i, j) is f on the arguments with the arrays indexed at (i, j) *)
Theorem C13_fun_pointwise : forall (f : list pyval -> res pyval) (idx : nat -> bool) R C args fl a res,
  (1 <= R)%nat -> (1 <= C)%nat ->
  mapM (cse_flag idx) (enumerate 0 args) = Ok fl ->
  Forall2 (arg_shape R C) fl args ->
  first_true fl args = Some a ->
  cse_wrapper f idx args = Ok res ->
  exists out, res = matrix out /\ length out = R /\ rectangular C out /\
    forall i j, (i < R)%nat -> (j < C)%nat ->
      exists picked x, Forall2 (fun ba p => arg_at i j ba = Some p) (combine fl args) picked
                       /\ f picked = Ok x /\ elem2 out i j = Some x.
Proof. exact fun_pointwise. Qed.
Print Assumptions C13_fun_pointwise.

Theorem C13_fun_no_array : forall (f : list pyval -> res pyval) (idx : nat -> bool) args fl,
  mapM (cse_flag idx) (enumerate 0 args) = Ok fl -> first_true fl args = None ->
  cse_wrapper f idx args = f args.
Proof. exact fun_no_array. Qed.
Print Assumptions C13_fun_no_array.

(* ==== the CSE pipeline: how an array formula reaches its member cells
   (Model/CseCells.v, transcribed from excelwrapper.load_array_formulas /
   cell_to_formula, excelcompiler._evaluate_range / _evaluate, excelformula.eval_func;
   INDEX = Model/Lookup.v X_index).  [cse_member h w result i j] is the value of
   the member stamped (i, j) of a CSE range of size h x w whose formula's code
   returns [result]; [shown e] = a blank is 0, then _evaluate's store. ==== *)

(* each member cell shows its own element: for EVERY result shape R x C, target
   h x w and member (i, j) inside the target — the result's element there (a
   single row / column repeated), #N/A where the result does not reach *)
Theorem C13_member_shows_own_element : forall rows R C h w i j,
  length rows = R -> (1 <= R)%nat -> (1 <= C)%nat -> rectangular C rows ->
  1 <= i <= h -> 1 <= j <= w ->
  (forall x, elem2 rows (if Nat.eqb R 1 then O else pos i) (if Nat.eqb C 1 then O else pos j) = Some x ->
             cse_member h w (matrix rows) i j = shown x)
  /\ ((R <> 1%nat /\ Z.of_nat R < i) \/ (C <> 1%nat /\ Z.of_nat C < j) ->
      cse_member h w (matrix rows) i j = Ok excelutil.c_NA_ERROR).
Proof. exact member_shows_own_element. Qed.
Print Assumptions C13_member_shows_own_element.

(* the same through fit_elem in one equation *)
Theorem C13_member_fit_elem : forall rows C h w i j,
  rows <> [] -> (1 <= C)%nat -> rectangular C rows -> 1 <= i <= h -> 1 <= j <= w ->
  cse_member h w (matrix rows) i j = shown (fit_elem rows (pos i) (pos j)).
Proof. exact member_fit_elem. Qed.
Print Assumptions C13_member_fit_elem.

(* a scalar result is shown by every member (a blank as 0) *)
Theorem C13_member_scalar : forall v h w i j,
  scalar_like v = true -> 1 <= i <= h -> 1 <= j <= w ->
  cse_member h w v i j = Ok (if is_blank v then VInt 0 else v).
Proof. exact member_scalar. Qed.
Print Assumptions C13_member_scalar.

(* what a cell shows of a scalar element *)
Theorem C13_shown_scalar : forall e, scalar_like e = true ->
  shown e = Ok (if is_blank e then VInt 0 else e).
Proof. exact shown_scalar. Qed.
Print Assumptions C13_shown_scalar.

(* the range itself evaluates to the fitted h x w matrix *)
Theorem C13_range_value : forall rows C h w,
  rows <> [] -> (1 <= C)%nat -> rectangular C rows -> 1 <= h -> 1 <= w ->
  exists out, cse_range_value h w (matrix rows) = Ok (matrix out)
              /\ length out = Z.to_nat h /\ rectangular (Z.to_nat w) out
              /\ forall i j, (i < Z.to_nat h)%nat -> (j < Z.to_nat w)%nat ->
                             elem2 out i j = Some (fit_elem rows i j).
Proof. exact range_value_matrix. Qed.
Print Assumptions C13_range_value.

(* a reference range of one cell is an ordinary formula cell: it shows the
   result's element (1, 1) as it is (a blank SCALAR result is 0) *)
Theorem C13_single_cell_target : forall r0 rest e row0,
  r0 = e :: row0 -> formula_cell (matrix (r0 :: rest)) = Ok e.
Proof. exact single_cell_target. Qed.
Print Assumptions C13_single_cell_target.
Theorem C13_single_cell_scalar : forall v, scalar_like v = true ->
  formula_cell v = Ok (if is_blank v then VInt 0 else v).
Proof. exact single_cell_scalar. Qed.
Print Assumptions C13_single_cell_scalar.

(* the sheet side and the value side together: every cell (row, col) that
   load_array_formulas writes for the reference range with top left (r0, c0)
   and size h x w lies in that range, its =index(range, i, j) refers to the whole
   range, and it shows the fitted element at its own offset *)
Theorem C13_member_cells : forall r0 c0 h w rows C row col s,
  rows <> [] -> (1 <= C)%nat -> rectangular C rows ->
  In ((row, col), s) (load_members r0 c0 h w) ->
  member_range row col s = (c0, r0, c0 + w - 1, r0 + h - 1) /\
  r0 <= row < r0 + h /\ c0 <= col < c0 + w /\
  cse_member h w (matrix rows) (fst (member_index s)) (snd (member_index s))
  = shown (fit_elem rows (Z.to_nat (row - r0)) (Z.to_nat (col - c0))).
Proof. exact member_cells. Qed.
Print Assumptions C13_member_cells.

(* … and every cell of the reference range is written, with its own offset *)
Theorem C13_every_cell_is_member : forall r0 c0 h w row col,
  r0 <= row < r0 + h -> c0 <= col < c0 + w ->
  In ((row, col), (row - r0 + 1, col - c0 + 1, h, w)) (load_members r0 c0 h w).
Proof. exact every_cell_is_member. Qed.
Print Assumptions C13_every_cell_is_member.

(* all member cells together: the h x w matrix of the fitted elements, blanks as 0 *)
Theorem C13_members_matrix : forall rows C h w,
  rows <> [] -> (1 <= C)%nat -> rectangular C rows -> all_scalar rows -> 1 <= h -> 1 <= w ->
  exists M, cse_members h w (matrix rows) = Ok (matrix M)
            /\ length M = Z.to_nat h /\ rectangular (Z.to_nat w) M
            /\ forall i j, (i < Z.to_nat h)%nat -> (j < Z.to_nat w)%nat ->
                           elem2 M i j = Some (blank0 (fit_elem rows i j)).
Proof. exact members_matrix. Qed.
Print Assumptions C13_members_matrix.

(* which range of the sheet is an array formula's range (_OpxRange.__new__):
   the reference range read back is; a range not starting at member (1, 1) is
   evaluated cell by cell *)
Theorem C13_range_formula_own : forall f h w, 1 <= h -> 1 <= w ->
  range_formula (sheet_rows f h w) = Some f.
Proof. exact range_formula_own. Qed.
Print Assumptions C13_range_formula_own.
Theorem C13_range_formula_inner : forall f i j h w row rest,
  (i, j) <> (1, 1) -> range_formula ((Member f (i, j, h, w) :: row) :: rest) = None.
Proof. exact range_formula_inner. Qed.
Print Assumptions C13_range_formula_inner.

(* a range reaching beyond the array formula of its top left cell has no formula
   of its own either (repair 50c2e69): it is evaluated cell by cell *)
Theorem C13_range_formula_larger : forall f i j h w row rest,
  h < zlen ((Member f (i, j, h, w) :: row) :: rest) \/ w < zlen (Member f (i, j, h, w) :: row) ->
  range_formula ((Member f (i, j, h, w) :: row) :: rest) = None.
Proof. exact range_formula_larger. Qed.
Print Assumptions C13_range_formula_larger.

(* evaluating the reference range gives at every position what the member cell
   there shows (a blank as 0 in the cell) *)
Theorem C13_range_shows_members : forall f rows C h w,
  rows <> [] -> (1 <= C)%nat -> rectangular C rows -> all_scalar rows -> 1 <= h -> 1 <= w ->
  range_formula (sheet_rows f h w) = Some f /\
  exists out M, cse_range_value h w (matrix rows) = Ok (matrix out)
                /\ cse_members h w (matrix rows) = Ok (matrix M)
                /\ length M = Z.to_nat h /\ rectangular (Z.to_nat w) M
                /\ forall i j, (i < Z.to_nat h)%nat -> (j < Z.to_nat w)%nat ->
                     exists e, elem2 out i j = Some e /\ elem2 M i j = Some (blank0 e).
Proof. exact range_shows_members. Qed.
Print Assumptions C13_range_shows_members.

(* ---- EVERY range of the sheet (the full statement; was _partial before repair
   50c2e69).  [sh] = the sheet by (row, column): members of array formulas or
   other cells; coherent = every member belongs to a complete array formula
   (same text and size over its whole reference range, each cell its own
   offset — C13_sheet_of_coherent: what load_array_formulas writes for reference
   ranges that do not overlap); [fv text] = what the array formula's code returns,
   a scalar or a non-empty rectangular array of scalars ([rowsf text] its rows);
   [plain row col] = what any other cell shows.  ANY rectangle nr x nc >= 1 x 1
   with any top left evaluates (sheet_range_value = _evaluate_range over
   range_formula) to an nr x nc matrix, and at each position the cell there
   shows that element — itself, or as 0 when the range has the array formula
   of its own and the element is blank *)
Theorem C13_range_shows_cells : forall sh fv rowsf plain r0 c0 nr nc,
  coherent sh -> results_ok sh fv rowsf -> (1 <= nr)%nat -> (1 <= nc)%nat ->
  exists V, sheet_range_value sh fv plain r0 c0 nr nc = Ok (matrix V)
            /\ length V = nr /\ rectangular nc V
            /\ forall p q, (p < nr)%nat -> (q < nc)%nat ->
                 exists e y, elem2 V p q = Some e
                             /\ cell_shows sh fv plain (r0 + Z.of_nat p) (c0 + Z.of_nat q) = Ok y
                             /\ (y = e \/ y = blank0 e).
Proof. exact range_shows_cells. Qed.
Print Assumptions C13_range_shows_cells.

Theorem C13_sheet_of_coherent : forall fs, pairwise_disjoint fs -> coherent (sheet_of fs).
Proof. exact sheet_of_coherent. Qed.
Print Assumptions C13_sheet_of_coherent.

(* ---- the whole clause for operators: the formula =l o r entered over an
   h x w target (no scalar operand is an error).  The member stamped (i, j)
   shows the scalar operator's value x on the operands' elements at the
   broadcast indices (x itself; only the text "#EMPTY!", pycel's blank marker,
   would be shown as 0), #N/A outside the broadcast shape R x C *)
Theorem C13_formula_op_member : forall l o r a b R C res h w i j,
  to_nd l = Ok a -> to_nd r = Ok b -> bshape a b = Some (R, C) ->
  (scalar_like l = true -> in_error_codes l = Ok false) ->
  (scalar_like r = true -> in_error_codes r = Ok false) ->
  op_fixup l o r = Ok res ->
  1 <= i <= h -> 1 <= j <= w ->
  let ii := if Nat.eqb R 1 then O else pos i in
  let jj := if Nat.eqb C 1 then O else pos j in
  ((ii < R)%nat /\ (jj < C)%nat ->
     exists u v x, belem a ii jj = Some u /\ belem b ii jj = Some v /\ fixup u o v = Ok x
                   /\ cse_member h w res i j = Ok (if is_blank x then VInt 0 else x))
  /\ (~ ((ii < R)%nat /\ (jj < C)%nat) -> cse_member h w res i j = Ok excelutil.c_NA_ERROR).
Proof. exact formula_op_member. Qed.
Print Assumptions C13_formula_op_member.

(* ---- the same for a lifted function (arbitrary wrapped f) *)
Theorem C13_formula_fun_member :
  forall (f : list pyval -> res pyval) (idx : nat -> bool) R C args fl a res h w i j,
  (1 <= R)%nat -> (1 <= C)%nat ->
  mapM (cse_flag idx) (enumerate 0 args) = Ok fl ->
  Forall2 (arg_shape R C) fl args ->
  first_true fl args = Some a ->
  cse_wrapper f idx args = Ok res ->
  1 <= i <= h -> 1 <= j <= w ->
  let ii := if Nat.eqb R 1 then O else pos i in
  let jj := if Nat.eqb C 1 then O else pos j in
  ((ii < R)%nat /\ (jj < C)%nat ->
     exists picked x, Forall2 (fun ba p => arg_at ii jj ba = Some p) (combine fl args) picked
                      /\ f picked = Ok x /\ cse_member h w res i j = shown x)
  /\ (~ ((ii < R)%nat /\ (jj < C)%nat) -> cse_member h w res i j = Ok excelutil.c_NA_ERROR).
Proof. exact fun_member. Qed.
Print Assumptions C13_formula_fun_member.

(* ---- scalar error on the right of an array, exactly (completes
   C13_op_scalar_error_right_partial by saying what the scalar operator gives
   at the remaining positions): the fix-up returns the right error for the
   whole array; the scalar operator gives the LEFT element where that is an
   error itself, the right error elsewhere *)
Theorem C13_op_scalar_error_right_exact : forall x o r,
  scalar_like r = true -> in_error_codes r = Ok true ->
  op_fixup (VTuple x) o r = Ok r /\
  forall u, scalar_like u = true ->
    exists e, in_error_codes u = Ok e /\ fixup u o r = Ok (if e then u else r).
Proof. exact op_scalar_error_right_exact. Qed.
Print Assumptions C13_op_scalar_error_right_exact.

(* … and over a target every member shows that scalar error, also where the
   array does not reach (known finding C13-scalar-error-short-circuit) *)
Theorem C13_scalar_error_member : forall l o r res h w i j,
  operand l -> operand r ->
  (scalar_like l = true /\ in_error_codes l = Ok true /\ res = l) \/
  ((exists x, l = VTuple x) /\ scalar_like r = true /\ in_error_codes r = Ok true /\ res = r) ->
  1 <= i <= h -> 1 <= j <= w ->
  op_fixup l o r = Ok res /\ cse_member h w res i j = Ok res.
Proof. exact scalar_error_member. Qed.
Print Assumptions C13_scalar_error_member.
