(* Props/C13.v — property theorems only.
   Models: Gen/arrayfit.v (fit_to_range, regenerated from excelutil.py on every
   run); Model/Arrays.v (array_fixup over Model/Ops.v's scalar fixup, numpy's
   broadcast hand-modelled; cse_wrapper over an arbitrary wrapped function),
   tied to the implementation by the correspondence run. *)
From Coq Require Import ZArith QArith List.
From PV Require Import Lib.Py Model.Ops Model.Arrays Proofs.C13.
From PV Require Gen.excelutil Gen.arrayfit.
Import ListNotations.
Open Scope Z_scope.

(* ---- target shape: for a non-empty rectangular result and ANY target h x w >= 1 x 1
   the translated fit_to_range returns exactly h rows of w *)
Theorem C13_fit_shape : forall rows C h w,
  rows <> [] -> (1 <= C)%nat -> rectangular C rows -> 1 <= h -> 1 <= w ->
  exists out, arrayfit.f__ArrayFormulaContext_fit_to_range (VTuple [VInt h; VInt w]) (matrix rows)
              = Ok (matrix out)
              /\ length out = Z.to_nat h /\ rectangular (Z.to_nat w) out.
Proof. exact fit_shape. Qed.
Print Assumptions C13_fit_shape.

(* ---- … and element (i, j) is the result's own element, with a single row /
   single column repeated, #N/A where the result does not reach (fit_elem) *)
Theorem C13_fit_elem : forall rows C h w,
  rows <> [] -> (1 <= C)%nat -> rectangular C rows -> 1 <= h -> 1 <= w ->
  exists out, arrayfit.f__ArrayFormulaContext_fit_to_range (VTuple [VInt h; VInt w]) (matrix rows)
              = Ok (matrix out)
              /\ forall i j, (i < Z.to_nat h)%nat -> (j < Z.to_nat w)%nat ->
                             elem2 out i j = Some (fit_elem rows i j).
Proof. exact fit_elem_at. Qed.
Print Assumptions C13_fit_elem.

(* fit_elem spelled out: res[i or 0][j or 0] when that exists, #N/A outside *)
Theorem C13_fit_elem_cases : forall rows R C i j,
  length rows = R -> rectangular C rows -> rows <> [] ->
  (forall x, elem2 rows (if Nat.eqb R 1 then O else i) (if Nat.eqb C 1 then O else j) = Some x ->
             fit_elem rows i j = x)
  /\ ((R <> 1%nat /\ (R <= i)%nat) \/ (C <> 1%nat /\ (C <= j)%nat) ->
      fit_elem rows i j = excelutil.c_NA_ERROR).
Proof. exact fit_elem_cases. Qed.
Print Assumptions C13_fit_elem_cases.

(* a scalar result is repeated over the whole target *)
Theorem C13_fit_scalar : forall v h w, scalar_like v = true -> 1 <= h -> 1 <= w ->
  exists out, arrayfit.f__ArrayFormulaContext_fit_to_range (VTuple [VInt h; VInt w]) v = Ok (matrix out)
              /\ length out = Z.to_nat h /\ rectangular (Z.to_nat w) out
              /\ forall i j, (i < Z.to_nat h)%nat -> (j < Z.to_nat w)%nat -> elem2 out i j = Some v.
Proof. exact fit_scalar. Qed.
Print Assumptions C13_fit_scalar.

(* outside an array formula nothing is changed *)
Theorem C13_fit_no_context : forall v,
  arrayfit.f__ArrayFormulaContext_fit_to_range VNone v = Ok v.
Proof. exact fit_translated_no_context. Qed.
Print Assumptions C13_fit_no_context.

(* ---- operators: for broadcast-compatible operands (scalar, single row, single
   column or equal extent per axis) the result has the broadcast shape and at
   every position is the scalar operator on the operands' elements there *)
Theorem C13_op_pointwise : forall l o r a b R C res,
  to_nd l = Ok a -> to_nd r = Ok b -> bshape a b = Some (R, C) ->
  array_fixup l o r = Ok res ->
  exists out, res = matrix out /\ length out = R /\ rectangular C out /\
    forall i j, (i < R)%nat -> (j < C)%nat ->
      exists u v x, belem a i j = Some u /\ belem b i j = Some v
                    /\ fixup u o v = Ok x /\ elem2 out i j = Some x.
Proof. exact op_pointwise. Qed.
Print Assumptions C13_op_pointwise.

(* … and it is defined whenever the scalar operator is defined at every position *)
Theorem C13_op_defined : forall l o r a b R C,
  to_nd l = Ok a -> to_nd r = Ok b -> bshape a b = Some (R, C) ->
  (forall i j u v, (i < R)%nat -> (j < C)%nat -> belem a i j = Some u -> belem b i j = Some v ->
                   exists x, fixup u o v = Ok x) ->
  exists res, array_fixup l o r = Ok res.
Proof. exact op_defined. Qed.
Print Assumptions C13_op_defined.

(* shapes that cannot be broadcast raise (outside the property's statement) *)
Theorem C13_op_incompatible : forall l o r a b,
  to_nd l = Ok a -> to_nd r = Ok b -> bshape a b = None -> array_fixup l o r = Raise ValueError.
Proof. exact op_incompatible. Qed.
Print Assumptions C13_op_incompatible.

(* the whole fix-up function reaches array_fixup when an operand is an array and
   no scalar operand is an error *)
Theorem C13_op_dispatch : forall l o r,
  operand l -> operand r ->
  (scalar_like l = true -> in_error_codes l = Ok false) ->
  (scalar_like r = true -> in_error_codes r = Ok false) ->
  (exists x, l = VTuple x) \/ (exists x, r = VTuple x) ->
  op_fixup l o r = array_fixup l o r.
Proof. exact op_dispatch. Qed.
Print Assumptions C13_op_dispatch.

(* a scalar error on the left is returned for the whole array and is the scalar
   operator's value against every element *)
Theorem C13_op_scalar_error_left : forall l o r,
  scalar_like l = true -> operand r -> in_error_codes l = Ok true ->
  op_fixup l o r = Ok l /\ forall v, fixup l o v = Ok l.
Proof. exact op_scalar_error_left. Qed.
Print Assumptions C13_op_scalar_error_left.

(* PARTIAL: a scalar error on the right of an array is returned for the whole
   array; it is the pointwise value only against elements that are not errors
   themselves.  The full statement is refuted: Refuted/C13_scalar_error.v *)
Theorem C13_op_scalar_error_right_partial : forall x o r,
  scalar_like r = true -> in_error_codes r = Ok true ->
  op_fixup (VTuple x) o r = Ok r /\
  forall u, in_error_codes u = Ok false -> fixup u o r = Ok r.
Proof. exact op_scalar_error_right_partial. Qed.
Print Assumptions C13_op_scalar_error_right_partial.

(* ---- lifted functions: for ANY wrapped function f and any parameter-index
   set, when the arguments in array positions are R x C matrices the result is
   R x C and element (i, j) is f on the arguments with the arrays indexed at (i, j) *)
Theorem C13_fun_pointwise : forall (f : list pyval -> res pyval) (idx : nat -> bool) R C args fl a res,
  (1 <= R)%nat -> (1 <= C)%nat ->
  mapM (cse_flag idx) (enumerate 0 args) = Ok fl ->
  Forall2 (arg_shape R C) fl args ->
  first_true fl args = Some a ->
  cse_wrapper f idx args = Ok res ->
  exists out, res = matrix out /\ length out = R /\ rectangular C out /\
    forall i j, (i < R)%nat -> (j < C)%nat ->
      exists picked x, Forall2 (fun ba p => arg_at i j ba = Some p) (combine fl args) picked
                       /\ f picked = Ok x /\ elem2 out i j = Some x.
Proof. exact fun_pointwise. Qed.
Print Assumptions C13_fun_pointwise.

Theorem C13_fun_no_array : forall (f : list pyval -> res pyval) (idx : nat -> bool) args fl,
  mapM (cse_flag idx) (enumerate 0 args) = Ok fl -> first_true fl args = None ->
  cse_wrapper f idx args = f args.
Proof. exact fun_no_array. Qed.
Print Assumptions C13_fun_no_array.
