(* Props/C04.v — property theorems only.  Models: Model/Scan.v (token scan of
   the emitted code = ExcelFormula.needed_addresses, read trace) on top of
   Model/Emit.v; ADDR_FUNCS_NAMES is the generated constant of
   Gen/excelformula.v. *)
From Coq Require Import ZArith List.
From PV Require Import Lib.Py Model.Syntax Model.Emit Model.Scan Proofs.C04.
From PV Require Gen.excelformula.
Import ListNotations.
Open Scope Z_scope.

(* every address the compiled formula can read — through _C_("..") / _R_("..")
   call nodes anywhere in the emitted code (Python evaluates all arguments), or
   as a range computed by the intersection operator from written ranges — is
   among the scanned precedents (RExact), or is computed from scanned
   precedents only and therefore contained in each of them (RWithin; the
   containment of an intersection in its operands is C11_intersection).
   For every expression whose references are written: no range-union between
   computed references (that one may produce new cells: RNew), nothing outside
   the emitter model (OFFSET / INDIRECT results are computed references). *)
Theorem C04_cover : forall e, refs_written (emit CtxTop e) = true ->
  forall r, In r (reads (emit CtxTop e)) -> covered (needed e) r.
Proof. exact cover. Qed.
Print Assumptions C04_cover.

(* the scan finds every written reference, also inside regions renamed to
   _REF_ (ROW / COLUMN arguments, operands of reference operators) *)
Theorem C04_scan_complete : forall t ren a, In a (written t) -> In a (scan (pytokens ren t)).
Proof. exact written_scanned. Qed.
Print Assumptions C04_scan_complete.

(* the names the scan looks for are the generated ADDR_FUNCS_NAMES *)
Theorem C04_addr_names :
  is_addr_name n_R = true /\ is_addr_name n_C = true /\ is_addr_name n_REF = true.
Proof. exact addr_names_ok. Qed.
Print Assumptions C04_addr_names.
