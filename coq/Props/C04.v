(* Props/C04.v — property theorems only.  Models: Model/Scan.v (token scan of
   the emitted code = ExcelFormula.needed_addresses, read trace) on top of
   Model/Emit.v; ADDR_FUNCS_NAMES is the generated constant of
   Gen/excelformula.v. *)
From Coq Require Import ZArith List.
From PV Require Import Lib.Py.
From PV Require Import Model.Graph Model.ReadTrace.
From PV Require Import Proofs.C01Base Proofs.C01Inv Proofs.C01 Proofs.C04Trace Proofs.C04Graph.
From PV Require Import Proofs.C01Weak Proofs.C04Weak.
From PV Require Import Model.Syntax Model.Emit Model.Scan Proofs.C04.
From PV Require Gen.excelformula.
Import ListNotations.
Open Scope Z_scope.

(* every address the compiled formula can read — through _C_("..") / _R_("..")
   call nodes anywhere in the emitted code (Python evaluates all arguments), or
   as a range computed by the intersection operator from written ranges — is
   among the scanned precedents (RExact), or is computed from scanned
   precedents only and therefore contained in each of them (RWithin; the
   containment of an intersection in its operands is C11_intersection).
   For every expression whose references are written: no range-union between
   computed references (that one may produce new cells: RNew), nothing outside
   the emitter model (OFFSET / INDIRECT results are computed references). *)
Theorem C04_cover : forall e, refs_written (emit CtxTop e) = true ->
  forall r, In r (reads (emit CtxTop e)) -> covered (needed e) r.
Proof. exact cover. Qed.
Print Assumptions C04_cover.

(* the scan finds every written reference, also inside regions renamed to
   _REF_ (ROW / COLUMN arguments, operands of reference operators) *)
Theorem C04_scan_complete : forall t ren a, In a (written t) -> In a (scan (pytokens ren t)).
Proof. exact written_scanned. Qed.
Print Assumptions C04_scan_complete.

(* the names the scan looks for are the generated ADDR_FUNCS_NAMES *)
Theorem C04_addr_names :
  is_addr_name n_R = true /\ is_addr_name n_C = true /\ is_addr_name n_REF = true.
Proof. exact addr_names_ok. Qed.
Print Assumptions C04_addr_names.

(* ===================================================================== *)
(* The graph half, over the machine model of ExcelCompiler (Model/Graph.v: a
   workbook W is a DAG in topological presentation; wb_deps W n = the declared
   precedents of the formula cell n / the member cells of the range node n;
   build = _gen_graph / _make_cells / _process_gen_graph; eval = _evaluate /
   _evaluate_range) and its instrumented copy Model/ReadTrace.v.

   Vocabulary:
     edge W p d          p is in wb_deps W d  (the dep_graph edge p -> d)
     ancestor W a c      reflexive-transitive closure of edge: contains the
                         membership paths  cell -> range node -> dependant
     wf W                C01Base: precedents have smaller indices, inputs have
                         none, range nodes are not inputs
     spec W sem inp c    the from-scratch value of c under the inputs inp
     eval_traced …       Graph.eval with a read trace: the pair (n, d) is
                         recorded each time the computation of n asks for d
     in_range W o        Evaluate n / Build n name a node of W (n < wb_n W);
                         SetValue: no condition
     ok_op, ok_history, inputs_exact, stored_ok, sem_nonblank: as in Props/C01.v *)

(* C04_influence.  The formula meaning [sem n] of Graph.v receives the VALUES
   OF THE DECLARED PRECEDENTS of n and nothing else — this typing is exactly
   what C04_cover establishes for the emitted code (see C04_influence_env for
   the same statement with the reading discipline as a hypothesis).  Then two
   input assignments that agree on every input cell among the ancestors of c
   give c the same value: the ancestors are a superset of the cells that can
   influence c. *)
Theorem C04_influence : forall W, wf W -> forall sem c inp1 inp2, (c < wb_n W)%nat ->
  (forall a, wb_input W a = true -> ancestor W a c -> inp1 a = inp2 a) ->
  spec W sem inp1 c = spec W sem inp2 c.
Proof. exact influence_spec. Qed.
Print Assumptions C04_influence.

(* the same for a meaning [esem n env] that may look at the value of ANY node
   (env), under the hypothesis that it looks only at the declared precedents
   of n ([reads_declared]); without the hypothesis the statement is false
   (Proofs/C04Example.v peek_influenced) *)
Theorem C04_influence_env : forall W, wf W -> forall esem, reads_declared W esem ->
  forall c inp1 inp2, (c < wb_n W)%nat ->
  (forall a, wb_input W a = true -> ancestor W a c -> inp1 a = inp2 a) ->
  espec W esem inp1 c = espec W esem inp2 c.
Proof. exact influence_env. Qed.
Print Assumptions C04_influence_env.

(* every meaning of Graph.v's type is such an environment meaning, with the same
   from-scratch values *)
Theorem C04_sem_reads_declared : forall W sem, wf W ->
  reads_declared W (esem_of W sem) /\
  forall inp n, (n < wb_n W)%nat -> espec W (esem_of W sem) inp n = spec W sem inp n.
Proof. exact sem_reads_declared. Qed.
Print Assumptions C04_sem_reads_declared.

(* lifted to the machine through C01's coherence theorem: after any admissible
   history, an admissible write to a cell that is NOT an ancestor of c leaves
   evaluate c unchanged (side conditions of C01: sem_nonblank, stored_ok and
   late_ok inside ok_op — each needed by the implementation, Refuted/C01_*.v) *)
Theorem C04_influence_machine : forall W sem, wf W -> sem_nonblank W sem -> stored_ok W sem ->
  inputs_exact W (wb_inp0 W) ->
  forall h, ok_history W sem (ok_op W) (init W) h ->
  let s := fst (Graph.run W sem (init W) h) in
  forall a v c, ok_op W s (SetValue a v) -> (c < wb_n W)%nat -> ~ ancestor W a c ->
    snd (step W sem (fst (step W sem s (SetValue a v))) (Evaluate c))
    = snd (step W sem s (Evaluate c)).
Proof. exact influence_machine. Qed.
Print Assumptions C04_influence_machine.

(* the same under the weak non-blank condition of Props/C01.v, i.e. for
   workbooks with whole-column references (C01_alias_weak), which do not meet
   sem_nonblank (C01_alias_not_strong); Proofs/C04Weak.v, by transfer *)
Theorem C04_influence_machine_weak : forall W sem, wf W -> sem_nonblank_weak W sem -> stored_ok W sem ->
  inputs_exact W (wb_inp0 W) ->
  forall h, ok_history W sem (ok_op W) (init W) h ->
  let s := fst (Graph.run W sem (init W) h) in
  forall a v c, ok_op W s (SetValue a v) -> (c < wb_n W)%nat -> ~ ancestor W a c ->
    snd (step W sem (fst (step W sem s (SetValue a v))) (Evaluate c))
    = snd (step W sem s (Evaluate c)).
Proof. exact influence_machine_weak. Qed.
Print Assumptions C04_influence_machine_weak.

(* ancestor = the node itself or a strict ancestor in the sense of C01 *)
Theorem C04_ancestor_anc : forall W a c, ancestor W a c <-> a = c \/ anc W a c.
Proof. exact ancestor_anc. Qed.
Print Assumptions C04_ancestor_anc.

(* C04_edges.  After ANY history of evaluate / build / set_value (the only
   condition: evaluate and build name nodes of the workbook), every declared
   precedent — and every member cell of a declared range node — p of a built
   node f is built, precedes f, and the dependency graph has the edge p -> f
   (f is among dep_graph.successors(p)); every node that an evaluate or build
   of the history asked for is built. *)
Theorem C04_edges : forall W sem, wf W -> forall h, Forall (in_range W) h ->
  let s := fst (Graph.run W sem (init W) h) in
  (forall f p, st_built s f = true -> edge W p f ->
     (p < f)%nat /\ (f < wb_n W)%nat /\ st_built s p = true /\ In f (succs W (st_built s) p))
  /\ (forall o n, In o h -> requested o n -> st_built s n = true).
Proof. exact edges_built. Qed.
Print Assumptions C04_edges.

(* ... hence every ancestor of a built node is built *)
Theorem C04_ancestors_built : forall W sem, wf W -> forall h, Forall (in_range W) h ->
  let s := fst (Graph.run W sem (init W) h) in
  forall c a, st_built s c = true -> ancestor W a c -> st_built s a = true.
Proof. exact ancestors_built. Qed.
Print Assumptions C04_ancestors_built.

(* the converse reading: what the evaluation READS.  The instrumented
   evaluation returns the same state and value as Graph.eval (no hypothesis) … *)
Theorem C04_trace_erasure : forall W sem f c n, fst (eval_traced W sem f c n) = eval W sem f c n.
Proof. exact evalT_eval. Qed.
Print Assumptions C04_trace_erasure.

(* … every (reader, read) pair of its trace is an edge read -> reader — a
   declared precedent of the reader, or a member of the range node that reads —
   the reader is the evaluated node or one of its ancestors, and the cell read
   is an ancestor of the evaluated node … *)
Theorem C04_trace_edges : forall W sem f c n r d, In (r, d) (snd (eval_traced W sem f c n)) ->
  edge W d r /\ ancestor W r n /\ ancestor W d n.
Proof. exact evalT_edges. Qed.
Print Assumptions C04_trace_edges.

(* … and the trace is not vacuous: a formula / range node that is computed
   (not an input, nothing cached) reads every one of its precedents / members,
   a node that is cached or an input reads nothing *)
Theorem C04_trace_complete : forall W sem f (c : cache) n,
  (wb_input W n = false -> c n = VNone ->
     forall d, In d (wb_deps W n) -> In (n, d) (snd (eval_traced W sem (S f) c n)))
  /\ (wb_input W n = true \/ c n <> VNone -> snd (eval_traced W sem f c n) = []).
Proof. exact evalT_complete_cached. Qed.
Print Assumptions C04_trace_complete.

(* … and the trace contains EVERY cache entry the evaluation depends on: a
   cache that agrees with c1 on the evaluated node and on every cell of the
   trace gives the same value and the same trace (so, with C04_trace_edges, the
   value of n depends on the cache only through n and edges below n) *)
Theorem C04_trace_determines : forall W sem f (c1 c2 : cache) n, c1 n = c2 n ->
  (forall r d, In (r, d) (snd (eval_traced W sem f c1 n)) -> c1 d = c2 d) ->
  snd (eval W sem f c2 n) = snd (eval W sem f c1 n)
  /\ snd (eval_traced W sem f c2 n) = snd (eval_traced W sem f c1 n).
Proof. exact trace_determines. Qed.
Print Assumptions C04_trace_determines.

(* the same for whole histories (evaluate = _gen_graph, which evaluates the new
   range nodes, then _evaluate): erasing the traces gives Graph.run, and every
   pair read by any operation is an edge *)
Theorem C04_run_traced : forall W sem h s,
  (fst (run_traced W sem s h), map fst (snd (run_traced W sem s h))) = Graph.run W sem s h
  /\ forall v t r d, In (v, t) (snd (run_traced W sem s h)) -> In (r, d) t -> edge W d r.
Proof. exact run_traced_ok. Qed.
Print Assumptions C04_run_traced.

(* C04_reads_are_edges = C04_cover composed with the graph: [node a] is the node
   that the address text a names (cell_map), [fm n] the formula of the formula
   cell n.  If the declared precedents of every formula cell contain the nodes
   named by [needed] of its formula (declared_needed), then every _C_/_R_ read
   of the emitted code of n is the address of a node p with an edge p -> n
   (RExact), or a range computed by the intersection operator from addresses
   of such nodes (RWithin; never RNew). *)
Theorem C04_reads_are_edges : forall W node fm, declared_needed W node fm ->
  forall n e, fm n = Some e -> refs_written (emit CtxTop e) = true ->
  forall r, In r (reads (emit CtxTop e)) -> ref_covered (fun p => edge W p n) node r.
Proof. exact reads_are_edges. Qed.
Print Assumptions C04_reads_are_edges.

(* … and composed with C04_edges: once n is built, after any history, the node
   read is built and the dependency graph has the edge read -> n *)
Theorem C04_reads_are_graph_edges : forall W sem node fm, wf W -> declared_needed W node fm ->
  forall h, Forall (in_range W) h ->
  let s := fst (Graph.run W sem (init W) h) in
  forall n e, fm n = Some e -> refs_written (emit CtxTop e) = true -> st_built s n = true ->
  forall r, In r (reads (emit CtxTop e)) ->
    ref_covered (fun p => st_built s p = true /\ In n (succs W (st_built s) p)) node r.
Proof. exact reads_are_graph_edges. Qed.
Print Assumptions C04_reads_are_graph_edges.

(* the converse on the machine: when the declared precedents of a formula cell
   are ONLY nodes named by [needed], every read its evaluation performs is the
   node of one of its needed addresses *)
Theorem C04_traced_reads_needed : forall W sem node fm, declared_only_needed W node fm ->
  forall f c m n p e, In (n, p) (snd (eval_traced W sem f c m)) -> fm n = Some e ->
    exists a, In a (needed e) /\ node a = Some p.
Proof. exact traced_reads_needed. Qed.
Print Assumptions C04_traced_reads_needed.

(* a computed read (RWithin l): when the range nodes have their cells as members
   ([cells a m]: the cell node m lies in the range named a), every cell of a
   range X that lies inside each operand (C11_intersection) reaches n through
   a declared range that contains it:  m -> p -> n *)
Theorem C04_within_path : forall W node (cells : list Z -> nat -> Prop) n l,
  ref_covered (fun p => edge W p n) node (RWithin l) ->
  (forall a p m, In a l -> node a = Some p -> cells a m -> edge W m p) ->
  forall (X : nat -> Prop), (forall m, X m -> forall a, In a l -> cells a m) ->
  forall a m, In a l -> X m -> exists p, node a = Some p /\ edge W m p /\ edge W p n.
Proof. exact within_path. Qed.
Print Assumptions C04_within_path.
