(* Props/C03.v — property theorems only.  Model: Model/Persist.v (hand
   transcription of _to_text, _from_text, to_file/from_file and
   _CompiledImporter of excelcompiler.py on top of the machine of Model/Graph.v;
   tied by the differential run of harness/props/c03.py).  Every theorem holds
   for EVERY address geometry G, EVERY meaning of formula code (cdeps = the
   precedents, csem = the value; rsem = the value of a range node) and EVERY
   model object M.

   Vocabulary (Model/Persist.v, Proofs/C03.v, C03Graph.v, C01*.v):
     pmodel           a compiled model: workbook, python code of the formula
                      cells, machine state, key order of the cell map, settings
     to_text M        (document, M after the call): the ordered top-level mapping
                      user extra_data + cycles, excel_hash, cell_map, filename;
                      cell_map = the serialisable built nodes sorted by sort key
     from_text f      the model rebuilt from a document (res: KeyError/Unmodelled)
     roundtrip_pkl    from_text of to_text (to_file pickles exactly that object;
                      pickle.load . pickle.dump = id is trusted)
     roundtrip_text   the same through the scalar printer and parser of yaml/json
     pm_ok G cdeps M  M agrees with the geometry (size, which addresses are
                      ranges, their members), a built formula cell's precedents
                      are those of its code, the key order enumerates the built
                      nodes without repetition
     no_eq_text M     side condition: no built input cell holds a text that
                      starts with "=" (Refuted/C03_eq_text.v)
     code_nonblank    formulas and ranges never evaluate to None (C01's (d))
     abs M            per address: None (not saved) | the input's value | the
                      formula's code and precedents
     allcells W s     every cell (non-range node) of W is built in s
     post_ok W o      Evaluate n / Build n: n < wb_n; SetValue a v: a is an input
                      cell, v an Excel scalar (C01.scalar_exact)
     region M n       n is built, or n is a range all of whose members are built
     post_in M o      Evaluate n / Build n: region M n; SetValue a v: a is a saved
                      input cell, v an Excel scalar *)
From Coq Require Import List Permutation.
From PV Require Import Lib.Py Model.Graph Model.Persist.
From PV Require Import Proofs.C01Base Proofs.C01Inv Proofs.C01 Proofs.C03Graph Proofs.C03.
From PV Require Import Proofs.C01Weak Proofs.C03Weak.
From PV Require Import Proofs.C03Example Proofs.C03Resave Proofs.C03Local.
Import ListNotations.

(* PARTIAL (C03_abs): the loaded model denotes the same workbook with the same
   inputs.  Missing for the full statement: the side conditions no_eq_text
   (needed: Refuted/C03_eq_text.v) and code_nonblank (inherited from C01). *)
Theorem C03_abs_partial : forall G cdeps csem rsem M,
  pm_ok G cdeps M -> wf (pm_wb M) -> code_nonblank csem rsem ->
  Inv (pm_wb M) (pm_sem csem rsem M) (pm_state M) -> no_eq_text M ->
  exists M', roundtrip_pkl G cdeps csem rsem M = Ok M' /\ abs M' = abs M.
Proof. exact abs_roundtrip. Qed.
Print Assumptions C03_abs_partial.

(* PARTIAL (C03_equiv): a model in which every cell is built answers EVERY
   post-load history of evaluate / set_value / build exactly as the original
   object does — both traces are the from-scratch values under the inputs
   written so far (C01's coherence theorem on both sides).  Missing for the full
   statement: models saved before every cell was built (next theorem), the
   side conditions no_eq_text / code_nonblank and
   those of C01 (stored_ok; writes to input cells only), iterative models. *)
Theorem C03_equiv_partial : forall G cdeps csem rsem M,
  pm_ok G cdeps M -> wf (pm_wb M) -> code_nonblank csem rsem ->
  Inv (pm_wb M) (pm_sem csem rsem M) (pm_state M) -> no_eq_text M ->
  stored_ok (pm_wb M) (pm_sem csem rsem M) -> allcells (pm_wb M) (pm_state M) ->
  inputs_exact (pm_wb M) (st_cache (pm_state M)) ->
  exists M', roundtrip_pkl G cdeps csem rsem M = Ok M' /\
    forall h, Forall (post_ok (pm_wb M)) h ->
      snd (run (pm_wb M') (pm_sem csem rsem M') (pm_state M') h)
      = snd (run (pm_wb M) (pm_sem csem rsem M) (pm_state M) h)
      /\ snd (run (pm_wb M) (pm_sem csem rsem M) (pm_state M) h)
         = run_spec (pm_wb M) (pm_sem csem rsem M) (st_cache (pm_state M)) h.
Proof. exact equiv_roundtrip. Qed.
Print Assumptions C03_equiv_partial.

(* PARTIAL (C03_equiv, models saved before every cell was built): every history
   that stays inside the saved part (region: the built nodes and the ranges over
   built cells; writes to saved input cells) and is admissible for the original
   in C01's sense (ok_history: the build-order condition late_ok for workbooks
   with stored results) is answered by the loaded model as by the original.
   Missing: as above; a history that leaves the saved part is outside the
   property (the original reads the workbook, the loaded model sees a blank). *)
Theorem C03_equiv_region_partial : forall G cdeps csem rsem M,
  pm_ok G cdeps M -> wf (pm_wb M) -> code_nonblank csem rsem ->
  Inv (pm_wb M) (pm_sem csem rsem M) (pm_state M) -> no_eq_text M ->
  stored_ok (pm_wb M) (pm_sem csem rsem M) ->
  inputs_exact (pm_wb M) (st_cache (pm_state M)) ->
  exists M', roundtrip_pkl G cdeps csem rsem M = Ok M' /\
    forall h, Forall (post_in M) h ->
      ok_history (pm_wb M) (pm_sem csem rsem M) (ok_op (pm_wb M)) (pm_state M) h ->
      snd (run (pm_wb M') (pm_sem csem rsem M') (pm_state M') h)
      = snd (run (pm_wb M) (pm_sem csem rsem M) (pm_state M) h).
Proof. exact equiv_region_roundtrip. Qed.
Print Assumptions C03_equiv_region_partial.

(* the text formats: with a scalar printer/parser pair that round-trips (the
   trusted oracle about ruamel.yaml / json, policed by the harness's content
   pool) a yml/json load is the pkl load *)
Theorem C03_text_formats : forall G cdeps csem rsem (print : pyval -> str) (parse : str -> pyval) M,
  (forall v, parse (print v) = v) ->
  roundtrip_text G cdeps csem rsem print parse M = roundtrip_pkl G cdeps csem rsem M.
Proof. exact text_formats. Qed.
Print Assumptions C03_text_formats.

(* saving is deterministic: with distinct sort keys the document depends only on
   the content, not on the order in which the cells entered the cell map
   (Proofs/C03Example.v same_key_order_matters: needed) *)
Theorem C03_deterministic : forall G M1 M2,
  Permutation (pm_order M1) (pm_order M2) ->
  (forall n, In n (pm_order M1) ->
     wb_range (pm_wb M1) n = wb_range (pm_wb M2) n /\ cell_value M1 n = cell_value M2 n) ->
  NoDup (map (g_key G) (filter (fun n => negb (wb_range (pm_wb M1) n)) (pm_order M1))) ->
  pm_cycles M1 = pm_cycles M2 -> pm_filename M1 = pm_filename M2 -> pm_hash M1 = pm_hash M2 ->
  pm_extra M1 = pm_extra M2 ->
  fst (to_text G M1) = fst (to_text G M2).
Proof. exact deterministic_doc. Qed.
Print Assumptions C03_deterministic.

(* PARTIAL (second save of the same object is identical): proved for
   extra_data = None; with a dictionary the key order changes
   (Refuted/C03_resave_extra_data.v) … *)
Theorem C03_resave_partial : forall G M, pm_extra M = None ->
  fst (to_text G (snd (to_text G M))) = fst (to_text G M).
Proof. exact resave_same. Qed.
Print Assumptions C03_resave_partial.

(* … but the content, key by key, is always the same *)
Theorem C03_resave_content : forall G M k,
  d_get (fst (to_text G (snd (to_text G M)))) k = d_get (fst (to_text G M)) k.
Proof. exact resave_content. Qed.
Print Assumptions C03_resave_content.

(* PARTIAL (C03_idempotent): saving the loaded model reproduces the cell map as
   a LIST (same addresses in the same order, same code, same constants — no
   condition on the sort keys: sorted() is stable) and the same content for
   every top-level key.  Missing: no_eq_text / code_nonblank. *)
Theorem C03_idempotent_partial : forall G cdeps csem rsem M,
  pm_ok G cdeps M -> wf (pm_wb M) -> code_nonblank csem rsem ->
  Inv (pm_wb M) (pm_sem csem rsem M) (pm_state M) -> no_eq_text M ->
  exists M', roundtrip_pkl G cdeps csem rsem M = Ok M' /\
    saved_cells G M' = saved_cells G M /\
    forall k, d_get (fst (to_text G M')) k = d_get (fst (to_text G M)) k.
Proof. exact idempotent. Qed.
Print Assumptions C03_idempotent_partial.

(* the iteration settings, workbook file name, source hash and every user key of
   extra_data survive the trip *)
Theorem C03_settings : forall G cdeps csem rsem M,
  pm_ok G cdeps M -> Inv (pm_wb M) (pm_sem csem rsem M) (pm_state M) ->
  exists M', roundtrip_pkl G cdeps csem rsem M = Ok M' /\
    pm_cycles M' = pm_cycles M /\ pm_filename M' = pm_filename M /\ pm_hash M' = pm_hash M /\
    forall k, reserved k = false ->
      d_get (match pm_extra M' with None => [] | Some d => d end) k =
      d_get (match pm_extra M with None => [] | Some d => d end) k.
Proof. exact settings_roundtrip. Qed.
Print Assumptions C03_settings.

(* ---- models with a whole-column reference.  The reference cell of an
   unbounded range (S!B:B: a node of range kind whose only member is the
   bounded range node and whose value is that node's value) does not meet
   code_nonblank.  Proofs/C03Weak.v:
     members_ok G n vals        one value per member of the range node n, non-blank
                                for the members that are range nodes themselves
     code_nonblank_weak G csem rsem
                                formula code never evaluates to None, and a range
                                node evaluates to a non-None value on every
                                members_ok argument list
   The condition speaks about the geometry G only, hence about the saved model
   and the loaded one at once; it is implied by code_nonblank and implies C01's
   sem_nonblank_weak for every well-formed model over G. *)
Theorem C03_weak_condition : forall G cdeps csem rsem M, pm_ok G cdeps M -> wf (pm_wb M) ->
  (code_nonblank csem rsem -> code_nonblank_weak G csem rsem) /\
  (code_nonblank_weak G csem rsem -> sem_nonblank_weak (pm_wb M) (pm_sem csem rsem M)).
Proof. exact weak_condition. Qed.
Print Assumptions C03_weak_condition.

(* the four theorems that quantify over code_nonblank, with the weak condition
   (by transfer: the loader and the machines of both models cannot tell rsem
   from its strongly non-blank version rtot rsem) *)
Theorem C03_abs_weak_partial : forall G cdeps csem rsem M,
  pm_ok G cdeps M -> wf (pm_wb M) -> code_nonblank_weak G csem rsem ->
  Inv (pm_wb M) (pm_sem csem rsem M) (pm_state M) -> no_eq_text M ->
  exists M', roundtrip_pkl G cdeps csem rsem M = Ok M' /\ abs M' = abs M.
Proof. exact abs_roundtrip_weak_p. Qed.
Print Assumptions C03_abs_weak_partial.

Theorem C03_equiv_weak_partial : forall G cdeps csem rsem M,
  pm_ok G cdeps M -> wf (pm_wb M) -> code_nonblank_weak G csem rsem ->
  Inv (pm_wb M) (pm_sem csem rsem M) (pm_state M) -> no_eq_text M ->
  stored_ok (pm_wb M) (pm_sem csem rsem M) -> allcells (pm_wb M) (pm_state M) ->
  inputs_exact (pm_wb M) (st_cache (pm_state M)) ->
  exists M', roundtrip_pkl G cdeps csem rsem M = Ok M' /\
    forall h, Forall (post_ok (pm_wb M)) h ->
      snd (run (pm_wb M') (pm_sem csem rsem M') (pm_state M') h)
      = snd (run (pm_wb M) (pm_sem csem rsem M) (pm_state M) h)
      /\ snd (run (pm_wb M) (pm_sem csem rsem M) (pm_state M) h)
         = run_spec (pm_wb M) (pm_sem csem rsem M) (st_cache (pm_state M)) h.
Proof. exact equiv_roundtrip_weak_p. Qed.
Print Assumptions C03_equiv_weak_partial.

Theorem C03_equiv_region_weak_partial : forall G cdeps csem rsem M,
  pm_ok G cdeps M -> wf (pm_wb M) -> code_nonblank_weak G csem rsem ->
  Inv (pm_wb M) (pm_sem csem rsem M) (pm_state M) -> no_eq_text M ->
  stored_ok (pm_wb M) (pm_sem csem rsem M) ->
  inputs_exact (pm_wb M) (st_cache (pm_state M)) ->
  exists M', roundtrip_pkl G cdeps csem rsem M = Ok M' /\
    forall h, Forall (post_in M) h ->
      ok_history (pm_wb M) (pm_sem csem rsem M) (ok_op (pm_wb M)) (pm_state M) h ->
      snd (run (pm_wb M') (pm_sem csem rsem M') (pm_state M') h)
      = snd (run (pm_wb M) (pm_sem csem rsem M) (pm_state M) h).
Proof. exact equiv_region_roundtrip_weak_p. Qed.
Print Assumptions C03_equiv_region_weak_partial.

Theorem C03_idempotent_weak_partial : forall G cdeps csem rsem M,
  pm_ok G cdeps M -> wf (pm_wb M) -> code_nonblank_weak G csem rsem ->
  Inv (pm_wb M) (pm_sem csem rsem M) (pm_state M) -> no_eq_text M ->
  exists M', roundtrip_pkl G cdeps csem rsem M = Ok M' /\
    saved_cells G M' = saved_cells G M /\
    forall k, d_get (fst (to_text G M')) k = d_get (fst (to_text G M)) k.
Proof. exact idempotent_weak_p. Qed.
Print Assumptions C03_idempotent_weak_partial.

(* ---- repeated saves of one object, for EVERY extra_data (Proofs/C03Resave.v).
   _to_text updates the user's extra_data dictionary in place and afterwards
   deletes only 'cell_map': the first save moves the object to a state that
   further saves leave alone … *)
Theorem C03_save_settles : forall G M,
  snd (to_text G (snd (to_text G M))) = snd (to_text G M).
Proof. exact save_settles. Qed.
Print Assumptions C03_save_settles.

(* … so from the SECOND save on, every save of the unchanged object writes the
   same document, key order included (the first can differ: C03_resave_needed) *)
Theorem C03_resave_stable : forall G M n,
  fst (to_text G (Nat.iter (S n) (fun M => snd (to_text G M)) M))
  = fst (to_text G (snd (to_text G M))).
Proof. exact resave_stable. Qed.
Print Assumptions C03_resave_stable.

(* C03_resave_partial with the condition weakened: extra_data may be a dictionary
   provided it has a 'filename' key and no 'cell_map' key … *)
Theorem C03_resave_keeps_filename : forall G M d,
  pm_extra M = Some d -> d_get d k_filename <> None -> d_get d k_cells = None ->
  fst (to_text G (snd (to_text G M))) = fst (to_text G M).
Proof. exact resave_keeps_filename. Qed.
Print Assumptions C03_resave_keeps_filename.

(* … which every model read back from a save meets (its extra_data is the
   document minus cycles / cell_map / excel_hash: the file name stays), whatever
   the extra_data of the saved model was: saving a LOADED model twice gives
   identical documents *)
Theorem C03_resave_loaded : forall G cdeps csem rsem M M',
  roundtrip_pkl G cdeps csem rsem M = Ok M' ->
  fst (to_text G (snd (to_text G M'))) = fst (to_text G M').
Proof. exact resave_roundtrip. Qed.
Print Assumptions C03_resave_loaded.

(* the condition of C03_resave_partial is needed for a freshly compiled model:
   a closed model with extra_data = {'note': 1} whose first two documents differ
   in the order of the top-level keys *)
Theorem C03_resave_needed : exists G M,
  fst (to_text G (snd (to_text G M))) <> fst (to_text G M) /\
  map fst (fst (to_text G M)) = [k_note; k_cycles; k_hash; k_cells; k_filename] /\
  map fst (fst (to_text G (snd (to_text G M)))) = [k_note; k_cycles; k_hash; k_filename; k_cells].
Proof. exact resave_needed. Qed.
Print Assumptions C03_resave_needed.

(* ---- the saved text of a cell is a function of the cell alone
   (Proofs/C03Local.v; is_saved_key M n: n is a key of the cell map and not a
   range node).  No condition on the model: no pm_ok, sort keys may collide,
   pm_order may repeat a key. *)
Theorem C03_cell_local : forall G M n,
  (is_saved_key M n -> lookup (saved_cells G M) n = Some (cell_value M n)) /\
  (~ is_saved_key M n -> lookup (saved_cells G M) n = None).
Proof. exact cell_local. Qed.
Print Assumptions C03_cell_local.

(* as a MAPPING the saved cell map depends on the SET of keys and the cells only:
   not on the insertion order, not on how sorted() breaks ties between equal sort
   keys (C03_deterministic: the LIST, which needs distinct sort keys) *)
Theorem C03_cell_map_order_free : forall G M1 M2,
  (forall n, In n (pm_order M1) <-> In n (pm_order M2)) ->
  (forall n, In n (pm_order M1) ->
     wb_range (pm_wb M1) n = wb_range (pm_wb M2) n /\ cell_value M1 n = cell_value M2 n) ->
  forall n, lookup (saved_cells G M1) n = lookup (saved_cells G M2) n.
Proof. exact cell_map_order_free. Qed.
Print Assumptions C03_cell_map_order_free.

(* ---- the document a LOADED model writes, as a LIST (Proofs/C03Resave.v): the
   document it was read from minus cycles / cell_map / excel_hash (so the user's
   keys and 'filename', in their old order), then cycles, excel_hash, cell_map.
   No condition beyond a successful load of a document with a file name. *)
Theorem C03_loaded_doc_shape : forall G cdeps csem rsem f M' v,
  from_text G cdeps csem rsem f = Ok M' -> d_get f k_filename = Some (TV v) ->
  fst (to_text G M') =
    d_del (d_del (d_del f k_cycles) k_cells) k_hash ++
    [(k_cycles, TV (pm_cycles M')); (k_hash, TV (pm_hash M')); (k_cells, TCells (saved_cells G M'))].
Proof. exact loaded_doc_shape. Qed.
Print Assumptions C03_loaded_doc_shape.

(* PARTIAL (C03_idempotent, list level): save . load . save written out in terms
   of the ORIGINAL model — key order included.  Missing: no_eq_text /
   code_nonblank, as for C03_idempotent_partial. *)
Theorem C03_idempotent_doc_partial : forall G cdeps csem rsem M,
  pm_ok G cdeps M -> wf (pm_wb M) -> code_nonblank csem rsem ->
  Inv (pm_wb M) (pm_sem csem rsem M) (pm_state M) -> no_eq_text M ->
  exists M', roundtrip_pkl G cdeps csem rsem M = Ok M' /\
    fst (to_text G M') =
      d_del (d_del (d_del (fst (to_text G M)) k_cycles) k_cells) k_hash ++
      [(k_cycles, TV (pm_cycles M)); (k_hash, TV (pm_hash M)); (k_cells, TCells (saved_cells G M))].
Proof. exact idempotent_doc. Qed.
Print Assumptions C03_idempotent_doc_partial.

(* "same content for every key" (C03_idempotent_partial) cannot be strengthened
   to "same document": even with extra_data = None the save of the loaded model
   has another key order than the original's (the file name moves to the front) *)
Theorem C03_idempotent_order_needed : exists G cdeps csem rsem M M',
  pm_extra M = None /\ roundtrip_pkl G cdeps csem rsem M = Ok M' /\
  map fst (fst (to_text G M)) = [k_cycles; k_hash; k_cells; k_filename] /\
  map fst (fst (to_text G M')) = [k_filename; k_cycles; k_hash; k_cells].
Proof. exact idempotent_order_needed. Qed.
Print Assumptions C03_idempotent_order_needed.
