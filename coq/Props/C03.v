(* Props/C03.v — to be filled *)
