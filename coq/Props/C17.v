(* Props/C17.v — property theorems only.  Models: Gen/date_time.v (regenerated
   from /repo/src/pycel/lib/date_time.py every run) over Lib/PyDate.v (CPython's
   calendar algorithms, transcribed); Model/DayTime.v (binary64, hand-written). *)
From Coq Require Import ZArith List Bool.
From PV Require Import Lib.Py Lib.PyDate Proofs.C17Cal Proofs.C17Base Proofs.C17 Model.DayTime.
From PV Require Import Proofs.C17Carry Proofs.C17Months Proofs.C17Total Proofs.C17Yearfrac Model.DateFuncs.
From PV Require Gen.excelutil.
From PV Require Proofs.C17Sweep.All.
From PV Require Gen.date_time.
Import ListNotations.
Open Scope Z_scope.

(* DATE(YEAR(n), MONTH(n), DAY(n)) = n for EVERY serial day 0..2958465
   ([rt n] spells this out on the generated functions) *)
Theorem C17_roundtrip : forall n, 0 <= n <= 2958465 -> rt n = true.
Proof. exact roundtrip. Qed.
Print Assumptions C17_roundtrip.

(* for n > 60 the parts are those of the proleptic Gregorian date 1899-12-30 + n *)
Theorem C17_parts : forall n, 60 < n <= 2958465 ->
  let '(y, m, d) := ord2ymd (693594 + n) in
  date_time.f_year (VInt n) = Ok (VInt y) /\ date_time.f_month (VInt n) = Ok (VInt m)
  /\ date_time.f_day (VInt n) = Ok (VInt d).
Proof. exact parts_late. Qed.
Print Assumptions C17_parts.

(* the calendar model is a calendar: on the whole Excel range ord2ymd yields a
   valid date of 1900..9999 that ymd2ord maps back (exhaustive, 2 958 405 days) *)
Theorem C17_gregorian : forall n, 61 <= n < 2958466 -> greg_ok n = true.
Proof. exact All.greg_all. Qed.
Print Assumptions C17_gregorian.

(* day 60 is the fictitious 1900-02-29, day 0 is 1900-01-00, and DATE maps them back *)
Theorem C17_phantom_days :
  date_time.f_date_from_int (VInt 60) = Ok (VTuple [VInt 1900; VInt 2; VInt 29])
  /\ date_time.f_date_from_int (VInt 0) = Ok (VTuple [VInt 1900; VInt 1; VInt 0])
  /\ date_time.f_date (VInt 1900) (VInt 2) (VInt 29) = Ok (VFloat (QArith_base.inject_Z 60))
  /\ date_time.f_date (VInt 1900) (VInt 1) (VInt 0) = Ok (VInt 0).
Proof. exact phantom_days. Qed.
Print Assumptions C17_phantom_days.

(* WEEKDAY has period 7 and range 1..7, for every integer day *)
Theorem C17_weekday : forall n,
  date_time.f_weekday (VInt (n + 7)) = date_time.f_weekday (VInt n)
  /\ exists w, date_time.f_weekday (VInt n) = Ok (VInt w) /\ 1 <= w <= 7.
Proof. exact weekday_period. Qed.
Print Assumptions C17_weekday.

(* a date that is already valid is left alone by the carry normalisation *)
Theorem C17_normalize_valid : forall f y m d, 0 < y -> 1 <= m <= 12 -> 1 <= d <= days_in_month y m ->
  date_time.f_normalize_year (S f) (VInt y) (VInt m) (VInt d)
  = Ok (VTuple [VInt y; VInt m; VInt d]).
Proof. exact normalize_valid. Qed.
Print Assumptions C17_normalize_valid.

(* the month carry is periodic: 12 months are one year *)
Theorem C17_month_carry : forall y m k, norm_month y (m + 12 * k) = norm_month (y + k) m.
Proof. exact norm_month_carry. Qed.
Print Assumptions C17_month_carry.

(* HOUR/MINUTE/SECOND(s/86400) = (s/3600, s/60 mod 60, s mod 60) for all 86400
   seconds, the division and all intermediate steps in IEEE binary64 *)
Theorem C17_time : forall s, 0 <= s < 86400 -> pack (hms s) = s.
Proof. exact daytime. Qed.
Print Assumptions C17_time.

(* DAY CARRY (d >= 1; for d <= 0 the model refutes it: Refuted/C17_day_borrow.v).
   For ANY integer month m whose normalised month (nyear y m, nmonth m) =
   (y + (m-1) div 12, (m-1) mod 12 + 1) is 1900-03 or later, and any day
   1 <= d <= 25000 (normalize_year recurses once per month carried; the model's
   recursion budget is 900 calls), DATE(y, m, d) = DATE(y, m, 1) + d - 1 whenever
   that is a serial number of the calendar. *)
Theorem C17_day_carry : forall y m d, 1900 <= y <= 9999 ->
  1900 <= nyear y m -> (nyear y m = 1900 -> 3 <= nmonth m) ->
  1 <= d <= 25000 -> ymd2ord (nyear y m) (nmonth m) 1 - 693594 + d - 1 <= 2958465 ->
  exists n1, 60 < n1
    /\ date_time.f_date (VInt y) (VInt m) (VInt 1) = Ok (VInt n1)
    /\ date_time.f_date (VInt y) (VInt m) (VInt d) = Ok (VInt (n1 + d - 1)).
Proof. exact day_carry. Qed.
Print Assumptions C17_day_carry.

(* the calendar model: ord2ymd inverts ymd2ord on every valid date of the Excel range *)
Theorem C17_ord2ymd_inverse : forall y m d, 1 <= m <= 12 -> 1 <= d <= days_in_month y m ->
  61 <= ymd2ord y m d - 693594 <= 2958465 -> ord2ymd (ymd2ord y m d) = (y, m, d).
Proof. exact ord2ymd_inv. Qed.
Print Assumptions C17_ord2ymd_inverse.

(* EOMONTH.  n a serial day after the phantom leap day, (y, m, d) its date, k ANY
   integer shift; the target month (y2, m2) = k months after (y, m) lies in
   1900-03 .. 9999-11 (for 9999-12 the model answers #NUM!, known finding
   C17-eomonth-last-month: Refuted/C17_eomonth_last_month.v).  Then EOMONTH(n, k)
   is the serial number of the last day of (y2, m2): its YEAR/MONTH are y2/m2, its
   DAY is the length of that month and the next serial day has DAY = 1. *)
Theorem C17_eomonth : forall n k y m d, 60 < n <= 2958465 -> ord2ymd (693594 + n) = (y, m, d) ->
  let y2 := nyear y (m + k) in let m2 := nmonth (m + k) in
  1900 <= y2 <= 9999 -> (y2 = 1900 -> 3 <= m2) -> (y2 = 9999 -> m2 <= 11) ->
  exists e, date_time.f_eomonth (VInt n) (VInt k) = Ok (VInt e)
    /\ e = ymd2ord y2 m2 (days_in_month y2 m2) - 693594 /\ 60 < e < 2958465
    /\ date_time.f_year (VInt e) = Ok (VInt y2) /\ date_time.f_month (VInt e) = Ok (VInt m2)
    /\ date_time.f_day (VInt e) = Ok (VInt (days_in_month y2 m2))
    /\ date_time.f_day (VInt (e + 1)) = Ok (VInt 1).
Proof. exact eomonth_spec. Qed.
Print Assumptions C17_eomonth.

(* EDATE shifts by whole months and clips the day to the length of the target
   month (target month in 1900-03 .. 9999-12, any integer shift k) *)
Theorem C17_edate : forall n k y m d, 60 < n <= 2958465 -> ord2ymd (693594 + n) = (y, m, d) ->
  let y2 := nyear y (m + k) in let m2 := nmonth (m + k) in
  1900 <= y2 <= 9999 -> (y2 = 1900 -> 3 <= m2) ->
  let dd := Z.min d (days_in_month y2 m2) in
  exists e, date_time.f_edate (VInt n) (VInt k) = Ok (VInt e)
    /\ e = ymd2ord y2 m2 dd - 693594 /\ 60 < e <= 2958465
    /\ date_time.f_year (VInt e) = Ok (VInt y2) /\ date_time.f_month (VInt e) = Ok (VInt m2)
    /\ date_time.f_day (VInt e) = Ok (VInt dd).
Proof. exact edate_spec. Qed.
Print Assumptions C17_edate.

Theorem C17_edate_zero : forall n, 60 < n <= 2958465 ->
  date_time.f_edate (VInt n) (VInt 0) = Ok (VInt n).
Proof. exact edate_zero. Qed.
Print Assumptions C17_edate_zero.

(* EDATE(EDATE(n, a), b) = EDATE(n, a + b) when the day is never clipped (DAY(n) <= 28) *)
Theorem C17_edate_compose : forall n a b y m d, 60 < n <= 2958465 ->
  ord2ymd (693594 + n) = (y, m, d) -> d <= 28 ->
  1900 <= nyear y (m + a) <= 9999 -> (nyear y (m + a) = 1900 -> 3 <= nmonth (m + a)) ->
  1900 <= nyear y (m + a + b) <= 9999 -> (nyear y (m + a + b) = 1900 -> 3 <= nmonth (m + a + b)) ->
  exists n1 n2, date_time.f_edate (VInt n) (VInt a) = Ok (VInt n1)
    /\ date_time.f_edate (VInt n1) (VInt b) = Ok (VInt n2)
    /\ date_time.f_edate (VInt n) (VInt (a + b)) = Ok (VInt n2).
Proof. exact edate_compose. Qed.
Print Assumptions C17_edate_compose.

(* NEVER AN EXCEPTION (partial only in the day: normalize_year recurses once per
   month carried, the model's budget is 900 calls, Python's limit about 985; beyond
   it the implementation raises RecursionError and the model OutOfFuel —
   Refuted/C17_date_exceptions.v, known finding C17-day-recursion).
   [date_value v]: v is #NUM!, the float 60.0 (1900-02-29) or a serial day
   0..2958465.  Through the decorator wrappers (Model/DateFuncs.v X_date, X_edate,
   X_eomonth): DATE of ANY integer year and month and any day in -25000..25000, and
   EDATE / EOMONTH of ANY integer serial number and ANY integer shift, return a
   value (since repair 7da3fd9 no month or shift bound is needed). *)
Theorem C17_date_total_partial :
  (forall y m d, -25000 <= d <= 25000 ->
     exists v, X_date [VInt y; VInt m; VInt d] = Ok v /\ date_value v)
  /\ (forall n k,
        (exists v, X_eomonth [VInt n; VInt k] = Ok v /\ num_or_int v)
        /\ (exists v, X_edate [VInt n; VInt k] = Ok v /\ date_value v)).
Proof. exact wrapped_total. Qed.
Print Assumptions C17_date_total_partial.

(* for a day 1..28 DATE returns a value for ALL integer years and months — never a
   Raise (before repair 7da3fd9: TypeError at February of a normalised year <= 0) *)
Theorem C17_date_small_day : forall y m d, 1 <= d <= 28 ->
  exists v, date_time.f_date (VInt y) (VInt m) (VInt d) = Ok v /\ date_value v.
Proof. exact date_small_day. Qed.
Print Assumptions C17_date_small_day.

(* a month that normalises to a year before 1 gives #NUM!, for EVERY integer day
   (yadj: years below 1900 are read as 1900 + year) *)
Theorem C17_date_before_year1 : forall y m d, nyear (yadj y) m < 1 ->
  date_time.f_date (VInt y) (VInt m) (VInt d) = Ok excelutil.c_NUM_ERROR.
Proof. exact date_before_year1. Qed.
Print Assumptions C17_date_before_year1.

(* YEAR / MONTH / DAY / WEEKDAY (wrapped) of EVERY integer: numbers of the right
   range on 0..2958465, #NUM! everywhere else *)
Theorem C17_serial_total : forall n,
  (0 <= n <= 2958465 ->
     exists y m d w, X_year [VInt n] = Ok (VInt y) /\ X_month [VInt n] = Ok (VInt m)
       /\ X_day [VInt n] = Ok (VInt d) /\ X_weekday [VInt n] = Ok (VInt w)
       /\ 1900 <= y <= 9999 /\ 1 <= m <= 12 /\ 0 <= d <= 31 /\ 1 <= w <= 7)
  /\ (~ 0 <= n <= 2958465 ->
     X_year [VInt n] = Ok excelutil.c_NUM_ERROR /\ X_month [VInt n] = Ok excelutil.c_NUM_ERROR
     /\ X_day [VInt n] = Ok excelutil.c_NUM_ERROR /\ X_weekday [VInt n] = Ok excelutil.c_NUM_ERROR).
Proof. exact serial_total. Qed.
Print Assumptions C17_serial_total.

(* YEARFRAC is symmetric in its dates: all integer dates, every basis value *)
Theorem C17_yearfrac_symmetric : forall a b basis,
  date_time.f_yearfrac (VInt a) (VInt b) basis = date_time.f_yearfrac (VInt b) (VInt a) basis.
Proof. exact yearfrac_symmetric. Qed.
Print Assumptions C17_yearfrac_symmetric.

(* ... and through the decorator wrapper, with an integer basis or without one *)
Theorem C17_yearfrac_wrapped_symmetric : forall a b bs,
  X_yearfrac [VInt a; VInt b; VInt bs] = X_yearfrac [VInt b; VInt a; VInt bs]
  /\ X_yearfrac [VInt a; VInt b] = X_yearfrac [VInt b; VInt a].
Proof. exact yearfrac_wrapped_symmetric. Qed.
Print Assumptions C17_yearfrac_wrapped_symmetric.

(* MONTH CARRY on the generated DATE: 12 months are one year, for ALL integer
   months, days and k (both years in 1900..9999), whatever the result is *)
Theorem C17_date_month_carry : forall y m d k, 1900 <= y <= 9999 -> 1900 <= y + k <= 9999 ->
  date_time.f_date (VInt y) (VInt (m + 12 * k)) (VInt d)
  = date_time.f_date (VInt (y + k)) (VInt m) (VInt d).
Proof. exact date_month_carry. Qed.
Print Assumptions C17_date_month_carry.

(* OUT-OF-RANGE RESULTS ARE #NUM!: the forward day carry past 9999-12-31 ... *)
Theorem C17_day_carry_overflow : forall y m d, 1900 <= y <= 9999 ->
  1900 <= nyear y m -> (nyear y m = 1900 -> 3 <= nmonth m) ->
  1 <= d <= 25000 -> 2958465 < ymd2ord (nyear y m) (nmonth m) 1 - 693594 + d - 1 ->
  date_time.f_date (VInt y) (VInt m) (VInt d) = Ok excelutil.c_NUM_ERROR.
Proof. exact day_carry_overflow. Qed.
Print Assumptions C17_day_carry_overflow.

(* ... and EDATE / EOMONTH whose target month lies before 1899 or after 9999, for
   EVERY integer shift (y3: the year of the month after the target, whose first
   day EOMONTH computes) *)
Theorem C17_months_out_of_calendar : forall n k y m d, 60 < n <= 2958465 ->
  ord2ymd (693594 + n) = (y, m, d) ->
  (let y2 := nyear y (m + k) in y2 < 1899 \/ 10000 <= y2 ->
   date_time.f_edate (VInt n) (VInt k) = Ok excelutil.c_NUM_ERROR)
  /\ (let y3 := nyear y (m + k + 1) in y3 < 1899 \/ 10000 <= y3 ->
      date_time.f_eomonth (VInt n) (VInt k) = Ok excelutil.c_NUM_ERROR).
Proof. exact months_out_of_calendar. Qed.
Print Assumptions C17_months_out_of_calendar.

(* THE DAY BORROW AS THE CODE COMPUTES IT (known finding C17-day-borrow, all
   inputs with a one-month borrow): for a month (y, m) from 1900-04 on and
   -27 <= d <= 0, DATE(y, m, d) is off from DATE(y, m, 1) + d - 1 by exactly
   days_in_month(m) - days_in_month(m - 1): correct only when the two months are
   equally long *)
Theorem C17_day_borrow_defect : forall y m d, 1900 <= y <= 9999 -> 1 <= m <= 12 ->
  (y = 1900 -> 4 <= m) -> -27 <= d <= 0 ->
  let yp := nyear y (m - 1) in let mp := nmonth (m - 1) in
  exists n1, 60 < n1
    /\ date_time.f_date (VInt y) (VInt m) (VInt 1) = Ok (VInt n1)
    /\ date_time.f_date (VInt y) (VInt m) (VInt d)
       = Ok (VInt (n1 + d - 1 + (days_in_month y m - days_in_month yp mp))).
Proof. exact day_borrow_defect. Qed.
Print Assumptions C17_day_borrow_defect.
