(* Props/C12.v — property theorems only.  Model: Model/Validate.v (hand
   transcription of ExcelCompiler.validate_calcs, lines 600-659, and of
   _CellBase.close_enough, lines 1044-1053, of excelcompiler.py) on top of the
   cache machine Model/Graph.v; tied by the differential run of
   harness/props/c12.py.  Every theorem holds for EVERY well-formed workbook W
   (a DAG in topological presentation), EVERY formula semantics [sem] that never
   computes a blank, EVERY tolerance that is absent or positive, and EVERY list
   of checked outputs (validate_calcs(output_addrs=None) is the list of all
   formula cells).

   Vocabulary (Proofs/C01Base.v, C01.v, C12Base.v, C12.v):
     wf W, sem_nonblank, spec W sem inp n, anc W a n      as in Props/C01.v
     is_fcell W n         n is a formula cell (not an input, not a range node)
     stored_consistent    stored n = from-scratch value, for every formula cell
     stored_full W        every formula cell has a stored result (not None)
     perturb W p v'       W with the stored result of p replaced by v'
     good b / clean n / semiclean n
                          stored b = spec b / n and all its ancestors are good /
                          all strict ancestors of n are good
     tol_pos tol          tolerance=None or tolerance > 0
     is_scalar v          logical, number or text (error values are text)
     validate W sem ftext tol outs
                          the final state of the loop: vs_report = the 'mismatch'
                          dictionary (rep_get r n = Some (original, calced)),
                          vs_verified = the set [verified], vs_todo = what is
                          left on the stack when the fuel
                          |outs| + |edges| + 1 runs out
     ftext n              str(cell.formula): a cell whose value equals this text
                          is skipped by the loop ('No Orig data?', lines 635-637)

   Side conditions that the implementation really needs (faithful model
   refutes the statement without them, coq/Refuted/C12_*.v):
     tol_pos                       tolerance=0 reports every number cell
     v' is not the formula's text  such a cell is skipped silently, and so are
                                   the precedents only it reaches
   Side conditions of the proof only: from-scratch values of formula cells are
   scalars (close_enough is then reflexive); no formula computes its own text.
   The theorems above are about Model/Validate.v (formula meaning total: nothing
   raises).  CELLS THAT RAISE: the C12_*_f theorems at the end of this file, about
   Model/ValidateFail.v = the same loop with its [except] branch over the machine
   of Model/Fail.v (C09).  Vocabulary (Proofs/C12FailBase.v, C12Fail.v, C12Chain.v):
     fsem n vals = None / fpre n = Some k   the function of cell n raises / cell n
                          calls an unknown function after reading k precedents
     fspec W fsem fpre inp n   the from-scratch outcome: FVal v | FRaise class
     G                    ANY set of nodes closed under precedents on which the
                          stored results that are present are the from-scratch
                          values (a G-cell that raises has none); nothing is
                          assumed outside G (altered results, results stored on
                          cells that raise, dependants of both)
     validate_f … raise_exceptions outs   the final state: fs_report = the
                          'mismatch' dictionary, fs_exc = every (address, chain)
                          the except branch appended, oldest first; fs_verified,
                          fs_todo (what is left when the fuel runs out), fs_raised
     chain                the message of the exception = the cells of its "Eval:"
                          lines, outermost first, innermost = the cell whose own
                          function failed; bucket and key are read off it
                          (not_implemented, key_of; failed_buckets = the two
                          dictionaries)
     chain_ok n ch        ch is not empty, names non-input cells at or above n, and
                          its innermost cell fails by itself (unknown function, or a
                          function that raises on some arguments)
     ancG G n             every strict ancestor of n is in G
     listed exc n         some entry of fs_exc carries the address n
     cnt exc n            the number of entries of fs_exc that carry the address n
     occ outs n / indeg W n   how often n occurs among the outputs / as a precedent
   The loop is the one REPAIRED by bbbc9be of /repo: the except branch marks the cell
   verified and pushes its precedents.
   LAST THREE SECTIONS (Proofs/C12Once.v, C12Tol.v, C12TolWeak.v): a cell is reported
   at most once (no hypothesis); the theorems about Model/Validate.v for EVERY
   tolerance, with [tol_pos] and the scalar condition replaced by "each formula cell's
   from-scratch value is close_enough to itself" (text results: any tolerance; numbers:
   exactly the absent or positive ones, C12_refl_tolerance), also under the weak
   non-blank condition; and which entries do not depend on the order, repetitions and
   choice of the outputs (good W sem n: stored n = from-scratch value of n; the others
   do depend on it: coq/Refuted/C12_order.v). *)
From Coq Require Import List QArith.
From PV Require Import Lib.Py Model.Graph Model.Validate.
From PV Require Import Proofs.C01Base Proofs.C01 Proofs.C12Base Proofs.C12.
From PV Require Import Proofs.C01Weak Proofs.C12Weak.
From PV Require Import Model.Fail Model.ValidateFail.
From PV Require Import Proofs.C12Chain Proofs.C12FailBase Proofs.C12Fail.
From PV Require Import Proofs.C12Once Proofs.C12Tol Proofs.C12TolWeak.
Import ListNotations.
Local Open Scope nat_scope.

(* PARTIAL (tolerance absent or positive): on a workbook whose stored results
   are what its formulas produce, the report is empty — whatever the outputs *)
Theorem C12_sound_partial : forall W sem ftext tol,
  wf W -> sem_nonblank W sem -> stored_consistent W sem -> tol_pos tol ->
  (forall n, n < wb_n W -> is_fcell W n = true -> is_scalar (spec W sem (wb_inp0 W) n) = true) ->
  (forall n vals, n < wb_n W -> is_fcell W n = true -> py_eq (sem n vals) (VStr (ftext n)) = false) ->
  forall outs, (forall o, In o outs -> o < wb_n W) ->
    vs_report (validate W sem ftext tol outs) = [].
Proof. exact sound. Qed.
Print Assumptions C12_sound_partial.

(* PARTIAL (v' present and not the text of p's formula; tolerance absent or
   positive): if the stored result of ONE formula cell p reachable from the
   outputs is replaced by a value v' that is not close_enough to the true value,
   p is reported with (original, calced) = (v', true value), and every reported
   cell is p or has p among its ancestors — whatever the pop order *)
Theorem C12_complete_partial : forall W sem ftext tol p v',
  wf W -> sem_nonblank W sem -> stored_consistent W sem ->
  p < wb_n W -> is_fcell W p = true -> tol_pos tol ->
  (forall n, n < wb_n W -> is_fcell W n = true -> is_scalar (spec W sem (wb_inp0 W) n) = true) ->
  (forall n vals, n < wb_n W -> is_fcell W n = true -> py_eq (sem n vals) (VStr (ftext n)) = false) ->
  v' <> VNone -> py_eq v' (VStr (ftext p)) = false ->
  close_enough tol (spec W sem (wb_inp0 W) p) v' = false ->
  forall outs, (forall o, In o outs -> o < wb_n W) ->
    (exists o, In o outs /\ (p = o \/ anc W p o)) ->
    let r := vs_report (validate (perturb W p v') sem ftext tol outs) in
    rep_get r p = Some (v', spec W sem (wb_inp0 W) p) /\
    forall n, rep_get r n <> None -> n = p \/ anc W p n.
Proof. exact complete. Qed.
Print Assumptions C12_complete_partial.

(* PARTIAL (no cell's stored or computed value is its formula's text; the
   exceptions / not-implemented buckets are oracle-only): for ANY stored results
   (consistent or not) the loop ends with an empty stack within the fuel, and
   every node the outputs depend on has been processed (is in [verified]) *)
Theorem C12_no_silent_skip_partial : forall W sem ftext tol outs,
  wf W -> sem_nonblank W sem -> stored_full W ->
  (forall n, n < wb_n W -> is_fcell W n = true -> py_eq (wb_stored W n) (VStr (ftext n)) = false) ->
  (forall n vals, n < wb_n W -> is_fcell W n = true -> py_eq (sem n vals) (VStr (ftext n)) = false) ->
  (forall n, n < wb_n W -> is_fcell W n = true -> is_scalar (spec W sem (wb_inp0 W) n) = true) ->
  tol_pos tol ->
  (forall o, In o outs -> o < wb_n W) ->
    vs_todo (validate W sem ftext tol outs) = [] /\
    forall o n, In o outs -> n = o \/ anc W n o ->
      mem n (vs_verified (validate W sem ftext tol outs)) = true.
Proof. exact processed_all. Qed.
Print Assumptions C12_no_silent_skip_partial.

(* the general forms (any number of altered stored results): a cell whose own
   and whose ancestors' stored results are consistent is never reported … *)
Theorem C12_clean_not_reported_partial : forall W sem ftext tol outs,
  wf W -> sem_nonblank W sem -> stored_full W ->
  (forall n, n < wb_n W -> is_fcell W n = true -> py_eq (wb_stored W n) (VStr (ftext n)) = false) ->
  (forall n vals, n < wb_n W -> is_fcell W n = true -> py_eq (sem n vals) (VStr (ftext n)) = false) ->
  (forall n, n < wb_n W -> is_fcell W n = true -> is_scalar (spec W sem (wb_inp0 W) n) = true) ->
  tol_pos tol ->
  (forall o, In o outs -> o < wb_n W) ->
  forall n, clean W sem n -> rep_get (vs_report (validate W sem ftext tol outs)) n = None.
Proof. exact clean_not_reported. Qed.
Print Assumptions C12_clean_not_reported_partial.

(* … and a reachable formula cell with consistent ancestors whose stored result
   is not close to its from-scratch value is reported with exactly that pair *)
Theorem C12_bad_reported_partial : forall W sem ftext tol outs,
  wf W -> sem_nonblank W sem -> stored_full W ->
  (forall n, n < wb_n W -> is_fcell W n = true -> py_eq (wb_stored W n) (VStr (ftext n)) = false) ->
  (forall n vals, n < wb_n W -> is_fcell W n = true -> py_eq (sem n vals) (VStr (ftext n)) = false) ->
  (forall n, n < wb_n W -> is_fcell W n = true -> is_scalar (spec W sem (wb_inp0 W) n) = true) ->
  tol_pos tol ->
  (forall o, In o outs -> o < wb_n W) ->
  forall o n, In o outs -> n = o \/ anc W n o -> n < wb_n W -> is_fcell W n = true ->
    semiclean W sem n ->
    close_enough tol (spec W sem (wb_inp0 W) n) (wb_stored W n) = false ->
    rep_get (vs_report (validate W sem ftext tol outs)) n
    = Some (wb_stored W n, spec W sem (wb_inp0 W) n).
Proof. exact bad_reported. Qed.
Print Assumptions C12_bad_reported_partial.

(* close_enough relates every scalar to itself when the tolerance is absent or
   positive (what makes a second pop of a cell harmless) *)
Theorem C12_close_enough_refl : forall tol v,
  tol_pos tol -> is_scalar v = true -> close_enough tol v v = true.
Proof. exact close_enough_refl. Qed.
Print Assumptions C12_close_enough_refl.

(* output_addrs=None is an instance of every theorem above: outs = all_formulas W *)
Theorem C12_outputs_default : forall W o, In o (all_formulas W) -> o < wb_n W.
Proof. exact all_formulas_lt. Qed.
Print Assumptions C12_outputs_default.

(* ====================================================== cells that raise ==== *)

(* the machine under the loop is the machine of C09 (Model/Fail.v), with the
   message of the exception carried along: same state, same value, same class *)
Theorem C12_chain_machine_is_fail_machine : forall W fsem fpre rorder s n,
  evaluate_f W fsem fpre rorder s n
  = (fst (evaluate_c W fsem fpre rorder s n), erase (snd (evaluate_c W fsem fpre rorder s n))).
Proof. exact evaluate_c_erase. Qed.
Print Assumptions C12_chain_machine_is_fail_machine.

(* PARTIAL (soundness half; the completeness half — the altered cell itself is
   reported — is oracle-only when cells raise): cells that raise, stale results
   and anything else outside G never make a cell of G a mismatch, whatever the
   outputs and the pop order.  With G = the cells that do not depend on an
   altered result: every reported mismatch depends on an altered cell *)
Theorem C12_mismatches_unaffected_f_partial :
  forall W fsem fpre rorder ftext tol outs (G : nat -> Prop),
  wf W ->
  (forall n d, n < wb_n W -> G n -> In d (wb_deps W n) -> G d) ->
  (forall m, m < wb_n W -> G m -> is_fcell W m = true ->
     wb_stored W m = VNone \/ fspec W fsem fpre (wb_inp0 W) m = FVal (wb_stored W m)) ->
  (forall n v, n < wb_n W -> G n -> is_fcell W n = true ->
     fspec W fsem fpre (wb_inp0 W) n = FVal v -> is_scalar v = true) ->
  tol_pos tol ->
  (forall o, In o outs -> o < wb_n W) ->
  forall n, n < wb_n W -> G n ->
    rep_get (fs_report (validate_f W fsem fpre rorder ftext tol false outs)) n = None.
Proof. exact mismatches_unaffected. Qed.
Print Assumptions C12_mismatches_unaffected_f_partial.

(* what the exception dictionaries contain: every entry is (address, message)
   with a well-formed chain, and a listed cell all of whose ancestors are in G
   really raises from scratch *)
Theorem C12_listed_sound_f :
  forall W fsem fpre rorder ftext tol outs (G : nat -> Prop),
  wf W ->
  (forall n d, n < wb_n W -> G n -> In d (wb_deps W n) -> G d) ->
  (forall m, m < wb_n W -> G m -> is_fcell W m = true ->
     wb_stored W m = VNone \/ fspec W fsem fpre (wb_inp0 W) m = FVal (wb_stored W m)) ->
  (forall n v, n < wb_n W -> G n -> is_fcell W n = true ->
     fspec W fsem fpre (wb_inp0 W) n = FVal v -> is_scalar v = true) ->
  tol_pos tol ->
  (forall o, In o outs -> o < wb_n W) ->
  forall n ch, In (n, ch) (fs_exc (validate_f W fsem fpre rorder ftext tol false outs)) ->
    n < wb_n W /\ chain_ok W fsem fpre n ch /\
    (ancG W G n -> is_raise (fspec W fsem fpre (wb_inp0 W) n) = true).
Proof. exact listed_sound. Qed.
Print Assumptions C12_listed_sound_f.

(* for ANY stored results and ANY cells that raise — only the 'No Orig data?'
   skip is excluded: no stored result and no value a formula computes is the text
   of the cell's own formula (without it: coq/Refuted/C12_formula_text.v) — the
   loop ends with an empty stack within the fuel |outs| + |edges| + 1 … *)
Theorem C12_terminates_f : forall W fsem fpre rorder ftext tol outs,
  wf W ->
  (forall n, n < wb_n W -> is_fcell W n = true -> py_eq (wb_stored W n) (VStr (ftext n)) = false) ->
  (forall n vals v, n < wb_n W -> is_fcell W n = true -> fsem n vals = Some v ->
     py_eq v (VStr (ftext n)) = false) ->
  (forall o, In o outs -> o < wb_n W) ->
  fs_todo (validate_f W fsem fpre rorder ftext tol false outs) = [].
Proof. exact terminates_f. Qed.
Print Assumptions C12_terminates_f.

(* … every node the checked outputs depend on — through cells that raise too — has
   been processed (is in [verified]) … *)
Theorem C12_reachable_processed_f : forall W fsem fpre rorder ftext tol outs,
  wf W ->
  (forall n, n < wb_n W -> is_fcell W n = true -> py_eq (wb_stored W n) (VStr (ftext n)) = false) ->
  (forall n vals v, n < wb_n W -> is_fcell W n = true -> fsem n vals = Some v ->
     py_eq v (VStr (ftext n)) = false) ->
  (forall o, In o outs -> o < wb_n W) ->
  forall o n, In o outs -> n = o \/ anc W n o ->
    mem n (fs_verified (validate_f W fsem fpre rorder ftext tol false outs)) = true.
Proof. exact reachable_verified_f. Qed.
Print Assumptions C12_reachable_processed_f.

(* … and a cell is listed at most once per occurrence among the outputs plus once
   per edge into it.  (NOT "at most once": a cell that sits on the stack twice is
   popped and listed twice, Proofs/C12FailExample.v fx_computed.) *)
Theorem C12_listed_bound_f : forall W fsem fpre rorder ftext tol outs,
  wf W ->
  (forall n, n < wb_n W -> is_fcell W n = true -> py_eq (wb_stored W n) (VStr (ftext n)) = false) ->
  (forall n vals v, n < wb_n W -> is_fcell W n = true -> fsem n vals = Some v ->
     py_eq v (VStr (ftext n)) = false) ->
  (forall o, In o outs -> o < wb_n W) ->
  forall k, cnt (fs_exc (validate_f W fsem fpre rorder ftext tol false outs)) k
            <= occ outs k + indeg W k.
Proof. exact listed_bound. Qed.
Print Assumptions C12_listed_bound_f.

(* nothing reachable is skipped silently: every node reachable from a checked
   output is processed within the fuel, and a formula cell of G among them is
   listed under exceptions / not-implemented — with its address and the chain of
   its message — exactly when it raises from scratch (the bucket and the key are
   not_implemented / key_of of that chain: 'not-implemented' exactly when the
   innermost cell calls an unknown function or, for a one-cell chain, raises
   NotImplementedError) *)
Theorem C12_nothing_silently_skipped_f :
  forall W fsem fpre rorder ftext tol outs (G : nat -> Prop),
  wf W ->
  (forall n d, n < wb_n W -> G n -> In d (wb_deps W n) -> G d) ->
  (forall m, m < wb_n W -> G m -> is_fcell W m = true ->
     wb_stored W m = VNone \/ fspec W fsem fpre (wb_inp0 W) m = FVal (wb_stored W m)) ->
  (forall n v, n < wb_n W -> G n -> is_fcell W n = true ->
     fspec W fsem fpre (wb_inp0 W) n = FVal v -> is_scalar v = true) ->
  tol_pos tol ->
  (forall n, n < wb_n W -> is_fcell W n = true -> py_eq (wb_stored W n) (VStr (ftext n)) = false) ->
  (forall n vals v, n < wb_n W -> is_fcell W n = true -> fsem n vals = Some v ->
     py_eq v (VStr (ftext n)) = false) ->
  (forall o, In o outs -> o < wb_n W) ->
  forall o n, In o outs -> n = o \/ anc W n o ->
    let final := validate_f W fsem fpre rorder ftext tol false outs in
    fs_todo final = [] /\
    mem n (fs_verified final) = true /\
    (G n -> is_fcell W n = true ->
       (is_raise (fspec W fsem fpre (wb_inp0 W) n) = true ->
          exists ch, In (n, ch) (fs_exc final) /\ chain_ok W fsem fpre n ch) /\
       (is_raise (fspec W fsem fpre (wb_inp0 W) n) = false -> ~ listed (fs_exc final) n)).
Proof. exact nothing_skipped. Qed.
Print Assumptions C12_nothing_silently_skipped_f.

(* the two exception dictionaries are exactly the appended entries, each under
   the bucket and the key text its message demands *)
Theorem C12_failed_buckets : forall fpre fnimp ktext l k x,
  (in_bucket (fst (failed_buckets fpre fnimp ktext l)) k x <->
     In x l /\ not_implemented fpre fnimp (snd x) = true /\ ktext (key_of fpre (snd x)) = k) /\
  (in_bucket (snd (failed_buckets fpre fnimp ktext l)) k x <->
     In x l /\ not_implemented fpre fnimp (snd x) = false /\ ktext (key_of fpre (snd x)) = k).
Proof. exact failed_buckets_spec. Qed.
Print Assumptions C12_failed_buckets.

(* ---- the five theorems about Model/Validate.v under the WEAK non-blank
   condition of Props/C01.v (sem_nonblank_weak), i.e. for workbooks with
   whole-column references (C01_alias_weak; such a workbook does not meet
   sem_nonblank: C01_alias_not_strong).  Proofs/C12Weak.v: the loop reaches sem
   through build and evaluate only, which cannot tell sem from guard W sem in
   any state; the statements are those above with the weak condition. *)
Theorem C12_sound_weak_partial : forall W sem ftext tol,
  wf W -> sem_nonblank_weak W sem -> stored_consistent W sem -> tol_pos tol ->
  (forall n, n < wb_n W -> is_fcell W n = true -> is_scalar (spec W sem (wb_inp0 W) n) = true) ->
  (forall n vals, n < wb_n W -> is_fcell W n = true -> py_eq (sem n vals) (VStr (ftext n)) = false) ->
  forall outs, (forall o, In o outs -> o < wb_n W) ->
    vs_report (validate W sem ftext tol outs) = [].
Proof. exact sound_weak. Qed.
Print Assumptions C12_sound_weak_partial.

Theorem C12_complete_weak_partial : forall W sem ftext tol p v',
  wf W -> sem_nonblank_weak W sem -> stored_consistent W sem ->
  p < wb_n W -> is_fcell W p = true -> tol_pos tol ->
  (forall n, n < wb_n W -> is_fcell W n = true -> is_scalar (spec W sem (wb_inp0 W) n) = true) ->
  (forall n vals, n < wb_n W -> is_fcell W n = true -> py_eq (sem n vals) (VStr (ftext n)) = false) ->
  v' <> VNone -> py_eq v' (VStr (ftext p)) = false ->
  close_enough tol (spec W sem (wb_inp0 W) p) v' = false ->
  forall outs, (forall o, In o outs -> o < wb_n W) ->
    (exists o, In o outs /\ (p = o \/ anc W p o)) ->
    let r := vs_report (validate (perturb W p v') sem ftext tol outs) in
    rep_get r p = Some (v', spec W sem (wb_inp0 W) p) /\
    forall n, rep_get r n <> None -> n = p \/ anc W p n.
Proof. exact complete_weak. Qed.
Print Assumptions C12_complete_weak_partial.

Theorem C12_no_silent_skip_weak_partial : forall W sem ftext tol outs,
  wf W -> sem_nonblank_weak W sem -> stored_full W ->
  (forall n, n < wb_n W -> is_fcell W n = true -> py_eq (wb_stored W n) (VStr (ftext n)) = false) ->
  (forall n vals, n < wb_n W -> is_fcell W n = true -> py_eq (sem n vals) (VStr (ftext n)) = false) ->
  (forall n, n < wb_n W -> is_fcell W n = true -> is_scalar (spec W sem (wb_inp0 W) n) = true) ->
  tol_pos tol ->
  (forall o, In o outs -> o < wb_n W) ->
    vs_todo (validate W sem ftext tol outs) = [] /\
    forall o n, In o outs -> n = o \/ anc W n o ->
      mem n (vs_verified (validate W sem ftext tol outs)) = true.
Proof. exact processed_all_weak. Qed.
Print Assumptions C12_no_silent_skip_weak_partial.

Theorem C12_clean_not_reported_weak_partial : forall W sem ftext tol outs,
  wf W -> sem_nonblank_weak W sem -> stored_full W ->
  (forall n, n < wb_n W -> is_fcell W n = true -> py_eq (wb_stored W n) (VStr (ftext n)) = false) ->
  (forall n vals, n < wb_n W -> is_fcell W n = true -> py_eq (sem n vals) (VStr (ftext n)) = false) ->
  (forall n, n < wb_n W -> is_fcell W n = true -> is_scalar (spec W sem (wb_inp0 W) n) = true) ->
  tol_pos tol ->
  (forall o, In o outs -> o < wb_n W) ->
  forall n, clean W sem n -> rep_get (vs_report (validate W sem ftext tol outs)) n = None.
Proof. exact clean_not_reported_weak. Qed.
Print Assumptions C12_clean_not_reported_weak_partial.

Theorem C12_bad_reported_weak_partial : forall W sem ftext tol outs,
  wf W -> sem_nonblank_weak W sem -> stored_full W ->
  (forall n, n < wb_n W -> is_fcell W n = true -> py_eq (wb_stored W n) (VStr (ftext n)) = false) ->
  (forall n vals, n < wb_n W -> is_fcell W n = true -> py_eq (sem n vals) (VStr (ftext n)) = false) ->
  (forall n, n < wb_n W -> is_fcell W n = true -> is_scalar (spec W sem (wb_inp0 W) n) = true) ->
  tol_pos tol ->
  (forall o, In o outs -> o < wb_n W) ->
  forall o n, In o outs -> n = o \/ anc W n o -> n < wb_n W -> is_fcell W n = true ->
    semiclean W sem n ->
    close_enough tol (spec W sem (wb_inp0 W) n) (wb_stored W n) = false ->
    rep_get (vs_report (validate W sem ftext tol outs)) n
    = Some (wb_stored W n, spec W sem (wb_inp0 W) n).
Proof. exact bad_reported_weak. Qed.
Print Assumptions C12_bad_reported_weak_partial.

(* =============================================== a cell is reported at most once ==== *)
(* NO hypothesis: whatever the workbook, the stored results, the formula meanings,
   the tolerance, the outputs (order, repetitions) and the fuel, the addresses of the
   'mismatch' report are pairwise distinct — a cell popped twice overwrites its entry
   (contrast C12_listed_bound_f: the exception lists do repeat a cell) … *)
Theorem C12_reported_once : forall W sem ftext tol outs,
  NoDup (map fst (vs_report (validate W sem ftext tol outs))).
Proof. exact reported_once. Qed.
Print Assumptions C12_reported_once.

(* … so "the report lists (n, x)" and "the report's entry for n is x" are the same … *)
Theorem C12_reported_entry : forall W sem ftext tol outs n x,
  In (n, x) (vs_report (validate W sem ftext tol outs)) <->
  rep_get (vs_report (validate W sem ftext tol outs)) n = Some x.
Proof. exact reported_entry. Qed.
Print Assumptions C12_reported_entry.

(* … and the same for the loop with cells that raise, raise_exceptions or not *)
Theorem C12_reported_once_f : forall W fsem fpre rorder ftext tol raise_exceptions outs,
  NoDup (map fst (fs_report (validate_f W fsem fpre rorder ftext tol raise_exceptions outs))).
Proof. exact reported_once_f. Qed.
Print Assumptions C12_reported_once_f.

(* ===================================================== EVERY tolerance ==== *)
(* The five theorems about Model/Validate.v with [tol_pos tol] and the scalar
   condition REPLACED by the one consequence the loop needs: every formula cell's
   from-scratch value is close_enough to itself under the given tolerance.  That
   holds for every scalar when the tolerance is absent or positive
   (C12_close_enough_refl: the theorems above are instances), for text and error
   values under ANY tolerance — zero and negative too —, and for a number or a
   logical under no other tolerance (C12_refl_tolerance).  The remaining side
   conditions are those of the theorems above (sem_nonblank; formula texts). *)
Theorem C12_refl_tolerance : forall tol v,
  ((tol_pos tol /\ is_scalar v = true) \/ (exists s, v = VStr s) -> close_enough tol v v = true) /\
  (forall x, as_num v = Some x -> close_enough tol v v = true -> tol_pos tol).
Proof. exact refl_tolerance. Qed.
Print Assumptions C12_refl_tolerance.

(* PARTIAL (no formula computes its own text; sem_nonblank) *)
Theorem C12_sound_anytol_partial : forall W sem ftext tol,
  wf W -> sem_nonblank W sem -> stored_consistent W sem ->
  (forall n, n < wb_n W -> is_fcell W n = true ->
     close_enough tol (spec W sem (wb_inp0 W) n) (spec W sem (wb_inp0 W) n) = true) ->
  (forall n vals, n < wb_n W -> is_fcell W n = true -> py_eq (sem n vals) (VStr (ftext n)) = false) ->
  forall outs, (forall o, In o outs -> o < wb_n W) ->
    vs_report (validate W sem ftext tol outs) = [].
Proof. exact T.sound. Qed.
Print Assumptions C12_sound_anytol_partial.

(* PARTIAL (v' present and not the text of p's formula; no formula computes its own
   text; sem_nonblank) *)
Theorem C12_complete_anytol_partial : forall W sem ftext tol p v',
  wf W -> sem_nonblank W sem -> stored_consistent W sem ->
  p < wb_n W -> is_fcell W p = true ->
  (forall n, n < wb_n W -> is_fcell W n = true ->
     close_enough tol (spec W sem (wb_inp0 W) n) (spec W sem (wb_inp0 W) n) = true) ->
  (forall n vals, n < wb_n W -> is_fcell W n = true -> py_eq (sem n vals) (VStr (ftext n)) = false) ->
  v' <> VNone -> py_eq v' (VStr (ftext p)) = false ->
  close_enough tol (spec W sem (wb_inp0 W) p) v' = false ->
  forall outs, (forall o, In o outs -> o < wb_n W) ->
    (exists o, In o outs /\ (p = o \/ anc W p o)) ->
    let r := vs_report (validate (perturb W p v') sem ftext tol outs) in
    rep_get r p = Some (v', spec W sem (wb_inp0 W) p) /\
    forall n, rep_get r n <> None -> n = p \/ anc W p n.
Proof. exact T.complete. Qed.
Print Assumptions C12_complete_anytol_partial.

(* PARTIAL (no cell's stored or computed value is its formula's text; sem_nonblank) *)
Theorem C12_no_silent_skip_anytol_partial : forall W sem ftext tol outs,
  wf W -> sem_nonblank W sem -> stored_full W ->
  (forall n, n < wb_n W -> is_fcell W n = true -> py_eq (wb_stored W n) (VStr (ftext n)) = false) ->
  (forall n vals, n < wb_n W -> is_fcell W n = true -> py_eq (sem n vals) (VStr (ftext n)) = false) ->
  (forall n, n < wb_n W -> is_fcell W n = true ->
     close_enough tol (spec W sem (wb_inp0 W) n) (spec W sem (wb_inp0 W) n) = true) ->
  (forall o, In o outs -> o < wb_n W) ->
    vs_todo (validate W sem ftext tol outs) = [] /\
    forall o n, In o outs -> n = o \/ anc W n o ->
      mem n (vs_verified (validate W sem ftext tol outs)) = true.
Proof. exact T.processed_all. Qed.
Print Assumptions C12_no_silent_skip_anytol_partial.

Theorem C12_clean_not_reported_anytol_partial : forall W sem ftext tol outs,
  wf W -> sem_nonblank W sem -> stored_full W ->
  (forall n, n < wb_n W -> is_fcell W n = true -> py_eq (wb_stored W n) (VStr (ftext n)) = false) ->
  (forall n vals, n < wb_n W -> is_fcell W n = true -> py_eq (sem n vals) (VStr (ftext n)) = false) ->
  (forall n, n < wb_n W -> is_fcell W n = true ->
     close_enough tol (spec W sem (wb_inp0 W) n) (spec W sem (wb_inp0 W) n) = true) ->
  (forall o, In o outs -> o < wb_n W) ->
  forall n, clean W sem n -> rep_get (vs_report (validate W sem ftext tol outs)) n = None.
Proof. exact T.clean_not_reported. Qed.
Print Assumptions C12_clean_not_reported_anytol_partial.

Theorem C12_bad_reported_anytol_partial : forall W sem ftext tol outs,
  wf W -> sem_nonblank W sem -> stored_full W ->
  (forall n, n < wb_n W -> is_fcell W n = true -> py_eq (wb_stored W n) (VStr (ftext n)) = false) ->
  (forall n vals, n < wb_n W -> is_fcell W n = true -> py_eq (sem n vals) (VStr (ftext n)) = false) ->
  (forall n, n < wb_n W -> is_fcell W n = true ->
     close_enough tol (spec W sem (wb_inp0 W) n) (spec W sem (wb_inp0 W) n) = true) ->
  (forall o, In o outs -> o < wb_n W) ->
  forall o n, In o outs -> n = o \/ anc W n o -> n < wb_n W -> is_fcell W n = true ->
    semiclean W sem n ->
    close_enough tol (spec W sem (wb_inp0 W) n) (wb_stored W n) = false ->
    rep_get (vs_report (validate W sem ftext tol outs)) n
    = Some (wb_stored W n, spec W sem (wb_inp0 W) n).
Proof. exact T.bad_reported. Qed.
Print Assumptions C12_bad_reported_anytol_partial.

(* ------------------------- order, repetitions and choice of the checked outputs
   PARTIAL (the cells BELOW an altered cell: their entries do depend on the order of
   the outputs, coq/Refuted/C12_order.v — the property allows that; same side
   conditions as above).  The entry of a formula cell n whose strict ancestors all
   carry consistent results and whose own stored result is either its from-scratch
   value or not close_enough to it is the SAME for any two lists of outputs from
   which n is reachable: any order, any repetitions, any further outputs. *)
Theorem C12_decided_entries_partial : forall W sem ftext tol,
  wf W -> sem_nonblank W sem -> stored_full W ->
  (forall n, n < wb_n W -> is_fcell W n = true -> py_eq (wb_stored W n) (VStr (ftext n)) = false) ->
  (forall n vals, n < wb_n W -> is_fcell W n = true -> py_eq (sem n vals) (VStr (ftext n)) = false) ->
  (forall n, n < wb_n W -> is_fcell W n = true ->
     close_enough tol (spec W sem (wb_inp0 W) n) (spec W sem (wb_inp0 W) n) = true) ->
  forall outs1 outs2,
  (forall o, In o outs1 -> o < wb_n W) -> (forall o, In o outs2 -> o < wb_n W) ->
  forall n, n < wb_n W -> is_fcell W n = true -> semiclean W sem n ->
    (good W sem n \/ close_enough tol (spec W sem (wb_inp0 W) n) (wb_stored W n) = false) ->
    (exists o, In o outs1 /\ (n = o \/ anc W n o)) ->
    (exists o, In o outs2 /\ (n = o \/ anc W n o)) ->
    rep_get (vs_report (validate W sem ftext tol outs1)) n
    = rep_get (vs_report (validate W sem ftext tol outs2)) n.
Proof. exact decided_entries. Qed.
Print Assumptions C12_decided_entries_partial.

(* ============================== every tolerance AND the weak non-blank condition ====
   The strongest forms (Proofs/C12TolWeak.v): C12_*_partial, C12_*_weak_partial and
   C12_*_anytol_partial above are instances.  Still PARTIAL for the formula-text side
   conditions (and, for C12_decided_entries, the cells below an altered cell). *)
Theorem C12_sound_anytol_weak_partial : forall W sem ftext tol,
  wf W -> sem_nonblank_weak W sem -> stored_consistent W sem ->
  (forall n, n < wb_n W -> is_fcell W n = true ->
     close_enough tol (spec W sem (wb_inp0 W) n) (spec W sem (wb_inp0 W) n) = true) ->
  (forall n vals, n < wb_n W -> is_fcell W n = true -> py_eq (sem n vals) (VStr (ftext n)) = false) ->
  forall outs, (forall o, In o outs -> o < wb_n W) ->
    vs_report (validate W sem ftext tol outs) = [].
Proof. exact sound_tw. Qed.
Print Assumptions C12_sound_anytol_weak_partial.

Theorem C12_complete_anytol_weak_partial : forall W sem ftext tol p v',
  wf W -> sem_nonblank_weak W sem -> stored_consistent W sem ->
  p < wb_n W -> is_fcell W p = true ->
  (forall n, n < wb_n W -> is_fcell W n = true ->
     close_enough tol (spec W sem (wb_inp0 W) n) (spec W sem (wb_inp0 W) n) = true) ->
  (forall n vals, n < wb_n W -> is_fcell W n = true -> py_eq (sem n vals) (VStr (ftext n)) = false) ->
  v' <> VNone -> py_eq v' (VStr (ftext p)) = false ->
  close_enough tol (spec W sem (wb_inp0 W) p) v' = false ->
  forall outs, (forall o, In o outs -> o < wb_n W) ->
    (exists o, In o outs /\ (p = o \/ anc W p o)) ->
    let r := vs_report (validate (perturb W p v') sem ftext tol outs) in
    rep_get r p = Some (v', spec W sem (wb_inp0 W) p) /\
    forall n, rep_get r n <> None -> n = p \/ anc W p n.
Proof. exact complete_tw. Qed.
Print Assumptions C12_complete_anytol_weak_partial.

Theorem C12_no_silent_skip_anytol_weak_partial : forall W sem ftext tol,
  wf W -> sem_nonblank_weak W sem -> stored_full W ->
  (forall n, n < wb_n W -> is_fcell W n = true -> py_eq (wb_stored W n) (VStr (ftext n)) = false) ->
  (forall n vals, n < wb_n W -> is_fcell W n = true -> py_eq (sem n vals) (VStr (ftext n)) = false) ->
  (forall n, n < wb_n W -> is_fcell W n = true ->
     close_enough tol (spec W sem (wb_inp0 W) n) (spec W sem (wb_inp0 W) n) = true) ->
  forall outs, (forall o, In o outs -> o < wb_n W) ->
    vs_todo (validate W sem ftext tol outs) = [] /\
    forall o n, In o outs -> n = o \/ anc W n o ->
      mem n (vs_verified (validate W sem ftext tol outs)) = true.
Proof. exact processed_all_tw. Qed.
Print Assumptions C12_no_silent_skip_anytol_weak_partial.

Theorem C12_clean_not_reported_anytol_weak_partial : forall W sem ftext tol,
  wf W -> sem_nonblank_weak W sem -> stored_full W ->
  (forall n, n < wb_n W -> is_fcell W n = true -> py_eq (wb_stored W n) (VStr (ftext n)) = false) ->
  (forall n vals, n < wb_n W -> is_fcell W n = true -> py_eq (sem n vals) (VStr (ftext n)) = false) ->
  (forall n, n < wb_n W -> is_fcell W n = true ->
     close_enough tol (spec W sem (wb_inp0 W) n) (spec W sem (wb_inp0 W) n) = true) ->
  forall outs, (forall o, In o outs -> o < wb_n W) ->
  forall n, clean W sem n -> rep_get (vs_report (validate W sem ftext tol outs)) n = None.
Proof. exact clean_not_reported_tw. Qed.
Print Assumptions C12_clean_not_reported_anytol_weak_partial.

Theorem C12_bad_reported_anytol_weak_partial : forall W sem ftext tol,
  wf W -> sem_nonblank_weak W sem -> stored_full W ->
  (forall n, n < wb_n W -> is_fcell W n = true -> py_eq (wb_stored W n) (VStr (ftext n)) = false) ->
  (forall n vals, n < wb_n W -> is_fcell W n = true -> py_eq (sem n vals) (VStr (ftext n)) = false) ->
  (forall n, n < wb_n W -> is_fcell W n = true ->
     close_enough tol (spec W sem (wb_inp0 W) n) (spec W sem (wb_inp0 W) n) = true) ->
  forall outs, (forall o, In o outs -> o < wb_n W) ->
  forall o n, In o outs -> n = o \/ anc W n o -> n < wb_n W -> is_fcell W n = true ->
    semiclean W sem n ->
    close_enough tol (spec W sem (wb_inp0 W) n) (wb_stored W n) = false ->
    rep_get (vs_report (validate W sem ftext tol outs)) n
    = Some (wb_stored W n, spec W sem (wb_inp0 W) n).
Proof. exact bad_reported_tw. Qed.
Print Assumptions C12_bad_reported_anytol_weak_partial.

Theorem C12_decided_entries_weak_partial : forall W sem ftext tol,
  wf W -> sem_nonblank_weak W sem -> stored_full W ->
  (forall n, n < wb_n W -> is_fcell W n = true -> py_eq (wb_stored W n) (VStr (ftext n)) = false) ->
  (forall n vals, n < wb_n W -> is_fcell W n = true -> py_eq (sem n vals) (VStr (ftext n)) = false) ->
  (forall n, n < wb_n W -> is_fcell W n = true ->
     close_enough tol (spec W sem (wb_inp0 W) n) (spec W sem (wb_inp0 W) n) = true) ->
  forall outs1 outs2,
  (forall o, In o outs1 -> o < wb_n W) -> (forall o, In o outs2 -> o < wb_n W) ->
  forall n, n < wb_n W -> is_fcell W n = true -> semiclean W sem n ->
    (good W sem n \/ close_enough tol (spec W sem (wb_inp0 W) n) (wb_stored W n) = false) ->
    (exists o, In o outs1 /\ (n = o \/ anc W n o)) ->
    (exists o, In o outs2 /\ (n = o \/ anc W n o)) ->
    rep_get (vs_report (validate W sem ftext tol outs1)) n
    = rep_get (vs_report (validate W sem ftext tol outs2)) n.
Proof. exact decided_entries_tw. Qed.
Print Assumptions C12_decided_entries_weak_partial.
