(* Props/C12.v — property theorems only.  Model: Model/Validate.v (hand
   transcription of ExcelCompiler.validate_calcs, lines 600-659, and of
   _CellBase.close_enough, lines 1044-1053, of excelcompiler.py) on top of the
   cache machine Model/Graph.v; tied by the differential run of
   harness/props/c12.py.  Every theorem holds for EVERY well-formed workbook W
   (a DAG in topological presentation), EVERY formula semantics [sem] that never
   computes a blank, EVERY tolerance that is absent or positive, and EVERY list
   of checked outputs (validate_calcs(output_addrs=None) is the list of all
   formula cells).

   Vocabulary (Proofs/C01Base.v, C01.v, C12Base.v, C12.v):
     wf W, sem_nonblank, spec W sem inp n, anc W a n      as in Props/C01.v
     is_fcell W n         n is a formula cell (not an input, not a range node)
     stored_consistent    stored n = from-scratch value, for every formula cell
     stored_full W        every formula cell has a stored result (not None)
     perturb W p v'       W with the stored result of p replaced by v'
     good b / clean n / semiclean n
                          stored b = spec b / n and all its ancestors are good /
                          all strict ancestors of n are good
     tol_pos tol          tolerance=None or tolerance > 0
     is_scalar v          logical, number or text (error values are text)
     validate W sem ftext tol outs
                          the final state of the loop: vs_report = the 'mismatch'
                          dictionary (rep_get r n = Some (original, calced)),
                          vs_verified = the set [verified], vs_todo = what is
                          left on the stack when the fuel
                          |outs| + |edges| + 1 runs out
     ftext n              str(cell.formula): a cell whose value equals this text
                          is skipped by the loop ('No Orig data?', lines 635-637)

   Side conditions that the implementation really needs (faithful model
   refutes the statement without them, coq/Refuted/C12_*.v):
     tol_pos                       tolerance=0 reports every number cell
     v' is not the formula's text  such a cell is skipped silently, and so are
                                   the precedents only it reaches
   Side conditions of the proof only: from-scratch values of formula cells are
   scalars (close_enough is then reflexive); no formula computes its own text.
   ORACLE-ONLY: the classification of cells that raise into 'exceptions' /
   'not-implemented' (formula meaning is total in the model). *)
From Coq Require Import List QArith.
From PV Require Import Lib.Py Model.Graph Model.Validate.
From PV Require Import Proofs.C01Base Proofs.C01 Proofs.C12Base Proofs.C12.
Import ListNotations.
Local Open Scope nat_scope.

(* PARTIAL (tolerance absent or positive): on a workbook whose stored results
   are what its formulas produce, the report is empty — whatever the outputs *)
Theorem C12_sound_partial : forall W sem ftext tol,
  wf W -> sem_nonblank W sem -> stored_consistent W sem -> tol_pos tol ->
  (forall n, n < wb_n W -> is_fcell W n = true -> is_scalar (spec W sem (wb_inp0 W) n) = true) ->
  (forall n vals, n < wb_n W -> is_fcell W n = true -> py_eq (sem n vals) (VStr (ftext n)) = false) ->
  forall outs, (forall o, In o outs -> o < wb_n W) ->
    vs_report (validate W sem ftext tol outs) = [].
Proof. exact sound. Qed.
Print Assumptions C12_sound_partial.

(* PARTIAL (v' present and not the text of p's formula; tolerance absent or
   positive): if the stored result of ONE formula cell p reachable from the
   outputs is replaced by a value v' that is not close_enough to the true value,
   p is reported with (original, calced) = (v', true value), and every reported
   cell is p or has p among its ancestors — whatever the pop order *)
Theorem C12_complete_partial : forall W sem ftext tol p v',
  wf W -> sem_nonblank W sem -> stored_consistent W sem ->
  p < wb_n W -> is_fcell W p = true -> tol_pos tol ->
  (forall n, n < wb_n W -> is_fcell W n = true -> is_scalar (spec W sem (wb_inp0 W) n) = true) ->
  (forall n vals, n < wb_n W -> is_fcell W n = true -> py_eq (sem n vals) (VStr (ftext n)) = false) ->
  v' <> VNone -> py_eq v' (VStr (ftext p)) = false ->
  close_enough tol (spec W sem (wb_inp0 W) p) v' = false ->
  forall outs, (forall o, In o outs -> o < wb_n W) ->
    (exists o, In o outs /\ (p = o \/ anc W p o)) ->
    let r := vs_report (validate (perturb W p v') sem ftext tol outs) in
    rep_get r p = Some (v', spec W sem (wb_inp0 W) p) /\
    forall n, rep_get r n <> None -> n = p \/ anc W p n.
Proof. exact complete. Qed.
Print Assumptions C12_complete_partial.

(* PARTIAL (no cell's stored or computed value is its formula's text; the
   exceptions / not-implemented buckets are oracle-only): for ANY stored results
   (consistent or not) the loop ends with an empty stack within the fuel, and
   every node the outputs depend on has been processed (is in [verified]) *)
Theorem C12_no_silent_skip_partial : forall W sem ftext tol outs,
  wf W -> sem_nonblank W sem -> stored_full W ->
  (forall n, n < wb_n W -> is_fcell W n = true -> py_eq (wb_stored W n) (VStr (ftext n)) = false) ->
  (forall n vals, n < wb_n W -> is_fcell W n = true -> py_eq (sem n vals) (VStr (ftext n)) = false) ->
  (forall n, n < wb_n W -> is_fcell W n = true -> is_scalar (spec W sem (wb_inp0 W) n) = true) ->
  tol_pos tol ->
  (forall o, In o outs -> o < wb_n W) ->
    vs_todo (validate W sem ftext tol outs) = [] /\
    forall o n, In o outs -> n = o \/ anc W n o ->
      mem n (vs_verified (validate W sem ftext tol outs)) = true.
Proof. exact processed_all. Qed.
Print Assumptions C12_no_silent_skip_partial.

(* the general forms (any number of altered stored results): a cell whose own
   and whose ancestors' stored results are consistent is never reported … *)
Theorem C12_clean_not_reported_partial : forall W sem ftext tol outs,
  wf W -> sem_nonblank W sem -> stored_full W ->
  (forall n, n < wb_n W -> is_fcell W n = true -> py_eq (wb_stored W n) (VStr (ftext n)) = false) ->
  (forall n vals, n < wb_n W -> is_fcell W n = true -> py_eq (sem n vals) (VStr (ftext n)) = false) ->
  (forall n, n < wb_n W -> is_fcell W n = true -> is_scalar (spec W sem (wb_inp0 W) n) = true) ->
  tol_pos tol ->
  (forall o, In o outs -> o < wb_n W) ->
  forall n, clean W sem n -> rep_get (vs_report (validate W sem ftext tol outs)) n = None.
Proof. exact clean_not_reported. Qed.
Print Assumptions C12_clean_not_reported_partial.

(* … and a reachable formula cell with consistent ancestors whose stored result
   is not close to its from-scratch value is reported with exactly that pair *)
Theorem C12_bad_reported_partial : forall W sem ftext tol outs,
  wf W -> sem_nonblank W sem -> stored_full W ->
  (forall n, n < wb_n W -> is_fcell W n = true -> py_eq (wb_stored W n) (VStr (ftext n)) = false) ->
  (forall n vals, n < wb_n W -> is_fcell W n = true -> py_eq (sem n vals) (VStr (ftext n)) = false) ->
  (forall n, n < wb_n W -> is_fcell W n = true -> is_scalar (spec W sem (wb_inp0 W) n) = true) ->
  tol_pos tol ->
  (forall o, In o outs -> o < wb_n W) ->
  forall o n, In o outs -> n = o \/ anc W n o -> n < wb_n W -> is_fcell W n = true ->
    semiclean W sem n ->
    close_enough tol (spec W sem (wb_inp0 W) n) (wb_stored W n) = false ->
    rep_get (vs_report (validate W sem ftext tol outs)) n
    = Some (wb_stored W n, spec W sem (wb_inp0 W) n).
Proof. exact bad_reported. Qed.
Print Assumptions C12_bad_reported_partial.

(* close_enough relates every scalar to itself when the tolerance is absent or
   positive (what makes a second pop of a cell harmless) *)
Theorem C12_close_enough_refl : forall tol v,
  tol_pos tol -> is_scalar v = true -> close_enough tol v v = true.
Proof. exact close_enough_refl. Qed.
Print Assumptions C12_close_enough_refl.

(* output_addrs=None is an instance of every theorem above: outs = all_formulas W *)
Theorem C12_outputs_default : forall W o, In o (all_formulas W) -> o < wb_n W.
Proof. exact all_formulas_lt. Qed.
Print Assumptions C12_outputs_default.
