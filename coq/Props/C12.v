(* Props/C12.v — to be filled *)
