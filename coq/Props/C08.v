(* Props/C08.v — property theorems only: trim_graph preserves the outputs as a
   function of the inputs.  Model: Model/Trim.v (hand transcription of
   ExcelCompiler.trim_graph, excelcompiler.py lines 501-576, tied by the
   differential run) on the machine of Model/Graph.v.  Every theorem holds for
   EVERY well-formed workbook W, EVERY formula semantics [sem] that never
   computes a blank (C01's side condition (d)), EVERY state s that satisfies
   C01's invariant (any admissible history before the trim), EVERY input list
   I and output list O.

   Vocabulary:
     trim W sem I O s    the record (tr_wb, tr_st, tr_need, tr_frz, tr_proc):
                         workbook and machine state after the trim (a frozen
                         cell is an input cell of tr_wb holding the value it
                         had; a deleted cell is not built), needed_cells,
                         the cells that went through the freezing branch
     build_all W sem O s the untrimmed machine after step 1 (_gen_graph(outputs))
     io_op I O o         o is SetValue a v with a in I and v an Excel scalar, or
                         Evaluate n with n in O
     run_spec W sem inp h   (C01) the trace of from-scratch values of workbook W
                         along history h, starting from the input values inp
     anc W a n           a is a strict ancestor (transitive precedent) of n
     late_ok             C01's side condition (c), trivial without stored results

   The save/load leg of the property (to_file/from_file of the trimmed model)
   is not modelled: oracle of harness/props/c08.py, and C03.  Inputs given as a
   RANGE are refuted: Refuted/C08_range_input.v. *)
From Coq Require Import List.
From PV Require Import Lib.Py Model.Graph Model.Trim.
From PV Require Import Proofs.C01Base Proofs.C01Inv Proofs.C01 Proofs.C08.
From PV Require Import Model.TrimKeep Proofs.C01Weak Proofs.C08Weak Proofs.C08Keep.
Import ListNotations.

(* a frozen cell is not a descendant of any input, so its from-scratch value is
   the same under every assignment of the inputs *)
Theorem C08_frozen_independent : forall W sem, wf W -> sem_nonblank W sem -> stored_ok W sem ->
  forall I O s, Inv W sem s -> (forall o, In o O -> o < wb_n W) ->
  forall f, tr_frz (trim W sem I O s) f = true ->
    (forall a, In a I -> ~ anc W a f) /\
    (~ In f I -> forall inp inp', (forall m, ~ In m I -> inp m = inp' m) ->
                 spec W sem inp f = spec W sem inp' f).
Proof. exact frozen_independent. Qed.
Print Assumptions C08_frozen_independent.

(* inputs that are input cells feeding the outputs: after the trim, ANY
   interleaving of writes to the inputs and evaluations of the outputs returns
   the from-scratch values of the ORIGINAL workbook under the original inputs
   overridden by the values written so far *)
Theorem C08_preserve : forall W sem, wf W -> sem_nonblank W sem -> stored_ok W sem ->
  forall I O s, Inv W sem s -> (forall o, In o O -> o < wb_n W) ->
  (forall a, In a I -> wb_input W a = true /\ exists o, In o O /\ anc W a o) ->
  (forall a, In a I -> scalar_exact (st_cache s a) = true) ->
  forall h, Forall (io_op I O) h ->
    snd (run (tr_wb (trim W sem I O s)) sem (tr_st (trim W sem I O s)) h)
    = run_spec W sem (st_cache (build_all W sem O s)) h.
Proof. exact preserve_spec. Qed.
Print Assumptions C08_preserve.

(* ... which is exactly what the untrimmed machine returns for the same history *)
Theorem C08_preserve_machine : forall W sem, wf W -> sem_nonblank W sem -> stored_ok W sem ->
  forall I O s, Inv W sem s -> (forall o, In o O -> o < wb_n W) ->
  (forall a, In a I -> wb_input W a = true /\ exists o, In o O /\ anc W a o) ->
  (forall a, In a I -> scalar_exact (st_cache s a) = true) ->
  inputs_exact W (st_cache s) ->
  (forall a, In a I -> late_ok W (build_all W sem O s) a) ->
  forall h, Forall (io_op I O) h ->
    snd (run (tr_wb (trim W sem I O s)) sem (tr_st (trim W sem I O s)) h)
    = snd (run W sem (build_all W sem O s) h).
Proof. exact preserve_machine. Qed.
Print Assumptions C08_preserve_machine.

(* PARTIAL (C08_preserve_buried): inputs that may be "buried" formula cells.
   Every input that survives the trim as an input cell of the trimmed workbook
   (an input cell of W, or a formula cell the trim froze because it is not
   below another input) can be written, and every evaluate of an output
   returns the from-scratch value of the TRIMMED workbook — the workbook in
   which the buried input is the constant written last.  Missing for the full
   statement: that the untrimmed machine, after set_value on a formula cell,
   returns the same values (set_value on a formula cell is outside C01's
   theorems); that leg is covered by the differential run only (Model/Graph.v
   against the untrimmed compiler, Model/Trim.v against the trimmed one, and
   the oracle trimmed = untrimmed). *)
Theorem C08_preserve_buried_partial : forall W sem, wf W -> sem_nonblank W sem -> stored_ok W sem ->
  forall I O s, Inv W sem s -> (forall o, In o O -> o < wb_n W) ->
  (forall a, In a I -> wb_input (tr_wb (trim W sem I O s)) a = true
                       /\ st_built (tr_st (trim W sem I O s)) a = true
                       /\ scalar_exact (st_cache (tr_st (trim W sem I O s)) a) = true) ->
  forall h, Forall (io_op I O) h ->
    snd (run (tr_wb (trim W sem I O s)) sem (tr_st (trim W sem I O s)) h)
    = run_spec (tr_wb (trim W sem I O s)) sem (st_cache (tr_st (trim W sem I O s))) h.
Proof. exact trimmed_coherent. Qed.
Print Assumptions C08_preserve_buried_partial.

(* ---- the same theorems under the WEAK non-blank condition of Props/C01.v
   (sem_nonblank_weak: a formula/range node computes a non-blank value from
   argument lists whose formula/range arguments are non-blank), which a
   workbook with a whole-column reference meets (C01_alias_weak) although it
   does not meet sem_nonblank (C01_alias_not_strong).  Proofs/C08Weak.v: by
   transfer from the theorems above (trim and the runs of the property cannot
   tell sem from guard W sem).
     nonblank_write W o   o is not SetValue a None with a a formula cell of W
                          (a buried input is not written blank: a reference
                          node would hand the blank on, and the dependants of
                          a blank node are not reset: Refuted/C08_buried_weak_blank.v) *)

Theorem C08_frozen_independent_weak : forall W sem, wf W -> sem_nonblank_weak W sem -> stored_ok W sem ->
  forall I O s, Inv W sem s -> (forall o, In o O -> o < wb_n W) ->
  forall f, tr_frz (trim W sem I O s) f = true ->
    (forall a, In a I -> ~ anc W a f) /\
    (~ In f I -> forall inp inp', (forall m, ~ In m I -> inp m = inp' m) ->
                 spec W sem inp f = spec W sem inp' f).
Proof. exact frozen_independent_weak. Qed.
Print Assumptions C08_frozen_independent_weak.

Theorem C08_preserve_weak : forall W sem, wf W -> sem_nonblank_weak W sem -> stored_ok W sem ->
  forall I O s, Inv W sem s -> (forall o, In o O -> o < wb_n W) ->
  (forall a, In a I -> wb_input W a = true /\ exists o, In o O /\ anc W a o) ->
  (forall a, In a I -> scalar_exact (st_cache s a) = true) ->
  forall h, Forall (io_op I O) h ->
    snd (run (tr_wb (trim W sem I O s)) sem (tr_st (trim W sem I O s)) h)
    = run_spec W sem (st_cache (build_all W sem O s)) h.
Proof. exact preserve_spec_weak. Qed.
Print Assumptions C08_preserve_weak.

Theorem C08_preserve_machine_weak : forall W sem, wf W -> sem_nonblank_weak W sem -> stored_ok W sem ->
  forall I O s, Inv W sem s -> (forall o, In o O -> o < wb_n W) ->
  (forall a, In a I -> wb_input W a = true /\ exists o, In o O /\ anc W a o) ->
  (forall a, In a I -> scalar_exact (st_cache s a) = true) ->
  inputs_exact W (st_cache s) ->
  (forall a, In a I -> late_ok W (build_all W sem O s) a) ->
  forall h, Forall (io_op I O) h ->
    snd (run (tr_wb (trim W sem I O s)) sem (tr_st (trim W sem I O s)) h)
    = snd (run W sem (build_all W sem O s) h).
Proof. exact preserve_machine_weak. Qed.
Print Assumptions C08_preserve_machine_weak.

(* PARTIAL as C08_preserve_buried_partial, and with one more hypothesis: a
   buried input is not written blank (nonblank_write) *)
Theorem C08_preserve_buried_weak_partial : forall W sem, wf W -> sem_nonblank_weak W sem -> stored_ok W sem ->
  forall I O s, Inv W sem s -> (forall o, In o O -> o < wb_n W) ->
  (forall a, In a I -> wb_input (tr_wb (trim W sem I O s)) a = true
                       /\ st_built (tr_st (trim W sem I O s)) a = true
                       /\ scalar_exact (st_cache (tr_st (trim W sem I O s)) a) = true) ->
  forall h, Forall (io_op I O) h -> Forall (nonblank_write W) h ->
    snd (run (tr_wb (trim W sem I O s)) sem (tr_st (trim W sem I O s)) h)
    = run_spec (tr_wb (trim W sem I O s)) sem (st_cache (tr_st (trim W sem I O s))) h.
Proof. exact trimmed_coherent_weak. Qed.
Print Assumptions C08_preserve_buried_weak_partial.

(* ---- repair 17855a0 of /repo: walk_precedents keeps the reference cell of an
   unbounded range whenever it walks into it.  Model/TrimKeep.v trim_keepref
   W sem unb I O s is trim with that line; unb n = node n is such a reference
   cell, which is a node of range kind.  The two functions give the same
   workbook, the same frozen cells, the same value for every cell of trim's
   cell map; the cell map of trim_keepref is larger by reference nodes that the
   walk processed, and by nothing else *)
Theorem C08_keepref_same : forall W sem unb, (forall m, unb m = true -> wb_range W m = true) ->
  forall I O s,
    tr_wb (trim_keepref W sem unb I O s) = tr_wb (trim W sem I O s) /\
    tr_frz (trim_keepref W sem unb I O s) = tr_frz (trim W sem I O s) /\
    (forall m, st_built (tr_st (trim W sem I O s)) m = true ->
               st_built (tr_st (trim_keepref W sem unb I O s)) m = true /\
               st_cache (tr_st (trim_keepref W sem unb I O s)) m
               = st_cache (tr_st (trim W sem I O s)) m) /\
    (forall m, st_built (tr_st (trim_keepref W sem unb I O s)) m = true ->
               st_built (tr_st (trim W sem I O s)) m = false ->
               unb m = true /\ tr_proc (trim W sem I O s) m = true) /\
    (forall m, unb m = false -> st_built (tr_st (trim_keepref W sem unb I O s)) m
                                = st_built (tr_st (trim W sem I O s)) m).
Proof. exact keep_same. Qed.
Print Assumptions C08_keepref_same.

(* ... and every history of the property returns the same values after
   trim_keepref as after trim (hypotheses of C08_preserve_buried_partial, the
   most general ones), so C08_preserve, C08_preserve_machine and
   C08_preserve_buried_partial hold for trim_keepref as they stand *)
Theorem C08_keepref_outputs : forall W sem unb, wf W ->
  (forall m, unb m = true -> wb_range W m = true) ->
  forall I O s, (forall o, In o O -> o < wb_n W) ->
  sem_nonblank W sem -> stored_ok W sem -> Inv W sem s ->
  (forall a, In a I -> wb_input (tr_wb (trim W sem I O s)) a = true
                       /\ st_built (tr_st (trim W sem I O s)) a = true
                       /\ scalar_exact (st_cache (tr_st (trim W sem I O s)) a) = true) ->
  forall h, Forall (io_op I O) h ->
    snd (run (tr_wb (trim_keepref W sem unb I O s)) sem (tr_st (trim_keepref W sem unb I O s)) h)
    = snd (run (tr_wb (trim W sem I O s)) sem (tr_st (trim W sem I O s)) h).
Proof. exact keep_outputs. Qed.
Print Assumptions C08_keepref_outputs.

(* the same under the weak condition — the one a workbook that HAS such a
   reference cell meets *)
Theorem C08_keepref_outputs_weak : forall W sem unb, wf W ->
  (forall m, unb m = true -> wb_range W m = true) ->
  forall I O s, (forall o, In o O -> o < wb_n W) ->
  sem_nonblank_weak W sem -> stored_ok W sem -> Inv W sem s ->
  (forall a, In a I -> wb_input (tr_wb (trim W sem I O s)) a = true
                       /\ st_built (tr_st (trim W sem I O s)) a = true
                       /\ scalar_exact (st_cache (tr_st (trim W sem I O s)) a) = true) ->
  forall h, Forall (io_op I O) h -> Forall (nonblank_write W) h ->
    snd (run (tr_wb (trim_keepref W sem unb I O s)) sem (tr_st (trim_keepref W sem unb I O s)) h)
    = snd (run (tr_wb (trim W sem I O s)) sem (tr_st (trim W sem I O s)) h).
Proof. exact keep_outputs_weak. Qed.
Print Assumptions C08_keepref_outputs_weak.

(* ---- the clause "cells that feed the outputs but do not depend on an input
   are frozen to the value they had at trim time", and the shape of cell_map
   after the trim (Proofs/C08Frozen.v; a frozen cell exists in
   Proofs/C08Example.v t_frozen). *)
From PV Require Import Proofs.C08Frozen.

(* a frozen cell is kept, is an input (value) cell of the trimmed workbook, and
   holds the from-scratch value of the ORIGINAL workbook under the inputs as
   they were at trim time *)
Theorem C08_frozen_holds_value : forall W sem, wf W -> sem_nonblank W sem -> stored_ok W sem ->
  forall I O s, Inv W sem s -> (forall o, In o O -> o < wb_n W) ->
  forall f, tr_frz (trim W sem I O s) f = true ->
    st_built (tr_st (trim W sem I O s)) f = true /\
    wb_input (tr_wb (trim W sem I O s)) f = true /\
    st_cache (tr_st (trim W sem I O s)) f = spec W sem (st_cache (build_all W sem O s)) f.
Proof. exact frozen_holds_value. Qed.
Print Assumptions C08_frozen_holds_value.

(* every output is in cell_map after the trim *)
Theorem C08_outputs_kept : forall W sem, wf W -> sem_nonblank W sem -> stored_ok W sem ->
  forall I O s, Inv W sem s -> (forall o, In o O -> o < wb_n W) ->
  forall o, In o O -> st_built (tr_st (trim W sem I O s)) o = true.
Proof. exact trim_outputs_kept. Qed.
Print Assumptions C08_outputs_kept.

(* cell_map after the trim is exactly the needed cells among the cells built by
   step 1: the trim adds no cell, and deletes every cell that is not needed *)
Theorem C08_kept_is_needed : forall W sem, wf W -> sem_nonblank W sem -> stored_ok W sem ->
  forall I O s, Inv W sem s -> (forall o, In o O -> o < wb_n W) ->
  forall n, st_built (tr_st (trim W sem I O s)) n
            = (st_built (build_all W sem O s) n && tr_need (trim W sem I O s) n)%bool.
Proof. exact trim_kept_needed. Qed.
Print Assumptions C08_kept_is_needed.

Theorem C08_only_deletes : forall W sem, wf W -> sem_nonblank W sem -> stored_ok W sem ->
  forall I O s, Inv W sem s -> (forall o, In o O -> o < wb_n W) ->
  forall n, st_built (tr_st (trim W sem I O s)) n = true -> st_built (build_all W sem O s) n = true.
Proof. exact trim_only_deletes. Qed.
Print Assumptions C08_only_deletes.
