(* Props/C08.v — to be filled *)
