(* Props/C15.v — property theorems only. *)
From Coq Require Import ZArith QArith List.
From PV Require Import Lib.Py Model.Criteria Proofs.C15.
From PV Require Gen.excelutil.
Import ListNotations.
Open Scope Z_scope.

Theorem C15_sumif_is_sumifs : forall rng crit sr, sr <> VNone ->
  sumif rng crit sr = sumifs sr [rng; crit].
Proof. exact sumif_is_sumifs. Qed.
Print Assumptions C15_sumif_is_sumifs.
