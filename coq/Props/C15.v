(* Props/C15.v — property theorems only.  Model: Model/Criteria.v (hand
   transcription of criteria_parser / build_wildcard_re / handle_ifs and the
   eight consumers, tied by the correspondence run) over Gen/excelutil.v
   (is_number, coerce_to_number, list_like, OPERATORS, ERROR_CODES:
   regenerated from the source on every run). *)
From Coq Require Import ZArith QArith List Permutation.
From PV Require Import Lib.Py Model.Criteria Proofs.C15.
From PV Require Gen.excelutil.
Import ListNotations.
Open Scope Z_scope.

(* the regex-free model of the generated wildcard pattern is the declarative
   ?/* matcher (Glob: ? = one character, * = any sequence), all patterns and texts *)
Theorem C15_glob : forall p s, glob_match p s = true <-> Glob p s.
Proof. exact glob_spec. Qed.
Print Assumptions C15_glob.

(* the closure built by criteria_parser decides the declarative meaning Sat of
   the criterion, for every criterion of the model and every cell on which it
   returns *)
Theorem C15_sat : forall c x b, sat c x = Ok b -> (b = true <-> Sat c x).
Proof. exact sat_spec. Qed.
Print Assumptions C15_sat.

(* numeric operand: text and blank never satisfy <, <=, >, >= (nor =) and
   always satisfy <>; numbers compare numerically *)
Theorem C15_text_only_ne : forall o n s,
  sat (COpNum o n) (VStr s) = Ok (is_ne o) /\ sat (COpNum o n) VNone = Ok (is_ne o).
Proof. exact (fun o n s => conj (text_only_ne o n s) (blank_only_ne o n)). Qed.
Print Assumptions C15_text_only_ne.
Theorem C15_number_compares : forall o n z, sat (COpNum o n) (VInt z) = cmp_cop o (VInt z) n.
Proof. exact number_compares. Qed.
Print Assumptions C15_number_compares.

(* text operand: case-insensitive comparison (v is the lower-cased operand) *)
Theorem C15_text_case_insensitive : forall a v, non_ascii a = false ->
  sat (COpText OEq v) (VStr a) = Ok (str_eqb (map ascii_lower a) v).
Proof. exact text_case_insensitive. Qed.
Print Assumptions C15_text_case_insensitive.

(* C15_select.  Whenever handle_ifs returns positions (any number of criteria
   pairs, any range sizes, cells of any type, any criteria of the modelled
   class), they are, without repetition, exactly the positions i such that for
   every pair the cell i of the pair's range satisfies (Sat) the pair's parsed
   criterion.  That it does return: C15_total below. *)
Theorem C15_select : forall args op coords, handle_ifs args op = Ok (inr coords) ->
  exists prs, shape_stage args op = Ok (inr prs) /\ prs <> []
    /\ NoDup coords
    /\ forall i, In i coords <-> (forall rows crit, In (rows, crit) prs -> cell_sat i rows crit).
Proof. exact handle_ifs_sound. Qed.
Print Assumptions C15_select.

(* ... where the pairs are the argument pairs in order, each range given by its rows *)
Theorem C15_select_pairs : forall args op prs, shape_stage args op = Ok (inr prs) ->
  prs <> [] /\ exists raw, pair_up args = Some raw /\ map snd prs = map snd raw
    /\ Forall2 range_rows raw (map fst prs).
Proof. exact shape_stage_pairs. Qed.
Print Assumptions C15_select_pairs.

(* each consumer aggregates exactly the cells at those positions *)
Theorem C15_countifs_counts : forall args coords, handle_ifs args None = Ok (inr coords) ->
  countifs args = Ok (VInt (zlen coords)).
Proof. exact countifs_spec. Qed.
Print Assumptions C15_countifs_counts.
Theorem C15_sumifs_sums : forall ar args sr coords cells,
  wrap ar = Ok sr -> handle_ifs args (Some sr) = Ok (inr coords) ->
  mapM (getcell sr) coords = Ok cells -> Forall numcell cells ->
  sumifs ar args = py_sum_list cells (VInt 0).
Proof. exact sumifs_spec. Qed.
Print Assumptions C15_sumifs_sums.
Theorem C15_maxifs_minifs : forall ar args sr coords cells,
  wrap ar = Ok sr -> handle_ifs args (Some sr) = Ok (inr coords) ->
  mapM (getcell sr) coords = Ok cells -> Forall numcell cells ->
  maxifs ar args = try_except (py_max_list cells) [ValueError] (Ok (VInt 0))
  /\ minifs ar args = try_except (py_min_list cells) [ValueError] (Ok (VInt 0)).
Proof. exact maxifs_spec. Qed.
Print Assumptions C15_maxifs_minifs.

(* the one-criterion IFS form equals the IF form *)
Theorem C15_ifs_eq_if : forall rng crit r rows,
  wrap rng = Ok r -> as_rows r = Ok rows -> rows <> [] ->
  countifs [rng; crit] = countif rng crit.
Proof. exact countifs_countif. Qed.
Print Assumptions C15_ifs_eq_if.
Theorem C15_ifs_eq_if_sum_average : forall rng crit ar,
  sumif rng crit VNone = sumifs rng [rng; crit]
  /\ averageif rng crit VNone = averageifs rng [rng; crit]
  /\ (ar <> VNone -> sumif rng crit ar = sumifs ar [rng; crit]
                     /\ averageif rng crit ar = averageifs ar [rng; crit]).
Proof.
  exact (fun rng crit ar => conj (sumif_default rng crit) (conj (averageif_default rng crit)
    (fun H => conj (sumif_sumifs rng crit ar H) (averageif_averageifs rng crit ar H)))).
Qed.
Print Assumptions C15_ifs_eq_if_sum_average.

(* criteria pairs commute: any permutation of the pairs succeeds as well and
   selects the same set of positions *)
Theorem C15_commute : forall prs prs' a, prs <> [] -> Permutation prs prs' ->
  select_stage prs = Ok a ->
  exists b, select_stage prs' = Ok b /\ NoDup b /\ forall i, In i a <-> In i b.
Proof. exact commute. Qed.
Print Assumptions C15_commute.

(* "=v" and "<>v" are complementary on a cell / partition a range, for a text
   operand without wildcards, and for a numeric operand over cells that are
   blank, logical, integer, float or text that is_number rejects (part_ok).
   The full statement is refuted: Refuted/C15_partition.v (wildcard operand;
   numeric text cell). *)
Theorem C15_partition_partial : forall v x b, plain_operand v ->
  (is_num (VStr v) = Ok false /\ has_wild v = false /\ (exists w, lower_str v = Ok w))
  \/ (is_num (VStr v) = Ok true /\ (exists n, to_num (VStr v) = Ok n) /\ part_ok x) ->
  criteria_check (VStr (61 :: v)) x = Ok (VBool b) ->
  criteria_check (VStr (60 :: 62 :: v)) x = Ok (VBool (negb b)).
Proof. exact partition_cell. Qed.
Print Assumptions C15_partition_partial.
Theorem C15_partition_range_partial : forall v rows l1 l2, plain_operand v ->
  (is_num (VStr v) = Ok false /\ has_wild v = false /\ (exists w, lower_str v = Ok w))
  \/ (is_num (VStr v) = Ok true /\ (exists n, to_num (VStr v) = Ok n)
      /\ forall i x, In (i, x) (enum_rows 0 rows) -> part_ok x) ->
  scan rows (VStr (61 :: v)) = Ok l1 -> scan rows (VStr (60 :: 62 :: v)) = Ok l2 ->
  forall i x, In (i, x) (enum_rows 0 rows) -> (In i l1 <-> ~ In i l2).
Proof. exact partition_range. Qed.
Print Assumptions C15_partition_range_partial.

(* over numeric data (the selected cells are ints/floats, at least one)
   AVERAGEIFS = SUMIFS / COUNTIFS *)
Theorem C15_avg : forall ar args sr coords cells,
  wrap ar = Ok sr -> handle_ifs args (Some sr) = Ok (inr coords) ->
  mapM (getcell sr) coords = Ok cells -> Forall numcell cells -> cells <> [] ->
  averageifs ar args = (s <- sumifs ar args ;; c <- countifs args ;; py_truediv s c).
Proof. exact average_is_sum_over_count. Qed.
Print Assumptions C15_avg.

(* C15_total.  Over ranges of scalar cells (number, text, logical, blank: any
   mix) and number/logical/text criteria, handle_ifs returns positions or the
   #VALUE! of a shape mismatch; it raises only AssertionError (arguments not
   in pairs) or IndexError (an empty range), or the input is outside the model
   (Unmodelled: regex metacharacters in a wildcard, line feeds, non-ASCII / inf /
   nan spellings in a numeric test).  No cell and no criterion makes it fail. *)
Theorem C15_total : forall args op,
  (forall prs, shape_stage args op = Ok (inr prs) ->
     forall rows crit, In (rows, crit) prs -> crit_scalar crit /\ scalar_rows rows) ->
  raises_only shape_exn (handle_ifs args op).
Proof. exact handle_ifs_never_fails. Qed.
Print Assumptions C15_total.

(* once the shape checks have passed: positions, never an exception *)
Theorem C15_total_positions : forall args op prs, shape_stage args op = Ok (inr prs) ->
  (forall rows crit, In (rows, crit) prs -> crit_scalar crit /\ scalar_rows rows) ->
  (exists coords, handle_ifs args op = Ok (inr coords)) \/ handle_ifs args op = Raise Unmodelled.
Proof. exact handle_ifs_total. Qed.
Print Assumptions C15_total_positions.

Theorem C15_total_countifs : forall args prs, shape_stage args None = Ok (inr prs) ->
  (forall rows crit, In (rows, crit) prs -> crit_scalar crit /\ scalar_rows rows) ->
  (exists n, countifs args = Ok (VInt n)) \/ countifs args = Raise Unmodelled.
Proof. exact countifs_total. Qed.
Print Assumptions C15_total_countifs.

(* the two ingredients: every number/logical/text criterion parses, and the
   parsed check never raises on a scalar cell (a wildcard over a number, a
   logical or a blank is simply false) *)
Theorem C15_total_parse : forall crit, crit_scalar crit ->
  (exists c, parse_criteria crit = Ok c /\ crit_ok c) \/ parse_criteria crit = Raise Unmodelled.
Proof. exact parse_total. Qed.
Print Assumptions C15_total_parse.
Theorem C15_total_sat : forall c x, crit_ok c -> is_scalar x = true ->
  (exists b, sat c x = Ok b) \/ sat c x = Raise Unmodelled.
Proof. exact sat_total. Qed.
Print Assumptions C15_total_sat.
Theorem C15_wildcard_nontext : forall p x, (forall s, x <> VStr s) -> sat (CWild p) x = Ok false.
Proof. exact wild_nontext. Qed.
Print Assumptions C15_wildcard_nontext.
