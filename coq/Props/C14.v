From Coq Require Import ZArith List.
From PV Require Import Lib.Py Proofs.C14.
Theorem C14_placeholder : 1 = 1.
Proof. exact placeholder. Qed.
Print Assumptions C14_placeholder.
