(* Props/C14.v — property theorems only.  Models: Gen/aggregates.v
   (_numerics, sum_) and Gen/stats.v (average, count, max_, min_) are
   regenerated from /repo/src/pycel/excellib.py and lib/stats.py on every run;
   Gen/excelformula.v holds the generated SUBTOTAL_FUNCS table;
   Model/Aggregates.v is the hand-written sumproduct / SUBTOTAL dispatch.
   Vocabulary (Proofs/C14.v): cells_of args = the row-major cells of the
   argument list; nums = the VInt / VFloat cells among them; qv = the rational
   a numeric value stands for; first_error = the first cell that is one of
   the error codes; sum_ args = aggregates.f_sum_ (VTuple args) etc. *)
From Coq Require Import ZArith QArith List Permutation.
From PV Require Import Lib.Py Model.Aggregates Proofs.C14.
From PV Require Gen.excelutil Gen.aggregates Gen.stats Gen.excelformula.
Import ListNotations.
Open Scope Z_scope.

Theorem C14_numeric_only : forall args,
  scalars (cells_of args) -> first_error (cells_of args) = None ->
  let ns := nums (cells_of args) in
  (exists s, sum_ args = Ok s /\ numeric s = true /\ (qv s == sum_q ns)%Q)
  /\ count args = Ok (VInt (zlen ns))
  /\ (ns <> [] -> exists a, average args = Ok a /\ numeric a = true
                            /\ (qv a == sum_q ns / inject_Z (zlen ns))%Q)
  /\ (ns <> [] -> exists m, max_ args = Ok m /\ In m ns
                            /\ forall x, In x ns -> (qv x <= qv m)%Q)
  /\ (ns <> [] -> exists m, min_ args = Ok m /\ In m ns
                            /\ forall x, In x ns -> (qv m <= qv x)%Q).
Proof. exact numeric_only. Qed.
Print Assumptions C14_numeric_only.

Theorem C14_depends_only : forall args args',
  scalars (cells_of args) -> scalars (cells_of args') ->
  first_error (cells_of args) = first_error (cells_of args') ->
  nums (cells_of args) = nums (cells_of args') ->
  sum_ args = sum_ args' /\ average args = average args' /\ count args = count args'
  /\ max_ args = max_ args' /\ min_ args = min_ args'.
Proof. exact depends_only. Qed.
Print Assumptions C14_depends_only.

Theorem C14_first_error : forall args pre e post,
  scalars (cells_of args) -> cells_of args = pre ++ e :: post ->
  is_err e = true -> Forall (fun v => is_err v = false) pre ->
  sum_ args = Ok e /\ average args = Ok e /\ max_ args = Ok e /\ min_ args = Ok e.
Proof. exact first_error_thm. Qed.
Print Assumptions C14_first_error.

Theorem C14_error_codes :
  Forall (fun c => is_err c = true)
    [excelutil.c_DIV0; excelutil.c_VALUE_ERROR; excelutil.c_NUM_ERROR; excelutil.c_NA_ERROR;
     excelutil.c_NAME_ERROR; excelutil.c_NULL_ERROR; excelutil.c_REF_ERROR].
Proof. exact error_codes. Qed.
Print Assumptions C14_error_codes.

Theorem C14_count : forall args, scalars (cells_of args) ->
  count args = Ok (VInt (zlen (nums (cells_of args)))).
Proof. exact count_thm. Qed.
Print Assumptions C14_count.

Theorem C14_perm : forall args args',
  scalars (cells_of args) -> Permutation (cells_of args) (cells_of args') ->
  first_error (cells_of args) = first_error (cells_of args') ->
  same_value (sum_ args) (sum_ args') /\ same_value (average args) (average args')
  /\ same_value (count args) (count args')
  /\ same_value (max_ args) (max_ args') /\ same_value (min_ args) (min_ args').
Proof. exact perm. Qed.
Print Assumptions C14_perm.

Theorem C14_reshape : forall args args',
  scalars (cells_of args) -> cells_of args = cells_of args' ->
  sum_ args = sum_ args' /\ average args = average args' /\ count args = count args'
  /\ max_ args = max_ args' /\ min_ args = min_ args'.
Proof. exact reshape. Qed.
Print Assumptions C14_reshape.

Theorem C14_additive : forall a1 a2,
  scalars (cells_of (a1 ++ a2)) -> first_error (cells_of (a1 ++ a2)) = None ->
  exists s1 s2 s, sum_ a1 = Ok s1 /\ sum_ a2 = Ok s2 /\ sum_ (a1 ++ a2) = Ok s
                  /\ numeric s1 = true /\ numeric s2 = true /\ numeric s = true
                  /\ (qv s == qv s1 + qv s2)%Q.
Proof. exact additive. Qed.
Print Assumptions C14_additive.

Theorem C14_average : forall args,
  scalars (cells_of args) -> first_error (cells_of args) = None ->
  (nums (cells_of args) = [] -> average args = Ok excelutil.c_DIV0)
  /\ (nums (cells_of args) <> [] ->
      exists s n a, sum_ args = Ok s /\ count args = Ok (VInt n) /\ 0 < n
                    /\ average args = Ok a /\ numeric a = true
                    /\ (qv a == qv s / inject_Z n)%Q)
  /\ (average args = Ok excelutil.c_DIV0 <-> nums (cells_of args) = []).
Proof. exact average_thm. Qed.
Print Assumptions C14_average.

Theorem C14_minmax_empty : forall args,
  scalars (cells_of args) -> first_error (cells_of args) = None ->
  nums (cells_of args) = [] -> max_ args = Ok (VInt 0) /\ min_ args = Ok (VInt 0).
Proof. exact minmax_empty. Qed.
Print Assumptions C14_minmax_empty.

Theorem C14_minmax_attained : forall args,
  scalars (cells_of args) -> first_error (cells_of args) = None ->
  nums (cells_of args) <> [] ->
  (exists m, max_ args = Ok m /\ In m (nums (cells_of args))
             /\ forall x, In x (nums (cells_of args)) -> (qv x <= qv m)%Q)
  /\ (exists m, min_ args = Ok m /\ In m (nums (cells_of args))
             /\ forall x, In x (nums (cells_of args)) -> (qv m <= qv x)%Q).
Proof. exact minmax_attained. Qed.
Print Assumptions C14_minmax_attained.

(* SUMPRODUCT.  arr rows = a range as pycel passes it; rect_ok = a rectangle
   of scalar cells with at least one row and column; cellsq = its cells as
   rationals, non-numbers (text, numeric text, logicals, blanks) as 0 *)
Theorem C14_sumproduct : forall m0 ms,
  Forall rect_ok (m0 :: ms) -> (forall m, In m ms -> shape m = shape m0) ->
  first_error (cells_of (map arr (m0 :: ms))) = None ->
  exists r, sumproduct (VTuple (map arr (m0 :: ms))) = Ok r /\ numeric r = true
            /\ (qv r == sumq (fold_left zipq (map cellsq ms) (cellsq m0)))%Q.
Proof. exact sumproduct_thm. Qed.
Print Assumptions C14_sumproduct.

Theorem C14_sumproduct_two : forall a b,
  Forall rect_ok [a; b] -> shape b = shape a ->
  first_error (cells_of [arr a; arr b]) = None ->
  exists r, sumproduct (VTuple [arr a; arr b]) = Ok r /\ numeric r = true
            /\ (qv r == sumq (zipq (cellsq a) (cellsq b)))%Q.
Proof. exact sumproduct_two. Qed.
Print Assumptions C14_sumproduct_two.

Theorem C14_sumproduct_first_error : forall args pre e post,
  scalars (cells_of args) -> cells_of args = pre ++ e :: post ->
  is_err e = true -> Forall (fun v => is_err v = false) pre ->
  sumproduct (VTuple args) = Ok e.
Proof. exact sumproduct_first_error. Qed.
Print Assumptions C14_sumproduct_first_error.

Theorem C14_sumproduct_unequal : forall mats m1 m2,
  Forall rect_ok mats -> first_error (cells_of (map arr mats)) = None ->
  In m1 mats -> In m2 mats -> shape m1 <> shape m2 ->
  sumproduct (VTuple (map arr mats)) = Ok excelutil.c_VALUE_ERROR.
Proof. exact sumproduct_unequal. Qed.
Print Assumptions C14_sumproduct_unequal.

(* SUBTOTAL(n, ...) / SUBTOTAL(100+n, ...) = the aggregate the generated table
   names (the literal function number as emitted text: "1", "101", ...) *)
Theorem C14_subtotal : forall v_args,
  (subtotal (lit [49]) v_args = stats.f_average v_args
   /\ subtotal (lit [49; 48; 49]) v_args = stats.f_average v_args)
  /\ (subtotal (lit [50]) v_args = stats.f_count v_args
      /\ subtotal (lit [49; 48; 50]) v_args = stats.f_count v_args)
  /\ (subtotal (lit [52]) v_args = stats.f_max_ v_args
      /\ subtotal (lit [49; 48; 52]) v_args = stats.f_max_ v_args)
  /\ (subtotal (lit [53]) v_args = stats.f_min_ v_args
      /\ subtotal (lit [49; 48; 53]) v_args = stats.f_min_ v_args)
  /\ (subtotal (lit [57]) v_args = aggregates.f_sum_ v_args
      /\ subtotal (lit [49; 48; 57]) v_args = aggregates.f_sum_ v_args).
Proof. exact subtotal_thm. Qed.
Print Assumptions C14_subtotal.

(* among the literals 0..120 exactly these ten resolve to one of the five
   aggregates (finite domain, by computation) *)
Theorem C14_subtotal_domain :
  filter subtotal_known (zrange 121 0) = [1; 2; 4; 5; 9; 101; 102; 104; 105; 109].
Proof. exact subtotal_domain. Qed.
Print Assumptions C14_subtotal_domain.
