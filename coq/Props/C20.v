From Coq Require Import ZArith List.
From PV Require Import Lib.Py Proofs.C20.
