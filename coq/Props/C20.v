(* Props/C20.v — property theorems only.  Gen/text.v is regenerated from
   /repo/src/pycel/lib/text.py on every run; Model/Text.v adds the apply_meta
   wrappers (X_f = the function as pycel calls it, on the argument list).
   [not_code s]: s is a text, not one of Excel's error values (which every
   function passes through unchanged). *)
From Coq Require Import ZArith QArith List Bool.
From PV Require Import Lib.Py Model.Text Proofs.C20.
From PV Require Import Model.TextFormat Proofs.Radix.
From PV Require Import Proofs.C20TextSpec Proofs.C20TextConv Proofs.C20Text Proofs.C20TextTop.
Import ListNotations.
Open Scope Z_scope.

(* what LEFT / MID / RIGHT denote, for every text and all integer positions *)
Theorem C20_left_chars : forall s n, not_code s ->
  X_left [VStr s; VInt n] = Ok (if n <? 0 then VERR else VStr (firstn (Z.to_nat n) s)).
Proof. exact left_spec. Qed.
Print Assumptions C20_left_chars.

Theorem C20_mid_chars : forall s n k, not_code s ->
  X_mid [VStr s; VInt n; VInt k]
  = Ok (if (n <? 1) || (k <? 0) then VERR else VStr (mid_chars s n k)).
Proof. exact mid_spec. Qed.
Print Assumptions C20_mid_chars.

(* LEFT(s,n) & MID(s,n+1,LEN(s)) = s *)
Theorem C20_partition : forall s n, not_code s -> 0 <= n ->
  exists a b, X_left [VStr s; VInt n] = Ok (VStr a)
           /\ (exists l, X_len [VStr s] = Ok (VInt l)
                         /\ X_mid [VStr s; VInt (n + 1); VInt l] = Ok (VStr b))
           /\ a ++ b = s.
Proof. exact partition. Qed.
Print Assumptions C20_partition.

(* RIGHT(s,k) is the last min(k, LEN s) characters *)
Theorem C20_right : forall s k, not_code s -> 0 <= k ->
  exists a r, X_right [VStr s; VInt k] = Ok (VStr r)
           /\ s = a ++ r /\ zlen r = Z.min k (zlen s).
Proof. exact right_last. Qed.
Print Assumptions C20_right.

(* a fractional count below 1 gives the empty text *)
Theorem C20_right_fraction : forall s q, not_code s -> (0 <= q)%Q -> (q < 1)%Q ->
  X_right [VStr s; VFloat q] = Ok (VStr []).
Proof. exact right_fraction. Qed.
Print Assumptions C20_right_fraction.

(* REPLACE(s,n,k,t) = LEFT(s,n-1) & t & MID(s,n+k,LEN(s)) *)
Theorem C20_replace : forall s n k t, not_code s -> not_code t -> 1 <= n -> 0 <= k ->
  exists a b l, X_left [VStr s; VInt (n - 1)] = Ok (VStr a)
           /\ X_len [VStr s] = Ok (VInt l)
           /\ X_mid [VStr s; VInt (n + k); VInt l] = Ok (VStr b)
           /\ X_replace [VStr s; VInt n; VInt k; VStr t] = Ok (VStr (a ++ t ++ b)).
Proof. exact replace_splice. Qed.
Print Assumptions C20_replace.

(* negative counts (and positions below 1) give #VALUE! *)
Theorem C20_negative_counts : forall s t n k, not_code s -> not_code t ->
  (n < 0 -> X_left [VStr s; VInt n] = Ok VERR /\ X_right [VStr s; VInt n] = Ok VERR)
  /\ (n < 1 \/ k < 0 -> X_mid [VStr s; VInt n; VInt k] = Ok VERR
                        /\ X_replace [VStr s; VInt n; VInt k; VStr t] = Ok VERR).
Proof. exact negative_counts. Qed.
Print Assumptions C20_negative_counts.

(* numbers are their Excel rendering (3.0 is "3"), logicals TRUE/FALSE, blank "" *)
Theorem C20_number_rendering : forall X z rest, slicing X ->
  X (VInt z :: rest) = X (VStr (str_of_Z z) :: rest)
  /\ X (VFloat (inject_Z z) :: rest) = X (VStr (str_of_Z z) :: rest)
  /\ X (VBool true :: rest) = X (VStr [84; 82; 85; 69] :: rest)
  /\ X (VBool false :: rest) = X (VStr [70; 65; 76; 83; 69] :: rest)
  /\ X (VNone :: rest) = X (VStr [] :: rest).
Proof. exact number_rendering. Qed.
Print Assumptions C20_number_rendering.

(* FIND(f, w, start), every integer start: #VALUE! below 1; otherwise the least
   position p >= start with MID(w,p,LEN f) = f, else #VALUE!.  A fractional
   start behaves as its truncation. *)
Theorem C20_find : forall f w st, not_code f -> not_code w ->
  (st < 1 -> X_find [VStr f; VStr w; VInt st] = Ok VERR)
  /\ (1 <= st ->
      (X_find [VStr f; VStr w; VInt st] = Ok VERR
       /\ forall q, st <= q -> q - 1 + zlen f <= zlen w -> ~ occurs_at f w q)
      \/ (exists p, X_find [VStr f; VStr w; VInt st] = Ok (VInt p)
          /\ st <= p /\ p - 1 + zlen f <= zlen w /\ occurs_at f w p
          /\ forall q, st <= q < p -> ~ occurs_at f w q)).
Proof. exact find_first. Qed.
Print Assumptions C20_find.

Theorem C20_find_fraction : forall f w q, not_code f -> not_code w ->
  X_find [VStr f; VStr w; VFloat q] = X_find [VStr f; VStr w; VInt (q_trunc q)].
Proof. exact find_fraction. Qed.
Print Assumptions C20_find_fraction.

Theorem C20_find_default : forall f w, not_code f -> not_code w ->
  X_find [VStr f; VStr w] = X_find [VStr f; VStr w; VInt 1].
Proof. exact find_default. Qed.
Print Assumptions C20_find_default.

(* SUBSTITUTE(t, old, new), old non-empty: t when old does not occur; otherwise
   the text before the first occurrence, new, and the substitution of the rest
   (i.e. all non-overlapping occurrences, left to right; [repl] is Python's
   str.replace on the remainder and satisfies the same two equations) *)
Theorem C20_substitute_all : forall t o old' new,
  not_code t -> not_code (o :: old') -> not_code new ->
  exists r, X_substitute [VStr t; VStr (o :: old'); VStr new] = Ok (VStr r)
  /\ (no_occurrence (o :: old') t -> r = t)
  /\ (forall a rest, t = a ++ (o :: old') ++ rest ->
        (forall q, (q < length a)%nat -> str_prefix (o :: old') (skipn q t) = false) ->
        r = a ++ new ++ repl (o :: old') new None rest).
Proof. exact substitute_all. Qed.
Print Assumptions C20_substitute_all.

Theorem C20_substitute_rest : forall o old' new cnt,
  (forall s, no_occurrence (o :: old') s -> repl (o :: old') new cnt s = s)
  /\ (forall cnt' a rest, cnt_dec cnt = Some cnt' ->
        (forall q, (q < length a)%nat ->
                   str_prefix (o :: old') (skipn q (a ++ (o :: old') ++ rest)) = false) ->
        repl (o :: old') new cnt (a ++ (o :: old') ++ rest)
        = a ++ new ++ repl (o :: old') new cnt' rest).
Proof. exact repl_equations. Qed.
Print Assumptions C20_substitute_rest.

(* SUBSTITUTE(t, old, new, i), i >= 1, old non-empty: exactly the i-th
   non-overlapping occurrence: no occurrence -> t; i = 1 -> the first one is
   replaced; i >= 2 -> the first one is kept and the (i-1)-th of the rest is
   replaced.  ([subst_nth] is the model of the function body.) *)
Theorem C20_substitute_nth : forall t o old' new i,
  not_code t -> not_code (o :: old') -> not_code new -> 1 <= i ->
  X_substitute [VStr t; VStr (o :: old'); VStr new; VInt i]
    = bind (subst_nth t (o :: old') new i) (fun r => Ok (VStr r))
  /\ (no_occurrence (o :: old') t -> subst_nth t (o :: old') new i = Ok t)
  /\ (forall a rest, t = a ++ (o :: old') ++ rest ->
        (forall q, (q < length a)%nat -> str_prefix (o :: old') (skipn q t) = false) ->
        (i = 1 -> subst_nth t (o :: old') new i = Ok (a ++ new ++ rest))
        /\ (2 <= i -> subst_nth t (o :: old') new i
                      = bind (subst_nth rest (o :: old') new (i - 1))
                             (fun r => Ok (a ++ (o :: old') ++ r)))).
Proof. exact substitute_nth. Qed.
Print Assumptions C20_substitute_nth.

(* CONCATENATE(a,b) = a & b on text *)
Theorem C20_concatenate : forall a b, not_code a -> not_code b ->
  X_concatenate [VStr a; VStr b] = Ok (VStr (a ++ b)).
Proof. exact concatenate_spec. Qed.
Print Assumptions C20_concatenate.

(* EXACT is code-point (case-sensitive) equality *)
Theorem C20_exact : forall a b, not_code a -> not_code b ->
  exists r, X_exact [VStr a; VStr b] = Ok (VBool r) /\ (r = true <-> a = b).
Proof. exact exact_spec. Qed.
Print Assumptions C20_exact.

(* TRIM: single inner spaces, no space at either end, the other characters
   untouched and in order, idempotent *)
Theorem C20_trim : forall s, not_code s ->
  exists t, X_trim [VStr s] = Ok (VStr t) /\ no_adjacent_spaces t
            /\ hd 0 t <> 32 /\ last t 0 <> 32
            /\ nonspaces t = nonspaces s
            /\ X_trim [VStr t] = Ok (VStr t).
Proof. exact trim_full. Qed.
Print Assumptions C20_trim.

(* UPPER / LOWER are idempotent wherever the case mapping is modelled (ASCII,
   Latin-1, CJK, pictographs), and total on ASCII *)
Theorem C20_upper_idempotent : forall s u, not_code s ->
  X_upper [VStr s] = Ok (VStr u) -> X_upper [VStr u] = Ok (VStr u).
Proof. exact upper_idempotent. Qed.
Print Assumptions C20_upper_idempotent.
Theorem C20_lower_idempotent : forall s u, not_code s ->
  X_lower [VStr s] = Ok (VStr u) -> X_lower [VStr u] = Ok (VStr u).
Proof. exact lower_idempotent. Qed.
Print Assumptions C20_lower_idempotent.
Theorem C20_upper_ascii : forall s, not_code s -> non_ascii s = false ->
  X_upper [VStr s] = Ok (VStr (map ascii_upper s)).
Proof. exact upper_ascii_total. Qed.
Print Assumptions C20_upper_ascii.
Theorem C20_lower_ascii : forall s, not_code s -> non_ascii s = false ->
  X_lower [VStr s] = Ok (VStr (map ascii_lower s)).
Proof. exact lower_ascii_total. Qed.
Print Assumptions C20_lower_ascii.

(* ------------------------------------------------------------------ TEXT
   TEXT(x, f) for EVERY rational x and EVERY format of the grammar
       f ::= int [ '.' frac ] '%'*      int over 0 # ,   frac over 0 #
   (Proofs/C20TextSpec.v: [tfmt], [fmt_ok], [fmt_string]; decidable membership
   [parse_fmt]; excluded: literals, a ',' not directly after a placeholder, a
   second '.', a '%' before the end, sections, '?', dates).
   [text_spec rnd x F] is the declarative rendering (sign, zero padding, digits
   of the integer part, grouping in threes, '.', fraction digits without the
   optional trailing zeros, '%' signs) of rnd(|x| * 100^(#%) * 10^(#frac)). *)

(* what the implementation computes, ties included: round-half-even *)
Theorem C20_text_halfeven : forall x F, fmt_ok F = true ->
  text_fmt x (fmt_string F) = Ok (text_spec half_even x F)
  /\ X_text [VFloat x; VStr (fmt_string F)] = Ok (VStr (text_spec half_even x F))
  /\ (forall z, x = inject_Z z ->
        X_text [VInt z; VStr (fmt_string F)] = Ok (VStr (text_spec half_even x F))).
Proof. exact text_halfeven_all. Qed.
Print Assumptions C20_text_halfeven.

(* the clause of the property (half away from zero), wherever x is not a
   rounding tie at the requested digits *)
Theorem C20_text_nontie : forall x F, fmt_ok F = true -> ~ is_tie (text_arg x F) ->
  text_fmt x (fmt_string F) = Ok (text_spec half_away x F)
  /\ X_text [VFloat x; VStr (fmt_string F)] = Ok (VStr (text_spec half_away x F))
  /\ (forall z, x = inject_Z z ->
        X_text [VInt z; VStr (fmt_string F)] = Ok (VStr (text_spec half_away x F))).
Proof. exact text_nontie_all. Qed.
Print Assumptions C20_text_nontie.

(* integers are never ties: the clause holds for every integer *)
Theorem C20_text_integer : forall z F, fmt_ok F = true ->
  X_text [VInt z; VStr (fmt_string F)] = Ok (VStr (text_spec half_away (inject_Z z) F)).
Proof. exact text_integer_all. Qed.
Print Assumptions C20_text_integer.

(* the same two statements for a text recognised by the decidable grammar test *)
Theorem C20_text_parsed : forall x s F, parse_fmt s = Some F ->
  s = fmt_string F /\ fmt_ok F = true
  /\ text_fmt x s = Ok (text_spec half_even x F)
  /\ (~ is_tie (text_arg x F) -> text_fmt x s = Ok (text_spec half_away x F)).
Proof. exact text_parsed_all. Qed.
Print Assumptions C20_text_parsed.

(* the two modes: equal off the ties; on a tie half-away goes up and half-even
   goes to the even neighbour (so they differ exactly on ties with an even floor:
   the known finding C20-text-half-even, Refuted/C20_text_rounding.v) *)
Theorem C20_text_modes : forall q, (0 <= q)%Q ->
  half_away q = Qround.Qfloor (q + (1 # 2))
  /\ (~ is_tie q -> half_even q = half_away q)
  /\ (is_tie q -> half_away q = Qround.Qfloor q + 1
                  /\ half_even q = if Z.even (Qround.Qfloor q) then Qround.Qfloor q
                                   else Qround.Qfloor q + 1).
Proof. exact text_modes_all. Qed.
Print Assumptions C20_text_modes.

(* digit level: str_of_Z is the base-ten numeral without a leading zero; the
   d-digit fraction; the dropped zeros; grouping = a ',' before every third
   digit from the right *)
Theorem C20_text_digits : forall n, 0 <= n ->
  horner 10 0 (str_of_Z n) = n /\ Forall digitc (str_of_Z n)
  /\ (0 < n -> exists c s, str_of_Z n = c :: s /\ c <> 48).
Proof. exact text_digits_all. Qed.
Print Assumptions C20_text_digits.

Theorem C20_text_fraction : forall d r, 0 <= r < 10 ^ Z.of_nat d ->
  length (zpad d (str_of_Z r)) = Nat.max d 1
  /\ horner 10 0 (zpad d (str_of_Z r)) = r
  /\ Forall digitc (zpad d (str_of_Z r))
  /\ exists j, zpad d (str_of_Z r) = fdigits d r ++ repeat 48 j /\ last (fdigits d r) 0 <> 48.
Proof. exact text_fraction_all. Qed.
Print Assumptions C20_text_fraction.

Theorem C20_text_grouping : forall s,
  ((length s <= 3)%nat -> group3 s = s)
  /\ (forall a b c, s <> [] -> group3 (s ++ [a; b; c]) = group3 s ++ [44; a; b; c])
  /\ filter (fun c => negb (c =? 44)) (group3 s) = filter (fun c => negb (c =? 44)) s.
Proof. exact text_grouping_all. Qed.
Print Assumptions C20_text_grouping.

(* parse_fmt decides membership in the grammar *)
Theorem C20_text_grammar_decidable : forall s F,
  parse_fmt s = Some F <-> (fmt_ok F = true /\ s = fmt_string F).
Proof. exact text_grammar_decidable_all. Qed.
Print Assumptions C20_text_grammar_decidable.

(* the usual reading of the placeholders: for an integer part of a '#' then b '0'
   the digits (L of them) are padded with zeros to b places, for a fraction part of
   a '0' then b '#' the digits (L left after dropping zeros) are filled up to a places *)
Theorem C20_text_padding : forall a b L : nat,
  zeros_of (firstn (a + b - L) (repeat 35 a ++ repeat 48 b)) = repeat 48 (b - L)
  /\ zeros_of (skipn L (repeat 48 a ++ repeat 35 b)) = repeat 48 (a - L).
Proof. exact text_padding_all. Qed.
Print Assumptions C20_text_padding.
