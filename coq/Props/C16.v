(* Props/C16.v — property theorems only.  Models: Gen/lookup.v (bodies of
   match / vlookup / hlookup / lookup, regenerated from lookup.py on every
   run), Model/LookupCore.v (hand transcription of _match, bisect_right on
   ExcelCmp keys and index; tied by the correspondence run), on the ExcelCmp
   keys of Model/Ops.v (C10). *)
From Coq Require Import ZArith QArith List.
From PV Require Import Lib.Py Model.Ops Model.LookupCore Proofs.C16.
From PV Require Import Proofs.C10Order Proofs.C16Order Proofs.C16Sorted Proofs.C16Desc
  Proofs.C16Lookup Proofs.C16Wild Proofs.C16Wrap.
From PV Require Model.Lookup.
From PV Require Gen.excelutil Gen.lookup.
Import ListNotations.
Open Scope Z_scope.

(* bisect_right, CPython's loop: for ANY test "x < cell" that is defined and
   monotone along a[lo:hi] it returns the partition point; the fuel hi-lo+1
   always suffices (any length) *)
Theorem C16_bisect_loop : forall lt p a lo hi,
  0 <= lo -> lo <= hi -> hi <= zlen a ->
  (forall k c, lo <= k < hi -> at_ a k = Some c -> lt c = Ok (p c)) ->
  (forall i j ci cj, lo <= i -> i <= j -> j < hi -> at_ a i = Some ci -> at_ a j = Some cj ->
                     p ci = true -> p cj = true) ->
  exists r, bisect_right lt a lo hi = Ok r /\ lo <= r <= hi
    /\ (forall k c, lo <= k < r -> at_ a k = Some c -> p c = false)
    /\ (forall k c, r <= k < hi -> at_ a k = Some c -> p c = true).
Proof. exact bisect_right_spec. Qed.
Print Assumptions C16_bisect_loop.

(* on cells whose ExcelCmp keys are sorted by the model's <= between lo and hi
   (numbers < text < logicals < errors, text case-insensitively; a blank takes
   the lookup value's type), bisect_right(a, ExcelCmp(v), lo, hi) returns r
   with a[k] <= v for k < r and v < a[k] for k >= r — any length, any scalars *)
Theorem C16_bisect : forall v x a ks lo hi,
  lv_key v = Ok x -> mapM (rel_key x) a = Ok ks ->
  0 <= lo -> lo <= hi -> hi <= zlen a ->
  (forall i j ki kj, lo <= i -> i <= j -> j < hi ->
     nth_error ks (Z.to_nat i) = Some ki -> nth_error ks (Z.to_nat j) = Some kj ->
     key_lt false ki kj = Ok true) ->
  exists r, bisect_right (x_lt_cell x) a lo hi = Ok r /\ lo <= r <= hi
    /\ (forall k kk, lo <= k < r -> nth_error ks (Z.to_nat k) = Some kk ->
          key_lt false kk (fst x) = Ok true)
    /\ (forall k kk, r <= k < hi -> nth_error ks (Z.to_nat k) = Some kk ->
          key_lt true (fst x) kk = Ok true).
Proof. exact bisect_sorted. Qed.
Print Assumptions C16_bisect.

(* the order used: x < a and a <= b give x < b, on all keys of scalars *)
Theorem C16_key_order_transitive : forall x a b, kwf x -> kwf a -> kwf b ->
  key_lt true x a = Ok true -> key_lt false a b = Ok true -> key_lt true x b = Ok true.
Proof. exact key_lt_le_trans. Qed.
Print Assumptions C16_key_order_transitive.

(* MATCH(v, a, 0) IS the obvious linear scan: the first position whose cell is
   not an error code, has v's type (type-strict) and passes the equality test
   (keys are lower-cased: case-insensitive), else #N/A *)
Theorem C16_match0 : forall v a,
  match_ v (VTuple a) (VInt 0)
  = (x <- lv_key v ;; t <- test0 (fst x) ;; find_first (matches0 (fst (fst x)) t) a 1).
Proof. exact match0_is_find_first. Qed.
Print Assumptions C16_match0.

(* … where find_first returns #N/A exactly when no cell passes, and otherwise
   the first position that does *)
Theorem C16_find_first : forall p l i r, find_first p l i = Ok r ->
  (r = NA /\ forall c, In c l -> p c = Ok false)
  \/ (exists n c, r = VInt (i + Z.of_nat n) /\ nth_error l n = Some c /\ p c = Ok true
                  /\ forall m c', (m < n)%nat -> nth_error l m = Some c' -> p c' = Ok false).
Proof. exact find_first_spec. Qed.
Print Assumptions C16_find_first.

(* … and the equality test is key equality, or the ?/* glob when the text has
   a wildcard (patterns with other regex metacharacters are outside the model) *)
Theorem C16_match0_test_plain : forall xk,
  (forall p, xk = (1, VStr p) -> existsb is_wild p = false) ->
  test0 xk = Ok (fun k => Ok (key_eq k xk)).
Proof. exact test0_plain. Qed.
Print Assumptions C16_match0_test_plain.
Theorem C16_match0_test_wildcard : forall p,
  existsb is_wild p = true -> existsb regex_meta p = false ->
  test0 (1, VStr p) = Ok (fun k => match snd k with VStr s => Ok (glob p s) | _ => Raise Unmodelled end).
Proof. exact test0_wild. Qed.
Print Assumptions C16_match0_test_wildcard.

(* every match type: the result is #N/A or a position inside the vector *)
Theorem C16_match_position : forall v arr mt a m,
  seq_items arr = Ok a -> match_ v arr mt = Ok m -> m = NA \/ is_pos (zlen a) m.
Proof. exact match_range. Qed.
Print Assumptions C16_match_position.

(* C16_match1_partial (kept; holds for UNSORTED vectors too): a position
   returned by MATCH(v, a, 1) holds a non-blank cell of v's type; together with
   C16_bisect (everything before the partition point is <= v, everything after
   is > v).  The full clause "on sorted data the cell is the largest value <= v
   of v's type / #N/A iff there is none" is C16_match1_sorted below. *)
Theorem C16_match1_partial : forall x a i, match1 x a = Ok (VInt i) ->
  exists c k, 1 <= i <= zlen a /\ nth_error a (Z.to_nat (i - 1)) = Some c /\ c <> VNone
              /\ abs_key c = Ok k /\ fst k = fst (fst x).
Proof. exact match1_hit. Qed.
Print Assumptions C16_match1_partial.

(* C16_match_m1_partial (kept; holds for UNSORTED vectors too): a position
   returned by MATCH(v, a, -1) holds a cell that is not an error code, has v's
   type and is >= v (not < v).  Minimality on descending data is
   C16_match_m1_sorted below. *)
Theorem C16_match_m1_partial : forall xk l i last m, scan_m1 xk l i last = Ok m ->
  m = last \/ exists n c k, m = VInt (i + Z.of_nat n) /\ nth_error l n = Some c
                            /\ in_error_codes c = Ok false /\ abs_key c = Ok k
                            /\ fst k = fst xk /\ key_lt true k xk = Ok false.
Proof. exact scan_m1_hit. Qed.
Print Assumptions C16_match_m1_partial.

(* VLOOKUP(v, t, k, r) = INDEX(t, MATCH(v, first column of t, r ? 1 : 0), k) —
   the error MATCH gives, else the cell INDEX gives — every rectangular table *)
Theorem C16_lookup_is_index_match_v : forall v w rows k r,
  rect w rows -> rows <> [] -> 1 <= k <= w ->
  lookup.f_vlookup v (VTuple rows) (VInt k) r
  = (m <- match_ v (VTuple (col_of 0 rows)) (VBool (py_truthy r)) ;;
     if is_int m then index_ (VTuple rows) m (VInt k) else Ok m).
Proof. exact vlookup_is_index_match. Qed.
Print Assumptions C16_lookup_is_index_match_v.
Theorem C16_lookup_is_index_match_h : forall v w rows k r,
  rect w rows -> 1 <= w -> 1 <= k <= zlen rows ->
  lookup.f_hlookup v (VTuple rows) (VInt k) r
  = (m <- match_ v (nth 0 rows VNone) (VBool (py_truthy r)) ;;
     if is_int m then index_ (VTuple rows) (VInt k) m else Ok m).
Proof. exact hlookup_is_index_match. Qed.
Print Assumptions C16_lookup_is_index_match_h.

(* VLOOKUP on a table = HLOOKUP on its transpose *)
Theorem C16_transpose : forall v w rows k r,
  rect w rows -> rows <> [] -> 1 <= w ->
  lookup.f_vlookup v (VTuple rows) (VInt k) r
  = lookup.f_hlookup v (VTuple (transpose (Z.to_nat w) rows)) (VInt k) r.
Proof. exact vlookup_transpose. Qed.
Print Assumptions C16_transpose.

(* bounds: k <= 0 -> #VALUE!, k beyond the table -> #REF!, otherwise #N/A or a
   cell of column k of the table — never a cell outside *)
Theorem C16_bounds_vlookup_low : forall v rows k r, k <= 0 ->
  lookup.f_vlookup v (VTuple rows) (VInt k) r = Ok VALUE.
Proof. exact vlookup_low. Qed.
Print Assumptions C16_bounds_vlookup_low.
Theorem C16_bounds_hlookup_low : forall v rows k r, k <= 0 ->
  lookup.f_hlookup v (VTuple rows) (VInt k) r = Ok VALUE.
Proof. exact hlookup_low. Qed.
Print Assumptions C16_bounds_hlookup_low.
Theorem C16_bounds_vlookup_high : forall v cells0 rows k r, zlen cells0 < k -> 0 < k ->
  lookup.f_vlookup v (VTuple (VTuple cells0 :: rows)) (VInt k) r = Ok REF.
Proof. exact vlookup_high. Qed.
Print Assumptions C16_bounds_vlookup_high.
Theorem C16_bounds_hlookup_high : forall v rows k r, zlen rows < k -> 0 < k ->
  lookup.f_hlookup v (VTuple rows) (VInt k) r = Ok REF.
Proof. exact hlookup_high. Qed.
Print Assumptions C16_bounds_hlookup_high.
Theorem C16_bounds_in_table : forall v w rows k r c,
  rect w rows -> rows <> [] -> 1 <= k <= w ->
  lookup.f_vlookup v (VTuple rows) (VInt k) r = Ok c ->
  c = NA \/ exists i, 1 <= i <= zlen rows
                      /\ c = nth (Z.to_nat (k - 1)) (cells_of (nth (Z.to_nat (i - 1)) rows VNone)) VNone.
Proof. exact vlookup_in_table. Qed.
Print Assumptions C16_bounds_in_table.

(* INDEX: the addressed cell inside the table, #VALUE! for a negative index,
   #REF! beyond the table *)
Theorem C16_index_cell : forall w rows i k, rect w rows -> 1 <= i <= zlen rows -> 1 <= k <= w ->
  index_ (VTuple rows) (VInt i) (VInt k)
  = Ok (nth (Z.to_nat (k - 1)) (cells_of (nth (Z.to_nat (i - 1)) rows VNone)) VNone).
Proof. exact index_cell_value. Qed.
Print Assumptions C16_index_cell.
Theorem C16_index_negative : forall w rows i k, rect w rows -> rows <> [] -> 1 <= w ->
  i <> 0 -> k <> 0 -> (i < 0 \/ k < 0) -> index_ (VTuple rows) (VInt i) (VInt k) = Ok VALUE.
Proof. exact index_negative. Qed.
Print Assumptions C16_index_negative.
Theorem C16_index_beyond : forall w rows i k, rect w rows -> rows <> [] -> 1 <= w ->
  1 <= i -> 1 <= k -> (zlen rows < i \/ w < k) -> index_ (VTuple rows) (VInt i) (VInt k) = Ok REF.
Proof. exact index_beyond. Qed.
Print Assumptions C16_index_beyond.

(* ------------------------------------------------------------------------
   MATCH on sorted data, LOOKUP, wildcards (Proofs/C16Order.v, C16Sorted.v,
   C16Desc.v, C16Lookup.v, C16Wild.v).  kle a b := key_lt false a b = Ok true
   (the model's <= on ExcelCmp keys: numbers < text < logicals < error codes,
   within a type by value, text lower-cased), klt the strict one. *)

(* the order used is a preorder on the keys of all scalars, and < is the
   negation of the converse <= *)
Theorem C16_key_order_le_transitive : forall a b c, kwf a -> kwf b -> kwf c ->
  kle a b -> kle b c -> kle a c.
Proof. exact kle_trans_wf. Qed.
Print Assumptions C16_key_order_le_transitive.
Theorem C16_key_order_lt_is_not_ge : forall x k, kwf x -> kwf k ->
  exists b, key_lt true x k = Ok b /\ key_lt false k x = Ok (negb b).
Proof. exact klt_kle_neg. Qed.
Print Assumptions C16_key_order_lt_is_not_ge.

(* C16_match1_sorted (FULL).  excel_ascending a: a = blanks ++ mid ++ blanks
   (either run of blanks possibly empty; NO blank inside mid), every cell of mid
   has a key, adjacent keys of mid are <= (duplicates allowed).  holds_le x c k:
   c is a non-blank cell with key k, of the lookup value's type, k <= x.
   Then MATCH(v, a, 1) is either a position i whose cell is such a cell and is
   the largest one — every such cell is <= it and sits at or before i: of a
   repeated maximum the LAST position is returned — or #N/A and there is no
   such cell.  Every length, every scalar lookup value (a blank lookup value is
   the number 0; blank CELLS are never matched by type 1). *)
Theorem C16_match1_sorted : forall v x a, lv_key v = Ok x -> excel_ascending a ->
  (exists i c k, match_ v (VTuple a) (VInt 1) = Ok (VInt i) /\ 1 <= i <= zlen a
      /\ nth_error a (Z.to_nat (i - 1)) = Some c /\ holds_le x c k
      /\ forall j c' k', nth_error a j = Some c' -> holds_le x c' k' ->
                         kle k' k /\ Z.of_nat j <= i - 1)
  \/ (match_ v (VTuple a) (VInt 1) = Ok NA
      /\ forall j c' k', nth_error a j = Some c' -> ~ holds_le x c' k').
Proof. exact match1_sorted. Qed.
Print Assumptions C16_match1_sorted.
Theorem C16_match1_sorted_na_iff : forall v x a, lv_key v = Ok x -> excel_ascending a ->
  (match_ v (VTuple a) (VInt 1) = Ok NA
   <-> forall j c' k', nth_error a j = Some c' -> ~ holds_le x c' k').
Proof. exact match1_sorted_na. Qed.
Print Assumptions C16_match1_sorted_na_iff.

(* C16_match_m1_sorted (FULL, outside the known finding
   C16-blank-cell-counts-as-zero).  excel_descending a: blanks ++ mid ++ blanks
   with adjacent keys of mid >=.  The scan reads a blank cell as the number 0,
   so blank cells are excluded when the lookup value is a number (third
   hypothesis) and only then.  cand t c k: c is not an error code, has key k of
   type t.  m1_answer xk a n c k: position n holds the candidate c with
   xk <= k, k <= every candidate >= xk (the smallest), and of several equal
   cells: the FIRST cell equal to x if x occurs, otherwise the LAST cell holding
   the smallest value above x.  m1_none: no candidate is >= xk. *)
Theorem C16_match_m1_sorted : forall v x a, lv_key v = Ok x -> excel_descending a ->
  (fst (fst x) = 0 -> ~ In VNone a) ->
  (exists i c k, match_ v (VTuple a) (VInt (-1)) = Ok (VInt i) /\ 1 <= i <= zlen a /\ c <> VNone
                 /\ m1_answer (fst x) a (Z.to_nat (i - 1)) c k)
  \/ (match_ v (VTuple a) (VInt (-1)) = Ok NA /\ m1_none (fst x) a).
Proof. exact match_m1_sorted. Qed.
Print Assumptions C16_match_m1_sorted.
(* … what the scan needs is less: only the cells it compares (non-error cells
   of v's type, a blank counting as the number 0) must descend; anything else
   may sit anywhere in the vector *)
Theorem C16_match_m1_scan : forall v x a, lv_key v = Ok x ->
  (forall c, In c a -> exists k, abs_key c = Ok k) -> desc_for (fst (fst x)) a ->
  (exists i c k, match_ v (VTuple a) (VInt (-1)) = Ok (VInt i) /\ 1 <= i <= zlen a
                 /\ m1_answer (fst x) a (Z.to_nat (i - 1)) c k)
  \/ (match_ v (VTuple a) (VInt (-1)) = Ok NA /\ m1_none (fst x) a).
Proof. exact match_m1_scan. Qed.
Print Assumptions C16_match_m1_scan.

(* LOOKUP, array form: search_vec w rows = the first column when w <= height,
   else the first row; the answer is INDEX in the last column (last row) at the
   position MATCH(v, search vector, 1) finds, or MATCH's error.  Every
   rectangular table (square ones search the column). *)
Theorem C16_lookup_array : forall v w rows, rect w rows -> rows <> [] -> 1 <= w ->
  lookup.f_lookup v (VTuple rows) VNone
  = (m <- match_ v (search_vec w rows) (VInt 1) ;;
     if is_int m then
       (if w <=? zlen rows then index_ (VTuple rows) m (VInt w)
        else index_ (VTuple rows) (VInt (zlen rows)) m)
     else Ok m).
Proof. exact lookup_array. Qed.
Print Assumptions C16_lookup_array.
(* LOOKUP, vector form: LOOKUP(v, T, rr) = INDEX(rr, MATCH(v, search vector, 1))
   for a result vector rr that is a column of >= 2 cells or a row, at least as
   long as the search vector (shorter: known finding
   C16-lookup-short-result-range, IndexError instead of #REF!; witness in
   Refuted/C16_lookup_short.v) *)
Theorem C16_lookup_vector_col : forall v w rows rr, rect w rows -> rows <> [] -> 1 <= w ->
  rect 1 rr -> 2 <= zlen rr -> search_len w rows <= zlen rr ->
  lookup.f_lookup v (VTuple rows) (VTuple rr)
  = (m <- match_ v (search_vec w rows) (VInt 1) ;;
     if is_int m then index_ (VTuple rr) m VNone else Ok m).
Proof. exact lookup_vector_col. Qed.
Print Assumptions C16_lookup_vector_col.
Theorem C16_lookup_vector_row : forall v w rows cells, rect w rows -> rows <> [] -> 1 <= w ->
  1 <= zlen cells -> search_len w rows <= zlen cells ->
  lookup.f_lookup v (VTuple rows) (VTuple [VTuple cells])
  = (m <- match_ v (search_vec w rows) (VInt 1) ;;
     if is_int m then index_ (VTuple [VTuple cells]) m VNone else Ok m).
Proof. exact lookup_vector_row. Qed.
Print Assumptions C16_lookup_vector_row.

(* MATCH(v, range, mt) itself (the regenerated f_match): a single row is
   searched as it is, any other range through its first column — the theorems
   on match_ above are theorems on MATCH *)
Theorem C16_match_range_row : forall v cells mt,
  lookup.f_match v (VTuple [VTuple cells]) mt = match_ v (VTuple cells) mt.
Proof. exact match_shape_row. Qed.
Print Assumptions C16_match_range_row.
Theorem C16_match_range_column : forall v w rows mt, rect w rows -> 1 <= w -> zlen rows <> 1 ->
  lookup.f_match v (VTuple rows) mt = match_ v (VTuple (col_of 0 rows)) mt.
Proof. exact match_shape_col. Qed.
Print Assumptions C16_match_range_column.

(* C16_match0_wildcard.  The matcher of the model (the regular expression that
   build_wildcard_re compiles) is the declarative ?/* relation Glob of C15 on
   text without a line feed … *)
Theorem C16_glob_declarative : forall p s, no_lf s = true -> (glob p s = true <-> C15.Glob p s).
Proof. exact glob_declarative. Qed.
Print Assumptions C16_glob_declarative.
(* … and MATCH(pattern, a, 0), pattern with a wildcard and no other regex
   metacharacter (those: known finding C16-wildcard-regex-metachar), no line
   feed in the text cells (C16-wildcard-newline), returns the first position
   whose cell is TEXT — not an error code, not a number/logical/blank — and
   matches the lower-cased pattern (wild_hit), else #N/A.  '~' is an ordinary
   character here (Excel's escapes: known finding C16-wildcard-tilde-escape). *)
Theorem C16_match0_wildcard : forall v x p a, lv_key v = Ok x -> fst x = (1, VStr p) ->
  existsb is_wild p = true -> existsb regex_meta p = false ->
  (forall c, In c a -> exists k, abs_key c = Ok k) -> no_lf_cells a ->
  (match_ v (VTuple a) (VInt 0) = Ok NA /\ forall c, In c a -> ~ wild_hit p c)
  \/ (exists n c, match_ v (VTuple a) (VInt 0) = Ok (VInt (1 + Z.of_nat n))
                  /\ nth_error a n = Some c /\ wild_hit p c
                  /\ forall n' c', (n' < n)%nat -> nth_error a n' = Some c' -> ~ wild_hit p c').
Proof. exact match0_wildcard. Qed.
Print Assumptions C16_match0_wildcard.

(* The functions as pycel calls them (Model/Lookup.v: the apply_meta wrappers
   around the regenerated bodies).  plain_lv v: v is a scalar and not an error
   code; error_lv v: v is an error code.  With an integer index / match type
   (and a logical range_lookup) the wrappers hand a plain lookup value through
   unchanged — whatever the table holds — and return an error-code lookup value
   itself.  Other argument shapes (array lookup value, text/float/logical
   index, …) stay correspondence-only. *)
Theorem C16_wrapped_match : forall v arr mt, plain_lv v ->
  Lookup.X_match [v; arr; VInt mt] = lookup.f_match v arr (VInt mt).
Proof. exact X_match_plain. Qed.
Print Assumptions C16_wrapped_match.
Theorem C16_wrapped_vlookup : forall v t k r, plain_lv v ->
  Lookup.X_vlookup [v; t; VInt k; VBool r] = lookup.f_vlookup v t (VInt k) (VBool r).
Proof. exact X_vlookup_plain. Qed.
Print Assumptions C16_wrapped_vlookup.
Theorem C16_wrapped_hlookup : forall v t k r, plain_lv v ->
  Lookup.X_hlookup [v; t; VInt k; VBool r] = lookup.f_hlookup v t (VInt k) (VBool r).
Proof. exact X_hlookup_plain. Qed.
Print Assumptions C16_wrapped_hlookup.
Theorem C16_wrapped_lookup : forall v arr rr, plain_lv v ->
  Lookup.X_lookup [v; arr; rr] = lookup.f_lookup v arr rr
  /\ Lookup.X_lookup [v; arr] = lookup.f_lookup v arr VNone.
Proof. exact X_lookup_plain. Qed.
Print Assumptions C16_wrapped_lookup.
Theorem C16_error_lookup_value : forall v arr mt t k r rr, error_lv v ->
  Lookup.X_match [v; arr; VInt mt] = Ok v /\ Lookup.X_vlookup [v; t; VInt k; VBool r] = Ok v
  /\ Lookup.X_lookup [v; arr; rr] = Ok v.
Proof. exact X_error_lookup_value. Qed.
Print Assumptions C16_error_lookup_value.
