(* Props/C16.v — property theorems only. *)
From Coq Require Import ZArith QArith List.
From PV Require Import Lib.Py Model.Ops Model.LookupCore Proofs.C16.
From PV Require Gen.excelutil Gen.lookup.
Import ListNotations.
Open Scope Z_scope.
