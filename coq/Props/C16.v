(* Props/C16.v — property theorems only.  Models: Gen/lookup.v (bodies of
   match / vlookup / hlookup / lookup, regenerated from lookup.py on every
   run), Model/LookupCore.v (hand transcription of _match, bisect_right on
   ExcelCmp keys and index; tied by the correspondence run), on the ExcelCmp
   keys of Model/Ops.v (C10). *)
From Coq Require Import ZArith QArith List.
From PV Require Import Lib.Py Model.Ops Model.LookupCore Proofs.C16.
From PV Require Gen.excelutil Gen.lookup.
Import ListNotations.
Open Scope Z_scope.

(* bisect_right, CPython's loop: for ANY test "x < cell" that is defined and
   monotone along a[lo:hi] it returns the partition point; the fuel hi-lo+1
   always suffices (any length) *)
Theorem C16_bisect_loop : forall lt p a lo hi,
  0 <= lo -> lo <= hi -> hi <= zlen a ->
  (forall k c, lo <= k < hi -> at_ a k = Some c -> lt c = Ok (p c)) ->
  (forall i j ci cj, lo <= i -> i <= j -> j < hi -> at_ a i = Some ci -> at_ a j = Some cj ->
                     p ci = true -> p cj = true) ->
  exists r, bisect_right lt a lo hi = Ok r /\ lo <= r <= hi
    /\ (forall k c, lo <= k < r -> at_ a k = Some c -> p c = false)
    /\ (forall k c, r <= k < hi -> at_ a k = Some c -> p c = true).
Proof. exact bisect_right_spec. Qed.
Print Assumptions C16_bisect_loop.

(* on cells whose ExcelCmp keys are sorted by the model's <= between lo and hi
   (numbers < text < logicals < errors, text case-insensitively; a blank takes
   the lookup value's type), bisect_right(a, ExcelCmp(v), lo, hi) returns r
   with a[k] <= v for k < r and v < a[k] for k >= r — any length, any scalars *)
Theorem C16_bisect : forall v x a ks lo hi,
  lv_key v = Ok x -> mapM (rel_key x) a = Ok ks ->
  0 <= lo -> lo <= hi -> hi <= zlen a ->
  (forall i j ki kj, lo <= i -> i <= j -> j < hi ->
     nth_error ks (Z.to_nat i) = Some ki -> nth_error ks (Z.to_nat j) = Some kj ->
     key_lt false ki kj = Ok true) ->
  exists r, bisect_right (x_lt_cell x) a lo hi = Ok r /\ lo <= r <= hi
    /\ (forall k kk, lo <= k < r -> nth_error ks (Z.to_nat k) = Some kk ->
          key_lt false kk (fst x) = Ok true)
    /\ (forall k kk, r <= k < hi -> nth_error ks (Z.to_nat k) = Some kk ->
          key_lt true (fst x) kk = Ok true).
Proof. exact bisect_sorted. Qed.
Print Assumptions C16_bisect.

(* the order used: x < a and a <= b give x < b, on all keys of scalars *)
Theorem C16_key_order_transitive : forall x a b, kwf x -> kwf a -> kwf b ->
  key_lt true x a = Ok true -> key_lt false a b = Ok true -> key_lt true x b = Ok true.
Proof. exact key_lt_le_trans. Qed.
Print Assumptions C16_key_order_transitive.

(* MATCH(v, a, 0) IS the obvious linear scan: the first position whose cell is
   not an error code, has v's type (type-strict) and passes the equality test
   (keys are lower-cased: case-insensitive), else #N/A *)
Theorem C16_match0 : forall v a,
  match_ v (VTuple a) (VInt 0)
  = (x <- lv_key v ;; t <- test0 (fst x) ;; find_first (matches0 (fst (fst x)) t) a 1).
Proof. exact match0_is_find_first. Qed.
Print Assumptions C16_match0.

(* … where find_first returns #N/A exactly when no cell passes, and otherwise
   the first position that does *)
Theorem C16_find_first : forall p l i r, find_first p l i = Ok r ->
  (r = NA /\ forall c, In c l -> p c = Ok false)
  \/ (exists n c, r = VInt (i + Z.of_nat n) /\ nth_error l n = Some c /\ p c = Ok true
                  /\ forall m c', (m < n)%nat -> nth_error l m = Some c' -> p c' = Ok false).
Proof. exact find_first_spec. Qed.
Print Assumptions C16_find_first.

(* … and the equality test is key equality, or the ?/* glob when the text has
   a wildcard (patterns with other regex metacharacters are outside the model) *)
Theorem C16_match0_test_plain : forall xk,
  (forall p, xk = (1, VStr p) -> existsb is_wild p = false) ->
  test0 xk = Ok (fun k => Ok (key_eq k xk)).
Proof. exact test0_plain. Qed.
Print Assumptions C16_match0_test_plain.
Theorem C16_match0_test_wildcard : forall p,
  existsb is_wild p = true -> existsb regex_meta p = false ->
  test0 (1, VStr p) = Ok (fun k => match snd k with VStr s => Ok (glob p s) | _ => Raise Unmodelled end).
Proof. exact test0_wild. Qed.
Print Assumptions C16_match0_test_wildcard.

(* every match type: the result is #N/A or a position inside the vector *)
Theorem C16_match_position : forall v arr mt a m,
  seq_items arr = Ok a -> match_ v arr mt = Ok m -> m = NA \/ is_pos (zlen a) m.
Proof. exact match_range. Qed.
Print Assumptions C16_match_position.

(* PARTIAL (C16_match1): a position returned by MATCH(v, a, 1) holds a
   non-blank cell of v's type; together with C16_bisect (everything before the
   partition point is <= v, everything after is > v).  Missing: the combination
   "on sorted data the cell is the largest value <= v of v's type / #N/A iff
   there is none" (needs the back-off loop related to the sortedness of the
   types); judged by the oracle on every sorted vector of the run. *)
Theorem C16_match1_partial : forall x a i, match1 x a = Ok (VInt i) ->
  exists c k, 1 <= i <= zlen a /\ nth_error a (Z.to_nat (i - 1)) = Some c /\ c <> VNone
              /\ abs_key c = Ok k /\ fst k = fst (fst x).
Proof. exact match1_hit. Qed.
Print Assumptions C16_match1_partial.

(* PARTIAL (C16_match_m1): a position returned by MATCH(v, a, -1) holds a cell
   that is not an error code, has v's type and is >= v (not < v).  Missing:
   minimality on descending data (the scan stops at the first smaller cell);
   judged by the oracle on every descending vector of the run. *)
Theorem C16_match_m1_partial : forall xk l i last m, scan_m1 xk l i last = Ok m ->
  m = last \/ exists n c k, m = VInt (i + Z.of_nat n) /\ nth_error l n = Some c
                            /\ in_error_codes c = Ok false /\ abs_key c = Ok k
                            /\ fst k = fst xk /\ key_lt true k xk = Ok false.
Proof. exact scan_m1_hit. Qed.
Print Assumptions C16_match_m1_partial.

(* VLOOKUP(v, t, k, r) = INDEX(t, MATCH(v, first column of t, r ? 1 : 0), k) —
   the error MATCH gives, else the cell INDEX gives — every rectangular table *)
Theorem C16_lookup_is_index_match_v : forall v w rows k r,
  rect w rows -> rows <> [] -> 1 <= k <= w ->
  lookup.f_vlookup v (VTuple rows) (VInt k) r
  = (m <- match_ v (VTuple (col_of 0 rows)) (VBool (py_truthy r)) ;;
     if is_int m then index_ (VTuple rows) m (VInt k) else Ok m).
Proof. exact vlookup_is_index_match. Qed.
Print Assumptions C16_lookup_is_index_match_v.
Theorem C16_lookup_is_index_match_h : forall v w rows k r,
  rect w rows -> 1 <= w -> 1 <= k <= zlen rows ->
  lookup.f_hlookup v (VTuple rows) (VInt k) r
  = (m <- match_ v (nth 0 rows VNone) (VBool (py_truthy r)) ;;
     if is_int m then index_ (VTuple rows) (VInt k) m else Ok m).
Proof. exact hlookup_is_index_match. Qed.
Print Assumptions C16_lookup_is_index_match_h.

(* VLOOKUP on a table = HLOOKUP on its transpose *)
Theorem C16_transpose : forall v w rows k r,
  rect w rows -> rows <> [] -> 1 <= w ->
  lookup.f_vlookup v (VTuple rows) (VInt k) r
  = lookup.f_hlookup v (VTuple (transpose (Z.to_nat w) rows)) (VInt k) r.
Proof. exact vlookup_transpose. Qed.
Print Assumptions C16_transpose.

(* bounds: k <= 0 -> #VALUE!, k beyond the table -> #REF!, otherwise #N/A or a
   cell of column k of the table — never a cell outside *)
Theorem C16_bounds_vlookup_low : forall v rows k r, k <= 0 ->
  lookup.f_vlookup v (VTuple rows) (VInt k) r = Ok VALUE.
Proof. exact vlookup_low. Qed.
Print Assumptions C16_bounds_vlookup_low.
Theorem C16_bounds_hlookup_low : forall v rows k r, k <= 0 ->
  lookup.f_hlookup v (VTuple rows) (VInt k) r = Ok VALUE.
Proof. exact hlookup_low. Qed.
Print Assumptions C16_bounds_hlookup_low.
Theorem C16_bounds_vlookup_high : forall v cells0 rows k r, zlen cells0 < k -> 0 < k ->
  lookup.f_vlookup v (VTuple (VTuple cells0 :: rows)) (VInt k) r = Ok REF.
Proof. exact vlookup_high. Qed.
Print Assumptions C16_bounds_vlookup_high.
Theorem C16_bounds_hlookup_high : forall v rows k r, zlen rows < k -> 0 < k ->
  lookup.f_hlookup v (VTuple rows) (VInt k) r = Ok REF.
Proof. exact hlookup_high. Qed.
Print Assumptions C16_bounds_hlookup_high.
Theorem C16_bounds_in_table : forall v w rows k r c,
  rect w rows -> rows <> [] -> 1 <= k <= w ->
  lookup.f_vlookup v (VTuple rows) (VInt k) r = Ok c ->
  c = NA \/ exists i, 1 <= i <= zlen rows
                      /\ c = nth (Z.to_nat (k - 1)) (cells_of (nth (Z.to_nat (i - 1)) rows VNone)) VNone.
Proof. exact vlookup_in_table. Qed.
Print Assumptions C16_bounds_in_table.

(* INDEX: the addressed cell inside the table, #VALUE! for a negative index,
   #REF! beyond the table *)
Theorem C16_index_cell : forall w rows i k, rect w rows -> 1 <= i <= zlen rows -> 1 <= k <= w ->
  index_ (VTuple rows) (VInt i) (VInt k)
  = Ok (nth (Z.to_nat (k - 1)) (cells_of (nth (Z.to_nat (i - 1)) rows VNone)) VNone).
Proof. exact index_cell_value. Qed.
Print Assumptions C16_index_cell.
Theorem C16_index_negative : forall w rows i k, rect w rows -> rows <> [] -> 1 <= w ->
  i <> 0 -> k <> 0 -> (i < 0 \/ k < 0) -> index_ (VTuple rows) (VInt i) (VInt k) = Ok VALUE.
Proof. exact index_negative. Qed.
Print Assumptions C16_index_negative.
Theorem C16_index_beyond : forall w rows i k, rect w rows -> rows <> [] -> 1 <= w ->
  1 <= i -> 1 <= k -> (zlen rows < i \/ w < k) -> index_ (VTuple rows) (VInt i) (VInt k) = Ok REF.
Proof. exact index_beyond. Qed.
Print Assumptions C16_index_beyond.
