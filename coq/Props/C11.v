From Coq Require Import ZArith List.
From PV Require Import Lib.Py Model.Addr Proofs.C11.
Import ListNotations.
Open Scope Z_scope.

Theorem C11_inc_col_range : forall c k, 1 <= inc_col c k <= MAX_COL.
Proof. exact inc_col_range. Qed.
Print Assumptions C11_inc_col_range.
