(* Props/C11.v — property theorems only.  Model: Model/Addr.v (hand-written,
   tied to pycel.excelutil by the correspondence run of harness/props/c11.py). *)
From Coq Require Import ZArith List.
From PV Require Import Lib.Py Model.Addr Proofs.C11 Proofs.C11Lattice Proofs.C11Parse Proofs.C11Notation
  Proofs.C11Unbounded Proofs.C11UnboundedParse Proofs.C11Spellings.
Import ListNotations.
Open Scope Z_scope.

(* (a) column number -> letters -> number, every n >= 1 (bijective base 26) *)
Theorem C11_letters : forall n, 1 <= n -> col_of_letters (letters_of_col n) = n.
Proof. exact letters_roundtrip. Qed.
Print Assumptions C11_letters.
(* ... and letters -> number -> letters on every non-empty [A-Z] string *)
Theorem C11_letters_inverse : forall s, uppers s -> s <> [] -> letters_of_col (col_of_letters s) = s.
Proof. exact letters_inverse. Qed.
Print Assumptions C11_letters_inverse.

(* (b) print/parse round trip: cells and ranges on the sheet, three forms *)
Theorem C11_roundtrip_plain : forall a, on_sheet a -> sheet_ok (a_sheet a) = true ->
  create (address a) [] None = Ok (VA a).
Proof. exact roundtrip_plain. Qed.
Print Assumptions C11_roundtrip_plain.
Theorem C11_roundtrip_quoted : forall a, on_sheet a -> sheet_ok_quoted (a_sheet a) = true ->
  bind (quoted_address a) (fun t => create t [] None) = Ok (VA a).
Proof. exact roundtrip_quoted. Qed.
Print Assumptions C11_roundtrip_quoted.
Theorem C11_roundtrip_abs : forall a, on_sheet a -> sheet_ok_quoted (a_sheet a) = true ->
  bind (abs_address a) (fun t => create t [] None) = Ok (VA a).
Proof. exact roundtrip_abs. Qed.
Print Assumptions C11_roundtrip_abs.
(* the absolute form as the formula compiler reads it (RangeNode._emit strips every '$' of the
   token first): the same address, for the names without '$' (sheet_ok_formula) *)
Theorem C11_roundtrip_abs_stripped : forall a, on_sheet a -> sheet_ok_formula (a_sheet a) = true ->
  bind (abs_address a) (fun t => create (strip_dollar t) [] None) = Ok (VA a).
Proof. exact roundtrip_abs_stripped. Qed.
Print Assumptions C11_roundtrip_abs_stripped.

(* A1 text, R1C1 text and the (col, row) tuple constructor denote one cell *)
Theorem C11_notations : forall s c r, sheet_ok s = true -> 1 <= c <= MAX_COL -> 1 <= r <= MAX_ROW ->
  create (address (ACell s c r)) [] None = Ok (VA (ACell s c r))
  /\ create (form_prefix 0 s ++ r1c1_abs_text r c) [] None = Ok (VA (ACell s c r))
  /\ mk_cell s c r = Ok (ACell s c r).
Proof. exact notations. Qed.
Print Assumptions C11_notations.
(* a relative reference R[dr]C[dc] from ANY anchor and ANY offsets is address_at_offset (wraps) *)
Theorem C11_notation_relative : forall s ar ac dr dc, sheet_ok s = true ->
  bind (create (form_prefix 0 s ++ r1c1_rel_text dr dc) [] (Some (ar, ac))) (fun v => Ok v)
  = bind (address_at_offset (ACell s ac ar) dr dc) (fun a => Ok (VA a)).
Proof. exact notation_relative. Qed.
Print Assumptions C11_notation_relative.

(* (c) a range enumerates height*width distinct cells, exactly those it contains *)
Theorem C11_enumerate : forall s r, enumerable r ->
  exists rows, resolve_range (norm s r) = Ok rows
    /\ Z.of_nat (length (concat rows)) = height (norm s r) * width (norm s r)
    /\ NoDup (concat rows)
    /\ (forall a, In a (concat rows) -> exists c row, a = ACell s c row)
    /\ (forall c row, In (ACell s c row) (concat rows) <-> contains (norm s r) (ACell s c row) = Ok true).
Proof. exact enumerate. Qed.
Print Assumptions C11_enumerate.
Theorem C11_contains : forall s r c row, wf r ->
  contains (norm s r) (ACell s c row) = Ok true <-> inside r c row.
Proof. exact contains_spec. Qed.
Print Assumptions C11_contains.

(* (d) intersection = the common cells, or #NULL! when there is none *)
Theorem C11_intersection : forall s a b, wf a -> wf b ->
  op_inter (VA (norm s a)) (VA (norm s b)) = Ok (meet_val s a b)
  /\ (forall c row, inside (meet_rect a b) c row <-> inside a c row /\ inside b c row)
  /\ (empty_rect (meet_rect a b) = true <-> ~ exists c row, inside a c row /\ inside b c row).
Proof. exact intersection_full. Qed.
Print Assumptions C11_intersection.
(* union = the least rectangle containing both *)
Theorem C11_union : forall s a b, wf a -> wf b ->
  op_union (VA (norm s a)) (VA (norm s b)) = Ok (VA (norm s (join_rect a b)))
  /\ wf (join_rect a b)
  /\ (forall c row, inside a c row \/ inside b c row -> inside (join_rect a b) c row)
  /\ (forall u, (forall c row, inside a c row \/ inside b c row -> inside u c row) ->
                forall c row, inside (join_rect a b) c row -> inside u c row).
Proof. exact union_full. Qed.
Print Assumptions C11_union.
(* commutativity: every pair of addresses (any sheets, bounded or not) *)
Theorem C11_inter_comm : forall x y, op_inter (VA x) (VA y) = op_inter (VA y) (VA x).
Proof. exact inter_comm. Qed.
Print Assumptions C11_inter_comm.
Theorem C11_union_comm : forall x y, op_union (VA x) (VA y) = op_union (VA y) (VA x).
Proof. exact union_comm. Qed.
Print Assumptions C11_union_comm.
Theorem C11_inter_idem : forall s a, wf a -> op_inter (VA (norm s a)) (VA (norm s a)) = Ok (VA (norm s a)).
Proof. exact inter_idem. Qed.
Print Assumptions C11_inter_idem.
Theorem C11_union_idem : forall s a, wf a -> op_union (VA (norm s a)) (VA (norm s a)) = Ok (VA (norm s a)).
Proof. exact union_idem. Qed.
Print Assumptions C11_union_idem.
Theorem C11_union_assoc : forall s a b c, wf a -> wf b -> wf c ->
  bind (op_union (VA (norm s a)) (VA (norm s b))) (fun x => op_union x (VA (norm s c)))
  = bind (op_union (VA (norm s b)) (VA (norm s c))) (fun x => op_union (VA (norm s a)) x).
Proof. exact union_assoc. Qed.
Print Assumptions C11_union_assoc.
(* associativity of & on one sheet, unconditional: an empty inner intersection is
   #NULL!, which the outer operator hands on; the result is the set-theoretic one *)
Theorem C11_inter_assoc : forall s a b c, wf a -> wf b -> wf c ->
  bind (op_inter (VA (norm s a)) (VA (norm s b))) (fun x => op_inter x (VA (norm s c)))
  = bind (op_inter (VA (norm s b)) (VA (norm s c))) (fun x => op_inter (VA (norm s a)) x).
Proof. exact inter_assoc. Qed.
Print Assumptions C11_inter_assoc.
Theorem C11_inter_three : forall s a b c, wf a -> wf b -> wf c ->
  bind (op_inter (VA (norm s a)) (VA (norm s b))) (fun x => op_inter x (VA (norm s c)))
  = Ok (if empty_rect (meet_rect (meet_rect a b) c) then VE NULL_ERROR
        else VA (norm s (meet_rect (meet_rect a b) c))).
Proof. exact inter_three. Qed.
Print Assumptions C11_inter_three.
(* an error-code operand on either side of & or ** is the result *)
Theorem C11_error_operand : forall e x, is_error_code e = true ->
  op_inter (VA x) (VE e) = Ok (VE e) /\ op_inter (VE e) (VA x) = Ok (VE e)
  /\ op_union (VA x) (VE e) = Ok (VE e) /\ op_union (VE e) (VA x) = Ok (VE e).
Proof. exact error_operand. Qed.
Print Assumptions C11_error_operand.
(* ** is associative across ANY sheets: #VALUE! (two named sheets differ) is handed on *)
Theorem C11_union_assoc_sheets : forall sa sb sc a b c, wf a -> wf b -> wf c ->
  bind (op_union (VA (norm sa a)) (VA (norm sb b))) (fun x => op_union x (VA (norm sc c)))
  = bind (op_union (VA (norm sb b)) (VA (norm sc c))) (fun x => op_union (VA (norm sa a)) x).
Proof. exact union_assoc_sheets. Qed.
Print Assumptions C11_union_assoc_sheets.
(* addresses on two different sheets: #VALUE! *)
Theorem C11_different_sheets : forall x y, a_sheet x <> [] -> a_sheet y <> [] -> a_sheet x <> a_sheet y ->
  op_inter (VA x) (VA y) = Ok (VE VALUE_ERROR) /\ op_union (VA x) (VA y) = Ok (VE VALUE_ERROR).
Proof. exact different_sheets_both. Qed.
Print Assumptions C11_different_sheets.

(* (e) offsets stay on the sheet, compose additively, wrap at the sheet size *)
Theorem C11_offset_in_sheet : forall a dr dc, exists c r,
  address_at_offset a dr dc = Ok (ACell (a_sheet a) c r) /\ 1 <= c <= MAX_COL /\ 1 <= r <= MAX_ROW.
Proof. exact offset_in_sheet. Qed.
Print Assumptions C11_offset_in_sheet.
Theorem C11_offset_compose : forall a dr1 dc1 dr2 dc2,
  bind (address_at_offset a dr1 dc1) (fun x => address_at_offset x dr2 dc2)
  = address_at_offset a (dr1 + dr2) (dc1 + dc2).
Proof. exact offset_compose. Qed.
Print Assumptions C11_offset_compose.
Theorem C11_offset_wrap : forall s c r dr dc, 1 <= c <= MAX_COL -> 1 <= r <= MAX_ROW ->
  address_at_offset (ACell s c r) (dr + MAX_ROW) (dc + MAX_COL) = address_at_offset (ACell s c r) dr dc
  /\ address_at_offset (ACell s c r) MAX_ROW MAX_COL = Ok (ACell s c r)
  /\ address_at_offset (ACell s c r) 0 0 = Ok (ACell s c r).
Proof. exact offset_wrap. Qed.
Print Assumptions C11_offset_wrap.

(* ---------------------------------------------------------------------------
   (f) UNBOUNDED ranges: whole columns A:C = (c1, 0, c2, 0), whole rows 2:5 =
   (0, r1, 0, r2) — a corner coordinate 0 is "no limit on this axis".
   [uwf]: every axis is bounded on the sheet or of the form (0, k); [uinside]: the
   cells, clipped to the sheet (A:C = A1:C1048576); [unorm s r]: the address.
   What the faithful model refutes is in Refuted/C11_unbounded.v. *)
(* print/parse round trip of whole-column / whole-row ranges, three forms *)
Theorem C11_roundtrip_unbounded_plain : forall a, unbounded_on_sheet a -> sheet_ok (a_sheet a) = true ->
  create (address a) [] None = Ok (VA a).
Proof. exact roundtrip_unbounded_plain. Qed.
Print Assumptions C11_roundtrip_unbounded_plain.
Theorem C11_roundtrip_unbounded_quoted : forall a, unbounded_on_sheet a -> sheet_ok_quoted (a_sheet a) = true ->
  bind (quoted_address a) (fun t => create t [] None) = Ok (VA a).
Proof. exact roundtrip_unbounded_quoted. Qed.
Print Assumptions C11_roundtrip_unbounded_quoted.
(* partial: [abs_form_ok] excludes the single-column range A:A, whose printed absolute
   form $A$0:$A$0 reads back as the "cell" (1, 0) (C11_unbounded_abs_roundtrip_refuted) *)
Theorem C11_roundtrip_unbounded_abs_partial : forall a, unbounded_on_sheet a -> abs_form_ok a ->
  sheet_ok_quoted (a_sheet a) = true -> bind (abs_address a) (fun t => create t [] None) = Ok (VA a).
Proof. exact roundtrip_unbounded_abs. Qed.
Print Assumptions C11_roundtrip_unbounded_abs_partial.
(* Excel's own absolute spelling $A:$C / $2:$5 denotes the same range *)
Theorem C11_parse_unbounded_dollar : forall a, unbounded_on_sheet a -> sheet_ok_quoted (a_sheet a) = true ->
  create (form_prefix 1 (a_sheet a) ++ excel_abs_coordinate a) [] None = Ok (VA a).
Proof. exact parse_excel_abs. Qed.
Print Assumptions C11_parse_unbounded_dollar.
(* partial: __contains__ is sound for the clipped cells and exact on bounded ranges, but a
   parsed whole-column / whole-row range contains NO cell (C11_unbounded_contains_refuted) *)
Theorem C11_unbounded_contains_partial : forall s r c row, uwf r -> 1 <= c <= MAX_COL -> 1 <= row <= MAX_ROW ->
  (contains (unorm s r) (ACell s c row) = Ok true -> uinside r c row)
  /\ (unb_rect r = false -> (contains (unorm s r) (ACell s c row) = Ok true <-> uinside r c row))
  /\ ((x1 r = 0 /\ x2 r = 0) \/ (y1 r = 0 /\ y2 r = 0) -> contains (unorm s r) (ACell s c row) = Ok false).
Proof. exact ucontains_partial. Qed.
Print Assumptions C11_unbounded_contains_partial.
(* & of any two extended rectangles: the common cells EXCEPT that the last column / row of
   the sheet is dropped on an axis where exactly one operand is unbounded ([ukept]);
   #NULL! iff nothing is left *)
Theorem C11_unbounded_intersection : forall s a b, uwf a -> uwf b ->
  op_inter (VA (unorm s a)) (VA (unorm s b)) = Ok (umeet_val s a b)
  /\ (empty_rect (umeet a b) = false -> uwf (umeet a b))
  /\ (forall c row, empty_rect (umeet a b) = false /\ uinside (umeet a b) c row
                    <-> uinside a c row /\ uinside b c row /\ ukept a b c row)
  /\ (empty_rect (umeet a b) = true <->
      ~ exists c row, uinside a c row /\ uinside b c row /\ ukept a b c row).
Proof. exact uintersection_full. Qed.
Print Assumptions C11_unbounded_intersection.
(* ... hence exactly the common cells when no bounded axis reaches the sheet's last column / row
   against an unbounded one (columns & columns, rows & rows, columns & rows, bounded & bounded, ...) *)
Theorem C11_unbounded_intersection_exact : forall s a b, uwf a -> uwf b -> no_edge a b ->
  op_inter (VA (unorm s a)) (VA (unorm s b)) = Ok (umeet_val s a b)
  /\ (forall c row, empty_rect (umeet a b) = false /\ uinside (umeet a b) c row
                    <-> uinside a c row /\ uinside b c row)
  /\ (empty_rect (umeet a b) = true <-> ~ exists c row, uinside a c row /\ uinside b c row).
Proof. exact uintersection_exact. Qed.
Print Assumptions C11_unbounded_intersection_exact.
(* ** of any two extended rectangles: the least extended rectangle containing both *)
Theorem C11_unbounded_union : forall s a b, uwf a -> uwf b ->
  op_union (VA (unorm s a)) (VA (unorm s b)) = Ok (VA (unorm s (ujoin a b)))
  /\ uwf (ujoin a b)
  /\ (forall c row, uinside a c row \/ uinside b c row -> uinside (ujoin a b) c row)
  /\ (forall u, uwf u -> (forall c row, uinside a c row \/ uinside b c row -> uinside u c row) ->
                forall c row, uinside (ujoin a b) c row -> uinside u c row).
Proof. exact uunion_full. Qed.
Print Assumptions C11_unbounded_union.
(* partial: a & a = a ** a = [ucanon a], which has the cells of a, is a itself when a is bounded and
   is a fixed point of both operators — but is NOT the address a when a is unbounded
   (A:C & A:C = A:C1048575, C11_unbounded_idem_refuted) *)
Theorem C11_unbounded_idem_partial : forall s a, uwf a ->
  uwf (ucanon a)
  /\ op_inter (VA (unorm s a)) (VA (unorm s a)) = Ok (VA (unorm s (ucanon a)))
  /\ op_union (VA (unorm s a)) (VA (unorm s a)) = Ok (VA (unorm s (ucanon a)))
  /\ (forall c row, uinside (ucanon a) c row <-> uinside a c row)
  /\ op_inter (VA (unorm s (ucanon a))) (VA (unorm s (ucanon a))) = Ok (VA (unorm s (ucanon a)))
  /\ op_union (VA (unorm s (ucanon a))) (VA (unorm s (ucanon a))) = Ok (VA (unorm s (ucanon a)))
  /\ (unb_rect a = false -> ucanon a = a).
Proof. exact uidem. Qed.
Print Assumptions C11_unbounded_idem_partial.
(* & is associative on extended rectangles, exactly (#NULL! handed on) *)
Theorem C11_unbounded_inter_assoc : forall s a b c, uwf a -> uwf b -> uwf c ->
  bind (op_inter (VA (unorm s a)) (VA (unorm s b))) (fun x => op_inter x (VA (unorm s c)))
  = bind (op_inter (VA (unorm s b)) (VA (unorm s c))) (fun x => op_inter (VA (unorm s a)) x).
Proof. exact uinter_assoc. Qed.
Print Assumptions C11_unbounded_inter_assoc.
(* partial: ** is associative up to the cells; the two addresses can differ
   ((A:C ** E1048576) ** F1 = A:F1048575, A:C ** (E1048576 ** F1) = A:F1048576,
   C11_unbounded_union_assoc_refuted) *)
Theorem C11_unbounded_union_assoc_partial : forall s a b c, uwf a -> uwf b -> uwf c ->
  bind (op_union (VA (unorm s a)) (VA (unorm s b))) (fun x => op_union x (VA (unorm s c)))
    = Ok (VA (unorm s (ujoin (ujoin a b) c)))
  /\ bind (op_union (VA (unorm s b)) (VA (unorm s c))) (fun x => op_union (VA (unorm s a)) x)
    = Ok (VA (unorm s (ujoin a (ujoin b c))))
  /\ (forall col row, uinside (ujoin (ujoin a b) c) col row <-> uinside (ujoin a (ujoin b c)) col row).
Proof. exact uunion_assoc_cells. Qed.
Print Assumptions C11_unbounded_union_assoc_partial.

(* ... and exactly associative when no bounded axis of an operand reaches the sheet's last column / row *)
Theorem C11_unbounded_union_assoc_exact : forall s a b c, uwf a -> uwf b -> uwf c -> inner a -> inner b -> inner c ->
  bind (op_union (VA (unorm s a)) (VA (unorm s b))) (fun x => op_union x (VA (unorm s c)))
  = bind (op_union (VA (unorm s b)) (VA (unorm s c))) (fun x => op_union (VA (unorm s a)) x).
Proof. exact uunion_assoc_exact. Qed.
Print Assumptions C11_unbounded_union_assoc_exact.
(* the height x width of an extended rectangle is the size of its block of clipped cells *)
Theorem C11_unbounded_size : forall s r c row, uwf r ->
  uinside r c row <-> (Z.max 1 (x1 r) <= c < Z.max 1 (x1 r) + width (unorm s r)
                       /\ Z.max 1 (y1 r) <= row < Z.max 1 (y1 r) + height (unorm s r)).
Proof. exact usize_cells. Qed.
Print Assumptions C11_unbounded_size.
(* an unbounded range is never enumerated (resolve_range asserts `not is_unbounded_range`) *)
Theorem C11_unbounded_not_enumerable : forall s r, uwf r -> unb_rect r = true ->
  resolve_range (unorm s r) = Raise AssertionError.
Proof. exact unot_enumerable. Qed.
Print Assumptions C11_unbounded_not_enumerable.
(* operands on two sheets: #VALUE! when two named sheets differ, else the results above on the named sheet *)
Theorem C11_unbounded_sheets : forall sa sb a b, uwf a -> uwf b ->
  op_inter (VA (unorm sa a)) (VA (unorm sb b))
    = (if conflict sa sb then Ok (VE VALUE_ERROR) else Ok (umeet_val (pick sa sb) a b))
  /\ op_union (VA (unorm sa a)) (VA (unorm sb b))
    = (if conflict sa sb then Ok (VE VALUE_ERROR) else Ok (VA (unorm (pick sa sb) (ujoin a b)))).
Proof. exact uvalue_sheets. Qed.
Print Assumptions C11_unbounded_sheets.

(* ---------------------------------------------------------------------------
   (g) R1C1 spellings: each row / column component bare (R, C = the anchor's own),
   absolute (R7) or relative (R[-2]); cells R..C.., ranges R..C..:R..C.., row-only
   R..:R.. and column-only C..:C.. ranges.  From ANY anchor (ar, ac) and on any sheet
   with sheet_ok, the text denotes the boundaries [sp_bounds] computed by offset
   arithmetic with wrap-around (inc_row / inc_col, the functions of
   address_at_offset), provided the text is not also an A1 reference
   ([sp_unambiguous] excludes RC5, R1:R3, C2:C5, RC1:RC2, R:R, C:C, R:C, RC:RC,
   which range_boundaries reads as A1 — Example ex_spell_ambiguous). *)
Theorem C11_r1c1_spellings : forall s sp ar ac, sheet_ok s = true -> sp_ok sp -> sp_unambiguous sp = true ->
  create (form_prefix 0 s ++ sp_text sp) [] (Some (ar, ac))
  = bind (from_bounds s (sp_bounds (ar, ac) sp)) (fun a => Ok (VA a)).
Proof. exact r1c1_spellings. Qed.
Print Assumptions C11_r1c1_spellings.
(* a cell reference whose components are bare or relative, from an anchor on the sheet: always a cell of the sheet *)
Theorem C11_r1c1_spelling_cell : forall s r c ar ac, sheet_ok s = true -> rel_or_bare r -> rel_or_bare c ->
  1 <= ac <= MAX_COL -> 1 <= ar <= MAX_ROW ->
  create (form_prefix 0 s ++ sp_text (SpCell r c)) [] (Some (ar, ac))
  = Ok (VA (ACell s (comp_val false (ar, ac) c) (comp_val true (ar, ac) r)))
  /\ 1 <= comp_val false (ar, ac) c <= MAX_COL /\ 1 <= comp_val true (ar, ac) r <= MAX_ROW.
Proof. exact r1c1_spelling_cell. Qed.
Print Assumptions C11_r1c1_spelling_cell.
(* without an anchor cell: an all-absolute spelling denotes the same boundaries; a bare or relative
   component is an AssertionError *)
Theorem C11_r1c1_spellings_no_anchor : forall s sp, sheet_ok s = true -> sp_ok sp -> sp_unambiguous sp = true ->
  create (form_prefix 0 s ++ sp_text sp) [] None
  = if sp_absolute sp then bind (from_bounds s (sp_bounds (0, 0) sp)) (fun a => Ok (VA a))
    else Raise AssertionError.
Proof. exact r1c1_spellings_no_anchor. Qed.
Print Assumptions C11_r1c1_spellings_no_anchor.
