(* Line protocol: "<name> <sexp>" per line on stdin, one "<sexp>" line per
   answer.  sexp ::= integer | '(' sexp* ')'.  The argument sexp is a list. *)
open Model
module String = Stdlib.String
module List = Stdlib.List
module Buffer = Stdlib.Buffer
module Char = Stdlib.Char

let ten = Zpos (XO (XI (XO XH)))
let rec z_of_small n = (* 0 <= n < 10 *)
  match n with
  | 0 -> Z0 | 1 -> Zpos XH | 2 -> Zpos (XO XH) | 3 -> Zpos (XI XH)
  | 4 -> Zpos (XO (XO XH)) | 5 -> Zpos (XI (XO XH)) | 6 -> Zpos (XO (XI XH))
  | 7 -> Zpos (XI (XI XH)) | 8 -> Zpos (XO (XO (XO XH)))
  | _ -> Zpos (XI (XO (XO XH)))
let rec pos_of_int n = if n = 1 then XH else if n land 1 = 0 then XO (pos_of_int (n lsr 1)) else XI (pos_of_int (n lsr 1))
let z_of_string s =
  let neg = String.length s > 0 && s.[0] = '-' in
  let start = if neg then 1 else 0 in
  let len = String.length s - start in
  let v =
    if len <= 18 then
      let n = int_of_string (String.sub s start len) in
      if n = 0 then Z0 else Zpos (pos_of_int n)
    else begin
      let acc = ref Z0 in
      for i = start to String.length s - 1 do
        acc := Z.add (Z.mul !acc ten) (z_of_small (Char.code s.[i] - 48))
      done; !acc
    end in
  if neg then Z.opp v else v

let rec int_of_pos p = match p with XH -> 1 | XO q -> 2 * int_of_pos q | XI q -> 2 * int_of_pos q + 1
let rec pos_bits p = match p with XH -> 1 | XO q | XI q -> 1 + pos_bits q
let rec string_of_posz z = (* z >= 0 *)
  match z with
  | Z0 -> "0"
  | Zpos p when pos_bits p <= 60 -> string_of_int (int_of_pos p)
  | _ ->
    let (q, r) = Z.div_eucl z ten in
    let d = (match r with Z0 -> 0 | Zpos p -> int_of_pos p | Zneg _ -> 0) in
    (string_of_posz q) ^ (string_of_int d)
let string_of_z z = match z with
  | Zneg p -> "-" ^ string_of_posz (Zpos p)
  | _ -> string_of_posz z

let rec print_sx b x = match x with
  | SZ z -> Buffer.add_string b (string_of_z z)
  | SL l -> Buffer.add_char b '(';
    List.iteri (fun i y -> if i > 0 then Buffer.add_char b ' '; print_sx b y) l;
    Buffer.add_char b ')'

(* tokenizer/parser *)
let parse_sx (s : Stdlib.String.t) (pos : int ref) : sx =
  let n = String.length s in
  let rec skip () = if !pos < n && (s.[!pos] = ' ' || s.[!pos] = '\t') then (incr pos; skip ()) in
  let rec item () =
    skip ();
    if !pos >= n then failwith "eof"
    else if s.[!pos] = '(' then begin
      incr pos;
      let acc = ref [] in
      let rec loop () =
        skip ();
        if !pos >= n then failwith "unterminated"
        else if s.[!pos] = ')' then incr pos
        else (acc := item () :: !acc; loop ()) in
      loop (); SL (List.rev !acc)
    end else begin
      let st = !pos in
      while !pos < n && s.[!pos] <> ' ' && s.[!pos] <> ')' && s.[!pos] <> '(' do incr pos done;
      SZ (z_of_string (String.sub s st (!pos - st)))
    end in
  item ()

let () =
  let b = Buffer.create 65536 in
  (try
    while true do
      let line = input_line stdin in
      let sp = String.index line ' ' in
      let name = String.sub line 0 sp in
      let pos = ref (sp + 1) in
      let args = (match parse_sx line pos with SL l -> l | x -> [x]) in
      let nm = List.init (String.length name) (fun i -> z_of_string (string_of_int (Char.code name.[i]))) in
      let r = (try dispatch nm args with Stack_overflow -> SL [SZ (z_of_string "4")]) in
      print_sx b r; Buffer.add_char b '\n';
      if Buffer.length b > 60000 then (print_string (Buffer.contents b); Buffer.clear b)
    done
  with End_of_file -> ());
  print_string (Buffer.contents b)
