#!/bin/bash
# Re-check every property file (and everything it depends on) with Coq's independent checker and print the
# axioms it finds.  Not part of the routine checks (about a minute and up to 4 GB per file); the result of the
# last run is kept in docs/coqchk.txt.     usage: tools/coqchk_all.sh [Cxx ...]
cd "$(dirname "$(readlink -f "$0")")/../coq"
props=${@:-$(ls Props/*.v | sed 's#Props/##; s#\.v##')}
out=../docs/coqchk.txt
: > "$out"
for p in $props; do
  echo "=== PV.Props.$p" | tee -a "$out"
  ( timeout 1800 coqchk -o -silent -Q . PV PV.Props.$p 2>&1 | sed -n '/CONTEXT SUMMARY/,$p' | grep -v "^$" ) | tee -a "$out"
done
