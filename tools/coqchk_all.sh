#!/bin/bash
# Re-check every property file (and everything it depends on) with Coq's independent checker and print the
# axioms it finds.  Not part of the routine checks (about a minute and up to 4 GB per file; C17 takes an hour and a
# half because its vm_compute sweeps are re-checked without the VM: its last result is kept in docs/coqchk_c17.txt and
# it is only re-run when named explicitly).  Result of the last run: docs/coqchk.txt.
# usage: tools/coqchk_all.sh [Cxx ...]
cd "$(dirname "$(readlink -f "$0")")/../coq"
props=${@:-$(ls Props/*.v | sed 's#Props/##; s#\.v##' | grep -v '^C17$')}
out=../docs/coqchk.txt
: > "$out"
for p in $props; do
  echo "=== PV.Props.$p" | tee -a "$out"
  ( timeout 9000 coqchk -o -silent -Q . PV PV.Props.$p 2>&1 | sed -n '/CONTEXT SUMMARY/,$p' | grep -v "^ *$" ) | tee -a "$out"
done
case " $props " in *" C17 "*) ;; *) cat ../docs/coqchk_c17.txt >> "$out";; esac
