#!/usr/bin/env python3
"""Rewrite the per-property theorem-count table of DESIGN.md §5 from coq/Props/Cxx.v."""
import json, os, re
root = os.path.dirname(os.path.dirname(os.path.abspath(__file__)))
titles = {}
for line in open(os.path.join(root, 'properties.jsonl')):
    if line.strip():
        d = json.loads(line)
        titles[d['id']] = d['title']
rows, tot, totp = [], 0, 0
for pid in sorted(titles):
    src = open(os.path.join(root, 'coq', 'Props', pid + '.v')).read()
    names = re.findall(r'^Theorem\s+(\w+)', src, re.M)
    part = [n for n in names if n.endswith('_partial')]
    rows.append(f"| {pid} | {titles[pid][:70]} | {len(names)} | {len(part)} |")
    tot += len(names)
    totp += len(part)
rows.append(f"| | **total** | **{tot}** | **{totp}** |")
p = os.path.join(root, 'DESIGN.md')
lines = open(p).read().split('\n')
i = next(k for k, l in enumerate(lines) if l.startswith('| property | title | theorems in `Props/`'))
j = i + 2
while lines[j].startswith('|'):
    j += 1
lines[i + 2:j] = rows
open(p, 'w').write('\n'.join(lines))
print(tot, totp)
