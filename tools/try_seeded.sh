#!/bin/bash
# usage: tools/try_seeded.sh <patch.diff> <Cxx> [Cyy ...]
# Applies the patch in a scratch worktree of /repo (never to /repo itself), runs the
# given checks against it through VERIF_REPO, prints their verdict lines, removes the worktree.
set -u
patch=$(readlink -f "$1"); shift
wt=$(mktemp -d /tmp/seedtry.XXXXXX)
git -C /repo worktree add -q --detach "$wt" HEAD
if ! git -C "$wt" apply "$patch"; then echo "PATCH DOES NOT APPLY"; git -C /repo worktree remove --force "$wt"; exit 2; fi
cd "$(dirname "$(readlink -f "$0")")/.."
ev=$(mktemp -d /tmp/seedev.XXXXXX); cp -a evidence/. "$ev"/   # evidence must come from runs against /repo
for c in "$@"; do
  echo "=== $c against $(basename "$patch")"
  VERIF_REPO="$wt" timeout 1800 ./check "$c" 2>&1 | grep -v "^KNOWN-FINDING" | tail -3 | cut -c1-400
done
git -C /repo worktree remove --force "$wt"
cp -a "$ev"/. evidence/; rm -rf "$ev"
# bring coq/Gen back to the real tree
PYTHONPATH=$PWD:/repo/src PYTHONHASHSEED=0 /venv/bin/python translator/gen.py --repo /repo > /dev/null
