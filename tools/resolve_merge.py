#!/usr/bin/env python3
"""Resolve the usual conflicts when merging a property branch into main:
_CoqProject (keep both sides), known_findings.json (union by id), tools/mkmanifest.py
(claim blocks changed on the branch win), MANIFEST.json (regenerated), evidence (theirs)."""
import json, re, subprocess, sys

def show(stage, path):
    r = subprocess.run(['git', 'show', f':{stage}:{path}'], capture_output=True, text=True)
    return r.stdout if r.returncode == 0 else ''

conf = subprocess.run(['git', 'diff', '--name-only', '--diff-filter=U'], capture_output=True, text=True).stdout.split()
BLOCK = re.compile(r"^CLAIMED\['(C\d+)'\] = dict\(.*?(?=^CLAIMED\[|^NOT_YET)", re.S | re.M)
for path in conf:
    base, ours, theirs = show(1, path), show(2, path), show(3, path)
    if path.endswith('_CoqProject'):
        lines = ours.splitlines()
        have = set(lines)
        for l in theirs.splitlines():
            if l not in have:
                lines.append(l); have.add(l)
        out = '\n'.join(lines) + '\n'
    elif path == 'known_findings.json':
        o, t = json.loads(ours), json.loads(theirs)
        key = 'findings' if isinstance(o, dict) else None
        lo, lt = (o[key], t[key]) if key else (o, t)
        ids = {e['id'] for e in lo}
        lo.extend(e for e in lt if e['id'] not in ids)
        out = json.dumps(o, indent=1, ensure_ascii=False) + '\n'
    elif path == 'tools/mkmanifest.py':
        bb = {m.group(1): m.group(0) for m in BLOCK.finditer(base)}
        out = ours
        for m in BLOCK.finditer(theirs):
            pid, blk = m.group(1), m.group(0)
            if bb.get(pid) == blk:
                continue
            mine = {x.group(1): x.group(0) for x in BLOCK.finditer(out)}
            if pid in mine:
                out = out.replace(mine[pid], blk)
            else:
                out = out.replace('NOT_YET', blk + 'NOT_YET', 1)
    elif path == 'MANIFEST.json' or path.startswith('evidence/'):
        out = theirs
    else:
        print('UNRESOLVED', path); continue
    open(path, 'w').write(out)
    subprocess.run(['git', 'add', path], check=True)
    print('resolved', path)
