#!/usr/bin/env python3
"""Regenerate /verif/MANIFEST.json from the table below."""
import json
import os

VERIF = os.path.dirname(os.path.dirname(os.path.abspath(__file__)))
ALL = [f"C{i:02d}" for i in range(1, 21)]

TRUST = ("Trusted: Coq 8.16.1 kernel (vm_compute only where a theorem's name says sweep; no native_compute); "
         "the theorems' axioms as printed by Print Assumptions into the evidence file; translator/pylite.py and "
         "its Python-semantics library coq/Lib/Py.v (exact arithmetic: int=Z, float=reduced Q); extraction "
         "(ExtrOcamlBasic only, no Extract Constant) + ocaml/driver.ml; the Python harness (generators, "
         "canonicalisers, oracles). Modelled, not verified: CPython builtins used by the translated code "
         "(int(), bin/oct/hex, str methods, Decimal.quantize, datetime), openpyxl, networkx, numpy.")

CLAIMED = {
    'C18': dict(
        technique="Coq proof over a model regenerated from engineering.py by a Python-AST translator, plus "
                  "extracted-model/implementation differential run",
        text="Machine-checked proof (Coq 8.16) over Gen/engineering.v, which is re-translated from "
             "/repo/src/pycel/lib/engineering.py on every run: DEC2x;x2DEC round trip on the whole 10-digit "
             "two's-complement range for bases 2, 8, 16 (all integers, no sampling), 10-digit rendering of "
             "negatives, places padding/#NUM!, base-to-base = composition, rejection of out-of-range numbers, "
             "over-long text and any character outside the alphabet. 17 theorems, all closed under the global "
             "context. The translator's Python->Coq mapping is policed by running the extracted model against "
             "the real functions on ~25k calls per quick run, and the property's statement is also evaluated "
             "directly on the implementation to produce concrete failing inputs.",
        design_ref="DESIGN.md 5 C18",
    ),
    'C20': dict(
        technique="Coq proof over a model regenerated from text.py by the Python-AST translator (slicing/search "
                  "functions) under a hand-written model of the apply_meta wrappers, hand-written models of "
                  "SUBSTITUTE/TRIM/TEXT, plus extracted-model/implementation differential run and a property "
                  "oracle on the implementation",
        text="Machine-checked (Coq 8.16), all texts (lists of code points of any length) and all integer "
             "positions, over Gen/text.v (left, right, mid, replace, find, exact, upper, lower, len_, concatenate "
             "re-translated from /repo/src/pycel/lib/text.py on every run) wrapped by Model/Text.v's model of "
             "strs_wrapper/nums_wrapper/error_string_wrapper. FULL: C20_left_chars, C20_mid_chars, C20_partition "
             "(LEFT(s,n)&MID(s,n+1,LEN s)=s), C20_right (last min(k,LEN) characters), C20_replace (=LEFT&t&MID), "
             "C20_negative_counts (#VALUE!), C20_number_rendering (z and z.0 are the digits of z, logicals "
             "TRUE/FALSE, blank empty, for LEFT/RIGHT/MID/REPLACE), C20_find_default, C20_substitute_all + "
             "C20_substitute_rest (no occurrence: unchanged; else prefix & new & substitution of the rest, non-empty "
             "pattern), C20_substitute_nth (instance i >= 1: exactly the i-th non-overlapping occurrence), "
             "C20_concatenate, C20_exact, C20_upper/lower_idempotent (where the case mapping is modelled: "
             "ASCII, Latin-1, CJK, pictographs) and C20_upper/lower_ascii (total on ASCII). PARTIAL: "
             "C20_find_partial (first match / #VALUE! proved for start >= 1; start < 1 refuted: "
             "Refuted/C20_find_start.v, FIND(\"c\",\"abc\",0)=3, fractional start raises TypeError), "
             "C20_trim_partial (no adjacent spaces, other characters untouched, idempotent; 'none at the ends' "
             "refuted: Refuted/C20_trim_ends.v). REFUTED witnesses also for RIGHT(s,0.5)=s "
             "(Refuted/C20_right_fraction.v) and TEXT half-even rounding (Refuted/C20_text_rounding.v: "
             "TEXT(2.5,\"0\")=\"2\", TEXT(0.125,\"0.00\")=\"0.12\"). CORRESPONDENCE-ONLY (no theorem): "
             "CONCAT and TEXT(x,f) for one-section formats over 0 # , . % "
             "(Model/TextFormat.v transcribes _tokenize_format/_number_converter/_number_token_converter with "
             "round-half-even of the exact value). 19 theorems closed under the global context. Every quick run "
             "compares the extracted model with the real functions called through apply_meta on ~420k calls "
             "(all strings up to length 4 over a 5-symbol alphabet with a space, a 2-byte and a 4-byte character "
             "x all n,k in -1..10; numbers/booleans/blanks/errors in every position; ~45k TEXT calls) and "
             "evaluates the property's identities on the implementation.",
        design_ref="DESIGN.md 5 C20",
    ),
}

NOT_YET = "check not built yet in this round (planned: DESIGN.md section 7 lists the build order)"


def main():
    checks = []
    for pid in ALL:
        if pid not in CLAIMED:
            continue
        c = CLAIMED[pid]
        checks.append(dict(
            property_id=pid,
            quick_cmd=f"./check {pid} --tier quick",
            thorough_cmd=f"./check {pid} --tier thorough",
            evidence_file=f"/verif/evidence/{pid}.json",
            replay_cmd_template=f"./check {pid} --replay {{path}}",
            engine="coq+ocaml-corr",
            level_claimed=dict(category=c.get('category', 'proof'), text=c['text'],
                               design_ref=c['design_ref']),
            level_note=c.get('note', TRUST),
            technique=c['technique'],
        ))
    man = dict(
        version=1,
        setup_cmd="./setup",
        hooks=dict(
            guard="PYCEL_VERIF",
            enable="checks run the implementation with PYTHONPATH=/repo/src PYCEL_VERIF=1 (in-process "
                   "import of the working tree; nothing is built)",
            baseline_off_cmd="cd /repo && env -u PYCEL_VERIF /venv/bin/python -m pytest -ra -q "
                             "-p no:cacheprovider --timeout=900 --continue-on-collection-errors",
            source_commits=[],
            add_only=True,
        ),
        engines=[dict(name="coq+ocaml-corr", path="/verif/coq, /verif/translator, /verif/harness, /verif/ocaml",
                      serves_properties=sorted(CLAIMED),
                      kind_free_text="Coq 8.16 development (models regenerated from source by "
                                     "translator/pylite.py or hand-written), theorems in coq/Props, extracted "
                                     "OCaml model run against the implementation by harness/")],
        checks=checks,
        notes="One CLI: ./check Cxx --tier quick|thorough. Known findings: /verif/known_findings.json. "
              "Replays are written to /verif/replays/.",
        not_applicable=[dict(property_id=p, reason=NOT_YET) for p in ALL if p not in CLAIMED],
    )
    with open(os.path.join(VERIF, 'MANIFEST.json'), 'w') as f:
        json.dump(man, f, indent=1)


if __name__ == '__main__':
    main()
