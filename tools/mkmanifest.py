#!/usr/bin/env python3
"""Regenerate /verif/MANIFEST.json from the table below."""
import json
import os

VERIF = os.path.dirname(os.path.dirname(os.path.abspath(__file__)))
ALL = [f"C{i:02d}" for i in range(1, 21)]

TRUST = ("Trusted: Coq 8.16.1 kernel (vm_compute only where a theorem's name says sweep; no native_compute); "
         "the theorems' axioms as printed by Print Assumptions into the evidence file; translator/pylite.py and "
         "its Python-semantics library coq/Lib/Py.v (exact arithmetic: int=Z, float=reduced Q); extraction "
         "(ExtrOcamlBasic only, no Extract Constant) + ocaml/driver.ml; the Python harness (generators, "
         "canonicalisers, oracles). Modelled, not verified: CPython builtins used by the translated code "
         "(int(), bin/oct/hex, str methods, Decimal.quantize, datetime), openpyxl, networkx, numpy.")

CLAIMED = {
    'C11': dict(
        technique="Coq proof over a hand-written executable model of the address algebra (coq/Model/Addr.v), "
                  "extracted-model/implementation differential run, and the property's oracle on the implementation",
        text="Machine-checked proofs (Coq 8.16, 21 theorems in coq/Props/C11.v, all closed under the global "
             "context) over Model/Addr.v, a hand-written model of AddressCell/AddressRange, split_sheetname, "
             "unquote_sheetname, range_boundaries/r1c1_boundaries and openpyxl's get_column_letter/"
             "column_index_from_string/range_boundaries/quote_sheetname. FULL (all inputs, induction/lia): "
             "C11_letters, C11_letters_inverse (bijective base 26, every n >= 1 / every non-empty [A-Z] string); "
             "C11_roundtrip_plain/_quoted/_abs (parse(print a) = a for every cell and every range with distinct "
             "corners in 1..16384 x 1..1048576 and every sheet name with sheet_ok = no '!' and not both starting "
             "and ending with an apostrophe; for the quoted/absolute forms names containing a space only need no "
             "'!'); C11_notations, C11_notation_relative (A1 = R1C1 = tuple; R[dr]C[dc] from any anchor and any "
             "integer offsets = address_at_offset with wrap); C11_enumerate, C11_contains (height*width distinct "
             "cells, membership <-> containment, for ranges that do not span the full sheet width/height, which "
             "the implementation refuses to enumerate); C11_intersection (= common cells, #NULL! iff none), "
             "C11_union (least rectangle containing both), C11_inter_comm/C11_union_comm (all addresses), "
             "C11_inter_idem/C11_union_idem, C11_union_assoc, C11_different_sheets (#VALUE!), "
             "C11_offset_in_sheet/_compose/_wrap. PARTIAL: C11_inter_assoc_partial (associativity of & only when "
             "both inner intersections are non-empty); the full statement is refuted in the model "
             "(coq/Refuted/C11_assoc.v: (A1:B2 & C3:D4) & A1:A2 raises AttributeError instead of #NULL!). "
             "Unbounded ranges (A:B, 1:2) and reversed corners are modelled and covered by the correspondence "
             "but not by the lattice theorems. The model is tied to the implementation by running the extracted "
             "model against the real API on ~55k calls per quick run (printed address text, (sheet, col, row) "
             "tuples, error texts, exception classes compared exactly), and the property is evaluated directly "
             "on the implementation (~25k oracle cases) to produce concrete failing inputs.",
        design_ref="DESIGN.md 5 C11",
    ),
    'C18': dict(
        technique="Coq proof over a model regenerated from engineering.py by a Python-AST translator, plus "
                  "extracted-model/implementation differential run",
        text="Machine-checked proof (Coq 8.16) over Gen/engineering.v, which is re-translated from "
             "/repo/src/pycel/lib/engineering.py on every run: DEC2x;x2DEC round trip on the whole 10-digit "
             "two's-complement range for bases 2, 8, 16 (all integers, no sampling), 10-digit rendering of "
             "negatives, places padding/#NUM!, base-to-base = composition, rejection of out-of-range numbers, "
             "over-long text and any character outside the alphabet. 17 theorems, all closed under the global "
             "context. The translator's Python->Coq mapping is policed by running the extracted model against "
             "the real functions on ~25k calls per quick run, and the property's statement is also evaluated "
             "directly on the implementation to produce concrete failing inputs.",
        design_ref="DESIGN.md 5 C18",
    ),
    'C10': dict(
        technique="Coq proof over a hand-transcribed operator model built on coercion functions regenerated "
                  "from excelutil.py, tied by exhaustive pool differential runs against the real fix-up function",
        text="Model/Ops.v transcribes excelutil.build_operator_operand_fixup.fixup branch by branch on top of "
             "Gen/excelutil.v (coerce_to_number, type_cmp_value, is_number, coerce_to_string: re-translated from "
             "the source every run). Proved for ALL scalar operands: an error operand is returned unchanged, left "
             "first (13 operators); for any two non-error scalars incl. blank exactly one of <,=,> holds and "
             "<>,<=,>= are the complements (unbounded strings/numbers; the comparison is defined unless a "
             "character's case mapping is outside the model); numbers < text < logicals; case-insensitive text "
             "equality; blank equals 0, \"\" and FALSE; exact integer + - *, true division, x/0 = #DIV/0!, "
             "logicals/blank as numbers; & on text, integers, logicals, blank. Type closure for every operand "
             "pair (never raises, never a complex) and transitivity are judged by the oracle over the exhaustive "
             "pool (~160k triples per quick run), not by a theorem. Correspondence: every (left, op, right) over "
             "a ~60-value pool, bit-exact.",
        design_ref="DESIGN.md 5 C10",
    ),
    'C16': dict(
        technique="Coq proof over the bodies of match/vlookup/hlookup/lookup regenerated from lookup.py by the "
                  "Python-AST translator, calling a hand-transcribed model of _match (bisect_right on ExcelCmp "
                  "keys, the two linear scans, the wildcard regex) and of index, under a hand-written model of the "
                  "apply_meta wrappers; extracted-model/implementation differential run; a linear-scan oracle on "
                  "the implementation",
        text="Machine-checked (Coq 8.16, 21 theorems in coq/Props/C16.v, all closed under the global context), "
             "for vectors/tables of ANY size and all scalar cells. FULL: C16_bisect_loop (CPython's bisect_right "
             "loop returns the partition point of any defined monotone test; fuel hi-lo+1 suffices), C16_bisect "
             "(on cells whose ExcelCmp keys are sorted by the model's <= between lo and hi: a[k] <= v before the "
             "result, v < a[k] from it on), C16_key_order_transitive (numbers < text < logicals < errors, "
             "case-folded text; x<a, a<=b => x<b); C16_match0 (MATCH(v,a,0) = find_first of 'not an error cell, "
             "v's type, equality test'), C16_find_first (first hit / #N/A iff none), C16_match0_test_plain / "
             "_wildcard (key equality, or the ?/* glob); C16_match_position (every match type: #N/A or a "
             "position inside the vector); C16_lookup_is_index_match_v/_h (VLOOKUP/HLOOKUP = the error MATCH "
             "gives, else INDEX(t, MATCH(...), k), every rectangular table); C16_transpose (VLOOKUP on t = "
             "HLOOKUP on transpose t, all k incl. out of range); C16_bounds_vlookup/hlookup_low (k<=0: #VALUE!), "
             "_high (k beyond: #REF!), C16_bounds_in_table (otherwise #N/A or a cell of column k: never a cell "
             "outside); C16_index_cell / _negative (#VALUE!) / _beyond (#REF!). PARTIAL: C16_match1_partial (a "
             "position returned by match type 1 holds a non-blank cell of v's type; with C16_bisect: everything "
             "before the partition point is <= v. Missing: 'largest value <= v of v's type, #N/A iff none' as one "
             "statement through the back-off loop), C16_match_m1_partial (a position returned by match type -1 "
             "holds a non-error cell of v's type that is >= v. Missing: minimality on descending data). Both "
             "missing parts are judged by the oracle on every sorted vector of each run. REFUTED in the faithful "
             "model (advisory files, built as extra targets): Refuted/C16_blank_cell.v (match types 0/-1 find a "
             "blank cell as the number 0, type 1 does not), Refuted/C16_wildcard_tilde.v ('a~*' does not escape "
             "the asterisk). CORRESPONDENCE-ONLY (no theorem): LOOKUP (vector/array form, result_range), the "
             "apply_meta wrappers (CSE lookup value, number coercion of the index, error propagation), INDEX with "
             "a 0/omitted index (whole row/column), match_type coercion. Outside the model (Unmodelled, oracle "
             "only): wildcard patterns containing other regex metacharacters. Every quick run compares the "
             "extracted model with the real functions called through apply_meta on ~77k distinct calls (MATCH "
             "over all vectors up to length 2 and sampled up to length 8 over a 9/18-value mixed pool, sorted "
             "and unsorted, blanks at the ends x 17 lookup values x match types; _match and bisect_right "
             "directly; VLOOKUP/HLOOKUP over tables up to 6x4 x every index -1..size+2 x range_lookup; LOOKUP; "
             "INDEX over every row/column index), 0 divergences, and evaluates the property's linear-scan "
             "definition on the implementation; the thorough tier enumerates all vectors up to length 5.",
        design_ref="DESIGN.md 5 C16",
    ),
    'C20': dict(
        technique="Coq proof over a model regenerated from text.py by the Python-AST translator (slicing/search "
                  "functions) under a hand-written model of the apply_meta wrappers, hand-written models of "
                  "SUBSTITUTE/TRIM/TEXT, plus extracted-model/implementation differential run and a property "
                  "oracle on the implementation",
        text="Machine-checked (Coq 8.16), all texts (lists of code points of any length) and all integer "
             "positions, over Gen/text.v (left, right, mid, replace, find, exact, upper, lower, len_, concatenate "
             "re-translated from /repo/src/pycel/lib/text.py on every run) wrapped by Model/Text.v's model of "
             "strs_wrapper/nums_wrapper/error_string_wrapper. FULL: C20_left_chars, C20_mid_chars, C20_partition "
             "(LEFT(s,n)&MID(s,n+1,LEN s)=s), C20_right (last min(k,LEN) characters), C20_replace (=LEFT&t&MID), "
             "C20_negative_counts (#VALUE!), C20_number_rendering (z and z.0 are the digits of z, logicals "
             "TRUE/FALSE, blank empty, for LEFT/RIGHT/MID/REPLACE), C20_find_default, C20_substitute_all + "
             "C20_substitute_rest (no occurrence: unchanged; else prefix & new & substitution of the rest, non-empty "
             "pattern), C20_substitute_nth (instance i >= 1: exactly the i-th non-overlapping occurrence), "
             "C20_concatenate, C20_exact, C20_upper/lower_idempotent (where the case mapping is modelled: "
             "ASCII, Latin-1, CJK, pictographs) and C20_upper/lower_ascii (total on ASCII). PARTIAL: "
             "C20_find_partial (first match / #VALUE! proved for start >= 1; start < 1 refuted: "
             "Refuted/C20_find_start.v, FIND(\"c\",\"abc\",0)=3, fractional start raises TypeError), "
             "C20_trim_partial (no adjacent spaces, other characters untouched, idempotent; 'none at the ends' "
             "refuted: Refuted/C20_trim_ends.v). REFUTED witnesses also for RIGHT(s,0.5)=s "
             "(Refuted/C20_right_fraction.v) and TEXT half-even rounding (Refuted/C20_text_rounding.v: "
             "TEXT(2.5,\"0\")=\"2\", TEXT(0.125,\"0.00\")=\"0.12\"). CORRESPONDENCE-ONLY (no theorem): "
             "CONCAT and TEXT(x,f) for one-section formats over 0 # , . % "
             "(Model/TextFormat.v transcribes _tokenize_format/_number_converter/_number_token_converter with "
             "round-half-even of the exact value). 19 theorems closed under the global context. Every quick run "
             "compares the extracted model with the real functions called through apply_meta on ~420k calls "
             "(all strings up to length 4 over a 5-symbol alphabet with a space, a 2-byte and a 4-byte character "
             "x all n,k in -1..10; numbers/booleans/blanks/errors in every position; ~45k TEXT calls) and "
             "evaluates the property's identities on the implementation.",
        design_ref="DESIGN.md 5 C20",
    ),
}

NOT_YET = "check not built yet in this round (planned: DESIGN.md section 7 lists the build order)"


def main():
    checks = []
    for pid in ALL:
        if pid not in CLAIMED:
            continue
        c = CLAIMED[pid]
        checks.append(dict(
            property_id=pid,
            quick_cmd=f"./check {pid} --tier quick",
            thorough_cmd=f"./check {pid} --tier thorough",
            evidence_file=f"/verif/evidence/{pid}.json",
            replay_cmd_template=f"./check {pid} --replay {{path}}",
            engine="coq+ocaml-corr",
            level_claimed=dict(category=c.get('category', 'proof'), text=c['text'],
                               design_ref=c['design_ref']),
            level_note=c.get('note', TRUST),
            technique=c['technique'],
        ))
    man = dict(
        version=1,
        setup_cmd="./setup",
        hooks=dict(
            guard="PYCEL_VERIF",
            enable="checks run the implementation with PYTHONPATH=/repo/src PYCEL_VERIF=1 (in-process "
                   "import of the working tree; nothing is built)",
            baseline_off_cmd="cd /repo && env -u PYCEL_VERIF /venv/bin/python -m pytest -ra -q "
                             "-p no:cacheprovider --timeout=900 --continue-on-collection-errors",
            source_commits=[],
            add_only=True,
        ),
        engines=[dict(name="coq+ocaml-corr", path="/verif/coq, /verif/translator, /verif/harness, /verif/ocaml",
                      serves_properties=sorted(CLAIMED),
                      kind_free_text="Coq 8.16 development (models regenerated from source by "
                                     "translator/pylite.py or hand-written), theorems in coq/Props, extracted "
                                     "OCaml model run against the implementation by harness/")],
        checks=checks,
        notes="One CLI: ./check Cxx --tier quick|thorough. Known findings: /verif/known_findings.json. "
              "Replays are written to /verif/replays/.",
        not_applicable=[dict(property_id=p, reason=NOT_YET) for p in ALL if p not in CLAIMED],
    )
    with open(os.path.join(VERIF, 'MANIFEST.json'), 'w') as f:
        json.dump(man, f, indent=1)


if __name__ == '__main__':
    main()
