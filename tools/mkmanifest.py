#!/usr/bin/env python3
"""Regenerate /verif/MANIFEST.json from the table below."""
import json
import os

VERIF = os.path.dirname(os.path.dirname(os.path.abspath(__file__)))
ALL = [f"C{i:02d}" for i in range(1, 21)]

TRUST = ("Trusted: Coq 8.16.1 kernel (vm_compute only where a theorem's name says sweep; no native_compute); "
         "the theorems' axioms as printed by Print Assumptions into the evidence file; translator/pylite.py and "
         "its Python-semantics library coq/Lib/Py.v (exact arithmetic: int=Z, float=reduced Q); extraction "
         "(ExtrOcamlBasic only, no Extract Constant) + ocaml/driver.ml; the Python harness (generators, "
         "canonicalisers, oracles). Modelled, not verified: CPython builtins used by the translated code "
         "(int(), bin/oct/hex, str methods, Decimal.quantize, datetime), openpyxl, networkx, numpy.")

CLAIMED = {
    'C11': dict(
        technique="Coq proof over a hand-written executable model of the address algebra (coq/Model/Addr.v), "
                  "extracted-model/implementation differential run, and the property's oracle on the implementation",
        text="Machine-checked proofs (Coq 8.16, 21 theorems in coq/Props/C11.v, all closed under the global "
             "context) over Model/Addr.v, a hand-written model of AddressCell/AddressRange, split_sheetname, "
             "unquote_sheetname, range_boundaries/r1c1_boundaries and openpyxl's get_column_letter/"
             "column_index_from_string/range_boundaries/quote_sheetname. FULL (all inputs, induction/lia): "
             "C11_letters, C11_letters_inverse (bijective base 26, every n >= 1 / every non-empty [A-Z] string); "
             "C11_roundtrip_plain/_quoted/_abs (parse(print a) = a for every cell and every range with distinct "
             "corners in 1..16384 x 1..1048576 and every sheet name with sheet_ok = no '!' and not both starting "
             "and ending with an apostrophe; for the quoted/absolute forms names containing a space only need no "
             "'!'); C11_notations, C11_notation_relative (A1 = R1C1 = tuple; R[dr]C[dc] from any anchor and any "
             "integer offsets = address_at_offset with wrap); C11_enumerate, C11_contains (height*width distinct "
             "cells, membership <-> containment, for ranges that do not span the full sheet width/height, which "
             "the implementation refuses to enumerate); C11_intersection (= common cells, #NULL! iff none), "
             "C11_union (least rectangle containing both), C11_inter_comm/C11_union_comm (all addresses), "
             "C11_inter_idem/C11_union_idem, C11_union_assoc, C11_different_sheets (#VALUE!), "
             "C11_offset_in_sheet/_compose/_wrap. PARTIAL: C11_inter_assoc_partial (associativity of & only when "
             "both inner intersections are non-empty); the full statement is refuted in the model "
             "(coq/Refuted/C11_assoc.v: (A1:B2 & C3:D4) & A1:A2 raises AttributeError instead of #NULL!). "
             "Unbounded ranges (A:B, 1:2) and reversed corners are modelled and covered by the correspondence "
             "but not by the lattice theorems. The model is tied to the implementation by running the extracted "
             "model against the real API on ~55k calls per quick run (printed address text, (sheet, col, row) "
             "tuples, error texts, exception classes compared exactly), and the property is evaluated directly "
             "on the implementation (~25k oracle cases) to produce concrete failing inputs.",
        design_ref="DESIGN.md 5 C11",
    ),
    'C18': dict(
        technique="Coq proof over a model regenerated from engineering.py by a Python-AST translator, plus "
                  "extracted-model/implementation differential run",
        text="Machine-checked proof (Coq 8.16) over Gen/engineering.v, which is re-translated from "
             "/repo/src/pycel/lib/engineering.py on every run: DEC2x;x2DEC round trip on the whole 10-digit "
             "two's-complement range for bases 2, 8, 16 (all integers, no sampling), 10-digit rendering of "
             "negatives, places padding/#NUM!, base-to-base = composition, rejection of out-of-range numbers, "
             "over-long text and any character outside the alphabet. 17 theorems, all closed under the global "
             "context. The translator's Python->Coq mapping is policed by running the extracted model against "
             "the real functions on ~25k calls per quick run, and the property's statement is also evaluated "
             "directly on the implementation to produce concrete failing inputs.",
        design_ref="DESIGN.md 5 C18",
    ),
    'C10': dict(
        technique="Coq proof over a hand-transcribed operator model built on coercion functions regenerated "
                  "from excelutil.py, tied by exhaustive pool differential runs against the real fix-up function",
        text="Model/Ops.v transcribes excelutil.build_operator_operand_fixup.fixup branch by branch on top of "
             "Gen/excelutil.v (coerce_to_number, type_cmp_value, is_number, coerce_to_string: re-translated from "
             "the source every run). Proved for ALL scalar operands: an error operand is returned unchanged, left "
             "first (13 operators); for any two non-error scalars incl. blank exactly one of <,=,> holds and "
             "<>,<=,>= are the complements (unbounded strings/numbers; the comparison is defined unless a "
             "character's case mapping is outside the model); numbers < text < logicals; case-insensitive text "
             "equality; blank equals 0, \"\" and FALSE; exact integer + - *, true division, x/0 = #DIV/0!, "
             "logicals/blank as numbers; & on text, integers, logicals, blank. Type closure for every operand "
             "pair (never raises, never a complex) and transitivity are judged by the oracle over the exhaustive "
             "pool (~160k triples per quick run), not by a theorem. Correspondence: every (left, op, right) over "
             "a ~60-value pool, bit-exact.",
        design_ref="DESIGN.md 5 C10",
    ),
    'C20': dict(
        technique="Coq proof over a model regenerated from text.py by the Python-AST translator (slicing/search "
                  "functions) under a hand-written model of the apply_meta wrappers, hand-written models of "
                  "SUBSTITUTE/TRIM/TEXT, plus extracted-model/implementation differential run and a property "
                  "oracle on the implementation",
        text="Machine-checked (Coq 8.16), all texts (lists of code points of any length) and all integer "
             "positions, over Gen/text.v (left, right, mid, replace, find, exact, upper, lower, len_, concatenate "
             "re-translated from /repo/src/pycel/lib/text.py on every run) wrapped by Model/Text.v's model of "
             "strs_wrapper/nums_wrapper/error_string_wrapper. FULL: C20_left_chars, C20_mid_chars, C20_partition "
             "(LEFT(s,n)&MID(s,n+1,LEN s)=s), C20_right (last min(k,LEN) characters), C20_replace (=LEFT&t&MID), "
             "C20_negative_counts (#VALUE!), C20_number_rendering (z and z.0 are the digits of z, logicals "
             "TRUE/FALSE, blank empty, for LEFT/RIGHT/MID/REPLACE), C20_find_default, C20_substitute_all + "
             "C20_substitute_rest (no occurrence: unchanged; else prefix & new & substitution of the rest, non-empty "
             "pattern), C20_substitute_nth (instance i >= 1: exactly the i-th non-overlapping occurrence), "
             "C20_concatenate, C20_exact, C20_upper/lower_idempotent (where the case mapping is modelled: "
             "ASCII, Latin-1, CJK, pictographs) and C20_upper/lower_ascii (total on ASCII). PARTIAL: "
             "C20_find_partial (first match / #VALUE! proved for start >= 1; start < 1 refuted: "
             "Refuted/C20_find_start.v, FIND(\"c\",\"abc\",0)=3, fractional start raises TypeError), "
             "C20_trim_partial (no adjacent spaces, other characters untouched, idempotent; 'none at the ends' "
             "refuted: Refuted/C20_trim_ends.v). REFUTED witnesses also for RIGHT(s,0.5)=s "
             "(Refuted/C20_right_fraction.v) and TEXT half-even rounding (Refuted/C20_text_rounding.v: "
             "TEXT(2.5,\"0\")=\"2\", TEXT(0.125,\"0.00\")=\"0.12\"). CORRESPONDENCE-ONLY (no theorem): "
             "CONCAT and TEXT(x,f) for one-section formats over 0 # , . % "
             "(Model/TextFormat.v transcribes _tokenize_format/_number_converter/_number_token_converter with "
             "round-half-even of the exact value). 19 theorems closed under the global context. Every quick run "
             "compares the extracted model with the real functions called through apply_meta on ~420k calls "
             "(all strings up to length 4 over a 5-symbol alphabet with a space, a 2-byte and a 4-byte character "
             "x all n,k in -1..10; numbers/booleans/blanks/errors in every position; ~45k TEXT calls) and "
             "evaluates the property's identities on the implementation.",
        design_ref="DESIGN.md 5 C20",
    ),
}

CLAIMED['C15'] = dict(
    technique="Coq proof over a hand-written executable model of criteria_parser / build_wildcard_re / "
              "handle_ifs and the eight ...IF(S) consumers (coq/Model/Criteria.v) built on helpers regenerated "
              "from excelutil.py, extracted-model/implementation differential run through apply_meta, and the "
              "property's oracle (an independent reading of the criteria grammar) on the implementation",
    text="Model/Criteria.v transcribes criteria_parser (closures -> a criterion datatype {numeric-equals, "
         "wildcard pattern, operator+number, operator+text} produced by parse_criteria and interpreted by sat), "
         "build_wildcard_re (the generated regex -> glob_match, for criteria without regex metacharacters "
         "other than ? and *; others are Unmodelled), find_corresponding_index, handle_ifs (argument pairing, "
         "shape checks, Counter intersection) and COUNTIF(S), SUMIF(S), AVERAGEIF(S), MAXIFS, MINIFS with "
         "_numerics, on top of Gen/excelutil.v (is_number, coerce_to_number, list_like, OPERATORS, ERROR_CODES, "
         "DIV0, VALUE_ERROR: re-translated every run). 16 theorems in coq/Props/C15.v, all closed under the "
         "global context, all for unbounded inputs (any number of criteria pairs, any range size, any text). "
         "FULL: C15_glob (glob_match = the declarative ?/* matcher Glob); C15_sat (the closure decides the "
         "declarative meaning Sat of the criterion whenever it returns); C15_text_only_ne / C15_number_compares / "
         "C15_text_case_insensitive (text and blank satisfy only <> under a numeric operand, numbers compare, "
         "text compares lower-cased); C15_select + C15_select_pairs (whenever handle_ifs returns positions they "
         "are, without repetition, exactly the positions whose cell in every pair's range satisfies that pair's "
         "criterion; the pairs are the argument pairs in order); C15_countifs_counts, C15_sumifs_sums, "
         "C15_maxifs_minifs (the consumers aggregate exactly the cells at those positions, numeric cells); "
         "C15_ifs_eq_if (COUNTIFS(r,c) = COUNTIF(r,c) for every non-empty range, including the raising cases) "
         "and C15_ifs_eq_if_sum_average (SUMIF/AVERAGEIF are their IFS forms by definition); C15_commute (any "
         "permutation of the criteria pairs also succeeds and selects the same set); C15_avg (AVERAGEIFS = "
         "SUMIFS / COUNTIFS when the selected cells are ints/floats and at least one). PARTIAL: "
         "C15_partition_partial / C15_partition_range_partial ('=v' and '<>v' are complementary on every cell / "
         "partition every range for a text operand without wildcards, and for a numeric operand over cells "
         "that are blank, logical, integer, float or non-numeric text). "
         "REFUTED in the model (advisory, coq/Refuted/C15_partition.v, C15_total.v): with a wildcard operand "
         "'apple' satisfies both '=a*' and '<>a*' ('<>' compares literally); a numeric text cell '1' satisfies "
         "both '=1' and '<>1'; 'never fails' is false: COUNTIF({\"apple\";1},\"a*\") and SUMIFS over a "
         "logical raise AttributeError, an error value among the selected cells of the aggregated range makes "
         "SUMIFS raise TypeError and MAXIFS return the largest character of the error text. That handle_ifs "
         "returns at all (totality) is therefore not a theorem. CORRESPONDENCE-ONLY: the parsing of concrete "
         "criteria texts into the datatype (only the '=v' / '<>v' forms have parse lemmas), the shape-check "
         "results (#VALUE!, AssertionError, IndexError), _numerics' error/logical/text handling and "
         "AVERAGEIF(S)/MAXIFS/MINIFS on non-numeric cells. Every quick run compares the extracted model with "
         "the real functions (called through apply_meta) on ~90k calls, exactly (values, int/float kind, error "
         "texts, exception classes): a ~330 x ~90 criterion x cell table through criteria_parser, 8000 sampled "
         "scenarios (ranges up to 5x3 over mixed pools, 1-3 criteria pairs from the grammar) through handle_ifs "
         "and all eight consumers, and shape-mismatch/scalar/empty/ragged ranges; ~8% of the calls are outside "
         "the model (Unmodelled). The oracle (~75k evaluations) judges selection, aggregation, IFS=IF, "
         "commutation, partition and AVERAGEIFS=SUMIFS/COUNTIFS on the implementation alone.",
    design_ref="DESIGN.md 5 C15",
)

NOT_YET = "check not built yet in this round (planned: DESIGN.md section 7 lists the build order)"


def main():
    checks = []
    for pid in ALL:
        if pid not in CLAIMED:
            continue
        c = CLAIMED[pid]
        checks.append(dict(
            property_id=pid,
            quick_cmd=f"./check {pid} --tier quick",
            thorough_cmd=f"./check {pid} --tier thorough",
            evidence_file=f"/verif/evidence/{pid}.json",
            replay_cmd_template=f"./check {pid} --replay {{path}}",
            engine="coq+ocaml-corr",
            level_claimed=dict(category=c.get('category', 'proof'), text=c['text'],
                               design_ref=c['design_ref']),
            level_note=c.get('note', TRUST),
            technique=c['technique'],
        ))
    man = dict(
        version=1,
        setup_cmd="./setup",
        hooks=dict(
            guard="PYCEL_VERIF",
            enable="checks run the implementation with PYTHONPATH=/repo/src PYCEL_VERIF=1 (in-process "
                   "import of the working tree; nothing is built)",
            baseline_off_cmd="cd /repo && env -u PYCEL_VERIF /venv/bin/python -m pytest -ra -q "
                             "-p no:cacheprovider --timeout=900 --continue-on-collection-errors",
            source_commits=[],
            add_only=True,
        ),
        engines=[dict(name="coq+ocaml-corr", path="/verif/coq, /verif/translator, /verif/harness, /verif/ocaml",
                      serves_properties=sorted(CLAIMED),
                      kind_free_text="Coq 8.16 development (models regenerated from source by "
                                     "translator/pylite.py or hand-written), theorems in coq/Props, extracted "
                                     "OCaml model run against the implementation by harness/")],
        checks=checks,
        notes="One CLI: ./check Cxx --tier quick|thorough. Known findings: /verif/known_findings.json. "
              "Replays are written to /verif/replays/.",
        not_applicable=[dict(property_id=p, reason=NOT_YET) for p in ALL if p not in CLAIMED],
    )
    with open(os.path.join(VERIF, 'MANIFEST.json'), 'w') as f:
        json.dump(man, f, indent=1)


if __name__ == '__main__':
    main()
