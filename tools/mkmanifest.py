#!/usr/bin/env python3
"""Regenerate /verif/MANIFEST.json from the table below."""
import json
import os

VERIF = os.path.dirname(os.path.dirname(os.path.abspath(__file__)))
ALL = [f"C{i:02d}" for i in range(1, 21)]

TRUST = ("Trusted: Coq 8.16.1 kernel (vm_compute only where a theorem's name says sweep; no native_compute); "
         "the theorems' axioms as printed by Print Assumptions into the evidence file; translator/pylite.py and "
         "its Python-semantics library coq/Lib/Py.v (exact arithmetic: int=Z, float=reduced Q); extraction "
         "(ExtrOcamlBasic only, no Extract Constant) + ocaml/driver.ml; the Python harness (generators, "
         "canonicalisers, oracles). Modelled, not verified: CPython builtins used by the translated code "
         "(int(), bin/oct/hex, str methods, Decimal.quantize, datetime), openpyxl, networkx, numpy.")

CLAIMED = {
    'C11': dict(
        technique="Coq proof over a hand-written executable model of the address algebra (coq/Model/Addr.v), "
                  "extracted-model/implementation differential run, and the property's oracle on the implementation",
        text="Machine-checked proofs (Coq 8.16, 24 theorems in coq/Props/C11.v, all closed under the global "
             "context) over Model/Addr.v, a hand-written model of AddressCell/AddressRange, split_sheetname, "
             "unquote_sheetname, range_boundaries/r1c1_boundaries and openpyxl's get_column_letter/"
             "column_index_from_string/range_boundaries/quote_sheetname. FULL (all inputs, induction/lia): "
             "C11_letters, C11_letters_inverse (bijective base 26, every n >= 1 / every non-empty [A-Z] string); "
             "C11_roundtrip_plain/_quoted/_abs (parse(print a) = a for every cell and every range with distinct "
             "corners in 1..16384 x 1..1048576 and every sheet name with sheet_ok = no '!' and not both starting "
             "and ending with an apostrophe; for the quoted/absolute forms names containing a space only need no "
             "'!'); C11_notations, C11_notation_relative (A1 = R1C1 = tuple; R[dr]C[dc] from any anchor and any "
             "integer offsets = address_at_offset with wrap); C11_enumerate, C11_contains (height*width distinct "
             "cells, membership <-> containment, for ranges that do not span the full sheet width/height, which "
             "the implementation refuses to enumerate); C11_intersection (= common cells, #NULL! iff none), "
             "C11_union (least rectangle containing both), C11_inter_comm/C11_union_comm (all addresses), "
             "C11_inter_idem/C11_union_idem, C11_union_assoc, C11_different_sheets (#VALUE!), "
             "C11_offset_in_sheet/_compose/_wrap; C11_inter_assoc and C11_inter_three (associativity of & on one "
             "sheet, unconditional since the fix 90d9e48: an empty inner intersection is #NULL! and is handed on; "
             "the three-way result is the common cells or #NULL!), C11_error_operand (an error-code operand on "
             "either side of & or ** is the result), C11_union_assoc_sheets (** is associative across any sheets, "
             "#VALUE! handed on). No partial theorem remains. Not claimed: & across different sheets is associative "
             "only up to the error code (#NULL! vs #VALUE!, Example inter_sheets_not_assoc). "
             "Unbounded ranges (A:B, 1:2) and reversed corners are modelled and covered by the correspondence "
             "but not by the lattice theorems. The model is tied to the implementation by running the extracted "
             "model against the real API on ~60k calls per quick run (printed address text, (sheet, col, row) "
             "tuples, error texts, exception classes compared exactly), and the property is evaluated directly "
             "on the implementation (~25k oracle cases) to produce concrete failing inputs.",
        design_ref="DESIGN.md 5 C11",
    ),
    'C18': dict(
        technique="Coq proof over a model regenerated from engineering.py by a Python-AST translator, plus "
                  "extracted-model/implementation differential run",
        text="Machine-checked proof (Coq 8.16) over Gen/engineering.v, which is re-translated from "
             "/repo/src/pycel/lib/engineering.py on every run: DEC2x;x2DEC round trip on the whole 10-digit "
             "two's-complement range for bases 2, 8, 16 (all integers, no sampling), 10-digit rendering of "
             "negatives, places padding/#NUM!, base-to-base = composition, rejection of out-of-range numbers, "
             "over-long text and any character outside the alphabet. 17 theorems, all closed under the global "
             "context. The translator's Python->Coq mapping is policed by running the extracted model against "
             "the real functions on ~25k calls per quick run, and the property's statement is also evaluated "
             "directly on the implementation to produce concrete failing inputs.",
        design_ref="DESIGN.md 5 C18",
    ),
    'C10': dict(
        technique="Coq proof over a hand-transcribed operator model built on coercion functions regenerated "
                  "from excelutil.py, tied by exhaustive pool differential runs against the real fix-up function",
        text="Model/Ops.v transcribes excelutil.build_operator_operand_fixup.fixup branch by branch on top of "
             "Gen/excelutil.v (coerce_to_number, type_cmp_value, is_number, coerce_to_string: re-translated from "
             "the source every run). Proved for ALL scalar operands (unbounded text, VInt and VFloat numbers mixed "
             "through exact rationals), FULL: an error operand is returned unchanged, left first (13 operators); "
             "C10_total/C10_closed: + - * / unary-minus & and the six comparisons return, on every pair of "
             "scalars inside the model, a value of the right kind (logical / text / number or #VALUE!, #DIV/0!) "
             "and never raise; the model's decidable domain predicate op_modelled is EXACT for all 13 operators "
             "(C10_unmodelled_exact: outside it the model answers Unmodelled and nothing else — comparisons: "
             "case mapping outside ASCII/Latin-1/CJK/pictographs; &: repr of a non-integral float outside the "
             "15-digit domain; arithmetic: non-ASCII text, inf/nan spellings, exponents beyond 300); exactly one of <,=,> holds and <>,<=,>= are the complements for any two "
             "non-error scalars incl. blank; numbers < text < logicals; case-insensitive text equality; blank "
             "equals 0, \"\" and FALSE; on non-blank operands <= and < are transitive, <= is antisymmetric and "
             "total, = is an equivalence (C10_le_transitive, C10_lt_transitive, C10_le_antisymmetric, "
             "C10_le_total, C10_eq_equivalence); C10_text_coercion: the generated coerce_to_number on ASCII text "
             "IS the written-out parser text_num (TRUE/FALSE, int(), float()); C10_text_as_number: numeric text "
             "behaves as the number it spells on either side of + - * / (equal up to the int/float kind of the "
             "result); C10_text_not_number: other text gives #VALUE! for + - * / ^; C10_arith_value: the result "
             "of + - * / is the exact rational operation on the operands' values, x/0 = #DIV/0!; logicals/blank "
             "as numbers; C10_concat_renderings: & is the concatenation of the Excel renderings for every pair "
             "of non-error scalars (blank empty, TRUE/FALSE, integers, text, floats by repr); "
             "C10_concat_integral_float: every integral float renders without .0. PARTIAL: "
             "C10_total_pow_partial — ^ is total (number, #VALUE!, #DIV/0!, #NUM!) exactly when the coerced "
             "exponent is integral or the base is negative (pow_modelled, C10_pow_domain); a non-integral exponent on a "
             "non-negative base is irrational in general and outside the exact-arithmetic model, there only "
             "the oracle judges the implementation. REFUTED in the model and the implementation alike "
             "(advisory, coq/Refuted/C10_trans_blank.v): through a blank operand neither <= nor = is "
             "transitive (\"\" <= blank <= 0 but \"\" > 0) — inherent in the property's own rule 'blank as the "
             "neutral value of the other side', not a defect; the order theorems are stated for non-blank "
             "operands. Still oracle-only: IEEE rounding outside the float-exact domain, ^ with fractional "
             "exponents, operands outside op_modelled. Correspondence: every (left, op, right) over a "
             "~60-value pool plus PRNG samples (~160k triples per quick run), bit-exact.",
        design_ref="DESIGN.md 5 C10",
    ),
    'C17': dict(
        technique="Coq proof over a model regenerated from date_time.py by the Python-AST translator on top of a "
                  "transcription of CPython's calendar algorithms, with an exhaustive kernel-computed calendar "
                  "sweep; binary64 time-of-day in Coq primitive floats; differential runs against the real functions",
        text="Gen/date_time.v (date_from_int, is_leap_year, max_days_in_month, normalize_year, date, months_inc, "
             "edate, eomonth, year/month/day/weekday, yearfrac) is re-translated from /repo/src/pycel/lib/"
             "date_time.py on every run over Lib/PyDate.v (_ymd2ord/_ord2ymd/monthrange transcribed). Proved: "
             "C17_roundtrip DATE(YEAR n, MONTH n, DAY n) = n for EVERY serial day 0..2958465 (symbolic execution "
             "of the generated code for n > 60 + the calendar fact C17_gregorian, which is established by "
             "vm_compute over all 2 958 405 days in 16 chunks; days 0..60 by computation); C17_parts (n > 60: "
             "the parts are those of 1899-12-30 + n); C17_phantom_days (day 60 = 1900-02-29, day 0 = 1900-01-00); "
             "C17_weekday (period 7, range 1..7, all integers); C17_normalize_valid; C17_month_carry (12 months "
             "= 1 year in the carry arithmetic); C17_time: HOUR/MINUTE/SECOND(s/86400) for all 86400 seconds in "
             "IEEE binary64 (PrimFloat; depends on the kernel's primitive float/int operations, listed in the "
             "evidence). FULL, by symbolic execution of the generated normalize_year/date/months_inc/yearfrac + "
             "pure calendar lemmas (Proofs/C17Carry.v, C17Months.v, C17Total.v, C17Yearfrac.v): C17_day_carry "
             "(ANY integer month whose normalised month is 1900-03 or later, any day 1 <= d <= 25000 = the "
             "recursion budget: DATE(y,m,d) = DATE(y,m,1)+d-1 while the result is <= 2958465; induction on the "
             "fuel of the recursive normalize_year); C17_ord2ymd_inverse (ord2ymd inverts ymd2ord on every valid "
             "date of the range: sweep + injectivity of ymd2ord); C17_eomonth (every n > 60, ANY integer shift, "
             "target month 1900-03..9999-11: EOMONTH(n,k) is the last day of the shifted month: YEAR/MONTH are "
             "the shifted ones, DAY = length of the month, the next day has DAY 1); C17_edate (shifted year/"
             "month, day = min(DAY(n), length of the target month), target 1900-03..9999-12), C17_edate_zero, "
             "C17_edate_compose (EDATE(EDATE(n,a),b) = EDATE(n,a+b) for DAY(n) <= 28); C17_serial_total (YEAR/"
             "MONTH/DAY/WEEKDAY under their wrappers, EVERY integer: ranged numbers on 0..2958465, #NUM! "
             "elsewhere); C17_date_small_day (days 1..28, ALL integer years and months: TypeError exactly when "
             "February of a normalised year <= 0 is reached, else #NUM!/60.0/serial day); C17_yearfrac_symmetric "
             "(all integer dates, every basis value: the code orders the dates first; for basis 1 the common "
             "computation is the untranslated yearfrac_basis_1 = Unmodelled on both sides) and "
             "C17_yearfrac_wrapped_symmetric (through the decorator wrapper, integer or missing basis); "
             "C17_date_month_carry (DATE(y, m+12k, d) = DATE(y+k, m, d) on the generated code for ALL integer "
             "m, d, k, years in 1900..9999); C17_day_carry_overflow (the forward carry past 9999-12-31 is #NUM!) "
             "and C17_months_out_of_calendar (EDATE/EOMONTH with a target before 1899 or after 9999 are #NUM!); "
             "C17_day_borrow_defect (the known finding as a theorem: for -27 <= d <= 0 and a month from 1900-04 "
             "on, DATE(y,m,d) is off from DATE(y,m,1)+d-1 by exactly days_in_month(m) - days_in_month(m-1)). "
             "PARTIAL: "
             "C17_date_total_partial (no exception: DATE with any year, month >= -11000, |day| <= 25000; EDATE/"
             "EOMONTH with any serial number, shift >= -10000 — beyond these bounds the model and the "
             "implementation DO raise: TypeError from is_leap_year(year <= 0), RecursionError/OutOfFuel for "
             "longer day carries; advisory witnesses Refuted/C17_date_exceptions.v; outside the property's "
             "quantifier, recorded as inert predicates C17-year-zero-typeerror / C17-day-recursion). REFUTED in "
             "the model (advisory): the day carry for d <= 0 (Refuted/C17_day_borrow.v, known finding "
             "C17-day-borrow), EOMONTH into 9999-12 (Refuted/C17_eomonth_last_month.v, known finding "
             "C17-eomonth-last-month). Not proved: dates up to serial 60 as EOMONTH/EDATE start or target "
             "(phantom leap day region), non-integer arguments (differential run + oracle only). "
             "The PrimFloat model is hand-written: its tie is the exhaustive comparison of all 86400 "
             "inputs with the implementation on every run.",
        design_ref="DESIGN.md 5 C17",
    ),
    'C19': dict(
        technique="Coq proof over a model regenerated from excellib.py by the Python-AST translator (exact "
                  "rational arithmetic), plus extracted-model/implementation differential run on decimal and "
                  "float-exact inputs",
        text="Gen/excellib.v (ceiling, floor, .MATH/.PRECISE variants, even, odd, int_, mod, round_, _round, "
             "rounddown, roundup, trunc, sign) is re-translated from /repo/src/pycel/excellib.py on every run; the "
             "Decimal(repr(x)).quantize(...) idiom is mapped to exact decimal rounding. Proved for ALL rationals x "
             "and ALL integer digit counts d (positive, zero, negative), all closed under the global context: "
             "ROUND(x,d) = z*10^-d with z the nearest integer to x*10^d, ties away from zero (C19_round); "
             "ROUNDDOWN/TRUNC toward zero, ROUNDUP away from zero to such a multiple, TRUNC = ROUNDDOWN, exact "
             "multiples fixed; INT = floor; MOD: n = d*INT(n/d)+MOD, sign of d, |MOD|<|d|, d=0 -> #DIV/0!; for "
             "positive significance FLOOR <= x <= CEILING, both multiples of s, less than s from x; #NUM! for "
             "positive x with negative significance; CEILING/FLOOR.PRECISE = |s|*ceil/floor(x/|s|); EVEN = next "
             "even integer away from zero (bracket), ODD closed form. The float-level behaviour (TRUNC(0.29,2), "
             "decimal ties) is carried by the differential run: ~58k calls per quick run through apply_meta, decimal "
             "inputs k/10^j with generated ties/near-ties compared against the correctly rounded exact result, "
             "float-exact inputs bit for bit, and by the property oracle (decimal half-away-from-zero on the "
             "shortest rendering). Not proved: CEILING/FLOOR.MATH mode variants, ODD bracket, SIGN/ABS "
             "(correspondence only).",
        design_ref="DESIGN.md 5 C19",
    ),
    'C20': dict(
        technique="Coq proof over a model regenerated from text.py by the Python-AST translator (slicing/search "
                  "functions) under a hand-written model of the apply_meta wrappers, hand-written models of "
                  "SUBSTITUTE/TRIM/TEXT, plus extracted-model/implementation differential run and a property "
                  "oracle on the implementation",
        text="Machine-checked (Coq 8.16), all texts (lists of code points of any length) and all integer "
             "positions, over Gen/text.v (left, right, mid, replace, find, exact, upper, lower, len_, concatenate "
             "re-translated from /repo/src/pycel/lib/text.py on every run) wrapped by Model/Text.v's model of "
             "strs_wrapper/nums_wrapper/error_string_wrapper. ALL FULL (21 theorems, closed under the global "
             "context): C20_left_chars, C20_mid_chars, C20_partition (LEFT(s,n)&MID(s,n+1,LEN s)=s), C20_right "
             "(last min(k,LEN) characters), C20_right_fraction (count in [0,1) gives the empty text), C20_replace "
             "(=LEFT&t&MID), C20_negative_counts (#VALUE!), C20_number_rendering (z and z.0 are the digits of z, "
             "logicals TRUE/FALSE, blank empty, for LEFT/RIGHT/MID/REPLACE), C20_find (every integer start: "
             "#VALUE! below 1, else the least p >= start with MID(w,p,LEN f)=f or #VALUE!), C20_find_fraction (a "
             "fractional start behaves as its truncation), C20_find_default, C20_substitute_all + "
             "C20_substitute_rest (no occurrence: unchanged; else prefix & new & substitution of the rest, "
             "non-empty pattern), C20_substitute_nth (instance i >= 1: exactly the i-th non-overlapping "
             "occurrence), C20_concatenate, C20_exact, C20_trim (single inner spaces, no space at either end, "
             "other characters untouched, idempotent), C20_upper/lower_idempotent (where the case mapping is "
             "modelled: ASCII, Latin-1, CJK, pictographs) and C20_upper/lower_ascii (total on ASCII). REFUTED "
             "(advisory witness, known finding C20-text-half-even): Refuted/C20_text_rounding.v, "
             "TEXT(2.5,\"0\")=\"2\", TEXT(0.125,\"0.00\")=\"0.12\". CORRESPONDENCE-ONLY (no theorem): CONCAT "
             "and TEXT(x,f) for one-section formats over 0 # , . % (Model/TextFormat.v transcribes "
             "_tokenize_format/_number_converter/_number_token_converter with round-half-even of the exact "
             "value). Every quick run compares the extracted model with the real functions called through "
             "apply_meta on ~450k calls (all strings up to length 4 over a 5-symbol alphabet with a space, a "
             "2-byte and a 4-byte character x all n,k in -1..10; fractional counts/starts; numbers/booleans/"
             "blanks/errors in every position; ~45k TEXT calls) and evaluates the property's identities on the "
             "implementation. Known findings: C20-text-half-even, C20-text-double-dot-keyerror.",
        design_ref="DESIGN.md 5 C20",
    ),
    'C14': dict(
        technique="Coq proof over models regenerated from excellib.py / lib/stats.py / excelformula.py by the "
                  "Python-AST translator (_numerics, sum_, average, count, max_, min_, the SUBTOTAL_FUNCS table), a "
                  "hand-written model of sumproduct and of the SUBTOTAL dispatch on top of them, "
                  "extracted-model/implementation differential run (functions and real formulas on openpyxl "
                  "workbooks) and the property's oracle on the implementation",
        text="Machine-checked (Coq 8.16, 17 theorems in coq/Props/C14.v, all closed under the global context), for "
             "ALL argument lists (any number of ranges/scalars of any size and nesting whose cells are blank, "
             "logical, int, float or text), over Gen/aggregates.v (_numerics, sum_) and Gen/stats.v (average, "
             "count, max_, min_), which are re-translated from the source on every run, with exact numbers "
             "(int = Z, float = Q; results compared as rationals). FULL: C14_numeric_only (without an error cell "
             "SUM / COUNT / AVERAGE / MAX / MIN are the sum / number / quotient / an attained upper bound / an "
             "attained lower bound of exactly the VInt-VFloat cells: text, numeric text, logicals, blanks "
             "ignored), C14_depends_only (results are a function of the first error and the numeric sub-list "
             "only), C14_first_error (SUM, AVERAGE, MAX, MIN return the first error cell in row-major order of "
             "the arguments; C14_error_codes: the seven Excel codes are recognised), C14_count (COUNT = number of "
             "numeric cells whatever else the range holds), C14_perm (Permutation of the cells with equal first "
             "error -> equal results up to numeric value, all five aggregates), C14_reshape (equal flattening -> "
             "identical results), C14_additive (SUM(l1 ++ l2) = SUM l1 + SUM l2 without errors), C14_average "
             "(= SUM / COUNT; #DIV/0! iff no numeric cell), C14_minmax_empty (MIN = MAX = 0 when nothing "
             "numeric) and C14_minmax_attained. Over the hand-written Model/Aggregates.v (tied by the "
             "differential run only): C14_sumproduct (any number of equally shaped rectangles of scalar cells, "
             "no error: the result is the sum over positions of the product over ranges with non-numbers as 0), "
             "C14_sumproduct_two (two ranges: dot product), C14_sumproduct_first_error, C14_sumproduct_unequal "
             "(#VALUE!), C14_subtotal (SUBTOTAL with literal 1/2/4/5/9 and 101/102/104/105/109 IS the generated "
             "average/count/max_/min_/sum_: the name comes from the generated table through the generated "
             "coerce_to_number, the name->function binding is Model/Aggregates.v named_aggregate), "
             "C14_subtotal_domain (sweep of literals 0..120: exactly those ten resolve to the five aggregates). "
             "REFUTED (advisory, coq/Refuted/C14_count_error.v): the property's 'first error' clause for COUNT "
             "— count over [1, #N/A] is 1 (known finding C14-count-ignores-errors); C14_first_error therefore "
             "covers SUM/AVERAGE/MAX/MIN only. Not modelled: numpy int64 wrap-around in SUMPRODUCT (the model's "
             "integers are unbounded; known finding C14-sumproduct-int64-wrap is produced by the oracle alone), "
             "IEEE rounding (inputs of the differential run are float-exact), ragged/nested/zero-column "
             "arguments of sumproduct (Unmodelled), hidden rows in SUBTOTAL (not implemented by pycel). "
             "Correspondence-only: that formulas reach the functions with the values modelled here — a sample of "
             "cases per run goes through =SUM/AVERAGE/COUNT/MAX/MIN/SUBTOTAL/SUMPRODUCT cells of real openpyxl "
             "workbooks compiled by ExcelCompiler (1x1 ranges arrive as scalars: known finding "
             "C14-sumproduct-blank-single-cell). Quick run: ~75k evaluations (3000 argument lists x 5 aggregates "
             "+ _numerics with both keep_bools, each list again permuted/partitioned/reshaped; 9000 SUMPRODUCT "
             "calls on 1-3 equal rectangles of all 25 shapes up to 5x5, 1450 unequal-shape, 800 scalar/mixed, "
             "300 beyond-int64 probes; 39 SUBTOTAL literals; 250 workbooks x 24 formulas), ~77k model calls "
             "compared bit for bit, 0 divergences.",
        design_ref="DESIGN.md 5 C14",
    ),
}

CLAIMED['C13'] = dict(
    technique="Coq proof over fit_to_range re-translated from excelutil.py by the Python-AST translator on every "
              "run, plus hand-written models of array_fixup (numpy broadcasting) and cse_array_wrapper (closure) "
              "on top of C10's operator model; extracted-model/implementation differential run exhaustive over "
              "shapes up to 4x4; hand-written model of the CSE pipeline (Model/CseCells.v: load_array_formulas, "
              "cell_to_formula, _OpxRange range-formula detection, _evaluate_range / eval_func / INDEX / "
              "_evaluate) compared with ExcelCompiler on every cell of every target; property oracle on the "
              "implementation incl. end-to-end workbooks with array formulas entered over target ranges",
    text="Machine-checked (Coq 8.16, 30 theorems in coq/Props/C13.v, all closed under the global context). "
         "FULL, all sizes (unbounded lists, induction/lia): C13_fit_shape and C13_fit_elem on Gen/arrayfit.v "
         "(_ArrayFormulaContext.fit_to_range, regenerated from /repo/src/pycel/excelutil.py every run; the "
         "context object is modelled by its ctx_address.size = (height, width)): for every non-empty rectangular "
         "result and every target h x w >= 1x1 the output has exactly h rows of w and element (i,j) is "
         "res[i][j] inside, res[0][j] / res[i][0] for a single row / single column, #N/A elsewhere "
         "(C13_fit_elem_cases spells fit_elem out); C13_fit_scalar (a scalar is repeated over the target); "
         "C13_fit_no_context. Proof route: the translated function is proved equal to the list-level "
         "specification Model/Arrays.v fit_spec by symbolic execution. FULL over the hand-written "
         "Model/Arrays.v: C13_op_pointwise (for operands that are scalars or non-empty rectangular arrays of "
         "scalars with broadcast-compatible shapes — equal or 1 per axis — array_fixup has the broadcast shape "
         "and element (i,j) = Model/Ops.v fixup of a[i or 0][j or 0] and b[i or 0][j or 0]; the model keeps "
         "the code's flat broadcast list and its chunking by size[1]), C13_op_defined (defined whenever every "
         "scalar application is), C13_op_incompatible (ValueError, outside the statement), C13_op_dispatch and "
         "C13_op_scalar_error_left (the dispatch in front of array_fixup); C13_fun_pointwise (for an ARBITRARY "
         "wrapped function f and any parameter-index set: with R x C matrices in the array positions the "
         "result is R x C and element (i,j) = f of the arguments with arrays indexed at (i,j), others passed "
         "through) and C13_fun_no_array. PARTIAL: C13_op_scalar_error_right_partial (array op scalar-error "
         "returns the scalar error; pointwise only against non-error elements) — the full statement is REFUTED "
         "in the model and on the implementation (coq/Refuted/C13_scalar_error.v: ((#REF!,1),) + #N/A gives "
         "#N/A at the position where the scalar operator and Excel give #REF!); C13_op_scalar_error_right_exact "
         "(FULL) says what the scalar operator gives at every position (the left element where that is an "
         "error, the right error elsewhere) and C13_scalar_error_member that over a target every member shows "
         "the scalar error, also where the array does not reach (the known finding). THE CSE PIPELINE "
         "(Proofs/C13Cells.v over the hand-written Model/CseCells.v; cse_member h w result i j = the member "
         "stamped (i,j) of a CSE range of size h x w whose formula returns result = cell_value(eval_func("
         "INDEX(eval_func_ctx(fit_to_range(result)), i, j))) with the TRANSLATED fit_to_range and C16's "
         "wrapped INDEX model), FULL for all result shapes, target shapes and member positions: "
         "C13_member_shows_own_element (R x C result, target h x w, 1<=i<=h, 1<=j<=w: the member shows "
         "result[i or 1][j or 1] when the result reaches it — a single row/column repeated, a blank as 0 — and "
         "#N/A when it does not), C13_member_fit_elem, C13_member_scalar, C13_shown_scalar, C13_range_value "
         "(the range itself evaluates to the fitted h x w matrix), C13_single_cell_target / _scalar (a one-cell "
         "reference range is an ordinary formula cell showing element (1,1)), C13_member_cells and "
         "C13_every_cell_is_member (sheet side: exactly the cells of the reference range are written, each "
         "stamped with its own 1-based offset, each =index(range,i,j) refers to the whole reference range and "
         "shows the fitted element at its own offset), C13_members_matrix (all members together = the fitted "
         "matrix with blanks as 0), C13_range_formula_own / _inner (_OpxRange.__new__: the reference range read "
         "back is recognised as the formula's range; a range not starting at member (1,1) is evaluated cell by "
         "cell); C13_formula_op_member (THE WHOLE CLAUSE FOR OPERATORS: =l o r over an h x w target, no scalar "
         "operand an error: member (i,j) shows fixup(a[i'][j'], o, b[i'][j']) at the broadcast indices — the "
         "value itself, by C10's closure of fixup on scalars — and #N/A outside the broadcast shape) and "
         "C13_formula_fun_member (the same for cse_wrapper over an arbitrary f). PARTIAL: "
         "C13_range_shows_members_partial (evaluating the reference range gives at every position what the "
         "member cell shows) — the full statement for EVERY range of the sheet is REFUTED in the model and on "
         "the implementation (coq/Refuted/C13_adjacent_ranges.v: =A1:B1*2 over F10:G10 and again over H10:I10: "
         "the range F10:I10 is taken for one array formula and evaluates to (2,4,#N/A,#N/A), SUM(F10:I10) = "
         "#N/A; reported, inert predicate C13-adjacent-array-formulas-merged; second reported finding "
         "C13-inmemory-subrange-typeerror: with ExcelCompiler(excel=wb) a range starting at a member that is "
         "not the formula's own range raises TypeError). CORRESPONDENCE/ORACLE-ONLY (no theorem): numpy's "
         "np.array/np.broadcast (hand-modelled: to_nd, bshape, expand), the lifted library functions MOD, "
         "ROUND, LEFT, IF through apply_meta (pointwise oracle against the same function on scalars), parsing "
         "and compiling the =CSE_INDEX(...) / =index(...) texts (the CSE model carries numbers, not text). The "
         "CSE model is tied to ExcelCompiler on generated openpyxl workbooks with ArrayFormula cells over every "
         "target shape: target_cells(h, w, result) against evaluate(cell) for EVERY cell of every target "
         "(~4.7k targets), load_members/member_range against the texts in the member cells (~550 targets), "
         "range_formula / range_value against _OpxRange on ranges around two adjacent array formulas (~600); "
         "evaluate(range) and evaluate(member) (every member, ~28k) are also compared with the statement and "
         "with fit_to_range(op_fixup ...) computed by the extracted models. Every quick run: ~64k cases — all 17x17 "
         "operand shape pairs (scalar + 1..4 x 1..4) x 13 operators, all 17 result shapes x 16 target shapes "
         "for fit_to_range plus sizes up to 8x8 -> 11x11, all 132 compatible operand pairs x 16 targets end to "
         "end (~4.7k array formulas, ~28k member cells), ~1.2k wrapper probe calls over 8 parameter-index sets; "
         "values sampled from numbers, text, logicals, blank and the seven error codes; model and "
         "implementation compared exactly.",
    design_ref="DESIGN.md 5 C13",
)

CLAIMED['C15'] = dict(
    technique="Coq proof over a hand-written executable model of criteria_parser / build_wildcard_re / "
              "handle_ifs and the eight ...IF(S) consumers (coq/Model/Criteria.v) built on helpers regenerated "
              "from excelutil.py, extracted-model/implementation differential run through apply_meta, and the "
              "property's oracle (an independent reading of the criteria grammar) on the implementation",
    text="Model/Criteria.v transcribes criteria_parser (closures -> a criterion datatype {numeric-equals, "
         "wildcard pattern, operator+number, operator+text} produced by parse_criteria and interpreted by sat), "
         "build_wildcard_re (the generated regex -> glob_match, applied to text cells only, for criteria "
         "without regex metacharacters other than ? and *; others are Unmodelled), find_corresponding_index, "
         "handle_ifs (argument pairing, shape checks, Counter intersection) and COUNTIF(S), SUMIF(S), "
         "AVERAGEIF(S), MAXIFS, MINIFS with _numerics, on top of Gen/excelutil.v (is_number, coerce_to_number, "
         "list_like, OPERATORS, ERROR_CODES, DIV0, VALUE_ERROR: re-translated every run). 22 theorems in "
         "coq/Props/C15.v, all closed under the global context, all for unbounded inputs (any number of criteria "
         "pairs, any range size, any text). FULL: C15_glob (glob_match = the declarative ?/* matcher Glob); "
         "C15_sat (the closure decides the declarative meaning Sat of the criterion whenever it returns); "
         "C15_text_only_ne / C15_number_compares / C15_text_case_insensitive / C15_wildcard_nontext (text and "
         "blank satisfy only <> under a numeric operand, numbers compare, text compares lower-cased, a wildcard "
         "over a non-text cell is false); C15_select + C15_select_pairs (whenever handle_ifs returns positions "
         "they are, without repetition, exactly the positions whose cell in every pair's range satisfies that "
         "pair's criterion - cells of any type; the pairs are the argument pairs in order); C15_total + "
         "C15_total_positions + C15_total_countifs + C15_total_parse + C15_total_sat (over ranges of scalar "
         "cells of any mix of types and number/logical/text criteria: every criterion parses, the check never "
         "raises on a cell, handle_ifs returns positions or the #VALUE! of a shape mismatch and raises only "
         "AssertionError for unpaired arguments / IndexError for an empty range - or the input is outside the "
         "model: Unmodelled); C15_countifs_counts, C15_sumifs_sums, C15_maxifs_minifs (the consumers aggregate "
         "exactly the cells at those positions, numeric cells); C15_ifs_eq_if (COUNTIFS(r,c) = COUNTIF(r,c) for "
         "every non-empty range, including the raising cases) and C15_ifs_eq_if_sum_average (SUMIF/AVERAGEIF "
         "are their IFS forms by definition); C15_commute (any permutation of the criteria pairs also succeeds "
         "and selects the same set); C15_avg (AVERAGEIFS = SUMIFS / COUNTIFS when the selected cells are "
         "ints/floats and at least one). PARTIAL: C15_partition_partial / C15_partition_range_partial ('=v' and "
         "'<>v' are complementary on every cell / partition every range for a text operand without wildcards, "
         "and for a numeric operand over cells that are blank, logical, integer, float or non-numeric text). "
         "REFUTED in the model (advisory, coq/Refuted/C15_partition.v, C15_error_cells.v; all are known "
         "findings): with a wildcard operand 'apple' satisfies both '=a*' and '<>a*' ('<>' compares literally); "
         "a numeric text cell '1' satisfies both '=1' and '<>1'; an error value among the selected cells of the "
         "AGGREGATED range makes SUMIFS raise TypeError and MAXIFS return the largest character of the error "
         "text (totality is proved for the selection, not for the aggregation over error values). "
         "CORRESPONDENCE-ONLY: the parsing of concrete criteria texts into the datatype (only the '=v' / '<>v' "
         "forms have parse lemmas), _numerics' error/logical/text handling and AVERAGEIF(S)/MAXIFS/MINIFS on "
         "non-numeric cells. Every quick run compares the extracted model with the real functions (called "
         "through apply_meta) on ~90k calls, exactly (values, int/float kind, error texts, exception classes): a "
         "~330 x ~90 criterion x cell table through criteria_parser, 8000 sampled scenarios (ranges up to 5x3 "
         "over mixed pools, 1-3 criteria pairs from the grammar) through handle_ifs and all eight consumers, and "
         "shape-mismatch/scalar/empty/ragged ranges; ~8% of the calls are outside the model (Unmodelled). The "
         "oracle (~75k evaluations) judges selection (incl. that no cell of a mixed-type range makes a function "
         "fail, wildcard criteria included), aggregation, IFS=IF, commutation, partition and "
         "AVERAGEIFS=SUMIFS/COUNTIFS on the implementation alone.",
    design_ref="DESIGN.md 5 C15",
)

CLAIMED['C16'] = dict(
        technique="Coq proof over the bodies of match/vlookup/hlookup/lookup regenerated from lookup.py by the "
                  "Python-AST translator, calling a hand-transcribed model of _match (bisect_right on ExcelCmp "
                  "keys, the two linear scans, the wildcard regex) and of index, under a hand-written model of the "
                  "apply_meta wrappers; extracted-model/implementation differential run; a linear-scan oracle on "
                  "the implementation",
        text="Machine-checked (Coq 8.16, 39 theorems in coq/Props/C16.v, all closed under the global context), "
             "for vectors/tables of ANY size and all scalar cells. FULL: C16_bisect_loop (CPython's bisect_right "
             "loop returns the partition point of any defined monotone test; fuel hi-lo+1 suffices), C16_bisect "
             "(on cells whose ExcelCmp keys are sorted by the model's <= between lo and hi: a[k] <= v before the "
             "result, v < a[k] from it on), C16_key_order_transitive / _le_transitive / _lt_is_not_ge (numbers < "
             "text < logicals < errors, case-folded text: <= is transitive on the keys of all scalars, < is the "
             "negation of the converse <=); C16_match1_sorted + C16_match1_sorted_na_iff (vector = blanks ++ "
             "non-blank cells with adjacent keys ascending, duplicates allowed ++ blanks, either run of blanks "
             "possibly empty, no blank inside: MATCH(v,a,1) returns a position holding a non-blank cell of v's "
             "type that is <= v and >= every such cell, the LAST position of a repeated maximum, and #N/A iff "
             "there is no such cell; every scalar lookup value); C16_match_m1_sorted (blanks ++ descending "
             "non-blank cells ++ blanks, blank cells excluded exactly when the lookup value is a number = the "
             "known finding blank-as-0: MATCH(v,a,-1) returns a position holding the smallest cell >= v among the "
             "non-error cells of v's type - the first cell equal to v, else the last cell holding the smallest "
             "value above v - and #N/A iff none) and C16_match_m1_scan (the same needing only that the cells the "
             "scan compares descend); C16_match0 (MATCH(v,a,0) = find_first of 'not an error cell, v's type, "
             "equality test'), C16_find_first (first hit / #N/A iff none), C16_match0_test_plain / _wildcard (key "
             "equality, or the ?/* glob), C16_glob_declarative (the model's regex matcher = the declarative ?/* "
             "relation Glob of C15 on text without a line feed) and C16_match0_wildcard (pattern with a wildcard "
             "and no other regex metacharacter, no line feed in the text cells: the first position whose cell is "
             "text, not an error code, and matches the lower-cased pattern, else #N/A; '~' is an ordinary "
             "character = known finding tilde); C16_match_position (every match type: #N/A or a position inside "
             "the vector); C16_match_range_row / _column (the regenerated f_match searches a single row as it is, "
             "any other range through its first column: the match_ theorems are theorems on MATCH); "
             "C16_lookup_is_index_match_v/_h (VLOOKUP/HLOOKUP = the error MATCH gives, else "
             "INDEX(t, MATCH(...), k), every rectangular table); C16_lookup_array (array-form LOOKUP of the "
             "regenerated f_lookup = INDEX in the last column at MATCH(v, first column, 1) when width <= height "
             "- square tables included - else INDEX in the last row at MATCH(v, first row, 1)), "
             "C16_lookup_vector_col / _row (LOOKUP(v,T,rr) = INDEX(rr, MATCH(v, search vector, 1)) for a result "
             "vector that is a column of >= 2 cells or a row and at least as long as the search vector; shorter "
             "= known finding short-result-range); C16_transpose (VLOOKUP on t = HLOOKUP on transpose t, all k "
             "incl. out of range); C16_bounds_vlookup/hlookup_low (k<=0: #VALUE!), _high (k beyond: #REF!), "
             "C16_bounds_in_table (otherwise #N/A or a cell of column k: never a cell outside); C16_index_cell / "
             "_negative (#VALUE!) / _beyond (#REF!); C16_wrapped_match / _vlookup / _hlookup / _lookup (the model of the "
             "apply_meta wrappers hands a scalar non-error lookup value with an integer index / match type and a "
             "logical range_lookup through to the regenerated body unchanged, whatever the table holds) and "
             "C16_error_lookup_value (an error-code lookup value is returned). KEPT (weaker, but for unsorted vectors too): "
             "C16_match1_partial (a position returned by match type 1 holds a non-blank cell of v's type), "
             "C16_match_m1_partial (a position returned by match type -1 holds a non-error cell of v's type that "
             "is >= v); no clause of the property is left partial. REFUTED in the faithful "
             "model (advisory files, built as extra targets): Refuted/C16_blank_cell.v (match types 0/-1 find a "
             "blank cell as the number 0, type 1 does not), Refuted/C16_wildcard_tilde.v ('a~*' does not escape "
             "the asterisk), Refuted/C16_lookup_short.v (a result vector shorter than the search vector: IndexError "
             "where INDEX gives #REF!). CORRESPONDENCE-ONLY (no theorem): LOOKUP with a 2-D or non-list result range "
             "(#N/A), the apply_meta wrappers on other argument shapes (CSE lookup value, number coercion of a "
             "non-integer index, error codes in the index), INDEX with a 0 index (whole row/column), match_type coercion. "
             "Outside the model (Unmodelled, oracle "
             "only): wildcard patterns containing other regex metacharacters. Every quick run compares the "
             "extracted model with the real functions called through apply_meta on ~80k distinct calls (MATCH "
             "over all vectors up to length 2 and sampled up to length 8 over a 9/18-value mixed pool, sorted "
             "and unsorted, blanks at the ends, plus a fixed list of edge vectors - trailing 0/''/FALSE, repeated "
             "maxima/minima, all blank - x 17 lookup values x match types; _match and bisect_right "
             "directly; VLOOKUP/HLOOKUP over tables up to 6x4 x every index -1..size+2 x range_lookup; LOOKUP "
             "incl. fixed square tables and longer result vectors; "
             "INDEX over every row/column index), 0 divergences, and evaluates the property's linear-scan "
             "definition on the implementation; the thorough tier enumerates all vectors up to length 5.",
        design_ref="DESIGN.md 5 C16",
    )

CLAIMED['C01'] = dict(
    technique="Coq proof (invariant by induction over operation histories + refinement to the from-scratch "
              "specification) over a hand-transcribed machine model of ExcelCompiler's lazy cache, tied to the "
              "code by differential runs on generated workbooks x histories x configurations",
    text="coq/Model/Graph.v transcribes set_value/_reset, _evaluate/_evaluate_range and the lazy graph construction "
         "(built set, stored results, eager range evaluation) of excelcompiler.py as a state machine over DAG "
         "workbooks; formula meaning is an arbitrary function of the precedents' values. Proved for EVERY well-formed "
         "workbook, EVERY such meaning and EVERY finite history of Build/Evaluate/SetValue: the invariant (coherence: "
         "a cached value is the from-scratch value under the current inputs; closure: an empty formula node has only "
         "empty dependants — what makes _reset's early return sound; built set closed under precedents) is preserved "
         "(C01_invariant), hence every evaluate returns exactly the from-scratch value (C01_coherent_partial, "
         "C01_coherent_pointwise_partial; specialisations C01_coherent_nodata_partial for no-data/loaded models with "
         "no condition on build order and C01_coherent_stored_partial for consistent stored results), for every "
         "scalar written incl. blank and 0/FALSE, 1/TRUE (after the two set_value repairs e0ad119, 761df50 in /repo). "
         "'_partial' because three side conditions remain, each refuted without it by a vm_compute witness that "
         "replays on the implementation (known findings): no formula evaluates to blank (sem_nonblank), with stored "
         "results no dependant is first built after an upstream write (late_ok), and stored results are not partial "
         "(clause S2 of stored_ok — found by the proof, then reproduced on the implementation). 8 theorems closed "
         "under the global context. Correspondence: ~1400 generated workbooks x 8-14 operations per quick run in 12 "
         "streams (clean, loaded from yml/json/pkl, xlsx with injected stored results, blank writes, equal-but-other-"
         "type writes, blank formula results, late builds, partial stored results): returned values, the whole cache "
         "snapshot and the built set are compared with the extracted machine after every operation, and every "
         "evaluate is compared with a from-scratch compile.",
    design_ref="DESIGN.md 5 C01",
)

CLAIMED['C09'] = dict(
    technique="Coq proof (the C01 invariant extended with 'every cached value comes from a from-scratch evaluation that "
              "succeeds', preserved by evaluations that raise; induction over operation histories; a simulation argument "
              "for the repair) over a hand-transcribed machine model of ExcelCompiler with failing formulas, tied to the "
              "code by differential runs with fault injection; iterative mode, CSE arrays and the pending-operator-error "
              "variant by oracle only",
    text="coq/Model/Fail.v extends the C01 machine (Model/Graph.v) with formulas that raise: fsem n vals = None (a library "
         "or plugin function raises -> FormulaEvalError) and fpre n = Some k (NameError after the first k precedents are "
         "read -> UnknownFunction); eval_f transcribes _evaluate/_evaluate_range (nothing is assigned when eval raises, a "
         "range is abandoned at the first failing member, a dependant formula re-raises FormulaEvalError, a range lets the "
         "error through), build_f the try/finally loop of _process_gen_graph (new range nodes evaluated in "
         "reversed(range_todos), the first failure aborts; the order is transcribed as a worklist in gen_order and the "
         "theorems hold for EVERY order). Proved for EVERY well-formed workbook without stored results, EVERY partial "
         "semantics, EVERY total completion sem that never computes a blank, EVERY history: C09_inv_preserved (FULL: FInv = "
         "C01's Inv + soundness holds initially and after every Evaluate/Build — raising or not — and SetValue), "
         "C09_inv_meaning (no stale value: a cell whose from-scratch evaluation fails is empty), C09_evaluate_outcome "
         "(evaluate returns iff the from-scratch evaluation succeeds, then that value; the cache changes only at the cell "
         "and its ancestors, from empty to a from-scratch value), C09_failed_evaluate, C09_unrelated (FULL: after any "
         "history a cell with no failing cell at or below it returns its from-scratch value), C09_retry and "
         "C09_retry_deterministic (FULL: after a failed evaluate and any further history whose writes avoid the inputs "
         "below the cell, the cell and every dependant raise again and stay empty), C09_repair_partial / "
         "C09_repair_value_partial (PARTIAL: after set_value(failing cell, constant) and any history whose writes avoid "
         "the PRECEDENTS of that cell, every cell returns/raises exactly as a from-scratch evaluation of the workbook in "
         "which the cell is an input holding the constant — proved by showing that the machine on W and on that workbook "
         "coincide step by step). REFUTED (advisory, coq/Refuted/C09_repair_undone.v, known finding "
         "C09-repair-undone-by-upstream-write): the unrestricted repair clause — the formula stays attached, a write to "
         "a precedent resets the cell and the failure returns. 9 theorems closed under the global context. Restriction: "
         "no stored results — REFUTED without it (advisory, coq/Refuted/C09_stored_results.v; reproduced on the "
         "implementation with an .xlsx that has a cached value for the dependant only: the retry returns the stored "
         "value; inert predicate C09-stored-partial-retry-returns-stored, reported). ORACLE-ONLY: the error class clause beyond the model's two classes (pending operator error variant, "
         "repaired in /repo by 38e0ba9), iterative mode (known finding C09-iterative-wip-stuck; C06's model), CSE arrays "
         "and cycles. Correspondence per quick run: 1200 generated workbooks (C01 generator, often extended by a cell that "
         "reads 2-3 ranges) with 1-3 cells replaced by an unknown function (whole formula or right operand of +) or a "
         "plugin function switched between raising/returning or armed to raise from its k-th call, x 8-14 operations "
         "(evaluate any cell or range, set_value on inputs, repair writes on failing cells): raised-or-returned, the "
         "pycel error class, the value and the whole cell-map snapshot are compared after every operation (~13000 "
         "operations, ~1800 failed evaluations); a mutation of the range evaluation order is detected.",
    design_ref="DESIGN.md 5 C09",
)

CLAIMED['C06'] = dict(
        technique="Coq proof over a hand-written executable model (coq/Model/Iter.v) of iterative evaluation on an "
                  "arbitrary, possibly cyclic, finite workbook: tracker namespace, _CycleCell value setter / "
                  "start_calcs / needs_calc, range nodes with the value-is-None cache, graph construction through "
                  "the setter, set_value without reset, the outer pass loop; extracted-model/implementation "
                  "differential run on whole evaluate/set_value histories; exact-fixed-point and non-iterative-"
                  "compiler oracles on the implementation; AST fingerprint of the transcribed functions",
        text="Machine-checked (Coq 8.16, 8 theorems in coq/Props/C06.v, all closed under the global context). "
             "FULL, for every workbook (cyclic or not, with range nodes), every state and every (iterations, "
             "tolerance): C06_bounded (a returning evaluate made between 1 and max(1, iterations) passes), "
             "C06_loop_total (the pass loop never fails by itself), C06_tolerance (if it stops before "
             "`iterations` passes the todo set is empty and every cell computed in the last pass has "
             "|new - prev| < (1+1e-5)*tolerance - the code's constant, as a double - or is blank in both; proved "
             "through a generic lemma: any predicate closed under the four primitive state changes is an "
             "invariant of _evaluate/_evaluate_range/_gen_graph). FULL for linear systems x = Ax + b over Q: "
             "C06_contraction_step (a value computed from readings within E of the fixed point, any mixture of "
             "this-pass and previous-pass values, is within (sum_j|a_ij|)E), C06_contraction_pass (one pass of "
             "the MODEL on a built workbook of linear cell formulas with ||A||inf <= q <= 1, any evaluation "
             "order the wip/computed discipline produces: everything stays within E, every formula cell "
             "computed in the pass ends within qE), C06_contraction_bound (such a pass with q < 1 that moved no "
             "component by more than d leaves all within q/(1-q) d). Not proved as one statement: that the last "
             "pass computes every cell of the target's cone (needed to instantiate C06_contraction_bound with "
             "the computed set), and cycles through range references (excluded from C06_contraction_pass: the "
             "model, like the code, never refreshes a range). PARTIAL: C06_acyclic_partial + C06_acyclic_write "
             "(acyclic workbook of linear formulas WITHOUT range nodes whose target is already built and with "
             "nothing on the stack: iterative evaluate returns the from-scratch value for every (iterations, "
             "tolerance) and the state stays quiet, also after any constant write; conditional on the "
             "evaluation returning Ok - sufficiency of the fuel #cells+1 is not proved, the differential run "
             "never saw OutOfFuel). REFUTED in the faithful model (advisory, built as an extra target, "
             "Refuted/C06_acyclic.v): C06_acyclic_first_use_refuted (a cell first built in this call answers "
             "with the blank it was constructed with), C06_acyclic_range_refuted (SUM(A1:A3) stays 6 after "
             "set_value(A1, 10)). CORRESPONDENCE-ONLY: the whole model is hand-written (closures, "
             "threading.local, openpyxl are outside the translator's subset); every quick run replays ~9000 "
             "generated histories (~31k evaluate/set_value operations: contracting circular systems of 1-6 "
             "cells in 1-2 rings incl. self references and SUM(range) terms, acyclic workbooks with ranges, with "
             "and without stored results, targets in random order so that cells enter the model in different "
             "orders) and compares result, pass count, every cell's (_value, _prev_value, wip), every range's "
             "cached value and the tracker's todo/computed sets after each operation, 0 divergences; an AST "
             "digest of the transcribed functions flags any edit of them. The oracle judges the property's own "
             "statement on the implementation (passes within [1, iterations]; early stop => every cell of the "
             "cone moved by at most the tolerance and lies within q/(1-q)*tolerance of the exact fixed point "
             "from rational Gaussian elimination; acyclic => equals a fresh non-iterative compiler). Implementation "
             "findings it exhibits, all registered as known findings (C06-construction-counts-as-computed, "
             "C06-range-cached-forever, C06-tolerance-slack): first use / late-built cells answer with the "
             "constructed value, range nodes are cached forever, the 1e-5 slack of close_enough. The model "
             "follows /repo fixes 761df50 (set_value type clause) and 4ad9eb7 (namespace defaults).",
        design_ref="DESIGN.md 5 C06",
    )

CLAIMED['C07'] = dict(
        category='proof',
        technique="Coq proof over a hand-written model (coq/Model/Threads.v) of a process with several threads: the "
                  "two module-level singletons' thread-local namespaces (created lazily with exactly the attributes "
                  "the `ns` properties create), per-compiler cell state, one small-step machine per thread whose "
                  "steps are the entries of ExcelCompiler._evaluate (built on the C06 model's setter/start_calcs/"
                  "needs_calc/graph construction), schedules = lists of thread ids; systematic schedule enumeration "
                  "on real threading.Threads with a baton around compiler._evaluate; extracted-model/implementation "
                  "comparison under the same schedules; AST inventory of module/class-level mutable objects",
        text="PARTIAL by nature: the model interleaves at _evaluate granularity; it cannot exhibit pre-emption inside "
             "a C-level operation, the GIL hand-over inside numpy/openpyxl, or state reachable only through objects "
             "outside the static inventory. Machine-checked (Coq 8.16, 3 theorems in coq/Props/C07.v, all closed "
             "under the global context), FULL within the model: C07_noninterference (threads with their own "
             "namespace working on different compilers: for EVERY schedule what thread t observes - result, pass "
             "count, phase, its tracker namespace and array-context stack, its compiler's cells - equals its solo "
             "run; frame lemma + determinism of the own step + induction over the schedule; the step function is "
             "arbitrary in the proof, so every pair of {iterative, array-formula, plain} workloads and every "
             "(iterations, tolerance) is covered), C07_noninterference_trace (the same after every prefix: the "
             "whole sequence of observables), C07_fresh (a process none of whose threads used the library: for all "
             "operations - evaluate, set_value on an iterative compiler, cell construction as in load/trim_graph - "
             "compiler contents and schedules, no step reads a namespace attribute that does not exist; follows "
             "the 5-attribute initialiser of fix 4ad9eb7; Example set_value_needed_tolerance shows the "
             "3-attribute namespace did fail). REFUTED (advisory extra target Refuted/C07_shared.v): "
             "C07_shared_refuted - with ONE namespace for all threads two iterative evaluations with different "
             "settings disturb each other (1 pass instead of 12), i.e. the theorem rests on threading.local. "
             "CORRESPONDENCE: every quick run enumerates ~2500 schedules on real threads (workload B runs to "
             "completion or to its own k-th _evaluate entry inside the j-th entry of workload A; workloads: "
             "iterative contracting circular systems, plain acyclic workbooks, a CSE array formula; fresh and "
             "warmed-up threads): result, pass count, number of _evaluate entries, final cells and the context "
             "stack must equal the solo runs; for iterative x iterative pairs the extracted model is run under the "
             "same schedule (same result / passes / entries; the shared-namespace variant must differ somewhere); "
             "load (from_file of an iterative model), set_value, evaluate, trim_graph are run on brand-new "
             "threads; the AST inventory (30 module/class-level mutable objects) must show exactly the two "
             "threading.local namespaces with the modelled attributes, the two singletons, and as run-time-mutated "
             "objects only _Cell.ctr and star_args; any new entry breaks the tie. NOT covered by the model and "
             "found by the harness: apply_meta's excel_func_meta['name_space'] back-pointer lets CELL/INDEX over "
             "references read another compiler's cells (known finding C07-func-meta-name-space, exhibited on two "
             "real threads by every run).",
        design_ref="DESIGN.md 5 C07",
    )

CLAIMED['C05'] = dict(
    technique="Coq proof: corollaries of the C01 machine invariant (coq/Proofs/C05.v), tied to the code by the C01 "
              "differential run and by exhaustive first-evaluation orders on the implementation",
    text="Proved for EVERY well-formed workbook, EVERY formula meaning that never computes a blank and stored results "
         "as in C01 (in particular none): C05_order / C05_order_nodata — after ANY two histories consisting only of "
         "Build/Evaluate operations, in any order, evaluate(n) returns the same value, namely the from-scratch value "
         "under the workbook's own inputs (first-evaluation / compilation order is irrelevant); C05_repeat — a second "
         "evaluate of the same node returns the same value and changes neither the cache nor the cell map; C05_path — "
         "with the concrete range semantics sem_formula (FRange cols), element (i, j) of a range node's value is the "
         "value evaluate returns for the member cell at that position (asked before or after the range). 4 theorems "
         "closed under the global context; hypotheses shown satisfiable on a concrete workbook. Oracle-only (not "
         "modelled): unbounded row/column ranges clipped to the used area, address lists/tuples/generators and "
         "sheet-less addresses — checked on the implementation for all permutations of first-evaluation order of "
         "workbooks of 4-6 cells and every enclosing range; the extracted machine is compared on the first orders.",
    design_ref="DESIGN.md 5 C05",
)

CLAIMED['C08'] = dict(
    technique="Coq proof (simulation of the trimmed machine against the from-scratch specification of the original "
              "workbook, reusing the C01 invariant) over a hand-transcribed model of trim_graph, tied to the code by "
              "differential runs on generated workbooks x input/output choices x assignment rounds",
    text="coq/Model/Trim.v transcribes trim_graph (excelcompiler.py 501-576, after repair 3259fa5) on the C01 machine: "
         "build the outputs, walk_dependents, walk_precedents with evaluate-then-freeze, deletion; the result is a new "
         "workbook (a frozen cell is an input holding its value) and machine state. Proved for EVERY well-formed "
         "workbook, EVERY non-blank formula meaning, EVERY state satisfying the C01 invariant, EVERY input/output "
         "lists: C08_frozen_independent (full) — a frozen cell is not below any input, so its from-scratch value does "
         "not depend on the inputs; C08_preserve (full for inputs that are input cells feeding the outputs) — after "
         "the trim, ANY interleaving of set_value on the inputs and evaluate on the outputs returns the from-scratch "
         "values of the ORIGINAL workbook under the values written so far; C08_preserve_machine — equal to what the "
         "untrimmed machine returns for the same history (C01 side conditions); C08_preserve_buried_partial — with "
         "buried inputs (formula cells the trim froze) the trimmed machine returns the from-scratch values of the "
         "trimmed workbook; missing: the untrimmed side after set_value on a formula cell (correspondence/oracle "
         "only). The trimmed state does not satisfy C01's invariant (deleted range nodes are read by surviving "
         "formulas), so coherence is re-proved from a weaker live-region invariant (Proofs/C08Run.v). 4 theorems "
         "closed under the global context. REFUTED (advisory coq/Refuted/C08_range_input.v, reproduced on the "
         "implementation, reported as a new finding, inert predicate C08-range-input): an input given as a range "
         "protects only the dependants of the range node; a formula reading a member cell directly is frozen and "
         "goes stale. Oracle-only: the save/load leg (yml/json/pkl round trip of the trimmed model; also C03), "
         "trim before vs after the first evaluate. Correspondence per quick run: ~1400 trims (cells kept, formulas "
         "removed, all cell values after the trim, outputs of 3 assignment rounds incl. ~770 writes to buried "
         "formula cells) model = implementation, and the untrimmed machine = untrimmed compiler on the same rounds.",
    design_ref="DESIGN.md 5 C08",
)

CLAIMED['C12'] = dict(
    technique="Coq proof (loop invariant over the work-list of validate_calcs, for every pop order; fuel proved "
              "sufficient by a measure) over a hand-transcribed model of the loop on top of the C01 cache machine, "
              "tied to the code by differential runs on generated .xlsx files with injected stored results",
    text="coq/Model/Validate.v transcribes the while-loop of ExcelCompiler.validate_calcs (stack to_verify, set "
         "verified, _gen_graph, the 'No Orig data?' skip, cell.value = None without resetting dependants, evaluate, "
         "the Mismatch dictionary with overwrite, the second recomputation, pushing unverified precedents) and "
         "_CellBase.close_enough (on exact rationals) over coq/Model/Graph.v; formula meaning is an arbitrary total "
         "function. Proved for EVERY well-formed workbook, meaning, tolerance (None or > 0) and list of outputs "
         "(7 theorems, closed under the global context): C12_sound_partial (consistent stored results -> empty "
         "report), C12_complete_partial (one stored result replaced by v' with close_enough false -> that cell is "
         "reported with (v', true value) and every reported cell is it or a descendant, whatever the pop order), "
         "C12_no_silent_skip_partial (for ANY stored results the stack is empty within the fuel |outputs|+|edges|+1 "
         "and every node the outputs reach is in verified), the general forms C12_clean_not_reported_partial / "
         "C12_bad_reported_partial (any number of altered cells), C12_close_enough_refl, C12_outputs_default "
         "(output_addrs=None is an instance). The C01 coherence invariant "
         "does not hold on a file with an altered stored result, so the loop invariant is a new one (a node whose "
         "ancestors' stored results are consistent holds its from-scratch value; no built node is empty between "
         "iterations; an unverified cell holds its stored result; a verified node's precedents are verified or ABOVE "
         "it on the stack) — C01's closure/build/eval unfolding lemmas are reused. '_partial': two side conditions "
         "are really needed and REFUTED without them in the faithful model (advisory coq/Refuted/C12_zero_tolerance.v: "
         "tolerance=0 reports every number cell of a consistent file; coq/Refuted/C12_formula_text.v: a stored "
         "result equal to the formula's own text is skipped silently together with the precedents only it reaches) "
         "— both reproduced on the implementation by correspondence-only streams (inert predicates "
         "C12-zero-tolerance, C12-stored-formula-text); two more are proof conveniences (from-scratch values are "
         "scalars, no formula computes its own text). ORACLE-ONLY: the exceptions / not-implemented classification "
         "(third stream, unknown function), 'within the tolerance is not reported'. Correspondence: every "
         "validate_calcs call of the oracle streams (60 workbooks x {consistent x 3 tolerances x 2 output choices, "
         "each formula cell perturbed x 3 tolerances}) plus the two extra streams, ~1000 runs per quick run: the "
         "mismatch dictionary (order, original, calced) and every cell value after the run are compared exactly "
         "with the extracted loop; plus 400 direct calls of _CellBase.close_enough against its transcription.",
    design_ref="DESIGN.md 5 C12",
)

CLAIMED['C03'] = dict(
    technique="Coq proof (abstraction preservation + C01's coherence theorem on both sides of the round trip; "
              "uniqueness of sorted lists for determinism) over a hand-transcribed model of to_file/from_file on top "
              "of the C01 cache machine, tied to the code by differential runs on generated models x formats x "
              "histories, plus the property's oracle (original vs loaded object, bytes of repeated saves) on the "
              "implementation",
    text="coq/Model/Persist.v transcribes _to_text, _from_text, to_file/from_file and _CompiledImporter of "
         "excelcompiler.py on top of coq/Model/Graph.v: a model object = workbook + python code of its formula cells "
         "+ machine state + key order of the cell map + settings; the document = the ordered top-level mapping "
         "(user extra_data updated in place with cycles, excel_hash, cell_map, filename) whose cell_map lists the "
         "serialisable built nodes, stably sorted by sort key, as constants or '='+code; from_text rebuilds a "
         "workbook from the document alone (an address that is not in the file is a blank input, a text starting "
         "with '=' is a formula, range nodes come from the address geometry), builds every saved cell with an empty "
         "cache and runs the eager range evaluation. Parameters of the model (trusted, exercised by the "
         "correspondence): address geometry (AddressRange), precedents/meaning of python code (ExcelFormula), the "
         "scalar printer/parser pair of yaml/json with parse(print v) = v, and pickle.load(pickle.dump x) = x (a pkl "
         "file holds exactly from_text(to_text M)). 9 theorems in coq/Props/C03.v, all closed under the global "
         "context, for EVERY geometry, code meaning and model object. FULL: C03_text_formats (a yml/json load is the "
         "pkl load, given the scalar oracle), C03_deterministic (with distinct sort keys the document depends only "
         "on the content, not on the insertion order of the cell map; Example same_key_order_matters shows the "
         "condition is needed), C03_resave_content (a second save of the same object has the same content key by "
         "key), C03_settings (cycles, file name, source hash and every user key of extra_data survive). PARTIAL: "
         "C03_abs_partial (the loaded model denotes the same inputs, code and precedents for every saved cell), "
         "C03_equiv_partial (a model in which every cell is built answers EVERY post-load history of "
         "evaluate/set_value/build exactly as the original: both traces equal C01's run_spec) and "
         "C03_equiv_region_partial (models saved before every cell was built: histories that stay inside the saved "
         "part and are admissible for the original in C01's sense), C03_idempotent_partial (a save of the loaded "
         "model reproduces the cell map as a list — same addresses, order, code, constants — and the same content "
         "for every top-level key; no condition on sort keys because sorted() is stable), C03_resave_partial "
         "(identical document for a second save when extra_data is None). '_partial' because of side conditions, "
         "each necessary: no input cell holds a text starting with '=' (REFUTED without it, advisory "
         "coq/Refuted/C03_eq_text.v, reproduced on the implementation in all three formats: set_value(A2,'=abc'), "
         "save, load: the original answers '=abcx' for A2&\"x\", the loaded model raises — new finding "
         "C03-eq-text-input, predicate registered inert); formulas/ranges never evaluate to None and the other "
         "hypotheses of C01 (inherited); a second save is NOT identical when extra_data is a dict (REFUTED, "
         "coq/Refuted/C03_resave_extra_data.v: _to_text updates the user's dict in place, 'cell_map' moves behind "
         "'filename' — reproduced on the implementation for yml and json, new finding "
         "C03-resave-extra-data-key-order, predicate registered inert). ORACLE-ONLY: iterative models (the model "
         "carries the cycles setting but evaluates non-iteratively; known finding C03-iterative-history-dependence), "
         "the bytes of the yaml/json/pickle encodings incl. astral characters in json (known finding "
         "C03-json-astral-characters), fresh process / fresh thread loads (place is not a notion of the model; the "
         "loaded traces of all places are compared with the model). Correspondence per quick run: ~70 oracle cases "
         "(5-9 cell workbooks with awkward contents x yml/json/pkl x cycles on/off x same/thread/process) + 45 "
         "models saved after evaluating a random subset of cells in a random order + the extra_data cases: parsed "
         "saved file (top-level key order, cell-map addresses in order, constants, code, settings) = to_text; "
         "history on the original; history on the loaded model; cache snapshot after from_file and after every "
         "post-load operation; settings of the loaded model; the document of a save of the loaded model; key order "
         "of a second save with a user dict; keys of the loaded extra_data — 0 divergences on seeds 0-5; a mutation "
         "of the sort key in the harness is detected.",
    design_ref="DESIGN.md 5 C03",
)

CLAIMED['C02'] = dict(
        technique="Coq proof over hand-written executable models of pycel.excelformula's parser (token pre-pass, "
                  "shunting-yard main loop with argument counting, _build_ast: coq/Model/Syntax.v) and code emitter "
                  "(coq/Model/Emit.v) on top of the operator/function tables regenerated from the source "
                  "(Token.precedences, OperatorNode.op_map, FunctionNode.func_map via the translator's constant "
                  "mechanism); Python's expression grammar for the emitted sub-language modelled as precedence-"
                  "correct trees and cross-checked against CPython's ast.parse in both directions; "
                  "extracted-model/implementation differential run on exact RPN / python_code strings; a reference "
                  "evaluator (implementation's own operators per node of the intended tree) as oracle",
        text="Machine-checked (Coq 8.16, 7 theorems in coq/Props/C02.v, all closed under the global context). "
             "FULL, unbounded depth: C02_parse (for every well-formed concrete tree of Excel's grammar - literals, "
             "references, any redundant parentheses, prefix -, postfix %, the 12 binary operators and the 3 "
             "reference operators at their levels, left-associative, function calls with any number of possibly "
             "omitted arguments, nested arbitrarily - pre-pass + shunting-yard + _build_ast applied to its token "
             "string return exactly its meaning), C02_rpn (the RPN is its postfix form with the right argument "
             "counts), C02_precedence_table (the levels the proofs use are the generated Token.precedences), "
             "C02_op_map (generated op_map: ^ -> **, = -> ==, <> -> !=), C02_emit (for every expression of the "
             "arithmetic fragment - literals, plain references, prefix -, postfix %, the 12 operators, ordinary "
             "calls - and every parent context the emitted code is precedence-correct in Python's grammar and "
             "denotes the Python tree that means e; unconditional since the fix db0afb2, which parenthesises a "
             "prefix minus below ^), C02_text (every text literal - any characters, incl. quotes, backslashes, "
             "LF, CR - compiles to a Python literal that decodes to exactly its characters; fix db52b98). "
             "PARTIAL: C02_number_partial (integer literals without superfluous leading zeros denote their "
             "value; missing: leading zeros - known finding C02-number-leading-zeros, refuted in "
             "Refuted/C02_literals.v (007 is not a Python literal; advisory, extra target); decimals/exponents "
             "correspondence only). Known finding C02-logical-lowercase (=true is tokenised as a name) is "
             "outside the models (tokenizer) and reproduced by the oracle. "
             "CORRESPONDENCE-ONLY: the openpyxl tokenizer and Tokenizer._items (white space, unary +, name "
             "case), array constants, the emitter outside the arithmetic fragment (reference operators, "
             "ROW/COLUMN, arrays), the uniqueness of Python's parse of the emitted text (PyWF <-> ast.parse, both "
             "directions, on random Python trees and on every emitted code string), "
             "evaluation (no C02_eval theorem: the oracle evaluates the intended tree with the implementation's "
             "own excel_operator_operand_fixup per node). Outside the model: OFFSET/INDIRECT/SUBTOTAL emission, "
             "references other than [sheet!]A1[:B2]. A quick run parses ~17k distinct formula texts on both "
             "sides (every tree of depth <= 2 over 10 operators/prefix/postfix/3 leaves, sampled depth 3 and "
             "depth <= 8, calls, omitted arguments, arrays; minimal and randomly over-parenthesised / spaced "
             "renderings) with 0 divergences, cross-checks 6000 random Python trees and ~15k emitted code "
             "strings against CPython, and evaluates ~21k (formula, environment) pairs against the reference "
             "evaluator; the thorough tier is exhaustive to depth 3 (~10^5 trees).",
        design_ref="DESIGN.md 5 C02",
    )

CLAIMED['C04'] = dict(
        technique="Coq proof over a hand-written model of ExcelFormula.needed_addresses (token stream of the emitted "
                  "code, the NAME ( STRING ) scan with the generated ADDR_FUNCS_NAMES, uniqueify: coq/Model/Scan.v) and "
                  "of the read trace of the compiled code, on top of the C02 emitter model; Coq proofs over the machine "
                  "model of ExcelCompiler's graph construction and lazy evaluation (coq/Model/Graph.v, shared with C01) "
                  "and its copy instrumented with a (reader, read) trace (coq/Model/ReadTrace.v); extracted-model/"
                  "implementation differential runs (needed_addresses and python_code, exact; read-trace sets per "
                  "evaluate call on generated DAG workbooks); an oracle on real openpyxl workbooks compiled by "
                  "ExcelCompiler with the two run-time read paths wrapped",
        text="Machine-checked (Coq 8.16, 19 theorems in coq/Props/C04.v, all closed under the global context; none is "
             "partial). CODE HALF, FULL for the emitter model, all expressions of any size: C04_cover (for every "
             "expression whose references are written - no range-union between computed references, nothing outside "
             "the emitter model - every address the compiled code can read through _C_/_R_ is among the scanned "
             "precedents, or is a range computed by the intersection operator from scanned precedents only, hence "
             "contained in them by C11_intersection), C04_scan_complete (the token scan finds every "
             "_C_/_R_/_REF_(\"..\") call node anywhere in the emitted tree, also inside regions renamed to _REF_), "
             "C04_addr_names (the scanned names are the generated ADDR_FUNCS_NAMES). GRAPH HALF, FULL over the "
             "machine model (every well-formed DAG workbook, every formula meaning, every history): C04_influence "
             "(two input assignments that agree on the input cells among the ancestors of c - reflexive-transitive "
             "closure of the declared-precedent relation including member -> range node -> dependant - give c the "
             "same from-scratch value), C04_influence_env + C04_sem_reads_declared (the same with the reading "
             "discipline as an explicit hypothesis on a meaning that may look at any cell; Graph.v's typing of sem "
             "is exactly that discipline; without it the statement is refuted by Proofs/C04Example.v "
             "peek_influenced), C04_influence_machine (after any admissible history an admissible write to a cell "
             "that is not an ancestor of c leaves evaluate c unchanged - through C01's coherence theorem, so with "
             "C01's side conditions sem_nonblank / stored_ok / late_ok), C04_ancestor_anc, C04_edges (after ANY "
             "history of evaluate/build/set_value naming nodes of the workbook: every declared precedent and every "
             "range member p of a built node f is built, precedes f, and f is in dep_graph.successors(p); requested "
             "nodes are built), C04_ancestors_built, C04_trace_erasure / C04_run_traced (the instrumented "
             "eval/build/evaluate/run return the same state and values as the originals, no hypothesis), "
             "C04_trace_edges (every (reader, read) pair is an edge read -> reader, the reader is the evaluated node "
             "or an ancestor), C04_trace_complete (a computed node reads all its precedents, a cached node or input "
             "reads nothing), C04_trace_determines (a cache that agrees on the evaluated node and on every cell of "
             "the trace gives the same value and the same trace: the trace contains every cache entry the "
             "evaluation depends on). COMPOSITION: C04_reads_are_edges (= C04_cover composed with the graph: if the declared "
             "precedents of each formula cell contain the nodes named by needed(e), every _C_/_R_ read of the "
             "emitted code is the address of a node with an edge to the cell, or an intersection of such), "
             "C04_reads_are_graph_edges (+ C04_edges: that node is built and the dep_graph edge exists after any "
             "history), C04_traced_reads_needed (converse on the machine trace), C04_within_path (cells of a computed "
             "intersection reach the dependant through a declared range). HYPOTHESES LEFT TO THE TIE, not proved: "
             "that ExcelCompiler's cell_map/needed_addresses satisfy declared_needed (address text -> node, edges "
             "for needed addresses: checked by the oracle on every workbook) and that range nodes have their cells "
             "as members (C11_enumerate + oracle); the machine model covers single-sheet workbooks without unbounded "
             "ranges, names, CSE arrays (C01's limits) - those forms are judged by the oracle only. CORRESPONDENCE: "
             "every quick run compares Model/Scan.v needed and Model/Emit.v code with "
             "ExcelFormula.needed_addresses / python_code on ~13k formula texts rich in references, 0 divergences "
             "(~7% outside the emitter model: multi-colon, whole-row/column references, arrays), and the model's "
             "read trace (run_traced) with the (reader, read) pairs of a wrapped ExcelCompiler on 260 generated DAG "
             "workbooks x 6-12 evaluate/set_value operations (set equality per evaluate call, ~2000 reads; each "
             "implementation pair is also checked against the generated dependency lists and dep_graph). ORACLE on "
             "the implementation: 250 PRNG workbooks (2 sheets, 20 reference-form templates incl. defined names, "
             "multi-colon, union, ROW()/COLUMN(), CSE members, chains) - every traced (formula cell, address read) "
             "pair is a declared precedent or lies inside a declared range with a member -> range -> dependant "
             "path in dep_graph, every declared precedent has its edge, and perturbing a non-ancestor input never "
             "changes a value.",
        design_ref="DESIGN.md 5 C04",
    )

NOT_YET = "check not built yet in this round (planned: DESIGN.md section 7 lists the build order)"


def main():
    checks = []
    for pid in ALL:
        if pid not in CLAIMED:
            continue
        c = CLAIMED[pid]
        checks.append(dict(
            property_id=pid,
            quick_cmd=f"./check {pid} --tier quick",
            thorough_cmd=f"./check {pid} --tier thorough",
            evidence_file=f"/verif/evidence/{pid}.json",
            replay_cmd_template=f"./check {pid} --replay {{path}}",
            engine="coq+ocaml-corr",
            level_claimed=dict(category=c.get('category', 'proof'), text=c['text'],
                               design_ref=c['design_ref']),
            level_note=c.get('note', TRUST),
            technique=c['technique'],
        ))
    man = dict(
        version=1,
        setup_cmd="./setup",
        hooks=dict(
            guard="PYCEL_VERIF",
            enable="checks run the implementation with PYTHONPATH=/repo/src PYCEL_VERIF=1 (in-process "
                   "import of the working tree; nothing is built)",
            baseline_off_cmd="cd /repo && env -u PYCEL_VERIF /venv/bin/python -m pytest -ra -q "
                             "-p no:cacheprovider --timeout=900 --continue-on-collection-errors",
            source_commits=[],
            add_only=True,
        ),
        engines=[dict(name="coq+ocaml-corr", path="/verif/coq, /verif/translator, /verif/harness, /verif/ocaml",
                      serves_properties=sorted(CLAIMED),
                      kind_free_text="Coq 8.16 development (models regenerated from source by "
                                     "translator/pylite.py or hand-written), theorems in coq/Props, extracted "
                                     "OCaml model run against the implementation by harness/")],
        checks=checks,
        notes="One CLI: ./check Cxx --tier quick|thorough. Known findings: /verif/known_findings.json. "
              "Replays are written to /verif/replays/.",
        not_applicable=[dict(property_id=p, reason=NOT_YET) for p in ALL if p not in CLAIMED],
    )
    with open(os.path.join(VERIF, 'MANIFEST.json'), 'w') as f:
        json.dump(man, f, indent=1)
    # validate against the given schema with the tooling interpreter when it is there
    import shutil, subprocess
    if shutil.which('python3-vt') and os.path.exists('/root/.vp/MANIFEST.schema.json'):
        subprocess.run(['python3-vt', '-c',
                        "import json,jsonschema,sys;"
                        "jsonschema.validate(json.load(open(sys.argv[1])),json.load(open('/root/.vp/MANIFEST.schema.json')));"
                        "print('MANIFEST.json valid')", os.path.join(VERIF, 'MANIFEST.json')], check=True)


if __name__ == '__main__':
    main()
