#!/bin/bash
# usage: tools/confirm_seeded.sh <patch.diff> <demo.py>
# Confirms a seeded change in a scratch worktree of /repo: the suite passes with it, the demo exits 1
# with it and 0 without it. Prints one summary line; exit 0 iff all three hold.
patch=$(readlink -f "$1"); demo=$(readlink -f "$2")
wt=$(mktemp -d /tmp/seedconf.XXXXXX)
git -C /repo worktree add -q --detach "$wt" HEAD
cd "$wt"
PYTHONPATH="$wt/src" /venv/bin/python "$demo" > /dev/null 2>&1; base=$?
if ! git apply "$patch"; then echo "CONFIRM patch does not apply"; cd /; git -C /repo worktree remove --force "$wt"; exit 2; fi
suite=$(PYTHONPATH="$wt/src" /venv/bin/python -m pytest -q -p no:cacheprovider --timeout=900 2>&1 | tail -1)
PYTHONPATH="$wt/src" /venv/bin/python "$demo" > /dev/null 2>&1; with=$?
cd /; git -C /repo worktree remove --force "$wt"
echo "CONFIRM suite='$suite' demo_with_change=$with demo_without=$base"
case "$suite" in *"2988 passed"*) ;; *) exit 1;; esac
[ "$with" = "1" ] && [ "$base" = "0" ]
