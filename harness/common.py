"""Shared machinery of the checks: regeneration, Coq build, proof-obligation
bookkeeping, the extracted-model driver, evidence, known findings, verdicts."""
import fcntl
import fractions
import json
import os
import random
import re
import shutil
import subprocess
import sys
import time

VERIF = os.path.dirname(os.path.dirname(os.path.abspath(__file__)))
REPO = os.environ.get('VERIF_REPO', '/repo')
COQ = os.path.join(VERIF, 'coq')
WORK = os.path.join(VERIF, '.work')
PY = '/venv/bin/python'

HYGIENE_RE = re.compile(
    r'\b(Admitted|admit|Axiom|Axioms|Parameter|Parameters|Conjecture|Conjectures|'
    r'Unset\s+Guard|bypass_check|Admit\s+Obligations|type-in-type|impredicative-set|'
    r'Unset\s+Positivity|Unset\s+Universe\s+Checking|native_compute)\b')


def impl_env():
    env = dict(os.environ)
    env['PYTHONPATH'] = os.path.join(REPO, 'src')
    env['PYTHONHASHSEED'] = '0'
    env['PYCEL_VERIF'] = '1'
    return env


def ensure_impl_on_path():
    p = os.path.join(REPO, 'src')
    if p not in sys.path:
        sys.path.insert(0, p)
    os.environ['PYCEL_VERIF'] = '1'
    import logging
    logging.getLogger('pycel').setLevel(logging.CRITICAL)     # formula errors are data here, not noise


# ------------------------------------------------------------------ sexp
def sx_dump(x):
    if isinstance(x, int) and not isinstance(x, bool):
        return str(x)
    return "(" + " ".join(sx_dump(y) for y in x) + ")"


def sx_parse(s):
    toks = s.replace('(', ' ( ').replace(')', ' ) ').split()
    pos = 0

    def item():
        nonlocal pos
        t = toks[pos]
        pos += 1
        if t == '(':
            out = []
            while toks[pos] != ')':
                out.append(item())
            pos += 1
            return out
        return int(t)
    return item()


class Unencodable(Exception):
    pass


def enc_val(v):
    """Python value -> wire sexp (see coq/Extract/Sx.v dec_val)."""
    import numpy as np
    if v is None:
        return [0]
    if isinstance(v, (bool, np.bool_)):
        return [1, 1 if v else 0]
    if isinstance(v, (int, np.integer)):
        return [2, int(v)]
    if isinstance(v, (float, np.floating)):
        v = float(v)
        if v != v or v in (float('inf'), float('-inf')):
            raise Unencodable(v)
        n, d = v.as_integer_ratio()
        return [3, n, d]
    if isinstance(v, fractions.Fraction):
        return [3, v.numerator, v.denominator]
    if isinstance(v, str):
        return [4] + [ord(c) for c in v]
    if isinstance(v, tuple):
        return [5] + [enc_val(x) for x in v]
    if isinstance(v, list):
        return [6] + [enc_val(x) for x in v]
    raise Unencodable(v)


EXN_NAMES = {1: 'ValueError', 2: 'TypeError', 3: 'ZeroDivisionError', 4: 'IndexError',
             5: 'KeyError', 6: 'AssertionError', 7: 'AttributeError', 8: 'OverflowError',
             9: 'NotImplementedError', 10: 'RecursionError', 11: 'StopIteration',
             98: 'Unmodelled', 99: 'OutOfFuel'}


def dec_val(x):
    """wire sexp -> canonical Python value.  Floats come back as Fractions
    (exact); callers compare with canon()."""
    t = x[0]
    if t == 0:
        return None
    if t == 1:
        return bool(x[1])
    if t == 2:
        return x[1]
    if t == 3:
        return ('float', fractions.Fraction(x[1], x[2]))
    if t == 4:
        return "".join(chr(c) for c in x[1:])
    if t == 5:
        return tuple(dec_val(y) for y in x[1:])
    if t == 6:
        return [dec_val(y) for y in x[1:]]
    if t == 7:
        return ('set', sorted((dec_val(y) for y in x[1:]), key=repr))
    raise ValueError(f"cannot decode {x}")


def dec_res(x):
    """('ok', value) | ('raise', name) | ('bad', code)"""
    if x[0] == 0:
        return ('ok', dec_val(x[1]))
    if x[0] == 1:
        return ('raise', EXN_NAMES.get(x[1], str(x[1])))
    return ('bad', x[0])


def canon(v):
    """Canonical form of an implementation value for exact comparison with the
    model: floats as ('float', Fraction) (bit-exact), numpy scalars unwrapped,
    bool/int kept apart."""
    import numpy as np
    if isinstance(v, (bool, np.bool_)):
        return bool(v)
    if isinstance(v, (int, np.integer)):
        v = int(v)
        return v if v.bit_length() <= 1000000 else ('very-long-int', v.bit_length())
    if isinstance(v, (float, np.floating)):
        v = float(v)
        if v != v:
            return ('float', 'nan')
        if v in (float('inf'), float('-inf')):
            return ('float', 'inf' if v > 0 else '-inf')
        return ('float', fractions.Fraction(v))
    if isinstance(v, tuple):
        return tuple(canon(x) for x in v)
    if isinstance(v, list):
        return [canon(x) for x in v]
    if isinstance(v, complex):
        return ('complex', repr(v))
    if isinstance(v, str) and len(v) > 100000:
        # a faulty variant can answer with an absurdly long text ("1e3" * 33554431): keep a description, not the text
        return ('very-long-text', len(v), v[:40])
    if isinstance(v, int) and not isinstance(v, bool) and v.bit_length() > 1000000:
        return ('very-long-int', v.bit_length())
    return v


def same(m, i):
    """Model result m equals implementation result i.  Exact, except that a
    model float (an exact rational) also matches the float obtained by rounding
    it correctly (one IEEE operation on exact inputs)."""
    if m == i:
        return True
    if isinstance(m, tuple) and isinstance(i, tuple) and len(m) == len(i):
        if len(m) == 2 and m[0] == 'float' and i[0] == 'float':
            if isinstance(m[1], fractions.Fraction) and isinstance(i[1], fractions.Fraction):
                try:
                    return fractions.Fraction(float(m[1])) == i[1]
                except OverflowError:
                    return False
            return False
        return all(same(a, b) for a, b in zip(m, i))
    if isinstance(m, list) and isinstance(i, list) and len(m) == len(i):
        return all(same(a, b) for a, b in zip(m, i))
    return False


def run_impl(f, *args):
    """Call an implementation function; ('ok', canon value) | ('raise', class name)."""
    try:
        return ('ok', canon(f(*args)))
    except RecursionError:
        return ('raise', 'RecursionError')
    except Exception as exc:       # noqa: BLE001 — the class is the observable
        for cls in type(exc).__mro__:           # nearest class the models know
            if cls.__name__ in EXN_NAMES.values():
                return ('raise', cls.__name__)
        return ('raise', type(exc).__name__)


def jsonable(v):
    if isinstance(v, fractions.Fraction):
        return {'frac': [v.numerator, v.denominator]}
    if isinstance(v, (list, tuple)):
        return [jsonable(x) for x in v]
    if isinstance(v, dict):
        return {str(k): jsonable(x) for k, x in v.items()}
    if isinstance(v, (str, int, float, bool)) or v is None:
        return v
    return repr(v)


# ------------------------------------------------------------- coq build
class BuildLock:
    def __enter__(self):
        os.makedirs(WORK, exist_ok=True)
        self.f = open(os.path.join(WORK, 'coq.lock'), 'w')
        fcntl.flock(self.f, fcntl.LOCK_EX)
        return self

    def __exit__(self, *a):
        fcntl.flock(self.f, fcntl.LOCK_UN)
        self.f.close()


def sh(cmd, cwd=None, timeout=600, env=None):
    p = subprocess.run(cmd, cwd=cwd, shell=isinstance(cmd, str), stdout=subprocess.PIPE,
                       stderr=subprocess.STDOUT, timeout=timeout, env=env, text=True)
    return p.returncode, p.stdout


def regenerate(modules=None):
    """Run the translator against REPO's working tree.  (ok, message)."""
    cmd = [PY, os.path.join(VERIF, 'translator', 'gen.py'), '--repo', REPO] + list(modules or [])
    rc, out = sh(cmd, env=impl_env(), timeout=120)
    return rc == 0, out.strip()


def coq_makefile():
    mk = os.path.join(COQ, 'Makefile')
    proj = os.path.join(COQ, '_CoqProject')
    if not os.path.exists(mk) or os.path.getmtime(mk) < os.path.getmtime(proj):
        rc, out = sh('coq_makefile -f _CoqProject -o Makefile', cwd=COQ, timeout=60)
        if rc != 0:
            raise RuntimeError(out)


def make(targets, jobs=16, timeout=1500):
    """make the given .vo targets.  Returns (ok, log)."""
    coq_makefile()
    rc, out = sh(['timeout', str(timeout), 'make', f'-j{jobs}', '-k'] + list(targets),
                 cwd=COQ, timeout=timeout + 30)
    return rc == 0, out


def clean_targets(targets):
    """Thorough tier: force a from-scratch rebuild of everything the targets
    depend on (remove their .vo and those of all their dependencies)."""
    coq_makefile()
    rc, out = sh(['make', '-n', '-B'] + list(targets), cwd=COQ, timeout=120)
    for m in re.finditer(r'(?m)^echo "?COQC ([^\s"]+\.v)', out):
        base = os.path.join(COQ, m.group(1)[:-2])
        for ext in ('.vo', '.vos', '.vok', '.glob'):
            if os.path.exists(base + ext):
                os.remove(base + ext)


def failed_files(log):
    """Names of the .v files whose compilation failed, from a make log."""
    bad = []
    for m in re.finditer(r'File "\./([^"]+\.v)", line (\d+)[^\n]*\n((?:.*\n){0,6}?)Error', log):
        if m.group(1) not in bad:
            bad.append(m.group(1))
    for m in re.finditer(r"\*\*\* \[[^\]]*?: ([^\]\s]+)\.vo\]", log):
        f = m.group(1) + '.v'
        if f not in bad:
            bad.append(f)
    return bad


def coqc_props(pid):
    """(Re)compile Props/<pid>.v and collect Print Assumptions output.
    Returns (ok, {theorem: [axioms] or []}, raw output)."""
    rc, out = sh(['timeout', '600', 'coqc', '-Q', '.', 'PV', f'Props/{pid}.v'], cwd=COQ, timeout=630)
    thms = re.findall(r'^\s*Theorem\s+(\w+)', open(os.path.join(COQ, 'Props', f'{pid}.v')).read(), re.M)
    # Print Assumptions blocks appear in order, one per theorem
    blocks = re.split(r'(?m)^(?=Closed under the global context|Axioms:)', out)
    blocks = [b for b in blocks if b.startswith('Closed under') or b.startswith('Axioms:')]
    assumptions = {}
    for i, t in enumerate(thms):
        if i < len(blocks):
            b = blocks[i]
            if b.startswith('Closed'):
                assumptions[t] = []
            else:
                names = re.findall(r'(?m)^([A-Za-z_][\w.\']*)\s*:', b[len('Axioms:'):])
                assumptions[t] = names
        else:
            assumptions[t] = None
    return rc == 0, assumptions, out


def hygiene():
    """Forbidden vernacular anywhere in the development.  [] when clean."""
    hits = []
    for root, _, files in os.walk(COQ):
        for fn in files:
            if not fn.endswith('.v'):
                continue
            path = os.path.join(root, fn)
            text = open(path).read()
            # comments may mention the words
            text_nc = re.sub(r'\(\*.*?\*\)', lambda m: ' ' * len(m.group(0)), text, flags=re.S)
            for m in HYGIENE_RE.finditer(text_nc):
                line = text_nc.count('\n', 0, m.start()) + 1
                hits.append(f"{os.path.relpath(path, COQ)}:{line}: {m.group(0)}")
    return hits


def build_driver(pid):
    """Compile the OCaml driver against the model extracted for <pid>.
    Returns path of the executable."""
    wd = os.path.join(WORK, pid, 'ocaml')
    os.makedirs(wd, exist_ok=True)
    for ext in ('ml', 'mli'):
        shutil.copy(os.path.join(COQ, f'model_{pid}.{ext}'), os.path.join(wd, f'model.{ext}'))
    shutil.copy(os.path.join(VERIF, 'ocaml', 'driver.ml'), os.path.join(wd, 'driver.ml'))
    rc, out = sh('ocamlfind ocamlopt -w -a -O3 model.mli model.ml driver.ml -o driver',
                 cwd=wd, timeout=300)
    if rc != 0:
        raise RuntimeError("ocaml build failed:\n" + out[-2000:])
    return os.path.join(wd, 'driver')


class Model:
    """The extracted model as a batch function."""

    def __init__(self, exe):
        self.exe = exe

    def batch(self, calls):
        """calls: list of (name, [sexp args]).  Returns list of parsed sexps."""
        if not calls:
            return []
        data = "\n".join(f"{n} {sx_dump(list(a))}" for n, a in calls) + "\n"
        # 12 GB of address space at most: a model regenerated from a faulty variant can try to build absurd values
        p = subprocess.run(['bash', '-c', f'ulimit -s unlimited 2>/dev/null; ulimit -v 12000000; exec {self.exe}'],
                           input=data, stdout=subprocess.PIPE, stderr=subprocess.PIPE,
                           text=True, timeout=900 if os.environ.get('VERIF_TIER', 'quick') != 'thorough' else 3600)
        if p.returncode != 0:
            raise RuntimeError(f"model driver failed: {p.stderr[-500:]}")
        lines = p.stdout.split('\n')
        if lines and lines[-1] == '':
            lines.pop()
        if len(lines) != len(calls):
            raise RuntimeError(f"model driver answered {len(lines)} of {len(calls)} calls")
        return [sx_parse(x) for x in lines]


# ---------------------------------------------------------- known findings
def load_findings(pid):
    path = os.path.join(VERIF, 'known_findings.json')
    if not os.path.exists(path):
        return []
    return [f for f in json.load(open(path)) if f['property'] == pid]


# ------------------------------------------------------------------ context
class Ctx:
    """One run of one property's check."""

    def __init__(self, pid, tier, seed):
        self.pid = pid
        self.tier = tier
        self.seed = seed
        self.rng = random.Random(seed)
        self.t0 = time.time()
        self.scale = 1                  # multiplied when a proof/tie broke (search mode)
        self.work = os.path.join(WORK, pid)
        os.makedirs(self.work, exist_ok=True)
        self.findings = load_findings(pid)
        self.known_hits = {}            # finding id -> example
        self.violations = []            # dicts
        self.divergences = []           # model != impl, not (yet) a violation
        self.broken = []                # proof obligations / tie elements that no longer check
        self.evaluations = 0
        self.distinct = set()
        self.samples = []
        self.histogram = {}
        self.notes = []
        self.model = None
        self.obligations = {}
        self.trusted = []
        self.extra = {}

    # counting
    def count(self, key, nontrivial=True, kind=None, sample=None):
        self.evaluations += 1
        if nontrivial:
            self.distinct.add(key)
        if kind is not None:
            self.histogram[kind] = self.histogram.get(kind, 0) + 1
        if sample is not None and len(self.samples) < 12 and self.rng.random() < 0.02 + (len(self.samples) < 3):
            self.samples.append(jsonable(sample))

    def n(self, quick, thorough):
        return (thorough if self.tier == 'thorough' else quick) * self.scale

    # findings
    def match_known(self, case):
        """case: dict with at least 'call' and 'args' (or 'history', 'formula').
        Returns the matching known finding or None."""
        for f in self.findings:
            if f.get('kind') != 'known':
                continue
            pred = KNOWN_PREDICATES.get(f['id'])
            if pred is not None:
                try:
                    if pred(case):
                        return f
                except Exception:   # noqa: BLE001
                    pass
                continue
            m = f.get('match', {})
            if all(jsonable(case.get(k)) == v for k, v in m.items()):
                return f
        return None

    def violation(self, case, what, impl=None, model=None, expected=None):
        """The property's oracle failed on the implementation for this case."""
        rec = dict(case=jsonable(case), what=what, impl=jsonable(impl), model=jsonable(model),
                   expected=jsonable(expected))
        f = self.match_known(case)
        if f is not None:
            self.known_hits.setdefault(f['id'], (f, rec))
            return
        if len(self.violations) < 50:
            self.violations.append(rec)

    def divergence(self, case, impl, model, relation):
        """Model and implementation disagree (the correspondence broke)."""
        if len(self.divergences) < 50:
            self.divergences.append(dict(case=jsonable(case), impl=jsonable(impl),
                                         model=jsonable(model), relation=relation))

    def broke(self, what, detail=''):
        self.broken.append(dict(what=what, detail=detail[-3000:]))


KNOWN_PREDICATES = {}


def known_predicate(fid):
    def deco(fn):
        KNOWN_PREDICATES[fid] = fn
        return fn
    return deco


# ------------------------------------------------------------------ verdict
def write_evidence(ctx, level='proof', checker_cmd='', assumptions=None, explanation=''):
    os.makedirs(os.path.join(VERIF, 'evidence'), exist_ok=True)
    if level not in ('exploration', 'fault_enumeration', 'model_checking', 'proof', 'translation_validation', 'other'):
        level = 'proof'     # the schema's categories; partial claims say so in their explanation
    ob = ctx.obligations
    discharged = sum(1 for v in ob.values() if v.get('ok'))
    cov = dict(
        obligations=max(len(ob), 0),
        discharged=discharged,
        checker_cmd=checker_cmd,
        trusted_base=ctx.trusted,
        theorems={k: v for k, v in ob.items()},
        evaluations=ctx.evaluations,
        distinct_nontrivial=len(ctx.distinct),
        rule=ctx.extra.get('rule', ''),
        samples=ctx.samples[:12] or [ctx.extra.get('sample_fallback', 'none recorded')],
        input_distribution=ctx.histogram,
        explanation=explanation,
        known_findings_reproduced=sorted(ctx.known_hits),
        divergences=len(ctx.divergences),
        broken=[b['what'] for b in ctx.broken],
    )
    for k, v in ctx.extra.items():
        if k not in cov:
            cov[k] = v
    ev = dict(property_id=ctx.pid, tier=ctx.tier, seed=ctx.seed, level=level, coverage=cov,
              assumptions=assumptions or [], wall_s=round(time.time() - ctx.t0, 2),
              violations=len(ctx.violations) + (1 if (ctx.broken or ctx.divergences) and not ctx.violations else 0))
    with open(os.path.join(VERIF, 'evidence', f'{ctx.pid}.json'), 'w') as f:
        json.dump(ev, f, indent=1, sort_keys=True)


def finish(ctx, level='proof', checker_cmd='', assumptions=None, explanation=''):
    """Print KNOWN-FINDING / VIOLATION lines, write evidence and replay; exit code."""
    write_evidence(ctx, level, checker_cmd, assumptions, explanation)
    for stale in ('violation', 'unproved'):
        sp = os.path.join(VERIF, 'replays', f'{ctx.pid}-seed{ctx.seed}-{stale}.json')
        if os.path.exists(sp):
            os.remove(sp)
    for fid, (f, rec) in sorted(ctx.known_hits.items()):
        print(f"KNOWN-FINDING: property={ctx.pid} {fid}: {f['what']}")
    rdir = os.path.join(VERIF, 'replays')
    if ctx.violations:
        os.makedirs(rdir, exist_ok=True)
        path = os.path.join(rdir, f'{ctx.pid}-seed{ctx.seed}-violation.json')
        json.dump(dict(property=ctx.pid, seed=ctx.seed, tier=ctx.tier, kind='failing-input',
                       violations=ctx.violations[:10], broken=ctx.broken,
                       divergences=ctx.divergences[:10]), open(path, 'w'), indent=1)
        v = ctx.violations[0]
        print(f"  first failing input: {json.dumps(v['case'])[:300]} :: {v['what']}")
        print(f"VIOLATION property={ctx.pid} replay={path}")
        return 1
    if ctx.broken or ctx.divergences:
        os.makedirs(rdir, exist_ok=True)
        path = os.path.join(rdir, f'{ctx.pid}-seed{ctx.seed}-unproved.json')
        json.dump(dict(property=ctx.pid, seed=ctx.seed, tier=ctx.tier, kind='no-failing-input-found',
                       broken=ctx.broken, divergences=ctx.divergences[:10],
                       note='the theorem(s)/correspondence named here no longer check; the search '
                            'of model and implementation found no input on which the property fails'),
                  open(path, 'w'), indent=1)
        names = "; ".join(b['what'] for b in ctx.broken) or \
            f"correspondence {ctx.divergences[0]['relation']}"
        print(f"  no longer checks: {names[:400]}")
        print(f"VIOLATION property={ctx.pid} replay={path} no-failing-input-found")
        return 1
    print(f"OK property={ctx.pid} tier={ctx.tier} obligations={len(ctx.obligations)} "
          f"evaluations={ctx.evaluations} distinct={len(ctx.distinct)} "
          f"wall={time.time() - ctx.t0:.1f}s")
    return 0


def standard_proof_phase(ctx, gen_modules, extra_targets=(), clean=False):
    """Steps 1-2 of a run: regenerate, build, collect obligations.
    Returns True when the model could be built (driver available)."""
    pid = ctx.pid
    with BuildLock():
        ok, msg = regenerate(gen_modules)
        if not ok:
            ctx.broke(f"translator: {msg.splitlines()[-1] if msg else 'failed'}", msg)
        targets = [f'Props/{pid}.vo', f'Extract/{pid}.vo'] + list(extra_targets)
        if clean:
            clean_targets(targets)
        ok, log = make(targets)
        bad = failed_files(log) if not ok else []
        model_ok = os.path.exists(os.path.join(COQ, f'Extract/{pid}.vo')) and \
            not any(b.startswith(('Gen/', 'Lib/', 'Model/', 'Extract/')) for b in bad)
        if not ok:
            for b in bad or ['(make failed)']:
                ctx.broke(f"coq: {b} no longer compiles", log)
        pok, assumptions, out = coqc_props(pid) if not any(
            b.startswith(('Gen/', 'Lib/', 'Model/')) for b in bad) else (False, {}, '')
        thms = re.findall(r'(?m)^\s*Theorem\s+(\w+)',
                          open(os.path.join(COQ, 'Props', f'{pid}.v')).read())
        for t in thms:
            ax = assumptions.get(t)
            ctx.obligations[t] = dict(ok=bool(pok and ax is not None), axioms=ax)
        if not pok and ok:
            ctx.broke(f"coq: Props/{pid}.v does not check", out)
        hy = hygiene()
        if hy:
            ctx.broke("hygiene: forbidden vernacular " + ", ".join(hy[:5]))
        if model_ok:
            try:
                ctx.model = Model(build_driver(pid))
            except Exception as exc:    # noqa: BLE001
                ctx.broke(f"extraction/ocaml: {exc}")
                model_ok = False
    ctx.trusted = [
        "Coq 8.16.1 kernel (coqc); vm_compute where a theorem says so; no native_compute",
        "translator/pylite.py and its mapping to coq/Lib/Py.v (Python semantics, exact arithmetic)",
        "extraction (ExtrOcamlBasic only, no Extract Constant), ocaml/driver.ml, the Python harness",
    ]
    if ctx.broken:
        ctx.scale = 10    # search mode: look harder for a failing input
    return model_ok
